(* Compose2.v — C03 end to end for ONE undisturbed recurring job: the scheduler model (Sched.v) composed with the
   producer model (Producers.v).

   History shape: [OAt key] on a fresh enabled scheduler, followed by ANY sequence of [OAdvance d] (time passes),
   [OWake] (the loop runs its timer callback if the timer is due) and [OEarlyWake] (the timer fires early).
   No operation on another job occurs (single-job theorem; the generalisation to interleaved operations on other
   jobs is not proved here - see SchedIso.v / SchedExact.v for the frame properties it would need).

   1. [single_job_exact]: the model behaves exactly like the six-line reference loop [ideal]: the executions of
      the job (instant, announced time), oldest first, are those of [ideal]; every operation ends normally; the
      job stays Running, alone in the queue, timer armed for its next run.
   2. [ideal_facts]: in the reference loop every execution is not early, happens at the first wake-up at or after
      the announced time, instants strictly increase (no duplicate), and the next run reported after an execution
      is the trigger's answer for the execution instant.
   3. [keepup_enumerates]: if the trigger answers "earliest occurrence of P after the reference instant" and the
      loop keeps up (every execution takes place before the following occurrence), the announced times followed
      by the pending next run enumerate P after the creation instant: in order, none skipped, none duplicated.
   4. Instances: time-of-day triggers ([at_time_trigger_enumerates]) and the class time / interval-with-start /
      group ([at_tig_trigger_enumerates]) of the producer model, across days, month and year ends and DST
      transitions of the zone table (whatever table satisfies [wf_tz_b]). *)
From EAS Require Import Base BaseFacts Civil Time TimeOrder Filters Replace Producers ProdStrict ProdEarliest2 ProdGroup
  Sched SchedInv Compose.
From EASGen Require Import Generated.
From Coq Require Import Sorted.

(* executions of job j recorded in a log (newest first), as (instant, announced time), oldest first *)
Fixpoint execs (j : nat) (l : list event) : list (Z * Z) :=
  match l with
  | [] => []
  | EExec k a t _ :: r => if Nat.eqb k j then execs j r ++ [(a, t)] else execs j r
  | _ :: r => execs j r
  end.

(* the operations of an undisturbed history *)
Definition quiet (o : op) : bool :=
  match o with OAdvance _ | OWake | OEarlyWake => true | _ => false end.

(* The reference loop for one recurring job.  [q k t] is the trigger's answer to its k-th query, asked at t;
   k = number of queries so far, t = now, c = pending next run.  Result: executions (instant, announced),
   oldest first, and the final (queries, now, pending next run).  None: the trigger did not answer with an
   instant at some execution, or the history contains another operation. *)
Fixpoint ideal (q : nat -> Z -> result Z) (k : nat) (t c : Z) (ops : list op)
  : option (list (Z * Z) * (nat * Z * Z)) :=
  match ops with
  | [] => Some ([], (k, t, c))
  | OAdvance d :: r => ideal q k (t + Z.max 0 d) c r
  | OWake :: r | OEarlyWake :: r =>
      if c <=? t then
        match q k t with
        | Ok v => match ideal q (S k) t v r with
                  | Some (xs, e) => Some ((t, c) :: xs, e)
                  | None => None
                  end
        | _ => None
        end
      else ideal q k t c r
  | _ => None
  end.

(* the state of the scheduler between two operations of such a history *)
Record J (s : st) (c : Z) (k : nat) : Prop := {
  J_enabled : enabled s = true;
  J_broken : broken s = false;
  J_queue : queue s = [O];
  J_njobs : njobs s = 1%nat;
  J_timer : timer s = Some c;
  J_kind : jkind (jobs s O) = KAt;
  J_status : jstatus (jobs s O) = Running;
  J_next : jnext (jobs s O) = Some c;
  J_cbu : jcbu (jobs s O) = [];
  J_prod : count_prod O (log s) = k
}.

Lemma J_set_now s c k v : J s c k -> J (set_now v s) c k.
Proof. intros []. constructor; assumption. Qed.
Lemma J_set_opi s c k v : J s c k -> J (set_opi v s) c k.
Proof. intros []. constructor; assumption. Qed.

Section OneJob.
Variable E : env.
Hypothesis Hfut : forall k t v, prod E O k t = Ok v -> t < v.

Lemma count_prod_exec_pre t s : count_prod O (log (exec_pre E O t s)) = count_prod O (log s).
Proof. unfold exec_pre. destruct (fail_exec E O _); reflexivity. Qed.
Lemma execs_exec_pre t s : execs O (log (exec_pre E O t s)) = execs O (log s) ++ [(now s, t)].
Proof. unfold exec_pre. destruct (fail_exec E O _); reflexivity. Qed.
Lemma exec_pre_fields t s : let s' := exec_pre E O t s in
  now s' = now s /\ enabled s' = enabled s /\ timer s' = timer s /\ queue s' = queue s /\ jobs s' = jobs s /\
  njobs s' = njobs s /\ broken s' = broken s.
Proof. unfold exec_pre. destruct (fail_exec E O _); cbn; repeat split. Qed.

(* the timer callback when the job is due: executed once, rescheduled to the trigger's answer *)
Lemma fire_due f s c k v :
  J s c k -> c <= now s -> prod E O k (now s) = Ok v ->
  exists s', run_jobs E (S (S (S (S f)))) s = Some s' /\ J s' v (S k) /\ now s' = now s /\
             execs O (log s') = execs O (log s) ++ [(now s, c)].
Proof.
  intros HJ Hc Hp. pose proof (Hfut _ _ _ Hp) as Hv. destruct HJ.
  rewrite run_jobs_S. cbv zeta. rewrite run_loop_S.
  cbn [queue set_timer_f jobs now]. rewrite J_queue0, J_next0.
  destruct (now s <? c) eqn:E1; [apply Z.ltb_lt in E1; lia|].
  cbv zeta. rewrite exec_job_S. cbv zeta.
  remember (set_queue [] (set_timer_f None s)) as s2 eqn:Es2.
  destruct (exec_pre_fields c s2) as (p1 & p2 & p3 & p4 & p5 & p6 & p7).
  pose proof (count_prod_exec_pre c s2) as p8. pose proof (execs_exec_pre c s2) as p9.
  remember (exec_pre E O c s2) as s3 eqn:Es3.
  assert (Hj : jobs s3 = jobs s) by (rewrite p5, Es2; reflexivity).
  assert (Hn : now s3 = now s) by (rewrite p1, Es2; reflexivity).
  rewrite Hj, J_kind0. cbn [now add_ev set_log]. rewrite Hn, p8.
  replace (count_prod O (log s2)) with k by (rewrite Es2; cbn; symmetry; exact J_prod0).
  rewrite Hp. unfold too_old. cbn [now add_ev set_log]. rewrite Hn.
  destruct (v <? now s - past_tolerance_ns) eqn:E2; [apply Z.ltb_lt in E2; unfold past_tolerance_ns in E2; lia|].
  unfold set_next_run. cbv zeta. cbn [jobs add_ev set_log]. rewrite Hj, J_cbu0. cbn [run_cbs].
  remember (set_job O (with_status_next (jobs s O) Running (Some v)) (add_ev (EProd O) s3)) as s5 eqn:Es5.
  assert (Hb : jobs s5 O = with_status_next (jobs s O) Running (Some v)) by (rewrite Es5; reflexivity).
  rewrite Hb. cbn [jstatus with_status_next status_eqb].
  rewrite add_job_S, Hb. cbn [jstatus with_status_next status_eqb]. cbv zeta.
  assert (Hq : queue s5 = []) by (rewrite Es5; cbn; rewrite p4, Es2; reflexivity).
  rewrite Hq. cbn [insort is_head Nat.eqb]. rewrite set_timer_S. cbv zeta.
  cbn [queue set_queue set_timer_f enabled jobs now]. rewrite Hb. cbn [jnext with_status_next].
  assert (He : enabled s5 = true) by (rewrite Es5; cbn; rewrite p2, Es2; cbn; exact J_enabled0).
  assert (Hn5 : now s5 = now s) by (rewrite Es5; cbn; exact Hn).
  rewrite He, Hn5. cbn [negb]. destruct (v <=? now s) eqn:E3; [apply Z.leb_le in E3; lia|].
  remember (set_timer_f (Some v) (set_timer_f None (set_queue [O] s5))) as s6 eqn:Es6.
  rewrite run_loop_S. replace (queue s6) with [O] by (rewrite Es6; reflexivity).
  replace (jobs s6 O) with (with_status_next (jobs s O) Running (Some v)) by (rewrite Es6; cbn; symmetry; exact Hb).
  cbn [jnext with_status_next]. replace (now s6) with (now s) by (rewrite Es6; cbn; symmetry; exact Hn5).
  destruct (now s <? v) eqn:E4; [|apply Z.ltb_ge in E4; lia].
  replace (broken s6) with false.
  2:{ rewrite Es6; cbn. rewrite Es5; cbn. rewrite p7, Es2; cbn. symmetry; exact J_broken0. }
  replace (queue s6) with [O] by (rewrite Es6; reflexivity).
  rewrite set_timer_S. cbv zeta. cbn [queue set_timer_f enabled jobs now].
  replace (queue s6) with [O] by (rewrite Es6; reflexivity).
  replace (enabled s6) with true by (rewrite Es6; cbn; symmetry; exact He). cbn [negb].
  replace (jobs s6 O) with (with_status_next (jobs s O) Running (Some v)) by (rewrite Es6; cbn; symmetry; exact Hb).
  cbn [jnext with_status_next]. replace (now s6) with (now s) by (rewrite Es6; cbn; symmetry; exact Hn5).
  rewrite E3. eexists. split; [reflexivity|].
  assert (Hl6 : log s6 = EProd O :: log s3) by (rewrite Es6; cbn; rewrite Es5; reflexivity).
  split; [|split].
  - constructor; cbn [enabled broken queue njobs timer jobs log set_timer_f]; try reflexivity.
    + rewrite Es6; cbn; exact He.
    + rewrite Es6; cbn. rewrite Es5; cbn. rewrite p7, Es2; cbn. exact J_broken0.
    + rewrite Es6; reflexivity.
    + rewrite Es6; cbn. rewrite Es5; cbn. rewrite p6, Es2; cbn. exact J_njobs0.
    + rewrite Es6; cbn. rewrite Hb; cbn. exact J_kind0.
    + rewrite Es6; cbn. rewrite Hb; reflexivity.
    + rewrite Es6; cbn. rewrite Hb; reflexivity.
    + rewrite Es6; cbn. rewrite Hb; cbn. exact J_cbu0.
    + rewrite Hl6. cbn. rewrite p8, Es2. cbn. f_equal. exact J_prod0.
  - cbn. rewrite Es6; cbn; exact Hn5.
  - cbn [log set_timer_f]. rewrite Hl6. cbn [execs]. rewrite p9, Es2. reflexivity.
Qed.

(* the timer callback when the job is not due (early wake-up): nothing is executed, the timer is re-armed *)
Lemma fire_not_due f s c k :
  J s c k -> now s < c ->
  exists s', run_jobs E (S (S f)) s = Some s' /\ J s' c k /\ now s' = now s /\ log s' = log s.
Proof.
  intros HJ Hc. destruct HJ.
  rewrite run_jobs_S. cbv zeta. rewrite run_loop_S.
  cbn [queue set_timer_f jobs now]. rewrite J_queue0, J_next0.
  destruct (now s <? c) eqn:E1; [|apply Z.ltb_ge in E1; lia].
  cbn [broken queue set_timer_f]. rewrite J_broken0, J_queue0.
  rewrite set_timer_S. cbv zeta. cbn [queue set_timer_f enabled jobs now].
  rewrite J_queue0, J_enabled0, J_next0. cbn [negb].
  destruct (c <=? now s) eqn:E2; [apply Z.leb_le in E2; lia|].
  eexists. split; [reflexivity|]. split; [|split; reflexivity].
  constructor; cbn [enabled broken queue njobs timer jobs log set_timer_f]; first [assumption|reflexivity].
Qed.

(* one operation of an undisturbed history against the reference loop *)
Lemma step_quiet f hs s c k o r xs e :
  J s c k -> quiet o = true ->
  ideal (prod E O) k (now s) c (o :: r) = Some (xs, e) ->
  exists s' c' k' xs',
    step E (S (S (S (S f)))) hs s o = (s', Done) /\ J s' c' k' /\
    ideal (prod E O) k' (now s') c' r = Some (xs', e) /\
    execs O (log s') ++ xs' = execs O (log s) ++ xs.
Proof.
  intros HJ Hq Hi. destruct o; try discriminate Hq; cbn [ideal] in Hi; unfold step; cbn [step_op].
  - (* OAdvance *)
    exists (set_opi (S (opi s)) (set_now (now s + Z.max 0 d) s)), c, k, xs.
    split; [reflexivity|]. split; [apply J_set_opi, J_set_now; exact HJ|]. split; [exact Hi|reflexivity].
  - (* OWake *)
    rewrite (J_timer _ _ _ HJ).
    destruct (c <=? now s) eqn:Ec.
    + destruct (prod E O k (now s)) as [v| |] eqn:Ep; try discriminate Hi.
      destruct (ideal (prod E O) (S k) (now s) v r) as [[xs1 e1]|] eqn:Ei; try discriminate Hi.
      injection Hi as <- <-.
      destruct (fire_due f s c k v HJ ltac:(apply Z.leb_le; exact Ec) Ep) as (s' & R & HJ' & Hn & Hx).
      rewrite R. cbn [lift].
      exists (set_opi (S (opi s')) s'), v, (S k), xs1.
      split; [reflexivity|]. split; [apply J_set_opi; exact HJ'|].
      split; [cbn [now set_opi]; rewrite Hn; exact Ei|].
      cbn [log set_opi]. rewrite Hx, <- app_assoc. reflexivity.
    + exists (set_opi (S (opi s)) s), c, k, xs.
      split; [reflexivity|]. split; [apply J_set_opi; exact HJ|]. split; [exact Hi|reflexivity].
  - (* OEarlyWake *)
    rewrite (J_timer _ _ _ HJ).
    destruct (c <=? now s) eqn:Ec.
    + destruct (prod E O k (now s)) as [v| |] eqn:Ep; try discriminate Hi.
      destruct (ideal (prod E O) (S k) (now s) v r) as [[xs1 e1]|] eqn:Ei; try discriminate Hi.
      injection Hi as <- <-.
      destruct (fire_due f s c k v HJ ltac:(apply Z.leb_le; exact Ec) Ep) as (s' & R & HJ' & Hn & Hx).
      rewrite R. cbn [lift].
      exists (set_opi (S (opi s')) s'), v, (S k), xs1.
      split; [reflexivity|]. split; [apply J_set_opi; exact HJ'|].
      split; [cbn [now set_opi]; rewrite Hn; exact Ei|].
      cbn [log set_opi]. rewrite Hx, <- app_assoc. reflexivity.
    + destruct (fire_not_due (S (S f)) s c k HJ ltac:(apply Z.leb_gt; exact Ec)) as (s' & R & HJ' & Hn & Hl).
      rewrite R. cbn [lift].
      exists (set_opi (S (opi s')) s'), c, k, xs.
      split; [reflexivity|]. split; [apply J_set_opi; exact HJ'|].
      split; [cbn [now set_opi]; rewrite Hn; exact Hi|]. cbn [log set_opi]. rewrite Hl. reflexivity.
Qed.

(* scheduler.at(...) on a fresh enabled scheduler: everything before the final add_job (fuel abstract) *)
Lemma create_first fuel hs t0 key a1 :
  prod E O O t0 = Ok a1 ->
  exists s, create E fuel hs (new_job KAt 0 0 key) (init t0 true) = lift (add_job E fuel O s) s /\
    queue s = [] /\ enabled s = true /\ broken s = false /\ njobs s = 1%nat /\ now s = t0 /\
    log s = [EProd O] /\ jkind (jobs s O) = KAt /\ jstatus (jobs s O) = Running /\
    jnext (jobs s O) = Some a1 /\ jcbu (jobs s O) = [].
Proof.
  intros Hp. pose proof (Hfut _ _ _ Hp) as Hv.
  unfold create. destruct hs; cbn -[add_job too_old Z.add Z.sub Z.ltb]; rewrite Hp.
  all: unfold too_old; cbn [now add_ev set_log set_store set_njobs set_job set_jobs init].
  all: destruct (a1 <? t0 - past_tolerance_ns) eqn:E2; [apply Z.ltb_lt in E2; unfold past_tolerance_ns in E2; lia|].
  all: unfold set_next_run; cbn -[add_job].
  all: eexists; split; [reflexivity|]; cbn; repeat split; reflexivity.
Qed.

Lemma create_at f hs t0 key a1 :
  prod E O O t0 = Ok a1 ->
  exists s1, step E (S (S f)) hs (init t0 true) (OAt key) = (s1, Done) /\ J s1 a1 1 /\ now s1 = t0 /\
             execs O (log s1) = [].
Proof.
  intros Hp. pose proof (Hfut _ _ _ Hp) as Hv.
  destruct (create_first (S (S f)) hs t0 key a1 Hp) as (s & Hc & q1 & q2 & q3 & q4 & q5 & q6 & q7 & q8 & q9 & q10).
  unfold step; cbn [step_op]. rewrite Hc. clear Hc.
  rewrite add_job_S, q8. cbn [status_eqb]. cbv zeta. rewrite q1. cbn [insort is_head Nat.eqb].
  rewrite set_timer_S. cbv zeta. cbn [queue set_queue set_timer_f enabled jobs now].
  rewrite q2, q9, q5. cbn [negb].
  destruct (a1 <=? t0) eqn:E3; [apply Z.leb_le in E3; lia|].
  cbn [lift]. eexists. split; [reflexivity|].
  split; [|split]; cbn [now log set_opi set_timer_f set_queue]; [|exact q5|rewrite q6; reflexivity].
  constructor; cbn [enabled broken queue njobs timer jobs log set_timer_f set_queue set_opi]; try assumption;
    try reflexivity. rewrite q6; reflexivity.
Qed.

Lemma run_quiet f hs : forall ops s c k xs e,
  J s c k -> ideal (prod E O) k (now s) c ops = Some (xs, e) ->
  exists s', run E (S (S (S (S f)))) hs s ops = (s', repeat Done (length ops)) /\
             J s' (snd e) (fst (fst e)) /\ now s' = snd (fst e) /\ execs O (log s') = execs O (log s) ++ xs.
Proof.
  induction ops as [|o r IH]; intros s c k xs e HJ Hi.
  - cbn [ideal] in Hi. injection Hi as <- <-. exists s. cbn [run length repeat fst snd].
    split; [reflexivity|]. split; [exact HJ|]. split; [reflexivity|]. rewrite app_nil_r; reflexivity.
  - assert (Hq : quiet o = true) by (destruct o; try reflexivity; discriminate Hi).
    destruct (step_quiet f hs s c k o r xs e HJ Hq Hi) as (s1 & c1 & k1 & xs1 & Hs & HJ1 & Hi1 & Hx).
    destruct (IH s1 c1 k1 xs1 e HJ1 Hi1) as (s' & Hr & HJ' & Hn & Hx').
    exists s'. cbn [run length repeat]. rewrite Hs, Hr. split; [reflexivity|]. split; [exact HJ'|].
    split; [exact Hn|]. rewrite Hx'. exact Hx.
Qed.

(* 1. The model against the reference loop, for every undisturbed single-job history *)
Theorem single_job_exact f hs t0 key ops a1 xs k' t' c' :
  prod E O O t0 = Ok a1 ->
  ideal (prod E O) 1 t0 a1 ops = Some (xs, (k', t', c')) ->
  exists s, run E (S (S (S (S f)))) hs (init t0 true) (OAt key :: ops) = (s, repeat Done (S (length ops))) /\
            J s c' k' /\ now s = t' /\ execs O (log s) = xs.
Proof.
  intros Hp Hi.
  destruct (create_at (S (S f)) hs t0 key a1 Hp) as (s1 & Hs & HJ1 & Hn1 & Hx1).
  rewrite <- Hn1 in Hi.
  destruct (run_quiet f hs ops s1 a1 1%nat xs _ HJ1 Hi) as (s & Hr & HJ & Hn & Hx).
  exists s. cbn [run length repeat]. rewrite Hs, Hr. split; [reflexivity|]. cbn [fst snd] in *.
  split; [exact HJ|]. split; [exact Hn|]. rewrite Hx, Hx1. reflexivity.
Qed.
End OneJob.

(* ------------------------------------------------------------------------------------------- *)
(* 2. What the reference loop does.  [follows q k t c xs k' t' c']: starting at instant t with pending next run
   c and k queries made, the executions xs = (instant, announced) ... are linked: each serves the pending next
   run, not before it is due, not before the previous one, and the next pending run is the trigger's answer to
   the query made at the execution instant; finally k' queries, instant t', pending next run c'. *)
Fixpoint follows (q : nat -> Z -> result Z) (k : nat) (t c : Z) (xs : list (Z * Z)) (k' : nat) (t' c' : Z) : Prop :=
  match xs with
  | [] => k' = k /\ c' = c /\ t <= t'
  | (a, b) :: r => b = c /\ t <= a /\ c <= a /\ exists v, q k a = Ok v /\ follows q (S k) a v r k' t' c'
  end.

Theorem ideal_facts q : forall ops k t c xs k' t' c',
  ideal q k t c ops = Some (xs, (k', t', c')) -> follows q k t c xs k' t' c'.
Proof.
  induction ops as [|o r IH]; intros k t c xs k' t' c' H; cbn [ideal] in H.
  - injection H as <- <- <- <-. cbn. repeat split; lia.
  - destruct o; try discriminate H.
    + apply IH in H. destruct xs as [|[a b] xr]; cbn [follows] in *.
      * destruct H as (? & ? & ?). repeat split; try assumption; lia.
      * destruct H as (? & ? & ? & v & ? & ?). split; [assumption|]. split; [lia|]. split; [assumption|].
        exists v; split; assumption.
    + destruct (c <=? t) eqn:Ec; [|apply IH; exact H].
      destruct (q k t) as [v| |] eqn:Eq; try discriminate H.
      destruct (ideal q (S k) t v r) as [[xs1 e1]|] eqn:Ei; try discriminate H.
      injection H as <- ->. apply IH in Ei. cbn [follows]. apply Z.leb_le in Ec.
      split; [reflexivity|]. split; [lia|]. split; [exact Ec|]. exists v; split; assumption.
    + destruct (c <=? t) eqn:Ec; [|apply IH; exact H].
      destruct (q k t) as [v| |] eqn:Eq; try discriminate H.
      destruct (ideal q (S k) t v r) as [[xs1 e1]|] eqn:Ei; try discriminate H.
      injection H as <- ->. apply IH in Ei. cbn [follows]. apply Z.leb_le in Ec.
      split; [reflexivity|]. split; [lia|]. split; [exact Ec|]. exists v; split; assumption.
Qed.

(* a due job is executed at the very next wake-up, a job that is not due is not executed by a wake-up, and
   nothing is executed while time merely passes *)
Lemma ideal_wake_due q k t c r xs e :
  c <= t -> ideal q k t c (OWake :: r) = Some (xs, e) -> exists xs', xs = (t, c) :: xs'.
Proof.
  intros Hc H. cbn [ideal] in H. apply Z.leb_le in Hc. rewrite Hc in H.
  destruct (q k t) as [v| |]; try discriminate H. destruct (ideal q (S k) t v r) as [[xs1 e1]|]; try discriminate H.
  injection H as <- _. eexists; reflexivity.
Qed.
Lemma ideal_wake_not_due q k t c r : t < c -> ideal q k t c (OWake :: r) = ideal q k t c r.
Proof. intros Hc. cbn [ideal]. apply Z.leb_gt in Hc. rewrite Hc. reflexivity. Qed.
Lemma ideal_advance q k t c d r : ideal q k t c (OAdvance d :: r) = ideal q k (t + Z.max 0 d) c r.
Proof. reflexivity. Qed.

(* execution instants strictly increase (no occurrence is served twice, nothing runs twice at one instant) when
   the trigger answers in the future *)
Lemma follows_increasing q (Hq : forall k t v, q k t = Ok v -> t < v) : forall xs k t c k' t' c',
  follows q k t c xs k' t' c' ->
  StronglySorted Z.lt (map fst xs) /\
  Forall (fun x => t <= fst x <= t' /\ c <= fst x /\ snd x <= fst x /\ fst x < c') xs.
Proof.
  induction xs as [|[a b] r IH]; intros k t c k' t' c' H; cbn [follows] in H.
  - split; constructor.
  - destruct H as (-> & H1 & H2 & v & Hv & H). specialize (IH _ _ _ _ _ _ H). destruct IH as (I1 & I2).
    pose proof (Hq _ _ _ Hv) as Hav.
    assert (Hat : a <= t' /\ a < c').
    { destruct r as [|[a2 b2] r2]; cbn [follows] in H.
      - destruct H as (_ & -> & ?). lia.
      - inversion I2 as [|? ? Hx _]; subst. cbn [fst] in Hx. lia. }
    split.
    + cbn [map fst]. constructor; [exact I1|]. apply Forall_forall. intros y Hy.
      apply in_map_iff in Hy. destruct Hy as (x & <- & Hx).
      rewrite Forall_forall in I2. destruct (I2 x Hx) as (_ & Ha & _). lia.
    + constructor; [cbn [fst snd]; lia|]. eapply Forall_impl; [|exact I2]. intros x ((? & ?) & ? & ? & ?). lia.
Qed.

(* ------------------------------------------------------------------------------------------- *)
(* 3. Keeping up.  P is the occurrence set of the trigger; the trigger answers "the earliest element of P after
   the reference instant" (ProdEarliest2.time_earliest, ProdGroup.tig_earliest).  The loop keeps up when every
   execution (instant a, serving the occurrence b) happens before the occurrence that follows b. *)
Definition keeps_up (P : Z -> Prop) (xs : list (Z * Z)) : Prop :=
  Forall (fun x => forall u, P u -> snd x < u -> fst x < u) xs.

Section KeepUp.
Variable q : nat -> Z -> result Z.
Variable P : Z -> Prop.
Hypothesis Hspec : forall k t v, q k t = Ok v -> earliest_after P t v.

(* asking from anywhere inside the gap between two occurrences gives the same answer *)
Lemma chain_consistent k k2 a t v w : a <= t -> q k a = Ok v -> t < v -> q k2 t = Ok w -> w = v.
Proof.
  intros Hat Hv Htv Hw. destruct (Hspec _ _ _ Hv) as (Pv & Hav & Mv). destruct (Hspec _ _ _ Hw) as (Pw & Htw & Mw).
  specialize (Mw v Pv Htv). specialize (Mv w Pw ltac:(lia)). lia.
Qed.

(* none skipped, none duplicated, in order: the announced times followed by the pending next run list P after
   [prev] when the first pending run is the earliest occurrence after [prev] *)
Lemma follows_enumerates : forall xs k t c k' t' c' prev,
  follows q k t c xs k' t' c' -> earliest_after P prev c -> keeps_up P xs ->
  enumerates P prev (map Ok (map snd xs ++ [c'])).
Proof.
  induction xs as [|[a b] r IH]; intros k t c k' t' c' prev H Hc Hk; cbn [follows] in H.
  - destruct H as (_ & -> & _). cbn. split; [exact Hc|exact I].
  - destruct H as (-> & H1 & H2 & v & Hv & H). cbn [map snd app enumerates]. split; [exact Hc|].
    inversion Hk as [|? ? Hk1 Hk2]; subst. cbn [fst snd] in Hk1.
    apply (IH _ _ _ _ _ _ c H); [|exact Hk2].
    destruct (Hspec _ _ _ Hv) as (Pv & Hav & Mv). split; [exact Pv|]. split; [lia|].
    intros u Pu Hu. apply Mv; [exact Pu|]. apply Hk1; assumption.
Qed.

(* after every execution the reported next run (the announced time of the following execution, or the pending
   next run) is the earliest occurrence strictly after the execution instant - keeping up or not *)
Lemma follows_next_after : forall xs k t c k' t' c',
  follows q k t c xs k' t' c' ->
  exists l, map snd xs ++ [c'] = c :: l /\ Forall2 (fun x v => earliest_after P (fst x) v) xs l.
Proof.
  induction xs as [|[a b] r IH]; intros k t c k' t' c' H; cbn [follows] in H.
  - destruct H as (_ & -> & _). exists []. split; [reflexivity|constructor].
  - destruct H as (-> & H1 & H2 & v & Hv & H). destruct (IH _ _ _ _ _ _ H) as (l & El & Fl).
    exists (v :: l). cbn [map snd app]. rewrite El. split; [reflexivity|].
    constructor; [cbn [fst]; apply (Hspec _ _ _ Hv)|exact Fl].
Qed.
End KeepUp.

(* ------------------------------------------------------------------------------------------- *)
(* The closed statement for an abstract trigger with occurrence set P *)
Definition c03_conclusion (E : env) (P : Z -> Prop) (fuel : nat) (hs : bool) (t0 key : Z) (ops : list op)
  (xs : list (Z * Z)) (k' : nat) (t' c' : Z) : Prop :=
  exists s,
    (* every operation of the history ends normally *)
    run E fuel hs (init t0 true) (OAt key :: ops) = (s, repeat Done (S (length ops))) /\
    (* the job is Running, alone in the queue, the timer is armed for its next run c' *)
    J s c' k' /\ now s = t' /\
    (* its executions (instant, announced), oldest first, are those of the reference loop *)
    execs O (log s) = xs /\
    (* in order, one per instant, never early, never before creation *)
    StronglySorted Z.lt (map fst xs) /\
    Forall (fun x => t0 <= fst x <= t' /\ snd x <= fst x /\ fst x < c') xs /\
    (* after every execution the next run is the next occurrence strictly after the execution instant *)
    Forall2 (fun x v => earliest_after P (fst x) v) xs (tl (map snd xs ++ [c'])) /\
    (* as long as the loop keeps up: the served occurrences and the pending one list P after creation,
       in order, none skipped, none duplicated *)
    (keeps_up P xs -> enumerates P t0 (map Ok (map snd xs ++ [c']))).

Theorem keepup_enumerates E P f hs t0 key ops a1 xs k' t' c' :
  (forall k t v, prod E O k t = Ok v -> earliest_after P t v) ->
  prod E O O t0 = Ok a1 ->
  ideal (prod E O) 1 t0 a1 ops = Some (xs, (k', t', c')) ->
  c03_conclusion E P (S (S (S (S f)))) hs t0 key ops xs k' t' c'.
Proof.
  intros Hspec Hp Hi.
  assert (Hfut : forall k t v, prod E O k t = Ok v -> t < v).
  { intros k t v H. destruct (Hspec k t v H) as (_ & H1 & _). exact H1. }
  destruct (single_job_exact E Hfut f hs t0 key ops a1 xs k' t' c' Hp Hi) as (s & Hr & HJ & Hn & Hx).
  pose proof (ideal_facts _ _ _ _ _ _ _ _ _ Hi) as Hf.
  destruct (follows_increasing _ Hfut _ _ _ _ _ _ _ Hf) as (S1 & S2).
  destruct (follows_next_after _ P Hspec _ _ _ _ _ _ _ Hf) as (l & El & Fl).
  exists s. split; [exact Hr|]. split; [exact HJ|]. split; [exact Hn|]. split; [exact Hx|].
  split; [exact S1|]. split.
  { eapply Forall_impl; [|exact S2]. intros x ((? & ?) & ? & ? & ?). repeat split; assumption. }
  split; [rewrite El; exact Fl|].
  intros Hk. apply (follows_enumerates _ P Hspec _ _ _ _ _ _ _ t0 Hf); [apply (Hspec _ _ _ Hp)|exact Hk].
Qed.

(* ------------------------------------------------------------------------------------------- *)
(* 4. The producer model as trigger.  Class: time of day / interval with a start / groups of such (ProdGroup.tig).
   The k-th query may see any producer state whose interval cache lies on the grids (every state reachable by
   queries from the initial state does: [query_states_on_grid]); the answer then does not depend on the state
   beyond that, which is why one oracle indexed by k covers every actual sequence of query instants. *)
Lemma query_states_on_grid PE G p :
  wf_tz_b (pz PE) = true -> consistent G -> tig p -> incl (leaves p) G ->
  forall qs st, cache_on_grid G st -> cache_on_grid G (query_states PE p st qs).
Proof.
  intros Hz HG Ht Hl. induction qs as [|dt r IH]; intros st HI; cbn [query_states]; [exact HI|].
  apply IH. destruct (get_next PE p st dt) as [res st'] eqn:EG.
  destruct (tig_member_ok PE G Hz HG p Ht Hl st dt res st' HI EG) as (HI' & _). exact HI'.
Qed.

Theorem at_tig_trigger_enumerates E PE G p f hs t0 key ops a1 xs k' t' c' :
  wf_tz_b (pz PE) = true -> consistent G -> tig p -> incl (leaves p) G ->
  (forall k t, exists st, cache_on_grid G st /\ prod E O k t = fst (get_next PE p st t)) ->
  prod E O O t0 = Ok a1 ->
  ideal (prod E O) 1 t0 a1 ops = Some (xs, (k', t', c')) ->
  c03_conclusion E (occ (pz PE) p) (S (S (S (S f)))) hs t0 key ops xs k' t' c'.
Proof.
  intros Hz HG Ht Hl HE. apply keepup_enumerates.
  intros k t v H. destruct (HE k t) as (st & HI & Eq). rewrite Eq in H.
  destruct (get_next PE p st t) as [res st'] eqn:EG. cbn [fst] in H. subst res.
  destruct (tig_earliest PE G Hz HG p st t v st' Ht Hl HI EG) as (H1 & _). exact H1.
Qed.

(* time-of-day triggers: stateless *)
Theorem at_time_trigger_enumerates E PE tr flt f hs t0 key ops a1 xs k' t' c' :
  wf_tz_b (pz PE) = true -> wf_tr tr ->
  (forall k t, exists st, prod E O k t = fst (get_next PE (PTime tr flt) st t)) ->
  prod E O O t0 = Ok a1 ->
  ideal (prod E O) 1 t0 a1 ops = Some (xs, (k', t', c')) ->
  c03_conclusion E (occ_time (pz PE) tr flt) (S (S (S (S f)))) hs t0 key ops xs k' t' c'.
Proof.
  intros Hz Ht HE. apply (at_tig_trigger_enumerates E PE [] (PTime tr flt)); try assumption.
  - intros ? ? ? ? ? [].
  - intros x [].
  - intros k t. destruct (HE k t) as (st & H). exists st. split; [|exact H]. intros ? ? ? ? [].
Qed.

(* the environment whose job-0 trigger is the producer expression p: the k-th query is answered from the state
   left behind by the queries at the instants [firstn k qs] (for the actual run: qs = creation instant followed by
   the execution instants; the theorems hold for every qs) *)
Definition trigger_env (PE : penv) (p : producer) (qs : list Z) (fe fc : nat -> nat -> bool) : env :=
  {| prod := fun _ k t => fst (get_next PE p (query_states PE p pstate0 (firstn k qs)) t);
     fail_exec := fe; fail_cb := fc |}.

Lemma trigger_env_ok PE G p qs fe fc :
  wf_tz_b (pz PE) = true -> consistent G -> tig p -> incl (leaves p) G ->
  forall k t, exists st, cache_on_grid G st /\ prod (trigger_env PE p qs fe fc) O k t = fst (get_next PE p st t).
Proof.
  intros Hz HG Ht Hl k t. exists (query_states PE p pstate0 (firstn k qs)). split; [|reflexivity].
  apply query_states_on_grid; try assumption. apply cache_on_grid_pstate0.
Qed.

Lemma trigger_env_time PE tr flt qs fe fc k t :
  exists st, prod (trigger_env PE (PTime tr flt) qs fe fc) O k t = fst (get_next PE (PTime tr flt) st t).
Proof. exists (query_states PE (PTime tr flt) pstate0 (firstn k qs)). reflexivity. Qed.

(* a computable sufficient condition for keeping up: asked at the served occurrence, the trigger answers an
   instant after the execution *)
Lemma keeps_up_check (q : nat -> Z -> result Z) P xs :
  (forall k t v, q k t = Ok v -> earliest_after P t v) ->
  Forall (fun x => exists k v, q k (snd x) = Ok v /\ fst x < v) xs -> keeps_up P xs.
Proof.
  intros Hspec H. eapply Forall_impl; [|exact H]. intros [a b] (k & v & Hv & Hav) u Pu Hu. cbn [fst snd] in *.
  destruct (Hspec _ _ _ Hv) as (_ & _ & M). specialize (M u Pu Hu). lia.
Qed.

(* ------------------------------------------------------------------------------------------- *)
(* Examples: 02:30 local on the two-transition table, created 2025-10-25 shortly before 00:30Z; the loop wakes
   100 s late each time; 2025-10-26 has 02:30 twice (00:30Z and 01:30Z).  One execution fails (fail_exec). *)
Definition ex_E : env :=
  trigger_env ex_env (PTime (tr0230 SkLater RpTwice) None) [] (fun _ k => Nat.eqb k 1) (fun _ _ => false).
Definition ex_t0 : Z := 1761350000 * NS.
Definition ex_ops : list op :=
  [OAdvance (2300 * NS); OWake; OWake; OAdvance (86400 * NS); OWake; OAdvance (1800 * NS); OEarlyWake;
   OAdvance (1800 * NS); OWake; OAdvance (100 * NS); OWake].
Definition ex_xs : list (Z * Z) :=
  [(1761352300 * NS, 1761352200 * NS); (1761438700 * NS, 1761438600 * NS); (1761442300 * NS, 1761442200 * NS)].

Example ex_ideal :
  prod ex_E O O ex_t0 = Ok (1761352200 * NS) /\
  ideal (prod ex_E O) 1 ex_t0 (1761352200 * NS) ex_ops = Some (ex_xs, (4%nat, 1761442400 * NS, 1761528600 * NS)).
Proof. split; vm_compute; reflexivity. Qed.

(* the scheduler model itself on this history (independent of the theorems) *)
Example ex_run :
  let '(s, outs) := run ex_E 4 true (init ex_t0 true) (OAt 7 :: ex_ops) in
  outs = repeat Done 12 /\ execs O (log s) = ex_xs /\ jnext (jobs s O) = Some (1761528600 * NS) /\
  timer s = Some (1761528600 * NS) /\ queue s = [O] /\ store s = [(7, O)].
Proof. vm_compute. repeat split; reflexivity. Qed.

Example ex_keepup :
  c03_conclusion ex_E (occ_time berlin2 (tr0230 SkLater RpTwice) None) 4 true ex_t0 7 ex_ops ex_xs 4
    (1761442400 * NS) (1761528600 * NS) /\
  keeps_up (occ_time berlin2 (tr0230 SkLater RpTwice) None) ex_xs.
Proof.
  destruct ex_wf as (Hz & Ht). destruct ex_ideal as (Hp & Hi).
  assert (HE : forall k t, exists st,
             prod ex_E O k t = fst (get_next ex_env (PTime (tr0230 SkLater RpTwice) None) st t)).
  { intros k t. exact (trigger_env_time ex_env _ None [] _ _ k t). }
  split.
  - exact (at_time_trigger_enumerates ex_E ex_env _ None O true ex_t0 7 ex_ops _ ex_xs _ _ _ Hz Ht HE Hp Hi).
  - apply (keeps_up_check (fun _ t => next_time berlin2 (tr0230 SkLater RpTwice) None t)).
    + intros k t v H. exact (time_earliest berlin2 _ _ _ _ Hz Ht H).
    + unfold ex_xs. constructor; [|constructor; [|constructor; [|constructor]]]; exists O.
      * exists (1761438600 * NS). split; vm_compute; reflexivity.
      * exists (1761442200 * NS). split; vm_compute; reflexivity.
      * exists (1761528600 * NS). split; vm_compute; reflexivity.
Qed.

(* not keeping up: the loop sleeps two days; the first occurrence is served late and the three occurrences of
   10-26 and 10-27 that passed meanwhile are skipped (the next run is computed from the execution instant) *)
Example ex_late :
  ideal (prod ex_E O) 1 ex_t0 (1761352200 * NS) [OAdvance (2 * 86400 * NS); OWake] =
  Some ([(1761522800 * NS, 1761352200 * NS)], (2%nat, 1761522800 * NS, 1761528600 * NS)).
Proof. vm_compute. reflexivity. Qed.
