(* Sched.v — executable model of jobs, job store, AsyncScheduler and the loop timer.
   Mirrors src/eascheduler/{schedulers/async_scheduler.py, jobs/*.py, job_control/*.py,
   builder/jobs.py, job_stores/memory.py, jobs/event_handler.py} function by function.
   No proofs here (SchedInv.v / SchedProps.v), so the model still evaluates when a proof breaks. *)
From EAS Require Import Base.
From EASGen Require Import Generated.

Inductive status := Created | Running | Paused | Finished.
Definition status_eqb (a b : status) : bool :=
  match a, b with
  | Created, Created | Running, Running | Paused, Paused | Finished, Finished => true
  | _, _ => false
  end.

Inductive kind := KOnce | KCountdown | KAt.

Record job := {
  jkind   : kind;
  jstatus : status;
  jnext   : option Z;        (* next_run *)
  jlinked : bool;            (* _scheduler is not None *)
  jexec_t : Z;               (* OneTimeJob.execution_time *)
  jsecs   : Z;               (* CountdownJob._seconds, in ns *)
  jkey    : Z;               (* job id used by the store *)
  jcbu    : list nat;        (* on_update callbacks, registration order *)
  jcbf    : list nat;        (* on_finished callbacks (user), registration order *)
  jstored : bool             (* InMemoryStore._job_finished is registered on on_finished (first) *)
}.

Definition dummy_job : job :=
  {| jkind := KOnce; jstatus := Created; jnext := None; jlinked := false; jexec_t := 0; jsecs := 0;
     jkey := 0; jcbu := []; jcbf := []; jstored := false |}.

(* where an exception handed to process_exception came from *)
Inductive hsrc :=
  | HExec (j : nat)          (* the callable of job j raised (caught by the executor) *)
  | HCb (cb : nat)           (* a callback raised (caught by JobCallbackHandler.run) *)
  | HJob (j : nat)           (* job.execute() raised: trigger / set_next_run failed (caught in run_jobs) *)
  | HLoop.                   (* the outer try of run_jobs *)

Inductive event :=
  | EExec (j : nat) (at_ : Z) (announced : Z) (opi : nat)   (* callable of j entered *)
  | ECbUpd (j cb : nat) (st : status) (nx : option Z)        (* on_update callback saw (st, nx) *)
  | ECbFin (j cb : nat)                                      (* on_finished callback *)
  | EHandler (src : hsrc)
  | EProd (j : nat).                                         (* trigger of j asked for its next occurrence *)

Record st := {
  now     : Z;
  enabled : bool;
  timer   : option Z;        (* when() of the armed TimerHandle *)
  queue   : list nat;        (* AsyncScheduler.jobs *)
  jobs    : nat -> job;
  njobs   : nat;
  store   : list (Z * nat);  (* InMemoryStore._jobs : key -> job *)
  log     : list event;      (* newest first *)
  opi     : nat;             (* index of the API operation / wake-up in progress *)
  broken  : bool             (* JobExecutionTimeIsNotSetError was raised: cannot happen when the
                                invariant holds; sticky so that it can never look like a normal state *)
}.

Definition set_now v s := {| now := v; enabled := enabled s; timer := timer s; queue := queue s; jobs := jobs s;
  njobs := njobs s; store := store s; log := log s; opi := opi s; broken := broken s |}.
Definition set_enabled_f v s := {| now := now s; enabled := v; timer := timer s; queue := queue s; jobs := jobs s;
  njobs := njobs s; store := store s; log := log s; opi := opi s; broken := broken s |}.
Definition set_timer_f v s := {| now := now s; enabled := enabled s; timer := v; queue := queue s; jobs := jobs s;
  njobs := njobs s; store := store s; log := log s; opi := opi s; broken := broken s |}.
Definition set_queue v s := {| now := now s; enabled := enabled s; timer := timer s; queue := v; jobs := jobs s;
  njobs := njobs s; store := store s; log := log s; opi := opi s; broken := broken s |}.
Definition set_jobs v s := {| now := now s; enabled := enabled s; timer := timer s; queue := queue s; jobs := v;
  njobs := njobs s; store := store s; log := log s; opi := opi s; broken := broken s |}.
Definition set_njobs v s := {| now := now s; enabled := enabled s; timer := timer s; queue := queue s; jobs := jobs s;
  njobs := v; store := store s; log := log s; opi := opi s; broken := broken s |}.
Definition set_store v s := {| now := now s; enabled := enabled s; timer := timer s; queue := queue s; jobs := jobs s;
  njobs := njobs s; store := v; log := log s; opi := opi s; broken := broken s |}.
Definition set_log v s := {| now := now s; enabled := enabled s; timer := timer s; queue := queue s; jobs := jobs s;
  njobs := njobs s; store := store s; log := v; opi := opi s; broken := broken s |}.
Definition set_opi v s := {| now := now s; enabled := enabled s; timer := timer s; queue := queue s; jobs := jobs s;
  njobs := njobs s; store := store s; log := log s; opi := v; broken := broken s |}.
Definition set_broken s := {| now := now s; enabled := enabled s; timer := timer s; queue := queue s; jobs := jobs s;
  njobs := njobs s; store := store s; log := log s; opi := opi s; broken := true |}.

Definition upd (f : nat -> job) (j : nat) (v : job) : nat -> job := fun k => if Nat.eqb k j then v else f k.
Definition set_job j v s := set_jobs (upd (jobs s) j v) s.
Definition add_ev e s := set_log (e :: log s) s.

Definition with_status_next (b : job) (stt : status) (nx : option Z) : job :=
  {| jkind := jkind b; jstatus := stt; jnext := nx; jlinked := jlinked b; jexec_t := jexec_t b; jsecs := jsecs b;
     jkey := jkey b; jcbu := jcbu b; jcbf := jcbf b; jstored := jstored b |}.
Definition with_linked (b : job) (v : bool) : job :=
  {| jkind := jkind b; jstatus := jstatus b; jnext := jnext b; jlinked := v; jexec_t := jexec_t b; jsecs := jsecs b;
     jkey := jkey b; jcbu := jcbu b; jcbf := jcbf b; jstored := jstored b |}.
Definition with_secs (b : job) (v : Z) : job :=
  {| jkind := jkind b; jstatus := jstatus b; jnext := jnext b; jlinked := jlinked b; jexec_t := jexec_t b; jsecs := v;
     jkey := jkey b; jcbu := jcbu b; jcbf := jcbf b; jstored := jstored b |}.
Definition with_cbu (b : job) (v : list nat) : job :=
  {| jkind := jkind b; jstatus := jstatus b; jnext := jnext b; jlinked := jlinked b; jexec_t := jexec_t b; jsecs := jsecs b;
     jkey := jkey b; jcbu := v; jcbf := jcbf b; jstored := jstored b |}.
Definition with_cbf (b : job) (v : list nat) : job :=
  {| jkind := jkind b; jstatus := jstatus b; jnext := jnext b; jlinked := jlinked b; jexec_t := jexec_t b; jsecs := jsecs b;
     jkey := jkey b; jcbu := jcbu b; jcbf := v; jstored := jstored b |}.
Definition with_stored (b : job) (v : bool) : job :=
  {| jkind := jkind b; jstatus := jstatus b; jnext := jnext b; jlinked := jlinked b; jexec_t := jexec_t b; jsecs := jsecs b;
     jkey := jkey b; jcbu := jcbu b; jcbf := jcbf b; jstored := v |}.

(* ------------------------------------------------------------------------------------------- *)
(* Counters are read off the log, so injected failures need no extra state.                     *)
Fixpoint count_exec (j : nat) (l : list event) : nat :=
  match l with
  | [] => O
  | EExec k _ _ _ :: t => if Nat.eqb k j then S (count_exec j t) else count_exec j t
  | _ :: t => count_exec j t
  end.
Fixpoint count_prod (j : nat) (l : list event) : nat :=
  match l with
  | [] => O
  | EProd k :: t => if Nat.eqb k j then S (count_prod j t) else count_prod j t
  | _ :: t => count_prod j t
  end.
Fixpoint count_cb (cb : nat) (l : list event) : nat :=
  match l with
  | [] => O
  | ECbUpd _ c _ _ :: t => if Nat.eqb c cb then S (count_cb cb t) else count_cb cb t
  | ECbFin _ c :: t => if Nat.eqb c cb then S (count_cb cb t) else count_cb cb t
  | _ :: t => count_cb cb t
  end.

(* The environment: everything the scheduler does not control. *)
Record env := {
  prod      : nat -> nat -> Z -> result Z;   (* trigger of job j, its k-th query, reference instant *)
  fail_exec : nat -> nat -> bool;            (* callable of job j raises at its k-th start *)
  fail_cb   : nat -> nat -> bool             (* callback cb raises at its k-th invocation *)
}.

Section WithEnv.
Variable E : env.

(* JobCallbackHandler.run: every callback once, each guarded separately *)
Fixpoint run_cbs (mk : nat -> event) (cbs : list nat) (s : st) : st :=
  match cbs with
  | [] => s
  | cb :: t =>
      let k := count_cb cb (log s) in
      let s := add_ev (mk cb) s in
      let s := if fail_cb E cb k then add_ev (EHandler (HCb cb)) s else s in
      run_cbs mk t s
  end.

(* JobBase.set_next_run for an already validated value: state pair, then on_update *)
Definition set_next_run (j : nat) (nx : option Z) (s : st) : st :=
  let b := jobs s j in
  let stt := match nx with None => Paused | Some _ => Running end in
  let s := set_job j (with_status_next b stt nx) s in
  run_cbs (fun cb => ECbUpd j cb stt nx) (jcbu b) s.

Definition too_old (s : st) (t : Z) : bool := t <? now s - past_tolerance_ns.

Fixpoint store_remove (key : Z) (l : list (Z * nat)) : list (Z * nat) :=
  match l with
  | [] => []
  | (k, j) :: t => if Z.eqb k key then t else (k, j) :: store_remove key t
  end.
Fixpoint store_has (key : Z) (l : list (Z * nat)) : bool :=
  match l with
  | [] => false
  | (k, _) :: t => Z.eqb k key || store_has key t
  end.

(* bisect.insort on a queue ordered by JobBase.__lt__ (insert after equal elements).  On a sorted
   queue the binary search and this linear scan agree; the queue is always sorted (SchedInv). *)
Definition job_lt (s : st) (a b : nat) : bool :=
  match jnext (jobs s b) with
  | None => true
  | Some tb => match jnext (jobs s a) with None => false | Some ta => ta <? tb end
  end.
Fixpoint insort (s : st) (j : nat) (q : list nat) : list nat :=
  match q with
  | [] => [j]
  | h :: t => if job_lt s j h then j :: h :: t else h :: insort s j t
  end.

Definition is_head (j : nat) (q : list nat) : bool :=
  match q with h :: _ => Nat.eqb h j | [] => false end.

(* ------------------------------------------------------------------------------------------- *)
(* The re-entrant core: _set_timer / run_jobs / its loop / add_job / remove_job / job.execute().
   One fuel argument bounds loop rounds and nesting together; None = out of fuel.                *)
Fixpoint set_timer (fuel : nat) (s : st) {struct fuel} : option st :=
  match fuel with O => None | S f =>
    let s := set_timer_f None s in                         (* cancel *)
    match queue s with
    | [] => Some s
    | h :: _ =>
        if negb (enabled s) then Some s else
        match jnext (jobs s h) with
        | None => Some (set_broken s)                       (* JobExecutionTimeIsNotSetError *)
        | Some t => if t <=? now s then run_jobs f s         (* diff <= 0 *)
                    else Some (set_timer_f (Some t) s)      (* call_at(loop.time() + diff) *)
        end
    end
  end
with run_jobs (fuel : nat) (s : st) {struct fuel} : option st :=
  match fuel with O => None | S f =>
    let s := set_timer_f None s in
    match run_loop f s with
    | None => None
    | Some s' =>
        if broken s' then Some s' else
        match queue s' with [] => Some s' | _ :: _ => set_timer f s' end
    end
  end
with run_loop (fuel : nat) (s : st) {struct fuel} : option st :=
  match fuel with O => None | S f =>
    match queue s with
    | [] => Some s
    | h :: q' =>
        match jnext (jobs s h) with
        | None => Some (add_ev (EHandler HLoop) (set_broken s))
        | Some t =>
            if now s <? t then Some s else                   (* next_run > Instant.now(): break *)
            let s := set_queue q' s in                       (* popleft *)
            match exec_job f h t s with
            | None => None
            | Some s =>
                match (if status_eqb (jstatus (jobs s h)) Running then add_job f h s else Some s) with
                | None => None
                | Some s => run_loop f s
                end
            end
        end
    end
  end
with add_job (fuel : nat) (j : nat) (s : st) {struct fuel} : option st :=
  match fuel with O => None | S f =>
    if status_eqb (jstatus (jobs s j)) Running then
      let q := insort s j (queue s) in
      let s := set_queue q s in
      if is_head j q then set_timer f s else Some s
    else Some s
  end
with remove_job (fuel : nat) (j : nat) (s : st) {struct fuel} : option st :=
  match fuel with O => None | S f =>
    match queue s with
    | [] => set_timer f s
    | h :: _ =>
        let q := remove_first j (queue s) in
        let s := set_queue q s in
        match q with
        | [] => set_timer f s
        | _ :: _ => if Nat.eqb h j then set_timer f s else Some s
        end
    end
  end
(* JobBase.execute inside run_jobs' per-job try: executor, then update_next of the job's kind *)
with exec_job (fuel : nat) (j : nat) (t : Z) (s : st) {struct fuel} : option st :=
  match fuel with O => None | S f =>
    let k := count_exec j (log s) in
    let s := add_ev (EExec j (now s) t (opi s)) s in
    let s := if fail_exec E j k then add_ev (EHandler (HExec j)) s else s in
    match jkind (jobs s j) with
    | KOnce =>                                              (* update_next = job_finish *)
        match remove_job f j s with
        | None => None
        | Some s =>
            let b := jobs s j in
            let s := set_job j (with_linked (with_status_next b Finished None) false) s in
            let s := if jstored b then set_store (store_remove (jkey b) (store s)) s else s in
            Some (run_cbs (fun cb => ECbFin j cb) (jcbf b) s)
        end
    | KCountdown => Some (set_next_run j None s)            (* update_next = set_next_run(None) *)
    | KAt =>
        let kp := count_prod j (log s) in
        let s := add_ev (EProd j) s in
        match prod E j kp (now s) with
        | Ok v => if too_old s v then Some (add_ev (EHandler (HJob j)) s)
                  else Some (set_next_run j (Some v) s)
        | Raise _ => Some (add_ev (EHandler (HJob j)) s)
        | OutOfFuel => None
        end
    end
  end.

Definition update_job (fuel : nat) (j : nat) (s : st) : option st :=
  match remove_job fuel j s with
  | None => None
  | Some s => add_job fuel j s
  end.

(* JobBase.job_finish for a job that is not finished *)
Definition job_finish (fuel : nat) (j : nat) (s : st) : option st :=
  match remove_job fuel j s with
  | None => None
  | Some s =>
      let b := jobs s j in
      let s := set_job j (with_linked (with_status_next b Finished None) false) s in
      let s := if jstored b then set_store (store_remove (jkey b) (store s)) s else s in
      Some (run_cbs (fun cb => ECbFin j cb) (jcbf b) s)
  end.

(* ------------------------------------------------------------------------------------------- *)
(* API operations (JobBuilder, the control classes, AsyncScheduler.set_enabled) and the loop.    *)
Inductive cbwhich := CbUpd | CbFin.

Inductive op :=
  | OOnce (t : Z) (key : Z)
  | OCountdown (secs : Z) (key : Z)
  | OAt (key : Z)                     (* the trigger is prod E <new job index> *)
  | OCancel (j : nat)
  | OPause (j : nat)                  (* DateTimeJobControl.pause / CountdownJobControl.stop *)
  | OResume (j : nat)
  | OReset (j : nat)
  | OSetCountdown (j : nat) (secs : Z)
  | OEnable (b : bool)
  | ORegister (j : nat) (w : cbwhich) (cb : nat)
  | OUnregister (j : nat) (w : cbwhich) (cb : nat)
  | OAdvance (d : Z)                  (* both clocks move forward by d >= 0; nothing else happens *)
  | OWake                             (* one loop iteration: the timer fires if it is due *)
  | OEarlyWake.                       (* the timer fires although its time is not reached *)

Inductive outcome := Done | Raised (e : err) | NoFuel.

Definition new_job (k : kind) (t secs key : Z) : job :=
  {| jkind := k; jstatus := Created; jnext := None; jlinked := false; jexec_t := t; jsecs := secs;
     jkey := key; jcbu := []; jcbf := []; jstored := false |}.

Definition lift (o : option st) (s0 : st) : st * outcome :=
  match o with Some s => (s, Done) | None => (s0, NoFuel) end.

(* JobBuilder._add (after the repair of F2): job store first, then link; when linking fails the
   job is finished again, which also takes it out of the store. *)
Definition create (fuel : nat) (has_store : bool) (b : job) (s : st) : st * outcome :=
  let j := njobs s in
  if has_store && store_has (jkey b) (store s) then (s, Raised EKeyError) else
  (* store.add_job, then link_scheduler: _scheduler = scheduler; update_first(); add_job *)
  let b := with_linked (with_stored b has_store) true in
  let s := set_njobs (S j) (set_job j b s) in
  let s := if has_store then set_store ((jkey b, j) :: store s) s else s in
  let first : st * outcome :=
    match jkind b with
    | KOnce => if too_old s (jexec_t b) then (s, Raised EPast) else (set_next_run j (Some (jexec_t b)) s, Done)
    | KCountdown => (set_next_run j None s, Done)
    | KAt =>
        let kp := count_prod j (log s) in
        let s := add_ev (EProd j) s in
        match prod E j kp (now s) with
        | Ok v => if too_old s v then (s, Raised EPast) else (set_next_run j (Some v) s, Done)
        | Raise e => (s, Raised e)
        | OutOfFuel => (s, NoFuel)
        end
    end in
  match first with
  | (s, Done) => lift (add_job fuel j s) s
  | (s, Raised e) =>
      match job_finish fuel j s with
      | Some s => (s, Raised e)
      | None => (s, NoFuel)
      end
  | (s, NoFuel) => (s, NoFuel)
  end.

Definition is_finished (s : st) (j : nat) : bool := status_eqb (jstatus (jobs s j)) Finished.

Definition step_op (fuel : nat) (has_store : bool) (s : st) (o : op) : st * outcome :=
  match o with
  | OOnce t key => create fuel has_store (new_job KOnce t 0 key) s
  | OCountdown secs key =>
      if secs <=? 0 then (s, Raised EValueError)
      else create fuel has_store (new_job KCountdown 0 secs key) s
  | OAt key => create fuel has_store (new_job KAt 0 0 key) s
  | OCancel j =>
      if is_finished s j then (s, Raised EAlreadyFinished) else lift (job_finish fuel j s) s
  | OPause j =>
      if is_finished s j then (s, Raised EAlreadyFinished) else
      match remove_job fuel j s with
      | None => (s, NoFuel)
      | Some s => (set_next_run j None s, Done)
      end
  | OResume j =>
      if is_finished s j then (s, Raised EAlreadyFinished) else
      if negb (jlinked (jobs s j)) then (s, Raised ENotLinked) else    (* DateTimeJob.update_next *)
      let kp := count_prod j (log s) in
      let s1 := add_ev (EProd j) s in
      match prod E j kp (now s) with
      | Ok v => if too_old s1 v then (s1, Raised EPast)
                else lift (update_job fuel j (set_next_run j (Some v) s1)) s1
      | Raise e => (s1, Raised e)
      | OutOfFuel => (s1, NoFuel)
      end
  | OReset j =>
      if negb (jlinked (jobs s j)) then (s, Raised ENotLinked) else
      let s1 := set_next_run j (Some (now s + jsecs (jobs s j))) s in
      lift (update_job fuel j s1) s1
  | OSetCountdown j secs =>
      if is_finished s j then (s, Raised EAlreadyFinished) else
      if secs <=? 0 then (s, Raised EValueError) else
      (set_job j (with_secs (jobs s j) secs) s, Done)
  | OEnable b =>
      if Bool.eqb b (enabled s) then (s, Done) else
      let s1 := set_enabled_f b s in lift (set_timer fuel s1) s1
  | ORegister j w cb =>
      let b := jobs s j in
      match w with
      | CbUpd => if memb cb (jcbu b) then (s, Done) else (set_job j (with_cbu b (jcbu b ++ [cb])) s, Done)
      | CbFin => if memb cb (jcbf b) then (s, Done) else (set_job j (with_cbf b (jcbf b ++ [cb])) s, Done)
      end
  | OUnregister j w cb =>
      let b := jobs s j in
      match w with
      | CbUpd => (set_job j (with_cbu b (filter (fun c => negb (Nat.eqb c cb)) (jcbu b))) s, Done)
      | CbFin => (set_job j (with_cbf b (filter (fun c => negb (Nat.eqb c cb)) (jcbf b))) s, Done)
      end
  | OAdvance d => (set_now (now s + Z.max 0 d) s, Done)
  | OWake =>
      match timer s with
      | Some w => if w <=? now s then lift (run_jobs fuel s) s else (s, Done)
      | None => (s, Done)
      end
  | OEarlyWake =>
      match timer s with
      | Some _ => lift (run_jobs fuel s) s
      | None => (s, Done)
      end
  end.

Definition step (fuel : nat) (has_store : bool) (s : st) (o : op) : st * outcome :=
  let '(s', r) := step_op fuel has_store s o in (set_opi (S (opi s')) s', r).

Definition init (t0 : Z) (en : bool) : st :=
  {| now := t0; enabled := en; timer := None; queue := []; jobs := fun _ => dummy_job; njobs := O;
     store := []; log := []; opi := O; broken := false |}.

Fixpoint run (fuel : nat) (has_store : bool) (s : st) (ops : list op) : st * list outcome :=
  match ops with
  | [] => (s, [])
  | o :: t => let '(s1, r) := step fuel has_store s o in
              let '(s2, rs) := run fuel has_store s1 t in (s2, r :: rs)
  end.

End WithEnv.
