(* SchedIso.v — C10: exceptions raised by callables and callbacks have no effect other than reaching the
   exception handler.  [er] erases the handler events of user failures from the log; running with failing user
   code and then erasing is the same as running the failure-free environment. *)
From EAS Require Import Base BaseFacts Sched SchedInv SchedApi.
From EASGen Require Import Generated.

Section Iso.
Variable E : env.

(* the same environment (same triggers) in which no callable and no callback ever raises *)
Definition quiet_env : env := {| prod := prod E; fail_exec := fun _ _ => false; fail_cb := fun _ _ => false |}.
Notation E0 := quiet_env.

Definition user_failure (e : event) : bool :=
  match e with EHandler (HExec _) | EHandler (HCb _) => true | _ => false end.
Definition erase (l : list event) : list event := filter (fun e => negb (user_failure e)) l.
Definition er (s : st) : st := set_log (erase (log s)) s.

Lemma count_exec_erase j l : count_exec j (erase l) = count_exec j l.
Proof.
  induction l as [|e t IH]; [reflexivity|].
  destruct e as [ | | |[]| ]; cbn; fold (erase t); rewrite ?IH; reflexivity.
Qed.
Lemma count_prod_erase j l : count_prod j (erase l) = count_prod j l.
Proof.
  induction l as [|e t IH]; [reflexivity|].
  destruct e as [ | | |[]| ]; cbn; fold (erase t); rewrite ?IH; reflexivity.
Qed.
Lemma count_cb_erase c l : count_cb c (erase l) = count_cb c l.
Proof.
  induction l as [|e t IH]; [reflexivity|].
  destruct e as [ | | |[]| ]; cbn; fold (erase t); rewrite ?IH; reflexivity.
Qed.

Lemma er_add_kept e s : user_failure e = false -> er (add_ev e s) = add_ev e (er s).
Proof. intros H. unfold er, add_ev, erase. cbn. rewrite H. reflexivity. Qed.
Lemma er_add_erased e s : user_failure e = true -> er (add_ev e s) = er s.
Proof. intros H. unfold er, add_ev, erase. cbn. rewrite H. reflexivity. Qed.

Lemma er_run_cbs mk cbs s :
  (forall cb, user_failure (mk cb) = false) ->
  er (run_cbs E mk cbs s) = run_cbs E0 mk cbs (er s).
Proof.
  intros Hmk. revert s; induction cbs as [|cb t IH]; intros s; cbn [run_cbs]; [reflexivity|].
  cbn [fail_cb quiet_env]. rewrite IH. f_equal.
  destruct (fail_cb E cb _); [rewrite er_add_erased by reflexivity|]; apply er_add_kept; apply Hmk.
Qed.

Lemma er_set_next_run j nx s : er (set_next_run E j nx s) = set_next_run E0 j nx (er s).
Proof. unfold set_next_run. rewrite er_run_cbs by reflexivity. reflexivity. Qed.

Lemma er_finish_job j s : er (finish_job E j s) = finish_job E0 j (er s).
Proof.
  unfold finish_job. rewrite er_run_cbs by reflexivity. cbn [jobs er set_log].
  destruct (jstored (jobs s j)); reflexivity.
Qed.

Lemma er_exec_pre j t s : er (exec_pre E j t s) = exec_pre E0 j t (er s).
Proof.
  unfold exec_pre. cbn [fail_exec quiet_env log er set_log now opi].
  destruct (fail_exec E j _); [rewrite er_add_erased by reflexivity|]; rewrite er_add_kept by reflexivity; reflexivity.
Qed.

Lemma er_set_timer_f v s : set_timer_f v (er s) = er (set_timer_f v s).
Proof. reflexivity. Qed.
Lemma er_set_queue q s : set_queue q (er s) = er (set_queue q s).
Proof. reflexivity. Qed.

Lemma insort_er s j q : insort (er s) j q = insort s j q.
Proof. induction q as [|h t IH]; cbn [insort]; [reflexivity|]. rewrite IH. reflexivity. Qed.

Definition omap (o : option st) : option st := match o with Some s => Some (er s) | None => None end.

Definition iso_specs (f : nat) : Prop :=
  (forall s, omap (set_timer E f s) = set_timer E0 f (er s)) /\
  (forall s, omap (run_jobs E f s) = run_jobs E0 f (er s)) /\
  (forall s, omap (run_loop E f s) = run_loop E0 f (er s)) /\
  (forall j s, omap (add_job E f j s) = add_job E0 f j (er s)) /\
  (forall j s, omap (remove_job E f j s) = remove_job E0 f j (er s)) /\
  (forall j t s, omap (exec_job E f j t s) = exec_job E0 f j t (er s)).

Theorem iso_specs_all : forall f, iso_specs f.
Proof.
  induction f as [|f (IHst & IHrj & IHlp & IHadd & IHrm & IHex)].
  - repeat split; intros; reflexivity.
  - split; [|split; [|split; [|split; [|split]]]].
    + intros s. rewrite !set_timer_S. cbv zeta. cbn [queue enabled jobs now er set_log set_timer_f].
      destruct (queue s) as [|h q]; [reflexivity|].
      destruct (negb (enabled s)); [reflexivity|].
      destruct (jnext (jobs s h)) as [t|]; [|reflexivity].
      destruct (t <=? now s); [|reflexivity]. apply IHrj.
    + intros s. rewrite !run_jobs_S. cbv zeta.
      rewrite er_set_timer_f. rewrite <- IHlp.
      destruct (run_loop E f (set_timer_f None s)) as [s1|]; cbn [omap]; [|reflexivity].
      cbn [broken queue er set_log]. destruct (broken s1); [reflexivity|].
      destruct (queue s1); [reflexivity|]. apply IHst.
    + intros s. rewrite !run_loop_S. cbn [queue jobs now er set_log].
      destruct (queue s) as [|h q]; [reflexivity|].
      destruct (jnext (jobs s h)) as [t|]; [|reflexivity].
      destruct (now s <? t); [reflexivity|]. cbv zeta.
      rewrite er_set_queue. rewrite <- IHex.
      destruct (exec_job E f h t (set_queue q s)) as [s2|]; cbn [omap]; [|reflexivity].
      cbn [jobs er set_log].
      destruct (status_eqb (jstatus (jobs s2 h)) Running).
      * rewrite <- IHadd. destruct (add_job E f h s2) as [s3|]; cbn [omap]; [apply IHlp|reflexivity].
      * apply IHlp.
    + intros j s. rewrite !add_job_S. cbn [jobs er set_log queue].
      destruct (status_eqb _ _); [|reflexivity]. cbv zeta.
      rewrite insort_er.
      destruct (is_head j (insort s j (queue s))); [|reflexivity].
      rewrite er_set_queue. apply IHst.
    + intros j s. rewrite !remove_job_S. cbn [queue er set_log].
      destruct (queue s) as [|h t]; [apply IHst|]. cbv zeta.
      destruct (remove_first j (h :: t)) as [|h' t'].
      * rewrite er_set_queue. apply IHst.
      * destruct (Nat.eqb h j); [|reflexivity].
        rewrite er_set_queue. apply IHst.
    + intros j t s. rewrite !exec_job_S. cbv zeta. rewrite <- er_exec_pre.
      set (s0 := exec_pre E j t s). cbn [jobs er set_log].
      destruct (jkind (jobs s0 j)).
      * rewrite <- IHrm. destruct (remove_job E f j s0) as [s1|]; cbn [omap]; [|reflexivity].
        rewrite er_finish_job. reflexivity.
      * cbn [omap]. rewrite er_set_next_run. reflexivity.
      * cbn [log er set_log prod quiet_env]. rewrite count_prod_erase.
        rewrite <- (er_add_kept (EProd j) s0 eq_refl).
        set (s1 := add_ev (EProd j) s0).
        change (now (er s1)) with (now s0). change (now s1) with (now s0).
        destruct (prod E j (count_prod j (log s0)) (now s0)) as [v|e|]; cbn [omap].
        -- unfold too_old. change (now (er s1)) with (now s1).
           destruct (v <? now s1 - past_tolerance_ns); cbn [omap].
           ++ rewrite er_add_kept by reflexivity. reflexivity.
           ++ rewrite er_set_next_run. reflexivity.
        -- rewrite er_add_kept by reflexivity. reflexivity.
        -- reflexivity.
Qed.

Definition pmap (x : st * outcome) : st * outcome := (er (fst x), snd x).

Lemma pmap_lift o s0 : pmap (lift o s0) = lift (omap o) (er s0).
Proof. destruct o; reflexivity. Qed.

Lemma iso_job_finish f j s : omap (job_finish E f j s) = job_finish E0 f j (er s).
Proof.
  rewrite !job_finish_eq. destruct (iso_specs_all f) as (_ & _ & _ & _ & Hrm & _). rewrite <- Hrm.
  destruct (remove_job E f j s) as [s1|]; cbn [omap]; [rewrite er_finish_job|]; reflexivity.
Qed.

Lemma iso_update_job f j s : omap (update_job E f j s) = update_job E0 f j (er s).
Proof.
  unfold update_job. destruct (iso_specs_all f) as (_ & _ & _ & Hadd & Hrm & _). rewrite <- Hrm.
  destruct (remove_job E f j s) as [s1|]; cbn [omap]; [apply Hadd|reflexivity].
Qed.

Lemma er_set_job j b s : set_job j b (er s) = er (set_job j b s).
Proof. reflexivity. Qed.

Lemma iso_create f hs b s : pmap (create E f hs b s) = create E0 f hs b (er s).
Proof.
  unfold create. cbn [store njobs er set_log].
  destruct (hs && store_has (jkey b) (store s)); [reflexivity|]. cbv zeta.
  set (b1 := with_linked (with_stored b hs) true).
  set (s1 := if hs then set_store ((jkey b1, njobs s) :: store (set_njobs (S (njobs s)) (set_job (njobs s) b1 s)))
                         (set_njobs (S (njobs s)) (set_job (njobs s) b1 s))
             else set_njobs (S (njobs s)) (set_job (njobs s) b1 s)).
  assert (Hs1 : (if hs then set_store ((jkey b1, njobs s) :: store (set_njobs (S (njobs s)) (set_job (njobs s) b1 (er s))))
                         (set_njobs (S (njobs s)) (set_job (njobs s) b1 (er s)))
                 else set_njobs (S (njobs s)) (set_job (njobs s) b1 (er s))) = er s1).
  { subst s1. destruct hs; reflexivity. }
  rewrite Hs1. clearbody s1. clear Hs1.
  destruct (iso_specs_all f) as (_ & _ & _ & Hadd & _).
  assert (Hfin : forall sx e,
     pmap (match job_finish E f (njobs s) sx with Some sy => (sy, Raised e) | None => (sx, NoFuel) end) =
     match job_finish E0 f (njobs s) (er sx) with Some sy => (sy, Raised e) | None => (er sx, NoFuel) end).
  { intros sx e. rewrite <- iso_job_finish. destruct (job_finish E f (njobs s) sx); reflexivity. }
  assert (Harm : forall sx nx,
     pmap (lift (add_job E f (njobs s) (set_next_run E (njobs s) nx sx)) (set_next_run E (njobs s) nx sx)) =
     lift (add_job E0 f (njobs s) (set_next_run E0 (njobs s) nx (er sx))) (set_next_run E0 (njobs s) nx (er sx))).
  { intros sx nx. rewrite pmap_lift, Hadd, er_set_next_run. reflexivity. }
  destruct (jkind b1).
  - unfold too_old. change (now (er s1)) with (now s1).
    destruct (jexec_t b1 <? now s1 - past_tolerance_ns); [apply Hfin|apply Harm].
  - apply Harm.
  - cbn [log er set_log prod quiet_env]. rewrite count_prod_erase.
    rewrite <- (er_add_kept (EProd (njobs s)) s1 eq_refl).
    set (s2 := add_ev (EProd (njobs s)) s1).
    change (now (er s2)) with (now s1). change (now s2) with (now s1).
    destruct (prod E (njobs s) (count_prod (njobs s) (log s1)) (now s1)) as [v|e|].
    + unfold too_old. change (now (er s2)) with (now s2).
      destruct (v <? now s2 - past_tolerance_ns); [apply Hfin|apply Harm].
    + apply Hfin.
    + reflexivity.
Qed.

Theorem iso_step_op f hs s o : pmap (step_op E f hs s o) = step_op E0 f hs (er s) o.
Proof.
  destruct (iso_specs_all f) as (Hst & Hrj & _ & _ & Hrm & _).
  destruct o; cbn [step_op].
  - apply iso_create.
  - destruct (secs <=? 0); [reflexivity|apply iso_create].
  - apply iso_create.
  - unfold is_finished. cbn [jobs er set_log]. destruct (status_eqb _ _); [reflexivity|].
    rewrite pmap_lift, iso_job_finish. reflexivity.
  - unfold is_finished. cbn [jobs er set_log]. destruct (status_eqb _ _); [reflexivity|].
    rewrite <- Hrm. destruct (remove_job E f j s) as [s1|]; cbn [omap]; [|reflexivity].
    unfold pmap; cbn [fst snd]. rewrite er_set_next_run. reflexivity.
  - unfold is_finished. cbn [jobs er set_log]. destruct (status_eqb _ _); [reflexivity|].
    destruct (negb (jlinked (jobs s j))); [reflexivity|]. cbv zeta.
    cbn [log er set_log prod quiet_env now]. rewrite count_prod_erase.
    rewrite <- (er_add_kept (EProd j) s eq_refl). set (s1 := add_ev (EProd j) s).
    destruct (prod E j (count_prod j (log s)) (now s)) as [v|e|]; [|reflexivity|reflexivity].
    unfold too_old. change (now (er s1)) with (now s1).
    destruct (v <? now s1 - past_tolerance_ns); [reflexivity|].
    rewrite pmap_lift, iso_update_job, er_set_next_run. reflexivity.
  - cbn [jobs er set_log now]. destruct (negb (jlinked (jobs s j))); [reflexivity|]. cbv zeta.
    rewrite pmap_lift, iso_update_job, er_set_next_run. reflexivity.
  - unfold is_finished. cbn [jobs er set_log]. destruct (status_eqb _ _); [reflexivity|].
    destruct (secs <=? 0); reflexivity.
  - cbn [enabled er set_log]. destruct (Bool.eqb b (enabled s)); [reflexivity|]. cbv zeta.
    rewrite pmap_lift, Hst. reflexivity.
  - cbn [jobs er set_log]. destruct w; [destruct (memb cb (jcbu (jobs s j)))|destruct (memb cb (jcbf (jobs s j)))]; reflexivity.
  - destruct w; reflexivity.
  - reflexivity.
  - cbn [timer now er set_log]. destruct (timer s) as [w|]; [|reflexivity].
    destruct (w <=? now s); [|reflexivity]. rewrite pmap_lift, Hrj. reflexivity.
  - cbn [timer er set_log]. destruct (timer s) as [w|]; [|reflexivity]. rewrite pmap_lift, Hrj. reflexivity.
Qed.

Theorem iso_step f hs s o : pmap (step E f hs s o) = step E0 f hs (er s) o.
Proof.
  unfold step. rewrite <- iso_step_op. destruct (step_op E f hs s o) as (s1, r). reflexivity.
Qed.

(* every history: same outcomes, same final state up to the erased handler events *)
Theorem iso_run f hs ops : forall s,
  run E0 f hs (er s) ops = (er (fst (run E f hs s ops)), snd (run E f hs s ops)).
Proof.
  induction ops as [|o t IH]; intros s; cbn [run]; [reflexivity|].
  rewrite <- iso_step. destruct (step E f hs s o) as (s1, r). unfold pmap; cbn [fst snd].
  rewrite IH. destruct (run E f hs s1 t) as (s2, rs). reflexivity.
Qed.

Lemma er_init t0 en : er (init t0 en) = init t0 en.
Proof. reflexivity. Qed.

Theorem failures_isolated f hs t0 en ops :
  run E0 f hs (init t0 en) ops =
  (er (fst (run E f hs (init t0 en) ops)), snd (run E f hs (init t0 en) ops)).
Proof. rewrite <- (er_init t0 en) at 1. apply iso_run. Qed.

End Iso.
