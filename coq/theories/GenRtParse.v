(* GenRtParse.v — what the code generated from the argument parser of src/eascheduler/builder/helper.py
   (_wrapped_range, _parse_single_value, _parse_str_options, _parse_values, get_weekdays / get_days / get_months) and
   from the name tables of src/eascheduler/const.py (get_day_nr, get_month_nr, __create_names and its three closures)
   is expressed in (coq/gen/GenParse.v, written by tools/gen_parse.py on every run).  Hand-written, no proofs
   (GenParseEq.v).  The primitives of str / set / range are those of Parse.v (strings = lists of code points, sets =
   strictly increasing lists); this file adds what Parse.v has no name for: the `for` loop, dicts as insertion-ordered
   association lists, enumerate, slicing, sorted(items), date.strftime under the C locale.
   Every definition here is the meaning of one Python construct: see the TRUSTED rules P1..P14 in gen_parse.py. *)
From EAS Require Import Base Civil Parse.

(* for x in l: <body>   — the body maps the loop-carried variables [acc] to their new values or raises (P3) *)
Fixpoint for_each {A S : Type} (l : list A) (acc : S) (body : A -> S -> result S) : result S :=
  match l with
  | [] => Ok acc
  | a :: t => bind (body a acc) (fun acc' => for_each t acc' body)
  end.

(* truthiness of a tuple / list:  `if values` *)
Definition nonempty {A} (l : list A) : bool := match l with [] => false | _ => true end.
(* truthiness of `int | None`:  `if cut` — None and 0 are false; Some c: the int the branch then works with *)
Definition truthy_optint (c : option Z) : option Z :=
  match c with Some c => if c =? 0 then None else Some c | None => None end.

(* a value of type HINT_NAME_OR_NR used as a str (value.strip()) / as an iterable of such values (for value in values):
   any other class is an AttributeError / TypeError in Python (P2; proved unreachable in GenParseEq.v) *)
Definition as_str (v : pval) : result str := match v with VStr s => Ok s | _ => Raise EOther end.
Definition as_list (v : pval) : result (list pval) := match v with VList l => Ok l | _ => Raise ETypeError end.

(* int(s) *)
Definition int_of_str (s : str) : result Z := match py_int s with Some n => Ok n | None => Raise EValueError end.

(* a, b = s.split(d, 1) *)
Definition split2 (d : Z) (s : str) : result (str * str) :=
  match split_first d s with Some ab => Ok ab | None => Raise EValueError end.      (* not enough values to unpack *)

(* sorted(<set>) : sets are strictly increasing lists *)
Definition sorted_of_set (l : list Z) : list Z := l.

(* dict[str, int] : association list in insertion order *)
Definition pdict := list (str * Z).
Definition dict_mem (k : str) (d : pdict) : bool := match assoc k d with Some _ => true | None => false end.   (* k in d *)
Definition dict_getitem (k : str) (d : pdict) : result Z :=                                                  (* d[k] *)
  match assoc k d with Some v => Ok v | None => Raise EKeyError end.
Fixpoint dict_set (k : str) (v : Z) (d : pdict) : pdict :=                                                    (* d[k] = v *)
  match d with
  | [] => [(k, v)]
  | (k', v') :: t => if str_eqb k k' then (k', v) :: t else (k', v') :: dict_set k v t
  end.

(* enumerate(l, start=n) *)
Fixpoint enumerate_from {A} (n : Z) (l : list A) : list (Z * A) :=
  match l with [] => [] | a :: t => (n, a) :: enumerate_from (n + 1) t end.

(* s[:c] *)
Definition py_prefix (c : Z) (s : str) : str :=
  if c <? 0 then firstn (length s - Z.to_nat (- c)) s else firstn (Z.to_nat c) s.

(* str < str : lexicographic on code points *)
Fixpoint str_ltb (a b : str) : bool :=
  match a, b with
  | _, [] => false
  | [], _ :: _ => true
  | x :: a', y :: b' => (x <? y) || ((x =? y) && str_ltb a' b')
  end.
(* sorted(d.items(), key=lambda x: (x[1], x[0])) : stable insertion sort on (value, key): an item goes behind
   everything that is not greater *)
Definition item_ltb (p q : str * Z) : bool :=
  (snd p <? snd q) || ((snd p =? snd q) && str_ltb (fst p) (fst q)).
Fixpoint item_insert (p : str * Z) (l : list (str * Z)) : list (str * Z) :=
  match l with
  | [] => [p]
  | q :: t => if item_ltb p q then p :: l else q :: item_insert p t
  end.
Definition sort_items (d : pdict) : list (str * Z) := fold_right item_insert [] (rev d).

(* datetime.date(y, m, d) : the day number, ValueError unless 1 <= y <= 9999 and the date exists *)
Definition mk_date (y m d : Z) : result Z :=
  if (1 <=? y) && (y <=? 9999) && valid_date y m d then Ok (days_from_civil y m d) else Raise EValueError.

(* date.strftime('%A' | '%a' | '%B' | '%b') under LC_ALL=C (P12) *)
Definition c_day_names : list str := [
  [77; 111; 110; 100; 97; 121]; [84; 117; 101; 115; 100; 97; 121]; [87; 101; 100; 110; 101; 115; 100; 97; 121];
  [84; 104; 117; 114; 115; 100; 97; 121]; [70; 114; 105; 100; 97; 121]; [83; 97; 116; 117; 114; 100; 97; 121];
  [83; 117; 110; 100; 97; 121]].
Definition c_month_names : list str := [
  [74; 97; 110; 117; 97; 114; 121]; [70; 101; 98; 114; 117; 97; 114; 121]; [77; 97; 114; 99; 104];
  [65; 112; 114; 105; 108]; [77; 97; 121]; [74; 117; 110; 101]; [74; 117; 108; 121]; [65; 117; 103; 117; 115; 116];
  [83; 101; 112; 116; 101; 109; 98; 101; 114]; [79; 99; 116; 111; 98; 101; 114]; [78; 111; 118; 101; 109; 98; 101; 114];
  [68; 101; 99; 101; 109; 98; 101; 114]].
Definition strftime_A (day : Z) : str := nth (Z.to_nat (weekday_of_day day - 1)) c_day_names [].
Definition strftime_a (day : Z) : str := firstn 3 (strftime_A day).
Definition strftime_B (day : Z) : str := nth (Z.to_nat (month_of_day day - 1)) c_month_names [].
Definition strftime_b (day : Z) : str := firstn 3 (strftime_B day).
