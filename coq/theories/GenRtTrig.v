(* GenRtTrig.v — what the code generated from the builder DSL and the `copy` methods (coq/gen/GenTrig.v, written by
   tools/gen_trig.py from src/eascheduler/builder/{triggers,filters,helper}.py, producers/{base,prod_time,
   prod_interval,prod_group,prod_operation,prod_filter}.py and helpers/time_replace.py on every run) is expressed in.
   No proofs here.

   Unlike Builder.v (objects are VALUES in an append-only list, so sharing cannot even be said) this runtime has a
   HEAP of objects with identity: an object is a class tag and its slots, an address is its index, allocation
   appends, `x.a = v` updates the cell in place.  A Python value is a [val] (dynamically typed); a Python function
   becomes   trec -> val -> ... -> val -> TM val   with
     * [None]                  the translation is stuck: out of fuel, or an operation applied to a value of the
                               wrong shape (AttributeError & co. of a dynamically typed program; proved absent);
     * [Some (h, TRet v)]      the function returned v and left the heap h;
     * [Some (h, TExc e)]      it raised e (Python semantics: the exception propagates; nothing here catches).
   Calls on a receiver other than `self` (`x.copy()`, `x.add_filter(f)`) dispatch on the class of the receiver
   through the record [trec] (open recursion; GenTrigEq.v ties the knot with one unit of fuel per call). *)
From EAS Require Import Base Civil Time Filters Replace Producers.
From Coq Require Import String.
Open Scope Z_scope.

Definition addr := nat.

(* the classes that are instantiated by the translated code (gen_trig.py checks that its list is this one) *)
Inductive cls :=
  | C_TimeReplacer
  | C_TimeProducer | C_IntervalProducer | C_GroupProducer
  | C_OffsetProducerOperation | C_EarliestProducerOperation | C_LatestProducerOperation | C_JitterProducerOperation
  | C_AnyGroupProducerFilter | C_AllGroupProducerFilter | C_InvertingProducerFilter | C_TimeProducerFilter
  | C_DayOfWeekProducerFilter | C_DayOfMonthProducerFilter | C_MonthOfYearProducerFilter
  | C_TriggerObject | C_FilterObject.

Inductive val :=
  | VNone
  | VBool (b : bool)
  | VZ (z : Z)                     (* Instant / Time / float seconds (all integer nanoseconds), int *)
  | VRef (a : addr)                (* an object *)
  | VTuple (l : list val)          (* tuple / list / frozenset / the values of a generator, in order *)
  | VSk (p : skipped_pol)          (* a member of SkippedTimeBehavior *)
  | VRp (p : repeated_pol)         (* a member of RepeatedTimeBehavior *)
  | VOpaque.                       (* a message string *)

Record hobj := { ocls : cls; oslots : list (string * val) }.
Definition heap := list hobj.

Inductive tres (A : Type) := TRet (a : A) | TExc (e : err).
Arguments TRet {A} a.
Arguments TExc {A} e.
Definition TM (A : Type) : Type := heap -> option (heap * tres A).

Definition ret {A} (a : A) : TM A := fun h => Some (h, TRet a).
Definition raise_ {A} (e : err) : TM A := fun h => Some (h, TExc e).
Definition stuck {A} : TM A := fun _ => None.
Definition bind {A B} (m : TM A) (f : A -> TM B) : TM B := fun h =>
  match m h with
  | None => None
  | Some (h1, TRet a) => f a h1
  | Some (h1, TExc e) => Some (h1, TExc e)
  end.

Record trec := { r_call : string -> val -> list val -> TM val }.

(* ---- slots and cells ---- *)
Fixpoint get_slot (sl : list (string * val)) (n : string) : option val :=
  match sl with
  | [] => None
  | (m, v) :: t => if String.eqb m n then Some v else get_slot t n
  end.
Fixpoint put_slot (sl : list (string * val)) (n : string) (v : val) : list (string * val) :=
  match sl with
  | [] => [(n, v)]
  | (m, w) :: t => if String.eqb m n then (n, v) :: t else (m, w) :: put_slot t n v
  end.
Fixpoint upd {A} (l : list A) (i : nat) (x : A) : list A :=
  match l, i with
  | [], _ => []
  | _ :: t, O => x :: t
  | y :: t, S j => y :: upd t j x
  end.

(* object.__new__ *)
Definition alloc (c : cls) : TM val := fun h => Some (h ++ [{| ocls := c; oslots := [] |}], TRet (VRef (List.length h))).
(* o.n *)
Definition get_attr (o : val) (n : string) : TM val := fun h =>
  match o with
  | VRef a => match nth_error h a with
              | Some ob => match get_slot (oslots ob) n with Some v => Some (h, TRet v) | None => None end
              | None => None
              end
  | _ => None
  end.
(* o.n = v *)
Definition set_attr (o : val) (n : string) (v : val) : TM val := fun h =>
  match o with
  | VRef a => match nth_error h a with
              | Some ob => Some (upd h a {| ocls := ocls ob; oslots := put_slot (oslots ob) n v |}, TRet VNone)
              | None => None
              end
  | _ => None
  end.
Definition class_of_ (o : val) : TM cls := fun h =>
  match o with
  | VRef a => match nth_error h a with Some ob => Some (h, TRet (ocls ob)) | None => None end
  | _ => None
  end.
(* isinstance(o, K): [sub] is the generated table "is a subclass of K"; None, numbers, tuples are no instances *)
Definition isinstance_ (sub : cls -> bool) (o : val) : TM val := fun h =>
  match o with
  | VRef a => match nth_error h a with Some ob => Some (h, TRet (VBool (sub (ocls ob)))) | None => None end
  | _ => Some (h, TRet (VBool false))
  end.

(* ---- control ---- *)
Definition cond {A} (c : val) (a b : TM A) : TM A :=
  match c with VBool true => a | VBool false => b | _ => stuck end.
Definition v_is_none (v : val) : val := VBool (match v with VNone => true | _ => false end).
Definition v_not (v : val) : val := match v with VBool b => VBool (negb b) | _ => VOpaque end.
Definition v_and (a b : val) : val := match a, b with VBool x, VBool y => VBool (x && y) | _, _ => VOpaque end.
Definition v_or (a b : val) : val := match a, b with VBool x, VBool y => VBool (x || y) | _, _ => VOpaque end.
Definition v_cmp (f : Z -> Z -> bool) (a b : val) : val := match a, b with VZ x, VZ y => VBool (f x y) | _, _ => VOpaque end.
Definition v_le := v_cmp Z.leb.
Definition v_lt := v_cmp Z.ltb.
Definition v_ge := v_cmp Z.geb.
Definition v_gt := v_cmp Z.gtb.

(* ---- tuples ---- *)
Fixpoint map_list (f : val -> TM val) (l : list val) : TM (list val) :=
  match l with
  | [] => ret []
  | x :: t => bind (f x) (fun y => bind (map_list f t) (fun r => ret (y :: r)))
  end.
(* [f(x) for x in v] / (f(x) for x in v), evaluated eagerly, in order; the first exception propagates *)
Definition map_m (f : val -> TM val) (v : val) : TM val :=
  match v with VTuple l => bind (map_list f l) (fun r => ret (VTuple r)) | _ => stuck end.
Definition tuple_ (v : val) : TM val := match v with VTuple _ => ret v | _ => stuck end.
Definition frozenset_ (v : val) : TM val := match v with VTuple _ => ret v | _ => stuck end.
(* ( *a, b ) *)
Definition tuple_snoc (a b : val) : TM val := match a with VTuple l => ret (VTuple (l ++ [b])) | _ => stuck end.
(* v[k], k a literal *)
Definition index_ (v : val) (k : nat) : TM val :=
  match v with
  | VTuple l => match nth_error l k with Some x => ret x | None => raise_ EOther end
  | _ => stuck
  end.
(* a, b = v *)
Definition unpack2 (v : val) (k : val -> val -> TM val) : TM val :=
  match v with VTuple [a; b] => k a b | _ => stuck end.

(* ---- the argument parsers of builder/helper.py on arguments that are already parsed (TRUSTED, see gen_trig.py) ---- *)
Definition get_timedelta_secs_ (v : val) : TM val := match v with VZ _ => ret v | _ => stuck end.
Definition get_pos_timedelta_secs_ (v : val) : TM val :=
  match v with VZ z => if 0 <? z then ret v else raise_ EValueError | _ => stuck end.
Definition get_instant_ (v : val) : TM val := match v with VZ _ => ret v | _ => stuck end.
Definition get_time_ (v : val) : TM val := match v with VZ _ => ret v | _ => stuck end.
Definition get_numbers_ (v : val) : TM val := match v with VTuple _ => ret v | _ => stuck end.
Definition check_dst_handling_ (t f b : val) : TM val :=
  match f, b with VSk _, VRp _ => ret (VTuple [f; b]) | _, _ => stuck end.
Definition to_enum_sk (v : val) : TM val := match v with VSk _ => ret v | _ => stuck end.
Definition to_enum_rp (v : val) : TM val := match v with VRp _ => ret v | _ => stuck end.
