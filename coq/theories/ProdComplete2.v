(* ProdComplete2.v — C05, COMPLETENESS for group triggers: GroupProducer.get_next does not give up while an
   occurrence of a member that the group filter accepts lies within its [loop_bound] = 99 999 rounds.

   What a round does (ProdGroup.group_round_min): it moves the walk position to the EARLIEST occurrence of the
   union of the members after the position.  So round k looks at the k-th element (in increasing order, equal
   instants of different members counted once) of the union after the reference instant, and the horizon of the
   group is: the first 99 999 elements of the union after dt.  "At most 99 999 elements of the union lie in
   (dt, u]" is stated with a covering list L.
   * [group_complete]: generic members (specified up to a state invariant, as in ProdGroup.group_member_ok) that
     answer Ok from every position in [dt, u): an admissible u with at most 99 999 union elements in (dt, u]
     gives Ok v, v the earliest admissible element, v <= u;
   * [group_complete_tig]: the same for groups of time-of-day triggers, interval triggers with a start and groups
     of such; [cover] / [cover_spec]: a computable covering list for such expressions;
   * [time_member_live], [time_member_live_nofilter], [interval_member_live], [interval_member_live_nofilter]:
     the members answer Ok (from ProdComplete.time_complete / interval_complete);
   * [group_empty_raises]: the empty group raises ValueError (min() of an empty sequence);
   * [time_chain_never_starves]: following a time-of-day trigger from its own answers never meets
     InfiniteLoopDetectedError when every window of the walk contains an admissible day. *)
From EAS Require Import Base BaseFacts Civil CivilFacts Time TimeFacts TimeOrder Filters Replace ReplaceFacts
  Producers ProdStrict ProdEarliest ProdEarliest2 ProdGroup ProdComplete.
From EASGen Require Import Generated.

(* ------------------------------------------------------------------------------------------- *)
Section GroupComplete.
Variable E : penv.
Local Notation z := (pz E).
Variable Inv : pstate -> Prop.
Variable P : producer -> Z -> Prop.

(* a member answers Ok from position x, in every state satisfying the invariant *)
Definition live_at (q : producer) (x : Z) : Prop :=
  forall s, Inv s -> exists n s', get_next E q s x = (Ok n, s').

Lemma group_members_live : forall l s x acc,
  (forall q, In q l -> member_ok E Inv (P q) q) -> (forall q, In q l -> live_at q x) -> Inv s ->
  exists m s', group_members E l s x acc = (Ok m, s').
Proof.
  induction l as [|q t IH]; intros s x acc Hok Hlive HI.
  - rewrite group_members_nil. eauto.
  - rewrite group_members_cons. destruct (Hlive q (or_introl eq_refl) s HI) as (n & s1 & EG). rewrite EG.
    destruct (Hok q (or_introl eq_refl) s x _ s1 HI EG) as (HI1 & _).
    apply IH; [intros q' Hq'; apply Hok; right; exact Hq'|intros q' Hq'; apply Hlive; right; exact Hq'|exact HI1].
Qed.

Variable ps : list producer.
Variable f : option filt.
Variable dt u : Z.
Variable L : list Z.
Hypothesis Hok : forall q, In q ps -> member_ok E Inv (P q) q.
Hypothesis Hlive : forall q, In q ps -> forall x, dt <= x < u -> live_at q x.
Hypothesis Hu : union_occ P ps u.
Hypothesis Hau : allow_opt z f u = true.
Hypothesis Hdu : dt < u.
Hypothesis HL : forall w, union_occ P ps w -> dt < w <= u -> In w L.
Hypothesis HLlen : Z.of_nat (length L) <= LBZ.

(* the invariant after k rounds: k distinct elements of the union in (dt, x] have been looked at *)
Definition gc_I (k : nat) (xs : Z * pstate) : Prop :=
  group_I E Inv P ps f dt xs /\ fst xs < u /\
  exists V, length V = k /\ NoDup V /\ forall w, In w V -> union_occ P ps w /\ dt < w <= fst xs.
Definition gc_Q (rs : result Z * pstate) : Prop :=
  Inv (snd rs) /\ exists v, fst rs = Ok v /\ v <= u /\
    earliest_after (fun w => union_occ P ps w /\ allow_opt z f w = true) dt v.

Lemma gc_step k xs :
  gc_I k xs -> match group_round E ps f dt xs with inl xs' => gc_I (S k) xs' | inr rs => gc_Q rs end.
Proof.
  destruct xs as [x s]. intros (HI & Hxu & V & HVlen & HVnd & HV). cbn [fst] in Hxu, HV.
  pose proof (group_round_step E Inv P ps f dt Hok (x, s) HI) as Hstep.
  destruct HI as (HIs & Hdx & Hahead). cbn [fst snd] in HIs, Hdx, Hahead.
  destruct (group_members_live ps s x None Hok (fun q Hq => Hlive q Hq x (conj Hdx Hxu)) HIs) as (m & s1 & EM).
  destruct (group_round_min E Inv P ps s x _ s1 Hok HIs EM) as (HI1 & Hm). specialize (Hm m eq_refl).
  unfold group_round in *. rewrite EM in *. cbn [bind_state] in *.
  destruct m as [w|].
  - destruct Hm as (Uw & Hxw & Mw). pose proof (Mw u Hu Hxu) as Hwu.
    destruct ((dt <? w) && allow_opt z f w) eqn:EGd.
    + destruct Hstep as (HQ1 & HQ2). cbn [fst snd] in *. split; [exact HQ1|]. exists w.
      split; [reflexivity|]. split; [exact Hwu|]. apply HQ2. reflexivity.
    + split; [exact Hstep|]. cbn [fst].
      assert (Hne : w <> u).
      { intros ->. apply andb_false_iff in EGd. destruct EGd as [Ef|Ef]; [lia|congruence]. }
      split; [lia|]. exists (w :: V). split; [cbn [length]; lia|]. split.
      * constructor; [|exact HVnd]. intros Hin. destruct (HV w Hin) as (_ & Hr). lia.
      * intros w' [<-|Hin]; [split; [exact Uw|lia]|]. destruct (HV w' Hin) as (H1 & H2). split; [exact H1|lia].
  - exfalso. pose proof Hu as (q & Hq & _). rewrite Hm in Hq. destruct Hq.
Qed.

Theorem group_complete st :
  Inv st ->
  exists v st', get_next E (PGroup ps f) st dt = (Ok v, st') /\ Inv st' /\ v <= u /\
    earliest_after (fun w => union_occ P ps w /\ allow_opt z f w = true) dt v.
Proof.
  intros HIst. rewrite get_next_group, iter_until_nat.
  assert (Hinit : gc_I 0 (dt, st)).
  { split; [|split; [exact Hdu|]].
    - unfold group_I. cbn [fst snd]. split; [exact HIst|]. split; [lia|]. intros; assumption.
    - exists []. split; [reflexivity|]. split; [constructor|]. intros w []. }
  pose proof (iter_nat_rule_idx (group_round E ps f dt) gc_I gc_Q gc_step (Pos.to_nat loop_bound) 0%nat (dt, st) Hinit) as R.
  destruct (iter_nat (Pos.to_nat loop_bound) (group_round E ps f dt) (dt, st)) as [[x s]|[r s]].
  - exfalso. destruct R as (_ & Hxu & V & HVlen & HVnd & HV). cbn [fst] in Hxu, HV.
    assert (Hnd : NoDup (u :: V)).
    { constructor; [|exact HVnd]. intros Hin. destruct (HV u Hin) as (_ & Hr). lia. }
    assert (Hincl : incl (u :: V) L).
    { intros w [<-|Hin]; [apply HL; [exact Hu|lia]|]. destruct (HV w Hin) as (H1 & H2). apply HL; [exact H1|lia]. }
    pose proof (NoDup_incl_length Hnd Hincl) as Hlen. cbn [length] in Hlen.
    pose proof loop_bound_nat. lia.
  - destruct R as (HIs & v & Hv & Hvu & He). cbn [fst snd] in *. subst r.
    exists v, s. cbn [finish_loop]. split; [reflexivity|]. split; [exact HIs|]. split; assumption.
Qed.

End GroupComplete.

(* the empty group: min() of an empty sequence *)
Lemma group_empty_raises E f st dt : get_next E (PGroup [] f) st dt = (Raise EValueError, st).
Proof. reflexivity. Qed.

(* ------------------------------------------------------------------------------------------- *)
(* a computable covering list for time / interval / group expressions: every element of the occurrence set in
   (dt, u] is in it *)
Definition time_cover (z : tz) (tr : treplacer) (dt u : Z) : list Z :=
  flat_map (day_results z tr)
    (zseq (local_day (to_local z dt) - 1) (Z.to_nat (local_day (to_local z u) - local_day (to_local z dt) + 3))).
Definition interval_cover (s0 iv dt u : Z) : list Z :=
  map (fun k => ifirst s0 iv dt + k * iv) (zseq 0 (Z.to_nat ((u - dt) / iv + 1))).

Fixpoint cover (z : tz) (dt u : Z) (p : producer) : list Z :=
  match p with
  | PTime tr _ => time_cover z tr dt u
  | PInterval _ (Some s0) iv _ => interval_cover s0 iv dt u
  | PGroup ps _ =>
      (fix cm (l : list producer) : list Z := match l with [] => [] | q :: t => cover z dt u q ++ cm t end) ps
  | _ => []
  end.

Lemma cover_group_In z dt u ps f q : In q ps -> incl (cover z dt u q) (cover z dt u (PGroup ps f)).
Proof.
  cbn [cover]. induction ps as [|h t IH]; [intros []|].
  intros [<-|Hq]; [apply incl_appl; apply incl_refl|apply incl_appr; apply IH; exact Hq].
Qed.

Lemma time_cover_spec z tr dt u d w :
  spread z <= 4 * 3600 -> wf_tr tr -> In w (day_results z tr d) -> dt < w <= u -> In w (time_cover z tr dt u).
Proof.
  intros Hsp (Ht0 & Ht1) Hw (H1 & H2). unfold time_cover. apply in_flat_map. exists d. split; [|exact Hw].
  pose proof (day_results_walk_start z tr d w dt Hsp Ht1 Hw H1) as Hlo.
  assert (Hhi : d < local_day (to_local z u) + 2).
  { destruct (Z.lt_ge_cases d (local_day (to_local z u) + 2)) as [Hlt|Hge]; [exact Hlt|].
    pose proof (day_results_after_ref z tr d w u Hsp Ht0 Hw Hge). lia. }
  apply in_zseq. lia.
Qed.

Lemma interval_cover_spec s0 iv dt u w :
  0 < iv -> on_grid s0 iv w -> dt < w <= u -> In w (interval_cover s0 iv dt u).
Proof.
  intros Hiv Hw (H1 & H2). destruct (grid_point_index s0 iv dt w Hiv Hw H1) as (k & Hk & ->).
  destruct (ifirst_props s0 iv dt Hiv) as (_ & Hlo & _).
  unfold interval_cover. apply in_map_iff. exists k. split; [reflexivity|]. apply in_zseq.
  assert (k * iv < u - dt) by lia. assert (k <= (u - dt) / iv) by (apply Z.div_le_lower_bound; lia). lia.
Qed.

Theorem cover_spec z dt u : spread z <= 4 * 3600 ->
  forall p, tig p -> forall w, occ z p w -> dt < w <= u -> In w (cover z dt u p).
Proof.
  intros Hsp. fix IH 1. intros [tr f|id [s0|] iv f|ps f|q off f|q tr f|q tr f|q lo hi f|key f] Ht w Hw Hr;
    try (cbn [tig] in Ht; contradiction).
  - cbn [occ] in Hw. destruct Hw as (d & Hd & _). cbn [cover]. eapply time_cover_spec; eassumption.
  - cbn [occ] in Hw. destruct Hw as (Hg & _). cbn [cover]. apply interval_cover_spec; assumption.
  - apply occ_group_iff in Hw. destruct Hw as ((q & Hq & Hqw) & _).
    apply (cover_group_In z dt u ps f q Hq).
    assert (Htq : tig q) by (apply (tig_group_In ps f q Ht Hq)).
    clear Ht. revert q Hq Htq Hqw. generalize ps. fix IHl 1. intros [|h t] q Hq Htq Hqw; [destruct Hq|].
    destruct Hq as [<-|Hq].
    + apply IH; assumption.
    + apply (IHl t q Hq Htq Hqw).
Qed.

(* ------------------------------------------------------------------------------------------- *)
(* groups of time / interval / group expressions *)
Theorem group_complete_tig E G ps f st dt u :
  wf_tz_b (pz E) = true -> consistent G ->
  tig (PGroup ps f) -> incl (leaves (PGroup ps f)) G -> cache_on_grid G st ->
  (forall q, In q ps -> forall x, dt <= x < u -> live_at E (cache_on_grid G) q x) ->
  occ (pz E) (PGroup ps f) u -> dt < u ->
  Z.of_nat (length (cover (pz E) dt u (PGroup ps f))) <= LBZ ->
  exists v st', get_next E (PGroup ps f) st dt = (Ok v, st') /\ cache_on_grid G st' /\ v <= u /\
    earliest_after (occ (pz E) (PGroup ps f)) dt v.
Proof.
  intros Hz HG Ht Hl HI Hlive Hu Hdu Hlen.
  assert (Hm : forall q, In q ps -> member_ok E (cache_on_grid G) (occ (pz E) q) q).
  { intros q Hq. apply (tig_member_ok E G Hz HG q (tig_group_In ps f q Ht Hq)).
    eapply incl_tran; [apply (leaves_group_In ps f q Hq)|exact Hl]. }
  apply occ_group_iff in Hu. destruct Hu as (Hu & Hau).
  destruct (group_complete E (cache_on_grid G) (occ (pz E)) ps f dt u (cover (pz E) dt u (PGroup ps f))
              Hm Hlive Hu Hau Hdu) with (st := st) as (v & st' & Hn & HI' & Hvu & He).
  - intros w (q & Hq & Hqw) Hr. apply (cover_group_In (pz E) dt u ps f q Hq).
    apply (cover_spec (pz E) dt u (wf_tz_spread _ Hz) q (tig_group_In ps f q Ht Hq) w Hqw Hr).
  - exact Hlen.
  - exact HI.
  - exists v, st'. split; [exact Hn|]. split; [exact HI'|]. split; [exact Hvu|].
    eapply earliest_after_ext; [|exact He]. intros w. symmetry. apply occ_group_iff.
Qed.

(* the members answer: time-of-day members by [time_complete] (state-independent) *)
Lemma time_member_live E Inv tr f x d w :
  in_horizon (pz E) x d -> In w (day_results (pz E) tr d) -> x < w -> allow_opt (pz E) f w = true ->
  no_exn (pz E) tr -> live_at E Inv (PTime tr f) x.
Proof.
  intros Hh Hw Hxw Ha Hne s _.
  destruct (time_complete_get_next E tr f s x d w Hh Hw Hxw Ha (fun d' e _ => Hne d' e)) as (v & Hv). eauto.
Qed.

Lemma time_member_live_nofilter E Inv tr x :
  wf_tz_b (pz E) = true -> wf_tr tr -> tr_sk tr <> SkSkip -> tr_rp tr <> RpSkip -> no_exn (pz E) tr ->
  live_at E Inv (PTime tr None) x.
Proof.
  intros Hz Ht Hsk Hrp Hne s _.
  destruct (time_nofilter_never_starves (pz E) tr x Hz Ht Hsk Hrp Hne) as (v & Hv & _).
  exists v, s. cbn [get_next]. rewrite Hv. reflexivity.
Qed.

(* interval members (with a start): an admissible grid point within the fuel, wherever the cache stands on
   the grid *)
Lemma interval_member_live E G id s0 iv f x w :
  0 < iv -> In (id, s0, iv) G -> on_grid s0 iv w ->
  x < w <= x + Z.pos (interval_fuel E) * iv -> allow_opt (pz E) f w = true ->
  live_at E (cache_on_grid G) (PInterval id (Some s0) iv f) x.
Proof.
  intros Hiv Hin Hw Hr Ha s HI.
  assert (Hc : on_grid s0 iv (icell id (Some s0) s x)).
  { unfold icell. destruct (ilookup id (icache s)) as [c|] eqn:EL; [eapply HI; eassumption|apply on_grid_refl; exact Hiv]. }
  destruct (interval_complete_get_next E id (Some s0) iv f s x w Hiv) as (g & Hg & _);
    [apply (on_grid_trans s0 iv _ w Hiv Hc); exact Hw|exact Hr|exact Ha|]. eauto.
Qed.

Lemma interval_member_live_nofilter E Inv id start iv x : live_at E Inv (PInterval id start iv None) x.
Proof.
  intros s _. cbn [get_next]. rewrite interval_nofilter_ok. eauto.
Qed.

(* ------------------------------------------------------------------------------------------- *)
(* Example: the group of ProdGroup.v (hourly from 2025-06-02T00:00Z  UNION  12:00 local) with a Monday-only GROUP
   filter, asked on Friday 2025-06-06 12:30 local (10:30Z).  Every hourly point and every noon until Sunday night
   is rejected by the group filter (about 60 rounds); the first admissible element is Monday 2025-06-09 00:00
   local (2025-06-08T22:00Z).  The covering list has 66 elements. *)
Definition ex_gc_filter : option filt := Some (FWeekday [1]).
Definition ex_gc_dt : Z := 1749205800 * NS.
Definition ex_gc_u : Z := 1749420000 * NS.

Example ex_group_complete_hyps :
  wf_tz_b (pz ex_env) = true /\ tig (PGroup ex_members ex_gc_filter) /\
  consistent (leaves (PGroup ex_members ex_gc_filter)) /\
  (forall q, In q ex_members -> forall x, ex_gc_dt <= x < ex_gc_u ->
     live_at ex_env (cache_on_grid (leaves (PGroup ex_members ex_gc_filter))) q x) /\
  occ (pz ex_env) (PGroup ex_members ex_gc_filter) ex_gc_u /\ ex_gc_dt < ex_gc_u /\
  length (cover (pz ex_env) ex_gc_dt ex_gc_u (PGroup ex_members ex_gc_filter)) = 66%nat.
Proof.
  destruct ex_group_hyps as (Hz & Ht & Hc).
  split; [exact Hz|]. split; [exact Ht|]. split; [exact Hc|]. split; [|split; [|split]].
  - intros q [<-|[<-|[]]] x _.
    + apply interval_member_live_nofilter.
    + apply time_member_live_nofilter; [exact Hz| |discriminate|discriminate|].
      * unfold wf_tr. cbn [tr_tod]. change DAY with 86400000000000. change NS with 1000000000. lia.
      * apply replace_no_exn; [vm_compute; reflexivity|discriminate].
  - apply occ_group_iff. split; [|vm_compute; reflexivity].
    exists (PInterval 0 (Some (1748822400 * NS)) (3600 * NS) None). split; [left; reflexivity|].
    cbn [occ]. split; [vm_compute; reflexivity|reflexivity].
  - vm_compute; reflexivity.
  - vm_compute; reflexivity.
Qed.

Example ex_group_complete :
  exists v st', get_next ex_env (PGroup ex_members ex_gc_filter) pstate0 ex_gc_dt = (Ok v, st') /\ v <= ex_gc_u /\
    earliest_after (occ (pz ex_env) (PGroup ex_members ex_gc_filter)) ex_gc_dt v.
Proof.
  destruct ex_group_complete_hyps as (Hz & Ht & Hc & Hlive & Hu & Hdu & Hlen).
  destruct (group_complete_tig ex_env _ ex_members ex_gc_filter pstate0 ex_gc_dt ex_gc_u Hz Hc Ht (incl_refl _)
              (cache_on_grid_pstate0 _) Hlive Hu Hdu) as (v & st' & Hn & _ & Hvu & He).
  - rewrite Hlen. rewrite LBZ_val. lia.
  - exists v, st'. split; [exact Hn|]. split; assumption.
Qed.

Example ex_group_complete_value :
  fst (get_next ex_env (PGroup ex_members ex_gc_filter) pstate0 ex_gc_dt) = Ok ex_gc_u.
Proof. vm_compute. reflexivity. Qed.

(* ------------------------------------------------------------------------------------------- *)
(* The two side conditions of [group_complete_tig] cannot be dropped (both replayed on the implementation).

   (a) the horizon counts the elements of the UNION, not time: a group holding a single 5-second interval trigger,
   group filter Monday-only, asked on Tuesday 2025-06-03 00:00Z: the next Monday is 103 680 grid points away, the
   group gives up after 99 999 rounds with InfiniteLoopDetectedError - while the same interval trigger carrying
   the same filter itself (its search has no bound in the code) answers Monday 2025-06-09 00:00 local. *)
Definition ex_gh_env : penv :=
  {| pz := berlin2; draw := fun _ _ _ => 0; sun_ev := fun _ _ => None; location := None;
     interval_fuel := 1000000%positive |}.
Definition ex_gh_dt : Z := 1748908800 * NS.
Definition ex_gh_member (f : option filt) : producer := PInterval 0 (Some (1748822400 * NS)) (5 * NS) f.

Example ex_group_horizon_exhausted :
  fst (get_next ex_gh_env (PGroup [ex_gh_member None] ex_gc_filter) pstate0 ex_gh_dt) = Raise EInfiniteLoop.
Proof. vm_compute. reflexivity. Qed.

Example ex_member_alone_answers :
  fst (get_next ex_gh_env (ex_gh_member ex_gc_filter) pstate0 ex_gh_dt) = Ok ex_gc_u.
Proof. vm_compute. reflexivity. Qed.

Theorem group_complete_without_count_refuted :
  ~ (forall E ps f dt u,
       wf_tz_b (pz E) = true -> tig (PGroup ps f) -> consistent (leaves (PGroup ps f)) ->
       (forall q, In q ps -> forall x, dt <= x < u -> live_at E (cache_on_grid (leaves (PGroup ps f))) q x) ->
       occ (pz E) (PGroup ps f) u -> dt < u ->
       exists v st', get_next E (PGroup ps f) pstate0 dt = (Ok v, st')).
Proof.
  intros H.
  destruct (H ex_gh_env [ex_gh_member None] ex_gc_filter ex_gh_dt ex_gc_u) as (v & st' & Hv).
  - vm_compute; reflexivity.
  - cbn. split; [reflexivity|exact I].
  - intros id s0 iv s1 iv1 H1 H2. cbn in H1, H2. destruct H1 as [H1|[]]. destruct H2 as [H2|[]]. split; congruence.
  - intros q [<-|[]] x _. apply interval_member_live_nofilter.
  - apply occ_group_iff. split; [|vm_compute; reflexivity].
    exists (ex_gh_member None). split; [left; reflexivity|]. cbn [occ ex_gh_member].
    split; [vm_compute; reflexivity|reflexivity].
  - vm_compute; reflexivity.
  - pose proof ex_group_horizon_exhausted as Hx. rewrite Hv in Hx. discriminate.
Qed.

(* (b) a member that starves takes the group with it: daily 07:30 restricted to a day of the month that never
   comes, together with an unfiltered hourly trigger: the hourly occurrences are admissible occurrences of the
   union, the covering list is short, yet the group raises the member's InfiniteLoopDetectedError. *)
Definition ex_gs_members : list producer :=
  [PTime tr0730 (Some (FDay [])); PInterval 0 (Some (1748822400 * NS)) (3600 * NS) None].

Example ex_group_starving_member :
  fst (get_next ex_gh_env (PGroup ex_gs_members None) pstate0 ex_gh_dt) = Raise EInfiniteLoop.
Proof. vm_compute. reflexivity. Qed.

Theorem group_complete_without_live_members_refuted :
  ~ (forall E ps f dt u,
       wf_tz_b (pz E) = true -> tig (PGroup ps f) -> consistent (leaves (PGroup ps f)) ->
       occ (pz E) (PGroup ps f) u -> dt < u ->
       Z.of_nat (length (cover (pz E) dt u (PGroup ps f))) <= LBZ ->
       exists v st', get_next E (PGroup ps f) pstate0 dt = (Ok v, st')).
Proof.
  intros H.
  destruct (H ex_gh_env ex_gs_members None ex_gh_dt (ex_gh_dt + 3600 * NS)) as (v & st' & Hv).
  - vm_compute; reflexivity.
  - cbn. split; [apply ex_tr0730_wf|]. split; [reflexivity|exact I].
  - intros id s0 iv s1 iv1 H1 H2. cbn in H1, H2. destruct H1 as [H1|[]]. destruct H2 as [H2|[]]. split; congruence.
  - apply occ_group_iff. split; [|reflexivity].
    exists (PInterval 0 (Some (1748822400 * NS)) (3600 * NS) None). split; [right; left; reflexivity|].
    cbn [occ]. split; [vm_compute; reflexivity|reflexivity].
  - vm_compute; reflexivity.
  - vm_compute. discriminate.
  - pose proof ex_group_starving_member as Hx. rewrite Hv in Hx. discriminate.
Qed.
