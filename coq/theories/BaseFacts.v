(* BaseFacts.v — lemmas about the shared definitions of Base.v *)
From EAS Require Import Base.

Section Iter.
  Context {St Rt : Type}.
  Variable f : St -> St + Rt.

  Lemma iter_nat_add n m s :
    iter_nat (n + m) f s =
    match iter_nat n f s with inl s' => iter_nat m f s' | inr r => inr r end.
  Proof.
    revert s; induction n as [|n IH]; intros s; cbn [iter_nat Nat.add]; [reflexivity|].
    destruct (f s) as [s'|r]; [apply IH|reflexivity].
  Qed.

  Lemma iter_until_nat p s : iter_until p f s = iter_nat (Pos.to_nat p) f s.
  Proof.
    revert s; induction p as [p IH|p IH|]; intros s; cbn [iter_until].
    - rewrite Pos2Nat.inj_xI. cbn [iter_nat].
      destruct (f s) as [s'|r]; [|reflexivity].
      replace (2 * Pos.to_nat p)%nat with (Pos.to_nat p + Pos.to_nat p)%nat by lia.
      rewrite iter_nat_add, <- IH. destruct (iter_until p f s'); [apply IH|reflexivity].
    - rewrite Pos2Nat.inj_xO.
      replace (2 * Pos.to_nat p)%nat with (Pos.to_nat p + Pos.to_nat p)%nat by lia.
      rewrite iter_nat_add, <- IH. destruct (iter_until p f s); [apply IH|reflexivity].
    - rewrite Pos2Nat.inj_1. cbn [iter_nat]. destruct (f s); reflexivity.
  Qed.

  (* The one loop rule every producer proof uses: an invariant on continuing states, a
     post-condition on exits. *)
  Lemma iter_nat_rule (I : St -> Prop) (Q : Rt -> Prop) :
    (forall s, I s -> match f s with inl s' => I s' | inr r => Q r end) ->
    forall n s, I s -> match iter_nat n f s with inl s' => I s' | inr r => Q r end.
  Proof.
    intros Hstep n; induction n as [|n IH]; intros s Hs; cbn [iter_nat]; [exact Hs|].
    specialize (Hstep s Hs). destruct (f s) as [s'|r]; [apply IH; exact Hstep|exact Hstep].
  Qed.

  Lemma iter_until_rule (I : St -> Prop) (Q : Rt -> Prop) p s :
    (forall s, I s -> match f s with inl s' => I s' | inr r => Q r end) ->
    I s -> match iter_until p f s with inl s' => I s' | inr r => Q r end.
  Proof. intros H Hs. rewrite iter_until_nat. apply iter_nat_rule; assumption. Qed.

  (* measured variant: the invariant may mention the number of rounds already made *)
  Lemma iter_nat_rule_idx (I : nat -> St -> Prop) (Q : Rt -> Prop) :
    (forall k s, I k s -> match f s with inl s' => I (S k) s' | inr r => Q r end) ->
    forall n k s, I k s -> match iter_nat n f s with inl s' => I (n + k)%nat s' | inr r => Q r end.
  Proof.
    intros Hstep n; induction n as [|n IH]; intros k s Hs; cbn [iter_nat]; [exact Hs|].
    specialize (Hstep k s Hs). destruct (f s) as [s'|r]; [|exact Hstep].
    replace (S n + k)%nat with (n + S k)%nat by lia. apply IH; exact Hstep.
  Qed.
End Iter.

Lemma memb_In x l : memb x l = true <-> In x l.
Proof.
  induction l as [|y t IH]; cbn; [split; [discriminate|tauto]|].
  rewrite orb_true_iff, IH, Nat.eqb_eq. split; intros [H|H]; auto.
Qed.

Lemma zmemb_In x l : zmemb x l = true <-> In x l.
Proof.
  induction l as [|y t IH]; cbn; [split; [discriminate|tauto]|].
  rewrite orb_true_iff, IH, Z.eqb_eq. split; intros [H|H]; auto.
Qed.

Lemma remove_first_In x y l : In y (remove_first x l) -> In y l.
Proof.
  induction l as [|z t IH]; cbn; [tauto|].
  destruct (Nat.eqb x z); cbn; intuition.
Qed.

Lemma remove_first_notin x l : ~ In x l -> remove_first x l = l.
Proof.
  induction l as [|z t IH]; cbn; [reflexivity|]. intros H.
  destruct (Nat.eqb_spec x z) as [->|Hne]; [exfalso; apply H; auto|].
  f_equal. apply IH. tauto.
Qed.

Lemma remove_first_In_other x y l : In y l -> y <> x -> In y (remove_first x l).
Proof.
  induction l as [|z t IH]; cbn; [tauto|]. intros [->|H] Hne.
  - destruct (Nat.eqb_spec x y); [congruence|left; reflexivity].
  - destruct (Nat.eqb_spec x z); [assumption|right; auto].
Qed.

Lemma remove_first_NoDup x l : NoDup l -> NoDup (remove_first x l).
Proof.
  induction 1 as [|z t Hz Ht IH]; cbn; [constructor|].
  destruct (Nat.eqb x z); [assumption|]. constructor; [|assumption].
  intros H; apply Hz; eapply remove_first_In; eassumption.
Qed.

Lemma remove_first_NoDup_notin x l : NoDup l -> ~ In x (remove_first x l).
Proof.
  induction 1 as [|z t Hz Ht IH]; cbn; [tauto|].
  destruct (Nat.eqb_spec x z) as [->|Hne]; [assumption|].
  intros [H|H]; [congruence|tauto].
Qed.

Lemma bad_from_nil {A} (f : A -> bool) i l : bad_from f i l = [] <-> forall a, In a l -> f a = true.
Proof.
  revert i; induction l as [|a t IH]; intros i; cbn; [split; [intros _ ? []|reflexivity]|].
  destruct (f a) eqn:E.
  - rewrite IH. split; [intros H b [<-|Hb]; auto|intros H b Hb; auto].
  - split; [discriminate|]. intros H. specialize (H a (or_introl eq_refl)). congruence.
Qed.
