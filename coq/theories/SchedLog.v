(* SchedLog.v — what the core writes into the execution log: every start of a callable carries the
   announced next-run time, which is never later than the instant of the start (never early), and
   a disabled scheduler starts nothing. *)
From EAS Require Import Base BaseFacts Sched SchedInv SchedApi.
From EASGen Require Import Generated.

Section LogInv.
Variable E : env.
Variable Good : event -> Prop.
Hypothesis good_cbu : forall j cb st nx, Good (ECbUpd j cb st nx).
Hypothesis good_cbf : forall j cb, Good (ECbFin j cb).
Hypothesis good_handler : forall src, Good (EHandler src).
Hypothesis good_prod : forall j, Good (EProd j).
Hypothesis good_exec : forall j at_ a o, a <= at_ -> Good (EExec j at_ a o).

Definition LogOK (s : st) : Prop := Forall Good (log s).

Lemma LogOK_add e s : Good e -> LogOK s -> LogOK (add_ev e s).
Proof. intros He H. unfold LogOK, add_ev; cbn [log set_log]. constructor; assumption. Qed.

Lemma LogOK_same s s' : log s' = log s -> LogOK s -> LogOK s'.
Proof. unfold LogOK; intros ->; auto. Qed.

Lemma LogOK_run_cbs mk cbs s : (forall cb, Good (mk cb)) -> LogOK s -> LogOK (run_cbs E mk cbs s).
Proof.
  intros Hmk. revert s; induction cbs as [|cb t IH]; intros s H; cbn [run_cbs]; [exact H|].
  apply IH. destruct (fail_cb E cb _); repeat apply LogOK_add; auto.
Qed.

Lemma LogOK_set_next_run j nx s : LogOK s -> LogOK (set_next_run E j nx s).
Proof. intros H. unfold set_next_run. apply LogOK_run_cbs; [intros; apply good_cbu|exact H]. Qed.

Lemma LogOK_finish_job j s : LogOK s -> LogOK (finish_job E j s).
Proof.
  intros H. unfold finish_job. apply LogOK_run_cbs; [intros; apply good_cbf|].
  destruct (jstored (jobs s j)); exact H.
Qed.

Definition log_specs (f : nat) : Prop :=
  (forall s s', LogOK s -> set_timer E f s = Some s' -> LogOK s') /\
  (forall s s', LogOK s -> run_jobs E f s = Some s' -> LogOK s') /\
  (forall s s', LogOK s -> run_loop E f s = Some s' -> LogOK s') /\
  (forall j s s', LogOK s -> add_job E f j s = Some s' -> LogOK s') /\
  (forall j s s', LogOK s -> remove_job E f j s = Some s' -> LogOK s') /\
  (forall j t s s', t <= now s -> LogOK s -> exec_job E f j t s = Some s' -> LogOK s').

Theorem log_specs_all : forall f, log_specs f.
Proof.
  induction f as [|f (IHst & IHrj & IHlp & IHadd & IHrm & IHex)].
  - repeat split; intros; discriminate.
  - split; [|split; [|split; [|split; [|split]]]].
    + intros s s' H Hs. rewrite set_timer_S in Hs. cbv zeta in Hs.
      destruct (queue (set_timer_f None s)); [injection Hs as <-; exact H|].
      destruct (negb (enabled (set_timer_f None s))); [injection Hs as <-; exact H|].
      destruct (jnext _) as [t|]; [|injection Hs as <-; exact H].
      destruct (t <=? _); [eapply IHrj; [|exact Hs]; exact H|injection Hs as <-; exact H].
    + intros s s' H Hs. rewrite run_jobs_S in Hs. cbv zeta in Hs.
      destruct (run_loop E f (set_timer_f None s)) as [s1|] eqn:EL; [|discriminate].
      assert (H1 : LogOK s1) by (eapply IHlp; [|exact EL]; exact H).
      destruct (broken s1); [injection Hs as <-; exact H1|].
      destruct (queue s1); [injection Hs as <-; exact H1|eapply IHst; eassumption].
    + intros s s' H Hs. rewrite run_loop_S in Hs.
      destruct (queue s) as [|h q]; [injection Hs as <-; exact H|].
      destruct (jnext (jobs s h)) as [t|]; [|injection Hs as <-; apply LogOK_add; auto].
      destruct (now s <? t) eqn:Elt; [injection Hs as <-; exact H|]. cbv zeta in Hs.
      destruct (exec_job E f h t (set_queue q s)) as [s2|] eqn:EX; [|discriminate].
      assert (H2 : LogOK s2).
      { eapply (IHex h t (set_queue q s)); [|exact H|exact EX]. cbn [now set_queue]. apply Z.ltb_ge in Elt. exact Elt. }
      destruct (status_eqb _ _).
      * destruct (add_job E f h s2) as [s3|] eqn:EA; [|discriminate].
        eapply IHlp; [|exact Hs]. eapply IHadd; eassumption.
      * eapply IHlp; eassumption.
    + intros j s s' H Hs. rewrite add_job_S in Hs.
      destruct (status_eqb _ _); [|injection Hs as <-; exact H]. cbv zeta in Hs.
      destruct (is_head _ _); [eapply IHst; [|exact Hs]; exact H|injection Hs as <-; exact H].
    + intros j s s' H Hs. rewrite remove_job_S in Hs.
      destruct (queue s) as [|h t]; [eapply IHst; eassumption|]. cbv zeta in Hs.
      destruct (remove_first j (h :: t)); [eapply IHst; [|exact Hs]; exact H|].
      destruct (Nat.eqb h j); [eapply IHst; [|exact Hs]; exact H|injection Hs as <-; exact H].
    + intros j t s s' Ht H Hs. rewrite exec_job_S in Hs. cbv zeta in Hs.
      assert (H0 : LogOK (exec_pre E j t s)).
      { unfold exec_pre. destruct (fail_exec E j _); repeat apply LogOK_add; auto. }
      destruct (jkind _).
      * destruct (remove_job E f j _) as [s1|] eqn:ER; [|discriminate]. injection Hs as <-.
        apply LogOK_finish_job. eapply IHrm; eassumption.
      * injection Hs as <-. apply LogOK_set_next_run. exact H0.
      * destruct (prod E j _ _) as [v|e|]; [|injection Hs as <-; repeat apply LogOK_add; auto|discriminate].
        destruct (too_old _ v); injection Hs as <-; [repeat apply LogOK_add; auto|].
        apply LogOK_set_next_run. apply LogOK_add; auto.
Qed.

Lemma LogOK_job_finish fuel j s s' : LogOK s -> job_finish E fuel j s = Some s' -> LogOK s'.
Proof.
  intros H Hs. rewrite job_finish_eq in Hs. destruct (remove_job E fuel j s) as [s1|] eqn:ER; [|discriminate].
  injection Hs as <-. apply LogOK_finish_job.
  destruct (log_specs_all fuel) as (_ & _ & _ & _ & Hrm & _). eapply Hrm; eassumption.
Qed.

Lemma LogOK_update_job fuel j s s' : LogOK s -> update_job E fuel j s = Some s' -> LogOK s'.
Proof.
  intros H Hs. unfold update_job in Hs. destruct (remove_job E fuel j s) as [s1|] eqn:ER; [|discriminate].
  destruct (log_specs_all fuel) as (_ & _ & _ & Hadd & Hrm & _).
  eapply Hadd; [|exact Hs]. eapply Hrm; eassumption.
Qed.

Lemma LogOK_create fuel hs b s s' r : LogOK s -> create E fuel hs b s = (s', r) -> LogOK s'.
Proof.
  intros H Hs. unfold create in Hs.
  destruct (hs && store_has _ _); [injection Hs as <- _; exact H|]. cbv zeta in Hs.
  match type of Hs with context [jkind ?bb] => set (b1 := bb) in * end.
  match type of Hs with context [too_old ?sx (jexec_t b1)] => set (s1 := sx) in * end.
  assert (H1 : LogOK s1) by (subst s1; destruct hs; exact H).
  clearbody s1.
  destruct (log_specs_all fuel) as (_ & _ & _ & Hadd & _).
  assert (Hfin : forall sx e, LogOK sx ->
            (match job_finish E fuel (njobs s) sx with Some sy => (sy, Raised e) | None => (sx, NoFuel) end) = (s', r) -> LogOK s').
  { intros sx e Hx Hy. destruct (job_finish E fuel (njobs s) sx) as [sy|] eqn:EF; injection Hy as <- _; [|exact Hx].
    eapply LogOK_job_finish; eassumption. }
  assert (Harm : forall sx nx, LogOK sx ->
            lift (add_job E fuel (njobs s) (set_next_run E (njobs s) nx sx)) (set_next_run E (njobs s) nx sx) = (s', r) -> LogOK s').
  { intros sx nx Hx Hy. unfold lift in Hy. destruct (add_job E fuel _ _) as [sy|] eqn:EA; injection Hy as <- _.
    - eapply Hadd; [|exact EA]. apply LogOK_set_next_run; exact Hx.
    - apply LogOK_set_next_run; exact Hx. }
  destruct (jkind b1).
  - destruct (too_old s1 _); [eapply Hfin|eapply Harm]; eassumption.
  - eapply Harm; eassumption.
  - assert (H2 : LogOK (add_ev (EProd (njobs s)) s1)) by (apply LogOK_add; auto).
    destruct (prod E _ _ _) as [v|e|].
    + destruct (too_old _ v); [eapply Hfin|eapply Harm]; eassumption.
    + eapply Hfin; eassumption.
    + injection Hs as <- _. exact H2.
Qed.

Theorem LogOK_step_op fuel hs s o s' r : LogOK s -> step_op E fuel hs s o = (s', r) -> LogOK s'.
Proof.
  intros H Hs. destruct (log_specs_all fuel) as (Hst & Hrj & _ & _ & Hrm & _).
  destruct o; cbn [step_op] in Hs.
  - eapply LogOK_create; eassumption.
  - destruct (secs <=? 0); [injection Hs as <- _; exact H|eapply LogOK_create; eassumption].
  - eapply LogOK_create; eassumption.
  - destruct (is_finished s j); [injection Hs as <- _; exact H|].
    unfold lift in Hs. destruct (job_finish E fuel j s) as [s1|] eqn:EF; injection Hs as <- _; [|exact H].
    eapply LogOK_job_finish; eassumption.
  - destruct (is_finished s j); [injection Hs as <- _; exact H|].
    destruct (remove_job E fuel j s) as [s1|] eqn:ER; injection Hs as <- _; [|exact H].
    apply LogOK_set_next_run. eapply Hrm; eassumption.
  - destruct (is_finished s j); [injection Hs as <- _; exact H|].
    destruct (negb _); [injection Hs as <- _; exact H|]. cbv zeta in Hs.
    assert (H1 : LogOK (add_ev (EProd j) s)) by (apply LogOK_add; auto).
    destruct (prod E j _ _) as [v|e|]; [|injection Hs as <- _; exact H1|injection Hs as <- _; exact H1].
    destruct (too_old _ v); [injection Hs as <- _; exact H1|].
    unfold lift in Hs. destruct (update_job E fuel j _) as [s2|] eqn:EU; injection Hs as <- _.
    + eapply LogOK_update_job; [|exact EU]. apply LogOK_set_next_run; exact H1.
    + exact H1.
  - destruct (negb _); [injection Hs as <- _; exact H|]. cbv zeta in Hs.
    unfold lift in Hs. destruct (update_job E fuel j _) as [s2|] eqn:EU; injection Hs as <- _.
    + eapply LogOK_update_job; [|exact EU]. apply LogOK_set_next_run; exact H.
    + apply LogOK_set_next_run; exact H.
  - destruct (is_finished s j); [injection Hs as <- _; exact H|].
    destruct (secs <=? 0); injection Hs as <- _; exact H.
  - destruct (Bool.eqb b (enabled s)); [injection Hs as <- _; exact H|]. cbv zeta in Hs.
    unfold lift in Hs. destruct (set_timer E fuel _) as [s2|] eqn:ES; injection Hs as <- _; [|exact H].
    eapply Hst; [|exact ES]. exact H.
  - destruct w; [destruct (memb cb (jcbu (jobs s j)))|destruct (memb cb (jcbf (jobs s j)))];
      injection Hs as <- _; exact H.
  - destruct w; injection Hs as <- _; exact H.
  - injection Hs as <- _. exact H.
  - destruct (timer s) as [w|]; [|injection Hs as <- _; exact H].
    destruct (w <=? now s); [|injection Hs as <- _; exact H].
    unfold lift in Hs. destruct (run_jobs E fuel s) as [s2|] eqn:ER; injection Hs as <- _; [|exact H].
    eapply Hrj; eassumption.
  - destruct (timer s) as [w|]; [|injection Hs as <- _; exact H].
    unfold lift in Hs. destruct (run_jobs E fuel s) as [s2|] eqn:ER; injection Hs as <- _; [|exact H].
    eapply Hrj; eassumption.
Qed.

Theorem LogOK_run fuel hs ops : forall s s' rs, LogOK s -> run E fuel hs s ops = (s', rs) -> LogOK s'.
Proof.
  induction ops as [|o t IH]; intros s s' rs H Hs; cbn [run] in Hs.
  - injection Hs as <- _. exact H.
  - destruct (step E fuel hs s o) as (s1, r) eqn:ES. destruct (run E fuel hs s1 t) as (s2, rs') eqn:ER.
    injection Hs as <- _. eapply IH; [|exact ER].
    unfold step in ES. destruct (step_op E fuel hs s o) as (sx, rx) eqn:EO. injection ES as <- _.
    eapply LogOK_same; [|eapply LogOK_step_op; eassumption]. reflexivity.
Qed.

End LogInv.

(* ------------------------------------------------------------------------------------------- *)
(* C01: no callable is ever started before its announced next-run time *)
Definition not_early (e : event) : Prop :=
  match e with EExec _ at_ a _ => a <= at_ | _ => True end.

Theorem never_early E fuel hs t0 en ops s rs :
  run E fuel hs (init t0 en) ops = (s, rs) -> Forall not_early (log s).
Proof.
  intros H.
  assert (H0 : LogOK not_early (init t0 en)) by (unfold LogOK; cbn; constructor).
  refine (LogOK_run E not_early _ _ _ _ _ fuel hs ops _ _ _ H0 H); try (intros; exact I).
  intros j at_ a o Ha. exact Ha.
Qed.
