(* TaskMgrFacts.v — proofs about the task-manager model of TaskMgr.v: the invariant of every reachable
   state (for all managers, bounds, policies, keys and all event sequences, including submissions from
   inside running bodies) and the theorems of C11 / C12 derived from it. *)
From EAS Require Import Base BaseFacts TaskMgr.
Open Scope nat_scope.

(* ------------------------------------------------------------------------------------------- *)
(* 1. lists                                                                                     *)

Lemma unsnoc_spec {A} (l : list A) :
  match unsnoc l with None => l = [] | Some (t, x) => l = t ++ [x] end.
Proof.
  induction l as [|a l IH]; cbn; [reflexivity|].
  destruct (unsnoc l) as [[t y]|]; subst; reflexivity.
Qed.

Lemma filter_all {A} (f : A -> bool) l : (forall x, In x l -> f x = true) -> filter f l = l.
Proof.
  induction l as [|a l IH]; cbn; intros H; [reflexivity|].
  rewrite (H a (or_introl eq_refl)). f_equal. apply IH. intros x Hx. apply H. right. exact Hx.
Qed.

Lemma filter_ext_in' {A} (f g : A -> bool) l : (forall x, In x l -> f x = g x) -> filter f l = filter g l.
Proof.
  induction l as [|a l IH]; cbn; intros H; [reflexivity|].
  rewrite (H a (or_introl eq_refl)), IH; [reflexivity|]. intros x Hx. apply H. right. exact Hx.
Qed.

Lemma filter_and {A} (f g : A -> bool) l : filter (fun x => f x && g x) l = filter g (filter f l).
Proof.
  induction l as [|a l IH]; cbn; [reflexivity|].
  destruct (f a); cbn; [destruct (g a); rewrite IH; reflexivity|exact IH].
Qed.

Lemma memb_app x l1 l2 : memb x (l1 ++ l2) = memb x l1 || memb x l2.
Proof. induction l1 as [|a l IH]; cbn; [reflexivity|]. rewrite IH, orb_assoc. reflexivity. Qed.

Lemma memb_false x l : memb x l = false <-> ~ In x l.
Proof.
  rewrite <- memb_In. destruct (memb x l); split; intros H.
  - discriminate H.
  - exfalso. apply H. reflexivity.
  - discriminate.
  - reflexivity.
Qed.

(* removing the unique occurrence of [c] *)
Lemma filter_neq_remove (A B : list nat) c :
  NoDup (A ++ c :: B) -> filter (fun x => negb (Nat.eqb x c)) (A ++ c :: B) = A ++ B.
Proof.
  intros Hnd. rewrite filter_app. cbn. rewrite Nat.eqb_refl. cbn.
  pose proof (NoDup_remove_2 _ _ _ Hnd) as Hni.
  rewrite !filter_all; [reflexivity| |].
  - intros x Hx. destruct (Nat.eqb_spec x c) as [->|]; [|reflexivity].
    exfalso. apply Hni. apply in_or_app. right. exact Hx.
  - intros x Hx. destruct (Nat.eqb_spec x c) as [->|]; [|reflexivity].
    exfalso. apply Hni. apply in_or_app. left. exact Hx.
Qed.

Lemma NoDup_filter' {A} (f : A -> bool) l : NoDup l -> NoDup (filter f l).
Proof.
  induction 1 as [|a l Ha Hl IH]; cbn; [constructor|].
  destruct (f a); [|exact IH]. constructor; [|exact IH].
  intros H. apply Ha. apply filter_In in H. tauto.
Qed.

Lemma NoDup_snoc {A} (l : list A) a : NoDup l -> ~ In a l -> NoDup (l ++ [a]).
Proof.
  intros Hl Ha. induction Hl as [|b l Hb Hl IH]; cbn; [constructor; [tauto|constructor]|].
  constructor.
  - rewrite in_app_iff. cbn. intros [H|[H|[]]]; [tauto|]. subst. apply Ha. left. reflexivity.
  - apply IH. intros H. apply Ha. right. exact H.
Qed.

Lemma NoDup_app_l {A} (l1 l2 : list A) : NoDup (l1 ++ l2) -> NoDup l1.
Proof.
  induction l1 as [|a l IH]; cbn; intros H; [constructor|].
  inversion H as [|? ? Ha Hl]; subst. constructor; [|apply IH; exact Hl].
  intros Hin. apply Ha. apply in_or_app. left. exact Hin.
Qed.

Lemma NoDup_app_r {A} (l1 l2 : list A) : NoDup (l1 ++ l2) -> NoDup l2.
Proof.
  induction l1 as [|a l IH]; cbn; intros H; [exact H|].
  inversion H; subst. apply IH. assumption.
Qed.

Lemma NoDup_app_disj {A} (l1 l2 : list A) x : NoDup (l1 ++ l2) -> In x l1 -> In x l2 -> False.
Proof.
  induction l1 as [|a l IH]; cbn; intros H H1 H2; [tauto|].
  inversion H as [|? ? Ha Hl]; subst. destruct H1 as [->|H1].
  - apply Ha. apply in_or_app. right. exact H2.
  - exact (IH Hl H1 H2).
Qed.

(* ------------------------------------------------------------------------------------------- *)
(* 2. a list that holds exactly the coroutines whose attribute satisfies a predicate            *)

Definition tracks {A B} (f : nat -> A) (L : list A) (P : B -> bool) (g : nat -> B) : Prop :=
  forall c, In (f c) L <-> P (g c) = true.

Definition inj {A} (f : nat -> A) : Prop := forall x y, f x = f y -> x = y.

Lemma inj_id : inj (fun c : nat => c).
Proof. intros x y H. exact H. Qed.
Lemma inj_step : inj HStep.
Proof. intros x y H. injection H. tauto. Qed.
Lemma inj_done : inj HDone.
Proof. intros x y H. injection H. tauto. Qed.

Section Tracks.
  Context {A B : Type}.
  Variable f : nat -> A.
  Variable P : B -> bool.

  Lemma upd_same (g : nat -> B) c v : upd g c v c = v.
  Proof. unfold upd. rewrite Nat.eqb_refl. reflexivity. Qed.
  Lemma upd_other (g : nat -> B) c v x : x <> c -> upd g c v x = g x.
  Proof. unfold upd. intros H. destruct (Nat.eqb_spec x c); [contradiction|reflexivity]. Qed.

  Lemma T_same L g c0 v : tracks f L P g -> P v = P (g c0) -> tracks f L P (upd g c0 v).
  Proof.
    intros H Hv x. destruct (Nat.eq_dec x c0) as [->|Hne].
    - rewrite upd_same, Hv. apply H.
    - rewrite upd_other by exact Hne. apply H.
  Qed.

  Lemma T_app_other L g a : tracks f L P g -> (forall x, f x <> a) -> tracks f (L ++ [a]) P g.
  Proof.
    intros H Ha x. rewrite in_app_iff, (H x). cbn. split; [|tauto].
    intros [Hx|[Hx|[]]]; [exact Hx|]. exfalso. exact (Ha x (eq_sym Hx)).
  Qed.

  Lemma T_del_other L1 L2 g a : tracks f (L1 ++ a :: L2) P g -> (forall x, f x <> a) -> tracks f (L1 ++ L2) P g.
  Proof.
    intros H Ha x. rewrite <- (H x), !in_app_iff. cbn. split; [tauto|].
    intros [Hx|[Hx|Hx]]; [tauto| |tauto]. exfalso. exact (Ha x (eq_sym Hx)).
  Qed.

  Lemma T_add L g c0 v : tracks f L P g -> inj f -> P v = true -> tracks f (L ++ [f c0]) P (upd g c0 v).
  Proof.
    intros H Hi Hv x. rewrite in_app_iff. cbn. destruct (Nat.eq_dec x c0) as [->|Hne].
    - rewrite upd_same. tauto.
    - rewrite upd_other by exact Hne. rewrite (H x). split; [|tauto].
      intros [Hx|[Hx|[]]]; [exact Hx|]. exfalso. apply Hne. symmetry. apply Hi. exact Hx.
  Qed.

  Lemma T_del L1 L2 g c0 v :
    tracks f (L1 ++ f c0 :: L2) P g -> inj f -> NoDup (L1 ++ f c0 :: L2) -> P v = false ->
    tracks f (L1 ++ L2) P (upd g c0 v).
  Proof.
    intros H Hi Hnd Hv x. destruct (Nat.eq_dec x c0) as [->|Hne].
    - rewrite upd_same, Hv. split; [|discriminate]. intros Hin. exfalso.
      exact (NoDup_remove_2 _ _ _ Hnd Hin).
    - rewrite upd_other by exact Hne. rewrite <- (H x), !in_app_iff. cbn. split; [tauto|].
      intros [Hx|[Hx|Hx]]; [tauto| |tauto]. exfalso. apply Hne. symmetry. apply Hi. exact Hx.
  Qed.

  Lemma T_notin L g c : tracks f L P g -> P (g c) = false -> ~ In (f c) L.
  Proof. intros H Hp Hin. apply H in Hin. congruence. Qed.
End Tracks.

(* ------------------------------------------------------------------------------------------- *)
(* 3. phases                                                                                    *)

Definition is_known (p : phase) : bool := match p with Unknown => false | _ => true end.
Definition is_queued (p : phase) : bool := match p with Queued => true | _ => false end.
Definition is_closed (p : phase) : bool := match p with Closed => true | _ => false end.
Definition wants_step (p : phase) : bool := match p with Created | Waking _ => true | _ => false end.
Definition is_done (p : phase) : bool := match p with Done _ => true | _ => false end.
(* a task exists and its done-callbacks have not run: it occupies the manager *)
Definition is_live (p : phase) : bool :=
  match p with Created | Running | Parked | Waking _ | Done _ => true | _ => false end.
(* phases in which the body may already have been entered *)
Definition may_have_run (p : phase) : bool :=
  match p with Running | Parked | Waking _ | Done _ | Processed _ => true | _ => false end.

Definition not_closed (s : state) (x : nat) : bool := negb (memb x (closed s)).

(* the part of the invariant that holds for every manager: the lists of the managers and of the loop
   agree with the phase of every coroutine (conservation), nothing is duplicated, the order of
   task creation is the submission order of the coroutines that were not dropped *)
Record Core (s : state) : Prop := {
  k_sub : tracks (fun c => c) (map fst (subk s)) is_known (ph s);
  k_st : tracks (fun c => c) (started s) has_task (ph s);
  k_cl : tracks (fun c => c) (closed s) is_closed (ph s);
  k_q : tracks (fun c => c) (map fst (queue s)) is_queued (ph s);
  k_nds : NoDup (map fst (subk s));
  k_ndc : NoDup (closed s);
  k_ord : started s ++ map fst (queue s) = filter (not_closed s) (map fst (subk s));
  k_rs : tracks HStep (ready s) wants_step (ph s);
  k_rd : tracks HDone (ready s) is_done (ph s);
  k_ndr : NoDup (ready s);
  k_el : tracks (fun c => c) (entlog s) (fun b : bool => b) (ent s);
  k_ent : forall c, ent s c = true -> may_have_run (ph s c) = true;
  k_nde : NoDup (entlog s)
}.

Lemma core_nd_sq s : Core s -> NoDup (started s ++ map fst (queue s)).
Proof. intros H. rewrite (k_ord s H). apply NoDup_filter'. exact (k_nds s H). Qed.

Lemma core_init : Core init.
Proof.
  constructor; cbn; try (intros c; cbn; split; [tauto|discriminate]); try constructor.
  intros c H. discriminate.
Qed.

Lemma step_ne_done x c : HStep x <> HDone c.
Proof. discriminate. Qed.
Lemma done_ne_step x c : HDone x <> HStep c.
Proof. discriminate. Qed.

Lemma ent_keep (en : nat -> bool) (g : nat -> phase) c0 v :
  (forall c, en c = true -> may_have_run (g c) = true) ->
  (may_have_run (g c0) = false \/ may_have_run v = true) ->
  forall c, en c = true -> may_have_run (upd g c0 v c) = true.
Proof.
  intros H Hv c Hc. destruct (Nat.eq_dec c c0) as [->|Hne].
  - rewrite upd_same. destruct Hv as [Hv|Hv]; [|exact Hv]. rewrite (H c0 Hc) in Hv. discriminate.
  - rewrite upd_other by exact Hne. exact (H c Hc).
Qed.

(* ------------------------------------------------------------------------------------------- *)
(* 4. every atomic transition of the model preserves [Core]                                     *)

Ltac red_state :=
  cbn [ph mc ent subk started entlog closed mcanc queue running tracked ready flag
       set_ph set_mc set_ent set_subk set_started set_entlog set_closed set_mcanc set_queue set_running
       set_tracked set_ready set_flag invalid
       enqueue log_sub reject close spawn wake_up finish] in *.

Ltac core_start H :=
  destruct H as [Hsub Hst Hcl Hq Hnds Hndc Hord Hrs Hrd Hndr Hel Hent Hnde];
  constructor; unfold not_closed in *; red_state.

Ltac same Hp := apply T_same; [assumption | rewrite Hp; reflexivity].

Lemma core_set_mc s f : Core (set_mc s f) <-> Core s.
Proof. split; intros H; destruct H; constructor; assumption. Qed.
Lemma core_set_running s r : Core (set_running s r) <-> Core s.
Proof. split; intros H; destruct H; constructor; assumption. Qed.
Lemma core_set_tracked s t : Core (set_tracked s t) <-> Core s.
Proof. split; intros H; destruct H; constructor; assumption. Qed.
Lemma core_set_mcanc s t : Core (set_mcanc s t) <-> Core s.
Proof. split; intros H; destruct H; constructor; assumption. Qed.
Lemma core_set_flag s b : Core (set_flag s b) <-> Core s.
Proof. split; intros H; destruct H; constructor; assumption. Qed.

Lemma filter_snoc_closed (cl l : list nat) c :
  ~ In c l ->
  filter (fun x => negb (memb x (cl ++ [c]))) l = filter (fun x => negb (memb x cl)) l.
Proof.
  intros Hc. apply filter_ext_in'. intros x Hx. rewrite memb_app. cbn.
  destruct (Nat.eqb_spec x c) as [->|]; [contradiction|]. rewrite !orb_false_r. reflexivity.
Qed.

Lemma core_enqueue s c k : Core s -> ph s c = Unknown -> Core (enqueue s c k).
Proof.
  intros H Hp. core_start H; rewrite ?map_app; cbn [map fst].
  - apply (T_add (fun c => c)); [assumption|exact inj_id|reflexivity].
  - same Hp.
  - same Hp.
  - apply (T_add (fun c => c)); [assumption|exact inj_id|reflexivity].
  - apply NoDup_snoc; [assumption|]. apply (T_notin _ _ _ _ _ Hsub). rewrite Hp. reflexivity.
  - assumption.
  - rewrite filter_app, app_assoc, Hord. cbn.
    assert (Hc : memb c (closed s) = false).
    { apply memb_false. apply (T_notin _ _ _ _ _ Hcl). rewrite Hp. reflexivity. }
    rewrite Hc. reflexivity.
  - same Hp.
  - same Hp.
  - assumption.
  - assumption.
  - apply ent_keep; [assumption|]. left. rewrite Hp. reflexivity.
  - assumption.
Qed.

Lemma core_reject s c k : Core s -> ph s c = Unknown -> Core (reject s c k).
Proof.
  intros H Hp. unfold reject. core_start H; rewrite ?map_app; cbn [map fst].
  - apply (T_add (fun c => c)); [assumption|exact inj_id|reflexivity].
  - same Hp.
  - apply (T_add (fun c => c)); [assumption|exact inj_id|reflexivity].
  - same Hp.
  - apply NoDup_snoc; [assumption|]. apply (T_notin _ _ _ _ _ Hsub). rewrite Hp. reflexivity.
  - apply NoDup_snoc; [assumption|]. apply (T_notin _ _ _ _ _ Hcl). rewrite Hp. reflexivity.
  - rewrite filter_app. cbn. rewrite memb_app. cbn. rewrite Nat.eqb_refl, orb_true_r. cbn.
    rewrite app_nil_r, filter_snoc_closed; [exact Hord|].
    apply (T_notin _ _ _ _ _ Hsub). rewrite Hp. reflexivity.
  - same Hp.
  - same Hp.
  - assumption.
  - assumption.
  - apply ent_keep; [assumption|]. left. rewrite Hp. reflexivity.
  - assumption.
Qed.

(* a fresh coroutine gets a task at once (parallel managers: nothing is ever queued) *)
Lemma core_spawn_new s c k : Core s -> ph s c = Unknown -> queue s = [] -> Core (spawn (log_sub s c k) c).
Proof.
  intros H Hp Hq0. core_start H; rewrite ?map_app; cbn [map fst].
  - apply (T_add (fun c => c)); [assumption|exact inj_id|reflexivity].
  - apply (T_add (fun c => c)); [assumption|exact inj_id|reflexivity].
  - same Hp.
  - same Hp.
  - apply NoDup_snoc; [assumption|]. apply (T_notin _ _ _ _ _ Hsub). rewrite Hp. reflexivity.
  - assumption.
  - rewrite Hq0 in *. cbn [map] in *. rewrite app_nil_r in *. rewrite filter_app, Hord. cbn.
    assert (Hc : memb c (closed s) = false).
    { apply memb_false. apply (T_notin _ _ _ _ _ Hcl). rewrite Hp. reflexivity. }
    rewrite Hc. reflexivity.
  - apply T_add; [assumption|exact inj_step|reflexivity].
  - apply T_same; [|rewrite Hp; reflexivity]. apply T_app_other; [assumption|]. intros x. apply done_ne_step.
  - apply NoDup_snoc; [assumption|]. apply (T_notin _ _ _ _ _ Hrs). rewrite Hp. reflexivity.
  - assumption.
  - apply ent_keep; [assumption|]. left. rewrite Hp. reflexivity.
  - assumption.
Qed.

(* a queued coroutine is taken out of the queue and closed *)
Lemma core_drop s (q1 q2 : list (nat * nat)) v kv :
  Core s -> queue s = q1 ++ (v, kv) :: q2 -> Core (close (set_queue s (q1 ++ q2)) v).
Proof.
  intros H Hqe. pose proof (core_nd_sq s H) as Hndsq.
  assert (Hp : ph s v = Queued).
  { destruct (k_q s H v) as [Hin _]. rewrite Hqe, map_app in Hin. cbn in Hin.
    assert (Hq : is_queued (ph s v) = true) by (apply Hin; apply in_or_app; right; left; reflexivity).
    destruct (ph s v); try discriminate. reflexivity. }
  core_start H; rewrite Hqe in *; rewrite ?map_app in *; cbn [map fst] in *.
  - same Hp.
  - same Hp.
  - apply (T_add (fun c => c)); [assumption|exact inj_id|reflexivity].
  - apply (T_del (fun c => c)); [assumption|exact inj_id| |reflexivity].
    apply NoDup_app_r in Hndsq. exact Hndsq.
  - assumption.
  - apply NoDup_snoc; [assumption|]. apply (T_notin _ _ _ _ _ Hcl). rewrite Hp. reflexivity.
  - rewrite (filter_ext_in' _ (fun x => negb (memb x (closed s)) && negb (Nat.eqb x v))).
    + rewrite filter_and, <- Hord. rewrite (app_assoc (started s) (map fst q1) (v :: map fst q2)).
      rewrite filter_neq_remove; [rewrite app_assoc; reflexivity|].
      rewrite <- app_assoc. exact Hndsq.
    + intros x _. rewrite memb_app. cbn. rewrite orb_false_r, negb_orb. reflexivity.
  - same Hp.
  - same Hp.
  - assumption.
  - assumption.
  - apply ent_keep; [assumption|]. left. rewrite Hp. reflexivity.
  - assumption.
Qed.

(* the head of the queue gets its task *)
Lemma core_start_head s c kc q :
  Core s -> queue s = (c, kc) :: q -> Core (set_running (spawn (set_queue s q) c) (Some c)).
Proof.
  intros H Hqe. apply core_set_running. pose proof (core_nd_sq s H) as Hndsq.
  assert (Hp : ph s c = Queued).
  { destruct (k_q s H c) as [Hin _]. rewrite Hqe in Hin. cbn in Hin.
    assert (Hq : is_queued (ph s c) = true) by (apply Hin; left; reflexivity).
    destruct (ph s c); try discriminate. reflexivity. }
  core_start H; rewrite Hqe in *; cbn [map fst] in *.
  - same Hp.
  - apply (T_add (fun c => c)); [assumption|exact inj_id|reflexivity].
  - same Hp.
  - apply (T_del (fun c => c) _ [] (map fst q)); [assumption|exact inj_id| |reflexivity].
    apply NoDup_app_r in Hndsq. exact Hndsq.
  - assumption.
  - assumption.
  - rewrite <- app_assoc. exact Hord.
  - apply T_add; [assumption|exact inj_step|reflexivity].
  - apply T_same; [|rewrite Hp; reflexivity]. apply T_app_other; [assumption|]. intros x. apply done_ne_step.
  - apply NoDup_snoc; [assumption|]. apply (T_notin _ _ _ _ _ Hrs). rewrite Hp. reflexivity.
  - assumption.
  - apply ent_keep; [assumption|]. left. rewrite Hp. reflexivity.
  - assumption.
Qed.

(* the future a task waits on is resolved / failed / cancelled; or the future it has just parked on is
   cancelled at once *)
Lemma core_wake_up s c w : Core s -> ph s c = Parked \/ ph s c = Running -> Core (wake_up s c w).
Proof.
  intros H Hp. core_start H.
  - destruct Hp as [Hp|Hp]; same Hp.
  - destruct Hp as [Hp|Hp]; same Hp.
  - destruct Hp as [Hp|Hp]; same Hp.
  - destruct Hp as [Hp|Hp]; same Hp.
  - assumption.
  - assumption.
  - assumption.
  - apply T_add; [assumption|exact inj_step|reflexivity].
  - apply T_same; [|destruct Hp as [Hp|Hp]; rewrite Hp; reflexivity].
    apply T_app_other; [assumption|]. intros x. apply done_ne_step.
  - apply NoDup_snoc; [assumption|]. apply (T_notin _ _ _ _ _ Hrs). destruct Hp as [Hp|Hp]; rewrite Hp; reflexivity.
  - assumption.
  - apply ent_keep; [assumption|]. right. reflexivity.
  - assumption.
Qed.

Lemma core_park s c : Core s -> ph s c = Running -> Core (set_ph s (upd (ph s) c Parked)).
Proof.
  intros H Hp. core_start H; try assumption; try (same Hp).
  apply ent_keep; [assumption|]. right. reflexivity.
Qed.

Lemma core_finish s c d : Core s -> ph s c = Running -> Core (finish s c d).
Proof.
  intros H Hp. core_start H; try assumption; try (same Hp).
  - apply T_same; [|rewrite Hp; reflexivity]. apply T_app_other; [assumption|]. intros x. apply step_ne_done.
  - apply T_add; [assumption|exact inj_done|reflexivity].
  - apply NoDup_snoc; [assumption|]. apply (T_notin _ _ _ _ _ Hrd). rewrite Hp. reflexivity.
  - apply ent_keep; [assumption|]. right. reflexivity.
Qed.

Lemma wants_step_cases p : wants_step p = true -> p = Created \/ exists w, p = Waking w.
Proof. destruct p; try discriminate; intros _; [left; reflexivity|right; eexists; reflexivity]. Qed.

Lemma head_step_phase s c r : Core s -> ready s = HStep c :: r -> wants_step (ph s c) = true.
Proof. intros H Hr. apply (k_rs s H). rewrite Hr. left. reflexivity. Qed.

Lemma head_done_phase s c r : Core s -> ready s = HDone c :: r -> exists d, ph s c = Done d.
Proof.
  intros H Hr. assert (Hd : is_done (ph s c) = true) by (apply (k_rd s H); rewrite Hr; left; reflexivity).
  destruct (ph s c); try discriminate. eexists. reflexivity.
Qed.

(* the loop takes the wake-up of c off the ready queue and resumes its body *)
Lemma core_pop_resume s c r w :
  Core s -> ready s = HStep c :: r -> ph s c = Waking w ->
  Core (set_ph (set_ready s r) (upd (ph s) c Running)).
Proof.
  intros H Hr Hp. core_start H; rewrite Hr in *; try assumption; try (same Hp).
  - apply (T_del HStep _ [] r); [assumption|exact inj_step|assumption|reflexivity].
  - apply T_same; [|rewrite Hp; reflexivity].
    apply (T_del_other HDone _ [] r _ (HStep c)); [assumption|]. intros x. apply done_ne_step.
  - inversion Hndr; assumption.
  - apply ent_keep; [assumption|]. right. reflexivity.
Qed.

(* the loop takes the first step of c off the ready queue: the body is entered *)
Lemma core_pop_enter s c r :
  Core s -> ready s = HStep c :: r -> ph s c = Created ->
  Core (set_ph (set_entlog (set_ent (set_ready s r) (upd (ent s) c true)) (entlog s ++ [c])) (upd (ph s) c Running)).
Proof.
  intros H Hr Hp.
  assert (He : ent s c = false).
  { destruct (ent s c) eqn:E; [|reflexivity]. pose proof (k_ent s H c E) as Hm. rewrite Hp in Hm. discriminate. }
  core_start H; rewrite Hr in *; try assumption; try (same Hp).
  - apply (T_del HStep _ [] r); [assumption|exact inj_step|assumption|reflexivity].
  - apply T_same; [|rewrite Hp; reflexivity].
    apply (T_del_other HDone _ [] r _ (HStep c)); [assumption|]. intros x. apply done_ne_step.
  - inversion Hndr; assumption.
  - apply (T_add (fun c => c)); [assumption|exact inj_id|reflexivity].
  - intros x Hx. destruct (Nat.eq_dec x c) as [->|Hne].
    + rewrite upd_same. reflexivity.
    + rewrite upd_other by exact Hne. rewrite upd_other in Hx by exact Hne. apply Hent. exact Hx.
  - apply NoDup_snoc; [assumption|]. apply (T_notin _ _ _ _ _ Hel). exact He.
Qed.

(* a task cancelled before its first step: the coroutine is closed by the throw, the task is done *)
Lemma core_pop_cancelled s c r f :
  Core s -> ready s = HStep c :: r -> ph s c = Created ->
  Core (finish (set_mc (set_ready s r) f) c DCanc).
Proof.
  intros H Hr Hp. core_start H; rewrite Hr in *; try assumption; try (same Hp).
  - apply T_app_other; [|intros x; apply step_ne_done].
    apply (T_del HStep _ [] r); [assumption|exact inj_step|assumption|reflexivity].
  - apply T_add; [|exact inj_done|reflexivity].
    apply (T_del_other HDone _ [] r _ (HStep c)); [assumption|]. intros x. apply done_ne_step.
  - apply NoDup_snoc; [inversion Hndr; assumption|].
    intros Hin. assert (Hd : is_done (ph s c) = true) by (apply Hrd; right; exact Hin).
    rewrite Hp in Hd. discriminate.
  - apply ent_keep; [assumption|]. right. reflexivity.
Qed.

(* the loop takes the done-callbacks of c off the ready queue *)
Lemma core_pop_done s c r d :
  Core s -> ready s = HDone c :: r -> ph s c = Done d ->
  Core (set_ph (set_ready s r) (upd (ph s) c (Processed d))).
Proof.
  intros H Hr Hp. core_start H; rewrite Hr in *; try assumption; try (same Hp).
  - apply T_same; [|rewrite Hp; reflexivity].
    apply (T_del_other HStep _ [] r _ (HDone c)); [assumption|]. intros x. apply step_ne_done.
  - apply (T_del HDone _ [] r); [assumption|exact inj_done|assumption|reflexivity].
  - inversion Hndr; assumption.
  - apply ent_keep; [assumption|]. right. reflexivity.
Qed.

(* ------------------------------------------------------------------------------------------- *)
(* 5. sequential managers: the manager-specific part of the invariant                           *)

Definition olist (o : option nat) : list nat := match o with Some c => [c] | None => [] end.

(* stated on the components, so that it transfers across the setters by conversion *)
Record SeqJc (g : nat -> phase) (ru : option nat) (st el : list nat) (en : nat -> bool) (tr mcn : list nat) : Prop := {
  q_live : tracks (fun c => c) (olist ru) is_live g;        (* the live task is manager.task, and only it *)
  q_last : forall c, ru = Some c -> exists pre, st = pre ++ [c];
  q_elog : el = filter en st;                               (* bodies are entered in task order *)
  q_none : tr = [] /\ mcn = []
}.

Definition SeqJ (s : state) : Prop :=
  SeqJc (ph s) (running s) (started s) (entlog s) (ent s) (tracked s) (mcanc s).
Definition Idle (s : state) : Prop := running s = None -> queue s = [].
Definition SeqI (s : state) : Prop := SeqJ s /\ Idle s.

Lemma seqjc_phase g ru st el en tr mcn c v :
  SeqJc g ru st el en tr mcn -> is_live v = is_live (g c) -> SeqJc (upd g c v) ru st el en tr mcn.
Proof.
  intros [H1 H2 H3 H4] Hv. constructor; try assumption. apply T_same; assumption.
Qed.

Lemma is_live_running s c : SeqJ s -> is_live (ph s c) = true -> running s = Some c.
Proof.
  intros H Hl. apply (q_live _ _ _ _ _ _ _ H) in Hl. destruct (running s) as [r|]; cbn in Hl; [|tauto].
  destruct Hl as [->|[]]. reflexivity.
Qed.

Lemma running_is_live s c : SeqJ s -> running s = Some c -> is_live (ph s c) = true.
Proof. intros H Hr. apply (q_live _ _ _ _ _ _ _ H). rewrite Hr. left. reflexivity. Qed.

Lemma ent_false_of_phase s c : Core s -> may_have_run (ph s c) = false -> ent s c = false.
Proof.
  intros H Hp. destruct (ent s c) eqn:E; [|reflexivity]. rewrite (k_ent s H c E) in Hp. discriminate.
Qed.

(* a task is created for c and becomes manager.task *)
Lemma seqj_start s c s' :
  Core s -> SeqJ s -> running s = None -> may_have_run (ph s c) = false ->
  ph s' = upd (ph s) c Created -> running s' = Some c -> started s' = started s ++ [c] ->
  entlog s' = entlog s -> ent s' = ent s -> tracked s' = tracked s -> mcanc s' = mcanc s ->
  SeqJ s'.
Proof.
  intros Hc [H1 H2 H3 H4] Hr Hp E1 E2 E3 E4 E5 E6 E7. unfold SeqJ. rewrite E1, E2, E3, E4, E5, E6, E7.
  rewrite Hr in H1. constructor; try assumption.
  - apply (T_add (fun c => c) is_live []); [assumption|exact inj_id|reflexivity].
  - intros x Hx. injection Hx as <-. eexists. reflexivity.
  - rewrite filter_app. cbn. rewrite (ent_false_of_phase s c Hc Hp), app_nil_r. exact H3.
Qed.

Lemma start_next_inv s : Core s -> SeqJ s -> running s = None -> Core (start_next s) /\ SeqI (start_next s).
Proof.
  intros Hc Hj Hr. unfold start_next. destruct (queue s) as [|[c kc] q] eqn:Hq.
  - split; [exact Hc|]. split; [exact Hj|]. intros _. exact Hq.
  - split; [eapply core_start_head; eassumption|]. split.
    + assert (Hp : ph s c = Queued).
      { destruct (k_q s Hc c) as [Hin _]. rewrite Hq in Hin.
        assert (Hx : is_queued (ph s c) = true) by (apply Hin; left; reflexivity).
        destruct (ph s c); try discriminate. reflexivity. }
      eapply (seqj_start s c); try reflexivity; try assumption. rewrite Hp. reflexivity.
    + intros Hn. discriminate Hn.
Qed.

Lemma task_start_inv s : Core s -> SeqJ s -> Core (task_start s) /\ SeqI (task_start s).
Proof.
  intros Hc Hj. unfold task_start. destruct (running s) as [r|] eqn:Hr.
  - split; [exact Hc|]. split; [exact Hj|]. intros Hn. congruence.
  - apply start_next_inv; assumption.
Qed.

Lemma seqj_enqueue s c k : SeqJ s -> ph s c = Unknown -> SeqJ (enqueue s c k).
Proof. intros H Hp. apply seqjc_phase; [exact H|rewrite Hp; reflexivity]. Qed.

Lemma seqj_reject s c k : SeqJ s -> ph s c = Unknown -> SeqJ (reject s c k).
Proof. intros H Hp. apply seqjc_phase; [exact H|red_state; rewrite Hp; reflexivity]. Qed.

Lemma seqj_drop s q v : SeqJ s -> ph s v = Queued -> SeqJ (close (set_queue s q) v).
Proof. intros H Hp. apply seqjc_phase; [exact H|red_state; rewrite Hp; reflexivity]. Qed.

Lemma submit_seq_inv s c k :
  Core s -> SeqJ s -> ph s c = Unknown -> Core (submit_seq s c k) /\ SeqI (submit_seq s c k).
Proof.
  intros Hc Hj Hp. apply task_start_inv; [apply core_enqueue|apply seqj_enqueue]; assumption.
Qed.

Lemma queued_phase s (q1 q2 : list (nat * nat)) v kv : Core s -> queue s = q1 ++ (v, kv) :: q2 -> ph s v = Queued.
Proof.
  intros H Hqe. destruct (k_q s H v) as [Hin _]. rewrite Hqe, map_app in Hin. cbn in Hin.
  assert (Hq : is_queued (ph s v) = true) by (apply Hin; apply in_or_app; right; left; reflexivity).
  destruct (ph s v); try discriminate. reflexivity.
Qed.

(* a victim is dropped from the queue, then the new coroutine is appended *)
Lemma drop_submit_inv s q1 q2 v kv c k :
  Core s -> SeqJ s -> queue s = q1 ++ (v, kv) :: q2 -> ph s c = Unknown ->
  Core (submit_seq (close (set_queue s (q1 ++ q2)) v) c k) /\
  SeqI (submit_seq (close (set_queue s (q1 ++ q2)) v) c k).
Proof.
  intros Hc Hj Hq Hp. pose proof (queued_phase s q1 q2 v kv Hc Hq) as Hv.
  apply submit_seq_inv.
  - eapply core_drop; eassumption.
  - apply seqj_drop; assumption.
  - red_state. rewrite upd_other; [exact Hp|]. intros ->. congruence.
Qed.

(* de-duplication *)
Fixpoint lastkey (k : nat) (l : list (nat * nat)) : option nat :=
  match l with
  | [] => None
  | (c, k') :: t => match lastkey k t with
                    | Some x => Some x
                    | None => if Nat.eqb k' k then Some c else None
                    end
  end.

Lemma lastkey_snoc k l c k' : lastkey k (l ++ [(c, k')]) = if Nat.eqb k' k then Some c else lastkey k l.
Proof.
  induction l as [|[a ka] l IH]; cbn; [destruct (Nat.eqb k' k); reflexivity|].
  rewrite IH. destruct (Nat.eqb k' k); [reflexivity|]. reflexivity.
Qed.

Definition Dedup (s : state) : Prop :=
  NoDup (map snd (queue s)) /\ forall c k, In (c, k) (queue s) -> lastkey k (subk s) = Some c.

Lemma take_key_spec k q :
  match take_key k q with
  | (Some v, q') => exists q1 q2, q = q1 ++ (v, k) :: q2 /\ q' = q1 ++ q2 /\ ~ In k (map snd q1)
  | (None, q') => q' = q /\ ~ In k (map snd q)
  end.
Proof.
  induction q as [|[a ka] q IH]; cbn; [split; [reflexivity|tauto]|].
  destruct (Nat.eqb_spec ka k) as [->|Hne].
  - exists [], q. cbn. repeat split. tauto.
  - destruct (take_key k q) as [[v|] q'].
    + destruct IH as (q1 & q2 & -> & -> & Hn). exists ((a, ka) :: q1), q2. cbn. repeat split. tauto.
    + destruct IH as [-> Hn]. cbn. split; [reflexivity|tauto].
Qed.

Definition is_seq (m : mgr) : bool := match m with MSeq | MSeqLim _ _ | MSeqDedup => true | _ => false end.

(* bound of the queue / one pending coroutine per key, the newest *)
Definition SeqX (m : mgr) (s : state) : Prop :=
  match m with
  | MSeqLim q _ => length (queue s) <= q
  | MSeqDedup => Dedup s
  | _ => True
  end.

Lemma dedup_sub (qa qb sa sb : list (nat * nat)) :
  (NoDup (map snd qa) /\ forall c k, In (c, k) qa -> lastkey k sa = Some c) ->
  sb = sa -> (forall p, In p qb -> In p qa) -> NoDup (map snd qb) ->
  (NoDup (map snd qb) /\ forall c k, In (c, k) qb -> lastkey k sb = Some c).
Proof. intros [H1 H2] -> Hs Hn. split; [exact Hn|]. intros c k Hin. apply H2. apply Hs. exact Hin. Qed.

Lemma seqx_mono m s s' :
  SeqX m s -> subk s' = subk s -> (queue s' = queue s \/ exists h, queue s = h :: queue s') -> SeqX m s'.
Proof.
  intros H Hs Hq. destruct m; cbn in *; try exact I.
  - destruct Hq as [Hq|[h Hq]]; [rewrite Hq; exact H|]. rewrite Hq in H. cbn in H. lia.
  - unfold Dedup in *. destruct Hq as [->|[h Hq]]; [rewrite Hs; exact H|].
    rewrite Hq in H. eapply dedup_sub; [exact H|exact Hs| |].
    + intros p Hp. right. exact Hp.
    + destruct H as [H _]. cbn in H. inversion H. assumption.
Qed.

Lemma seqx_start_next m s : SeqX m s -> SeqX m (start_next s).
Proof.
  intros H. unfold start_next. destruct (queue s) as [|[c kc] q] eqn:Hq; [exact H|].
  eapply seqx_mono; [exact H|reflexivity|]. right. exists (c, kc). exact Hq.
Qed.

Lemma seqx_task_start m s : SeqX m s -> SeqX m (task_start s).
Proof. intros H. unfold task_start. destruct (running s); [exact H|apply seqx_start_next; exact H]. Qed.

Lemma seqx_submit_seq m s c k :
  SeqX m s ->
  match m with
  | MSeqLim q _ => length (queue s) < q
  | MSeqDedup => ~ In k (map snd (queue s))
  | _ => True
  end -> SeqX m (submit_seq s c k).
Proof.
  intros H Hpre. apply seqx_task_start. destruct m; cbn in *; try exact I.
  - red_state. rewrite app_length. cbn. lia.
  - unfold Dedup in *. red_state. destruct H as [H1 H2]. split.
    + rewrite map_app. cbn. apply NoDup_snoc; assumption.
    + intros x kx Hin. rewrite lastkey_snoc. apply in_app_or in Hin. destruct Hin as [Hin|[Hin|[]]].
      * destruct (Nat.eqb_spec k kx) as [->|Hne]; [|apply H2; exact Hin].
        exfalso. apply Hpre. apply in_map_iff. exists (x, kx). split; [reflexivity|exact Hin].
      * injection Hin as <- <-. rewrite Nat.eqb_refl. reflexivity.
Qed.

Lemma seqx_drop m s q1 q2 v kv :
  SeqX m s -> queue s = q1 ++ (v, kv) :: q2 -> SeqX m (close (set_queue s (q1 ++ q2)) v).
Proof.
  intros H Hq. destruct m; cbn in *; try exact I.
  - rewrite Hq in H. rewrite app_length in *. cbn in H. lia.
  - unfold Dedup in *. red_state. rewrite Hq in H. eapply dedup_sub; [exact H|reflexivity| |].
    + intros p Hp. apply in_app_or in Hp. apply in_or_app. destruct Hp; [left|right; right]; assumption.
    + destruct H as [H _]. rewrite map_app in *. cbn in H. eapply NoDup_remove_1. exact H.
Qed.

Lemma seqj_flag s b : SeqJ s -> SeqJ (set_flag s b).
Proof. intros H. exact H. Qed.

Lemma submit_seqmgr_inv m s c k :
  is_seq m = true -> Core s -> SeqI s -> SeqX m s ->
  Core (submit m s c k) /\ SeqI (submit m s c k) /\ SeqX m (submit m s c k).
Proof.
  intros Hm Hc [Hj Hi] Hx. unfold submit. destruct (ph s c) eqn:Hp;
    try (split; [apply core_set_flag; exact Hc|split; [split; [exact Hj|exact Hi]|exact Hx]]).
  destruct m as [|q p| | |]; try discriminate Hm.
  - (* SequentialTaskManager *)
    destruct (submit_seq_inv s c k Hc Hj Hp) as [H1 H2]. split; [exact H1|]. split; [exact H2|exact I].
  - (* LimitingSequentialTaskManager *)
    unfold submit_seqlim. destruct (Nat.leb_spec q (length (queue s))) as [Hfull|Hroom].
    + destruct p.
      * split; [apply core_reject; assumption|]. split; [split; [apply seqj_reject; assumption|exact Hi]|exact Hx].
      * destruct (queue s) as [|[v kv] q'] eqn:Hq.
        { split; [apply core_reject; assumption|]. split; [split; [apply seqj_reject; assumption|]|].
          - intros Hr. red_state. rewrite Hq. reflexivity.
          - cbn. red_state. rewrite Hq. cbn. lia. }
        destruct (drop_submit_inv s [] q' v kv c k Hc Hj Hq Hp) as [H1 H2].
        split; [exact H1|]. split; [exact H2|]. apply seqx_submit_seq.
        { apply (seqx_drop (MSeqLim q SSkipFirst) s [] q' v kv); [exact Hx|exact Hq]. }
        cbn in *. red_state. rewrite Hq in Hx. cbn in Hx. lia.
      * pose proof (unsnoc_spec (queue s)) as Hu. destruct (unsnoc (queue s)) as [[q' [v kv]]|].
        2:{ split; [apply core_reject; assumption|]. split; [split; [apply seqj_reject; assumption|]|].
            - intros Hr. red_state. exact Hu.
            - cbn. red_state. rewrite Hu. cbn. lia. }
        assert (Hq : queue s = q' ++ (v, kv) :: []) by exact Hu.
        destruct (drop_submit_inv s q' [] v kv c k Hc Hj Hq Hp) as [H1 H2]. rewrite app_nil_r in H1, H2.
        split; [exact H1|]. split; [exact H2|]. apply seqx_submit_seq.
        { pose proof (seqx_drop (MSeqLim q SSkipLast) s q' [] v kv Hx Hq) as H3. rewrite app_nil_r in H3. exact H3. }
        cbn in *. red_state. rewrite Hq, app_length in Hx. cbn in Hx. lia.
    + destruct (submit_seq_inv s c k Hc Hj Hp) as [H1 H2]. split; [exact H1|]. split; [exact H2|].
      apply seqx_submit_seq; [exact Hx|exact Hroom].
  - (* SequentialDeduplicatingTaskManager *)
    unfold submit_dedup. pose proof (take_key_spec k (queue s)) as Ht.
    destruct (take_key k (queue s)) as [[v|] q'].
    + destruct Ht as (q1 & q2 & Hq & -> & Hn).
      destruct (drop_submit_inv s q1 q2 v k c k Hc Hj Hq Hp) as [H1 H2].
      split; [exact H1|]. split; [exact H2|]. apply seqx_submit_seq.
      { apply (seqx_drop MSeqDedup s q1 q2 v k); [exact Hx|exact Hq]. }
      red_state. destruct Hx as [Hnd _]. rewrite Hq, map_app in Hnd. cbn in Hnd.
      rewrite map_app. apply NoDup_remove_2 in Hnd. exact Hnd.
    + destruct Ht as [-> Hn].
      destruct (submit_seq_inv s c k Hc Hj Hp) as [H1 H2]. split; [exact H1|]. split; [exact H2|].
      apply seqx_submit_seq; [exact Hx|exact Hn].
Qed.

(* ------------------------------------------------------------------------------------------- *)
(* 6. parallel managers                                                                          *)

Record ParIc (g : nat -> phase) (tr mcn : list nat) (q : list (nat * nat)) (ru : option nat) : Prop := {
  p_trk : forall c, In c tr -> is_live (g c) = true;              (* what is tracked is alive *)
  p_live : forall c, is_live (g c) = true -> In c tr \/ In c mcn;  (* what is alive is tracked, unless the manager cancelled it *)
  p_nd : NoDup tr;
  p_mcl : forall c, In c mcn -> has_task (g c) = true;
  p_q : q = [] /\ ru = None
}.

Definition ParI (s : state) : Prop := ParIc (ph s) (tracked s) (mcanc s) (queue s) (running s).

Definition ParX (m : mgr) (s : state) : Prop :=
  match m with
  | MPar => mcanc s = [] /\ closed s = []
  | MParLim n _ => length (tracked s) <= n
  | _ => True
  end.

Lemma live_has_task p : is_live p = true -> has_task p = true.
Proof. destruct p; cbn; congruence. Qed.

Lemma paric_phase g tr mcn q ru c v :
  ParIc g tr mcn q ru -> is_live v = is_live (g c) -> (has_task (g c) = true -> has_task v = true) ->
  ParIc (upd g c v) tr mcn q ru.
Proof.
  intros [H1 H2 H3 H4 H5] Hl Ht. constructor; try assumption.
  - intros x Hx. destruct (Nat.eq_dec x c) as [->|Hne].
    + rewrite upd_same, Hl. apply H1. exact Hx.
    + rewrite upd_other by exact Hne. apply H1. exact Hx.
  - intros x Hx. destruct (Nat.eq_dec x c) as [->|Hne].
    + rewrite upd_same, Hl in Hx. apply H2. exact Hx.
    + rewrite upd_other in Hx by exact Hne. apply H2. exact Hx.
  - intros x Hx. destruct (Nat.eq_dec x c) as [->|Hne].
    + rewrite upd_same. apply Ht. apply H4. exact Hx.
    + rewrite upd_other by exact Hne. apply H4. exact Hx.
Qed.

Lemma core_task_cancel s c : Core s -> Core (task_cancel s c).
Proof.
  intros H. unfold task_cancel. destruct (ph s c) eqn:Hp; try exact H; try (apply core_set_mc; exact H).
  apply core_wake_up; [exact H|left; exact Hp].
Qed.

Lemma seqj_task_cancel s c : SeqJ s -> SeqJ (task_cancel s c).
Proof.
  intros H. unfold task_cancel. destruct (ph s c) eqn:Hp; try exact H.
  apply seqjc_phase; [exact H|rewrite Hp; reflexivity].
Qed.

Lemma pari_task_cancel s c : ParI s -> ParI (task_cancel s c).
Proof.
  intros H. unfold task_cancel. destruct (ph s c) eqn:Hp; try exact H.
  apply paric_phase; [exact H|rewrite Hp; reflexivity|reflexivity].
Qed.

Lemma pari_track s c k : ParI s -> ph s c = Unknown -> ParI (track s c k).
Proof.
  intros [H1 H2 H3 H4 H5] Hp. unfold ParI, track. red_state. constructor; try assumption.
  - intros x Hx. apply in_app_or in Hx. destruct Hx as [Hx|[<-|[]]].
    + destruct (Nat.eq_dec x c) as [->|Hne]; [rewrite upd_same; reflexivity|].
      rewrite upd_other by exact Hne. apply H1. exact Hx.
    + rewrite upd_same. reflexivity.
  - intros x Hx. destruct (Nat.eq_dec x c) as [->|Hne].
    + left. apply in_or_app. right. left. reflexivity.
    + rewrite upd_other in Hx by exact Hne. destruct (H2 x Hx) as [Ht|Ht]; [left; apply in_or_app; left; exact Ht|right; exact Ht].
  - apply NoDup_snoc; [exact H3|]. intros Hin. apply H1 in Hin. rewrite Hp in Hin. discriminate.
  - intros x Hx. destruct (Nat.eq_dec x c) as [->|Hne]; [rewrite upd_same; reflexivity|].
    rewrite upd_other by exact Hne. apply H4. exact Hx.
Qed.

Lemma pari_reject s c k : ParI s -> ph s c = Unknown -> ParI (reject s c k).
Proof.
  intros H Hp. apply paric_phase; [exact H|red_state; rewrite Hp; reflexivity|].
  red_state. rewrite Hp. discriminate.
Qed.

Lemma pari_victim s t1 t2 v :
  ParI s -> tracked s = t1 ++ v :: t2 -> ParI (cancel_victim s v (t1 ++ t2)).
Proof.
  intros [H1 H2 H3 H4 H5] Ht. unfold cancel_victim. apply pari_task_cancel. unfold ParI. red_state.
  rewrite Ht in *. constructor; try assumption.
  - intros x Hx. apply H1. apply in_app_or in Hx. apply in_or_app. destruct Hx; [left|right; right]; assumption.
  - intros x Hx. destruct (H2 x Hx) as [Hin|Hin].
    + apply in_app_or in Hin. destruct Hin as [Hin|[<-|Hin]].
      * left. apply in_or_app. left. exact Hin.
      * right. apply in_or_app. right. left. reflexivity.
      * left. apply in_or_app. right. exact Hin.
    + right. apply in_or_app. left. exact Hin.
  - eapply NoDup_remove_1. exact H3.
  - intros x Hx. apply in_app_or in Hx. destruct Hx as [Hx|[<-|[]]]; [apply H4; exact Hx|].
    apply live_has_task. apply H1. apply in_or_app. right. left. reflexivity.
Qed.

Lemma pari_done s c r d :
  ParI s -> ph s c = Done d -> ParI (untrack (set_ph (set_ready s r) (upd (ph s) c (Processed d))) c).
Proof.
  intros [H1 H2 H3 H4 H5] Hp. unfold ParI, untrack. red_state. constructor; try assumption.
  - intros x Hx. assert (Hne : x <> c).
    { intros ->. exact (remove_first_NoDup_notin c _ H3 Hx). }
    rewrite upd_other by exact Hne. apply H1. eapply remove_first_In. exact Hx.
  - intros x Hx. destruct (Nat.eq_dec x c) as [->|Hne]; [rewrite upd_same in Hx; discriminate|].
    rewrite upd_other in Hx by exact Hne. destruct (H2 x Hx) as [Hin|Hin]; [left|right; exact Hin].
    apply remove_first_In_other; assumption.
  - apply remove_first_NoDup. exact H3.
  - intros x Hx. destruct (Nat.eq_dec x c) as [->|Hne]; [rewrite upd_same; reflexivity|].
    rewrite upd_other by exact Hne. apply H4. exact Hx.
Qed.

Lemma cancel_victim_closed s v r : closed (cancel_victim s v r) = closed s.
Proof. unfold cancel_victim, task_cancel. red_state. destruct (ph s v); reflexivity. Qed.
Lemma cancel_victim_tracked s v r : tracked (cancel_victim s v r) = r.
Proof. unfold cancel_victim, task_cancel. red_state. destruct (ph s v); reflexivity. Qed.
Lemma cancel_victim_queue s v r : queue (cancel_victim s v r) = queue s.
Proof. unfold cancel_victim, task_cancel. red_state. destruct (ph s v); reflexivity. Qed.
Lemma cancel_victim_unknown s v r c : ph s c = Unknown -> ph (cancel_victim s v r) c = Unknown.
Proof.
  intros Hp. unfold cancel_victim, task_cancel. red_state. destruct (ph s v) eqn:Hv; try exact Hp.
  red_state. rewrite upd_other; [exact Hp|]. intros ->. congruence.
Qed.

Lemma core_cancel_victim s v r : Core s -> Core (cancel_victim s v r).
Proof.
  intros H. unfold cancel_victim. apply core_task_cancel. apply core_set_mcanc. apply core_set_tracked. exact H.
Qed.

Lemma core_track s c k : Core s -> ph s c = Unknown -> queue s = [] -> Core (track s c k).
Proof. intros H Hp Hq. unfold track. apply core_set_tracked. apply core_spawn_new; assumption. Qed.

Definition is_par (m : mgr) : bool := match m with MPar | MParLim _ _ => true | _ => false end.

Lemma submit_parmgr_inv m s c k :
  is_par m = true -> Core s -> ParI s -> ParX m s ->
  Core (submit m s c k) /\ ParI (submit m s c k) /\ ParX m (submit m s c k).
Proof.
  intros Hm Hc Hi Hx. unfold submit. destruct (ph s c) eqn:Hp;
    try (split; [apply core_set_flag; exact Hc|split; [exact Hi|exact Hx]]).
  assert (Hq : queue s = []) by (destruct Hi as [_ _ _ _ [Hq _]]; exact Hq).
  destruct m as [| | | |n p]; try discriminate Hm.
  - (* ParallelTaskManager *)
    split; [apply core_track; assumption|]. split; [apply pari_track; assumption|]. exact Hx.
  - (* LimitingParallelTaskManager *)
    unfold submit_parlim. cbn in Hx. destruct (Nat.leb_spec n (length (tracked s))) as [Hfull|Hroom].
    + destruct p.
      * split; [apply core_reject; assumption|]. split; [apply pari_reject; assumption|exact Hx].
      * destruct (tracked s) as [|v r] eqn:Ht.
        { split; [apply core_reject; assumption|]. split; [apply pari_reject; assumption|].
          cbn. red_state. rewrite Ht. exact Hx. }
        pose proof (pari_victim s [] r v Hi Ht) as Hv. cbn [app] in Hv.
        split; [|split].
        -- apply core_track; [apply core_cancel_victim; exact Hc|apply cancel_victim_unknown; exact Hp|].
           rewrite cancel_victim_queue. exact Hq.
        -- apply pari_track; [exact Hv|apply cancel_victim_unknown; exact Hp].
        -- cbn. unfold track. red_state. rewrite cancel_victim_tracked, app_length. cbn in *. lia.
      * pose proof (unsnoc_spec (tracked s)) as Hu. destruct (unsnoc (tracked s)) as [[r v]|].
        2:{ split; [apply core_reject; assumption|]. split; [apply pari_reject; assumption|].
            cbn. red_state. exact Hx. }
        assert (Ht : tracked s = r ++ v :: []) by exact Hu.
        pose proof (pari_victim s r [] v Hi Ht) as Hv. rewrite app_nil_r in Hv.
        split; [|split].
        -- apply core_track; [apply core_cancel_victim; exact Hc|apply cancel_victim_unknown; exact Hp|].
           rewrite cancel_victim_queue. exact Hq.
        -- apply pari_track; [exact Hv|apply cancel_victim_unknown; exact Hp].
        -- cbn. unfold track. red_state. rewrite cancel_victim_tracked, app_length. rewrite Ht, app_length in Hx. cbn in *. lia.
    + split; [apply core_track; assumption|]. split; [apply pari_track; assumption|].
      cbn. unfold track. red_state. rewrite app_length. cbn. lia.
Qed.

(* ------------------------------------------------------------------------------------------- *)
(* 7. a submission never touches the phase of the task whose body is executing                  *)

Lemma kr_upd (g : nat -> phase) c v x : g c <> Running -> g x = Running -> upd g c v x = Running.
Proof. intros Hc Hx. rewrite upd_other; [exact Hx|]. intros ->. contradiction. Qed.

Lemma kr_task_cancel s v x : ph s x = Running -> ph (task_cancel s v) x = Running.
Proof.
  intros Hx. unfold task_cancel. destruct (ph s v) eqn:Hv; try exact Hx.
  red_state. apply kr_upd; [congruence|exact Hx].
Qed.

Lemma kr_start_next s x : Core s -> ph s x = Running -> ph (start_next s) x = Running.
Proof.
  intros Hc Hx. unfold start_next. destruct (queue s) as [|[c kc] q] eqn:Hq; [exact Hx|].
  red_state. apply kr_upd; [|exact Hx]. rewrite (queued_phase s [] q c kc Hc Hq). discriminate.
Qed.

Lemma kr_task_start s x : Core s -> ph s x = Running -> ph (task_start s) x = Running.
Proof. intros Hc Hx. unfold task_start. destruct (running s); [exact Hx|apply kr_start_next; assumption]. Qed.

Lemma kr_submit_seq s c k x : Core s -> ph s c = Unknown -> ph s x = Running -> ph (submit_seq s c k) x = Running.
Proof.
  intros Hc Hp Hx. unfold submit_seq. apply kr_task_start; [apply core_enqueue; assumption|].
  red_state. apply kr_upd; [congruence|exact Hx].
Qed.

Lemma kr_reject s c k x : ph s c = Unknown -> ph s x = Running -> ph (reject s c k) x = Running.
Proof. intros Hp Hx. unfold reject. red_state. apply kr_upd; [congruence|exact Hx]. Qed.

Lemma kr_track s c k x : ph s c = Unknown -> ph s x = Running -> ph (track s c k) x = Running.
Proof. intros Hp Hx. unfold track. red_state. apply kr_upd; [congruence|exact Hx]. Qed.

Lemma kr_drop_submit s q1 q2 v kv c k x :
  Core s -> queue s = q1 ++ (v, kv) :: q2 -> ph s c = Unknown -> ph s x = Running ->
  ph (submit_seq (close (set_queue s (q1 ++ q2)) v) c k) x = Running.
Proof.
  intros Hc Hq Hp Hx. pose proof (queued_phase s q1 q2 v kv Hc Hq) as Hv. apply kr_submit_seq.
  - eapply core_drop; eassumption.
  - red_state. rewrite upd_other; [exact Hp|]. intros ->. congruence.
  - red_state. apply kr_upd; [congruence|exact Hx].
Qed.

Lemma kr_cancel_victim s v r x : ph s x = Running -> ph (cancel_victim s v r) x = Running.
Proof. intros Hx. unfold cancel_victim. apply kr_task_cancel. exact Hx. Qed.

Lemma submit_keeps_running m s c k x : Core s -> ph s x = Running -> ph (submit m s c k) x = Running.
Proof.
  intros Hc Hx. unfold submit. destruct (ph s c) eqn:Hp; try exact Hx.
  destruct m as [|q p| | |n p].
  - apply kr_submit_seq; assumption.
  - unfold submit_seqlim. destruct (q <=? length (queue s)); [|apply kr_submit_seq; assumption].
    destruct p.
    + apply kr_reject; assumption.
    + destruct (queue s) as [|[v kv] q'] eqn:Hq; [apply kr_reject; assumption|].
      apply (kr_drop_submit s [] q' v kv); assumption.
    + pose proof (unsnoc_spec (queue s)) as Hu. destruct (unsnoc (queue s)) as [[q' [v kv]]|]; [|apply kr_reject; assumption].
      pose proof (kr_drop_submit s q' [] v kv c k x Hc Hu Hp Hx) as H. rewrite app_nil_r in H. exact H.
  - unfold submit_dedup. pose proof (take_key_spec k (queue s)) as Ht.
    destruct (take_key k (queue s)) as [[v|] q']; [|apply kr_submit_seq; assumption].
    destruct Ht as (q1 & q2 & Hq & -> & _). apply (kr_drop_submit s q1 q2 v k); assumption.
  - apply kr_track; assumption.
  - unfold submit_parlim. destruct (n <=? length (tracked s)); [|apply kr_track; assumption].
    destruct p.
    + apply kr_reject; assumption.
    + destruct (tracked s) as [|v r]; [apply kr_reject; assumption|].
      apply kr_track; [apply cancel_victim_unknown; exact Hp|apply kr_cancel_victim; exact Hx].
    + destruct (unsnoc (tracked s)) as [[r v]|]; [|apply kr_reject; assumption].
      apply kr_track; [apply cancel_victim_unknown; exact Hp|apply kr_cancel_victim; exact Hx].
Qed.

(* ------------------------------------------------------------------------------------------- *)
(* 8. the invariant of every reachable state                                                    *)

Definition MI (m : mgr) (s : state) : Prop :=
  if is_seq m then SeqI s /\ SeqX m s else ParI s /\ ParX m s.

Definition Inv (m : mgr) (s : state) : Prop := Core s /\ MI m s.

Lemma inv_init m : Inv m init.
Proof.
  split; [exact core_init|]. unfold MI. destruct m; cbn.
  - split; [|exact I]. split; [|intros _; reflexivity].
    constructor; cbn; try (intros c; cbn; split; [tauto|discriminate]); try tauto.
    intros c H. discriminate.
  - split; [|lia]. split; [|intros _; reflexivity].
    constructor; cbn; try (intros c; cbn; split; [tauto|discriminate]); try tauto.
    intros c H. discriminate.
  - split; [|split; [constructor|intros c k []]]. split; [|intros _; reflexivity].
    constructor; cbn; try (intros c; cbn; split; [tauto|discriminate]); try tauto.
    intros c H. discriminate.
  - split; [|tauto]. constructor; cbn; try tauto; try constructor; try discriminate.
  - split; [|lia]. constructor; cbn; try tauto; try constructor; try discriminate.
Qed.

Lemma submit_inv m s c k : Inv m s -> Inv m (submit m s c k).
Proof.
  intros [Hc Hm]. unfold Inv, MI in *. destruct (is_seq m) eqn:Es.
  - destruct Hm as [Hi Hx]. destruct (submit_seqmgr_inv m s c k Es Hc Hi Hx) as (H1 & H2 & H3). tauto.
  - destruct Hm as [Hi Hx]. assert (Ep : is_par m = true) by (destruct m; cbn in *; congruence).
    destruct (submit_parmgr_inv m s c k Ep Hc Hi Hx) as (H1 & H2 & H3). tauto.
Qed.

Lemma submits_inv m l : forall s x, Inv m s -> ph s x = Running ->
  Inv m (submits m s l) /\ ph (submits m s l) x = Running.
Proof.
  induction l as [|[c k] l IH]; intros s x Hi Hx; cbn [submits]; [split; assumption|].
  apply IH; [apply submit_inv; exact Hi|]. apply submit_keeps_running; [exact (proj1 Hi)|exact Hx].
Qed.

(* the invariant does not mention the _must_cancel flags nor the invalid-request flag *)
Definition eqv (s s' : state) : Prop :=
  ph s' = ph s /\ ent s' = ent s /\ subk s' = subk s /\ started s' = started s /\ entlog s' = entlog s /\
  closed s' = closed s /\ mcanc s' = mcanc s /\ queue s' = queue s /\ running s' = running s /\
  tracked s' = tracked s /\ ready s' = ready s.

Lemma inv_ext m s s' : Inv m s -> eqv s s' -> Inv m s'.
Proof.
  intros H E. destruct s, s'. unfold eqv in E. cbn in E.
  destruct E as (E1 & E2 & E3 & E4 & E5 & E6 & E7 & E8 & E9 & E10 & E11). subst.
  destruct H as [Hc Hm]. split.
  - destruct Hc. constructor; assumption.
  - exact Hm.
Qed.

Ltac by_ext H := apply (inv_ext _ _ _ H); unfold eqv; red_state; repeat split; reflexivity.

(* MI under a change of one phase that neither creates nor removes a live task *)
Lemma mi_phase m s s' c v :
  MI m s ->
  ph s' = upd (ph s) c v /\ ent s' = ent s /\ subk s' = subk s /\ started s' = started s /\ entlog s' = entlog s /\
  closed s' = closed s /\ mcanc s' = mcanc s /\ queue s' = queue s /\ running s' = running s /\ tracked s' = tracked s ->
  is_live v = is_live (ph s c) -> (has_task (ph s c) = true -> has_task v = true) -> MI m s'.
Proof.
  intros H E Hl Ht. destruct s, s'. cbn in E, Hl, Ht.
  destruct E as (E1 & E2 & E3 & E4 & E5 & E6 & E7 & E8 & E9 & E10). subst.
  unfold MI in *. destruct (is_seq m).
  - destruct H as [[Hj Hi] Hx]. split; [split|].
    + apply seqjc_phase; [exact Hj|exact Hl].
    + exact Hi.
    + destruct m; exact Hx.
  - destruct H as [Hi Hx]. split.
    + apply paric_phase; [exact Hi|exact Hl|exact Ht].
    + destruct m; exact Hx.
Qed.

Ltac mi_by_phase H c v := apply (mi_phase _ _ _ c v H); [red_state; repeat split; reflexivity| |].

Lemma inv_wake_up m s c w : Inv m s -> ph s c = Parked \/ ph s c = Running -> Inv m (wake_up s c w).
Proof.
  intros [Hc Hm] Hp. split; [apply core_wake_up; assumption|].
  mi_by_phase Hm c (Waking w); destruct Hp as [Hp|Hp]; rewrite Hp; reflexivity.
Qed.

Lemma inv_task_cancel m s c : Inv m s -> Inv m (task_cancel s c).
Proof.
  intros H. unfold task_cancel. destruct (ph s c) eqn:Hp; try exact H; try (by_ext H).
  apply inv_wake_up; [exact H|left; exact Hp].
Qed.

Lemma inv_park m s c : Inv m s -> ph s c = Running -> Inv m (set_ph s (upd (ph s) c Parked)).
Proof.
  intros [Hc Hm] Hp. split; [apply core_park; assumption|]. mi_by_phase Hm c Parked; rewrite Hp; reflexivity.
Qed.

Lemma inv_finish m s c d : Inv m s -> ph s c = Running -> Inv m (finish s c d).
Proof.
  intros [Hc Hm] Hp. split; [apply core_finish; assumption|]. mi_by_phase Hm c (Done d); rewrite Hp; reflexivity.
Qed.

Lemma inv_set_mc m s f : Inv m s -> Inv m (set_mc s f).
Proof. intros H. by_ext H. Qed.

Lemma inv_set_flag m s b : Inv m s -> Inv m (set_flag s b).
Proof. intros H. by_ext H. Qed.

Lemma inv_finish_ret m s c : Inv m s -> ph s c = Running -> Inv m (finish_ret s c).
Proof.
  intros H Hp. unfold finish_ret. destruct (mc s c).
  - apply inv_finish; [apply inv_set_mc; exact H|exact Hp].
  - apply inv_finish; assumption.
Qed.

Lemma end_step_inv m s c w n : Inv m s -> ph s c = Running -> Inv m (end_step s c w n).
Proof.
  intros H Hp. unfold end_step. destruct n.
  - destruct (mc s c).
    + apply inv_wake_up; [apply inv_set_mc; exact H|right; exact Hp].
    + apply inv_park; assumption.
  - destruct w; [apply inv_finish_ret|apply inv_finish|apply inv_finish]; assumption.
  - apply inv_finish; assumption.
  - apply inv_finish_ret; assumption.
Qed.

Lemma body_inv m s c w b : Inv m (set_ph s (upd (ph s) c Running)) -> Inv m (body m s c w b).
Proof.
  intros H. unfold body.
  destruct (submits_inv m (fst b) (set_ph s (upd (ph s) c Running)) c H) as [H1 H2].
  { red_state. apply upd_same. }
  apply end_step_inv; assumption.
Qed.

Lemma inv_pop_resume m s c r w :
  Inv m s -> ready s = HStep c :: r -> ph s c = Waking w ->
  Inv m (set_ph (set_ready s r) (upd (ph s) c Running)).
Proof.
  intros [Hc Hm] Hr Hp. split; [eapply core_pop_resume; eassumption|].
  mi_by_phase Hm c Running; rewrite Hp; reflexivity.
Qed.

Lemma inv_pop_cancelled m s c r f :
  Inv m s -> ready s = HStep c :: r -> ph s c = Created -> Inv m (finish (set_mc (set_ready s r) f) c DCanc).
Proof.
  intros [Hc Hm] Hr Hp. split; [apply core_pop_cancelled; assumption|].
  mi_by_phase Hm c (Done DCanc); rewrite Hp; reflexivity.
Qed.

Lemma filter_upd_notin (en : nat -> bool) c l : ~ In c l -> filter (upd en c true) l = filter en l.
Proof.
  intros Hn. apply filter_ext_in'. intros x Hx. apply upd_other. intros ->. contradiction.
Qed.

Lemma inv_pop_enter m s c r :
  Inv m s -> ready s = HStep c :: r -> ph s c = Created ->
  Inv m (set_ph (set_entlog (set_ent (set_ready s r) (upd (ent s) c true)) (entlog s ++ [c])) (upd (ph s) c Running)).
Proof.
  intros [Hc Hm] Hr Hp. split; [apply core_pop_enter; assumption|].
  pose proof (ent_false_of_phase s c Hc) as He. rewrite Hp in He. specialize (He eq_refl).
  pose proof (NoDup_app_l _ _ (core_nd_sq s Hc)) as Hnd.
  unfold MI in *. destruct (is_seq m).
  - destruct Hm as [[Hj Hi] Hx]. split; [split|].
    + pose proof (is_live_running s c Hj) as Hru. rewrite Hp in Hru. specialize (Hru eq_refl).
      destruct Hj as [H1 H2 H3 H4]. unfold SeqJ. red_state. constructor; try assumption.
      * apply T_same; [exact H1|rewrite Hp; reflexivity].
      * destruct (H2 c Hru) as [pre Hpre]. rewrite Hpre in *.
        assert (Hn : ~ In c pre).
        { intros Hin. eapply (NoDup_app_disj pre [c] c Hnd); [exact Hin|left; reflexivity]. }
        rewrite filter_app in *. cbn. cbn in H3. rewrite upd_same. rewrite He, app_nil_r in H3.
        rewrite filter_upd_notin by exact Hn. rewrite H3. reflexivity.
    + exact Hi.
    + destruct m; exact Hx.
  - destruct Hm as [Hi Hx]. split.
    + unfold ParI. red_state. apply paric_phase; [exact Hi|rewrite Hp; reflexivity|reflexivity].
    + destruct m; exact Hx.
Qed.

Lemma remove_first_length c l : length (remove_first c l) <= length l.
Proof.
  induction l as [|a l IH]; cbn; [lia|]. destruct (Nat.eqb c a); cbn; lia.
Qed.

Lemma inv_pop_done m s c r :
  Inv m s -> ready s = HDone c :: r -> Inv m (run_done m (set_ready s r) c).
Proof.
  intros [Hc Hm] Hr. destruct (head_done_phase s c r Hc Hr) as [d Hp].
  unfold run_done. red_state. rewrite Hp.
  pose proof (core_pop_done s c r d Hc Hr Hp) as Hc1.
  unfold Inv, MI in *. destruct (is_seq m) eqn:Es.
  - destruct Hm as [[Hj Hi] Hx].
    assert (Hru : running s = Some c) by (apply is_live_running; [exact Hj|rewrite Hp; reflexivity]).
    assert (Hd : done_cb m (set_ph (set_ready s r) (upd (ph s) c (Processed d))) c =
                 start_next (set_running (set_ph (set_ready s r) (upd (ph s) c (Processed d))) None)).
    { destruct m; try discriminate Es; cbn [done_cb]; unfold seq_done_cb; red_state;
        rewrite Hru; cbn [opt_eqb]; rewrite Nat.eqb_refl; reflexivity. }
    rewrite Hd.
    destruct (start_next_inv (set_running (set_ph (set_ready s r) (upd (ph s) c (Processed d))) None)) as [H1 H2].
    + apply core_set_running. exact Hc1.
    + destruct Hj as [J1 J2 J3 J4]. unfold SeqJ. red_state. rewrite Hru in J1. constructor; try assumption.
      * apply (T_del (fun c => c) is_live [] []); [exact J1|exact inj_id|constructor; [tauto|constructor]|reflexivity].
      * intros x Hx0. discriminate.
    + reflexivity.
    + split; [exact H1|]. split; [exact H2|]. apply seqx_start_next.
      eapply seqx_mono; [exact Hx|reflexivity|left; reflexivity].
  - destruct Hm as [Hi Hx].
    assert (Hd : done_cb m (set_ph (set_ready s r) (upd (ph s) c (Processed d))) c =
                 untrack (set_ph (set_ready s r) (upd (ph s) c (Processed d))) c).
    { destruct m; try discriminate Es; reflexivity. }
    rewrite Hd. split; [apply core_set_tracked; exact Hc1|]. split.
    + apply pari_done; assumption.
    + destruct m; try discriminate Es; cbn in *; unfold untrack; red_state; [exact Hx|].
      pose proof (remove_first_length c (tracked s)). lia.
Qed.

Lemma run_step_inv m s c r b : Inv m s -> ready s = HStep c :: r -> Inv m (run_step m (set_ready s r) c b).
Proof.
  intros H Hr. pose proof (head_step_phase s c r (proj1 H) Hr) as Hw.
  unfold run_step. red_state. destruct (wants_step_cases _ Hw) as [Hp|[w Hp]]; rewrite Hp.
  - destruct (mc s c).
    + apply inv_pop_cancelled; assumption.
    + apply body_inv. red_state. apply inv_pop_enter; assumption.
  - destruct (mc s c).
    + apply body_inv. red_state.
      pose proof (inv_pop_resume m s c r w H Hr Hp) as H1. by_ext H1.
    + apply body_inv. red_state. eapply inv_pop_resume; eassumption.
Qed.

Lemma run_handles_inv m n : forall bs s, Inv m s -> Inv m (run_handles m n bs s).
Proof.
  induction n as [|n IH]; intros bs s H; cbn [run_handles]; [exact H|].
  destruct (ready s) as [|[c|c] r] eqn:Hr; [exact H| |].
  - apply IH. apply run_step_inv; assumption.
  - apply IH. apply inv_pop_done; assumption.
Qed.

Theorem step_inv m s e : Inv m s -> Inv m (step m s e).
Proof.
  intros H0. assert (H : Inv m (set_flag s false)) by (apply inv_set_flag; exact H0).
  unfold step. destruct e as [c k|c|c|c|bs|bs]; red_state.
  - apply submit_inv. exact H.
  - destruct (ph s c) eqn:Hp; try (apply inv_set_flag; exact H).
    apply inv_wake_up; [exact H|left; exact Hp].
  - destruct (ph s c) eqn:Hp; try (apply inv_set_flag; exact H).
    apply inv_wake_up; [exact H|left; exact Hp].
  - destruct (has_task (ph s c)); [apply inv_task_cancel; exact H|apply inv_set_flag; exact H].
  - destruct (ready s); [apply inv_set_flag; exact H|apply run_handles_inv; exact H].
  - destruct (ready s); [apply inv_set_flag; exact H|apply run_handles_inv; exact H].
Qed.

Theorem run_inv m evs : Inv m (run m evs).
Proof.
  unfold run. assert (G : forall s, Inv m s -> Inv m (fold_left (step m) evs s)).
  { induction evs as [|e evs IH]; intros s H; cbn; [exact H|]. apply IH. apply step_inv. exact H. }
  apply G. apply inv_init.
Qed.

Lemma run_snoc m evs e : run m (evs ++ [e]) = step m (run m evs) e.
Proof. unfold run. rewrite fold_left_app. reflexivity. Qed.

(* the states in which submissions from inside a body happen are covered too: when the loop runs the
   step of c, the body starts in a state s1 (c is Running) and every state between two submissions of
   its script satisfies the invariant *)
Theorem mid_body_inv m s c r b :
  Inv m s -> ready s = HStep c :: r -> takes_beh s c = true ->
  exists s1 w, run_step m (set_ready s r) c b = end_step (submits m s1 (fst b)) c w (snd b) /\
               ph s1 c = Running /\
               forall pre post, fst b = pre ++ post -> Inv m (submits m s1 pre) /\ ph (submits m s1 pre) c = Running.
Proof.
  intros H Hr Ht. unfold takes_beh in Ht. unfold run_step. red_state.
  assert (G : forall s1 w, Inv m s1 -> ph s1 c = Running ->
              exists s1' w', end_step (submits m s1 (fst b)) c w (snd b) = end_step (submits m s1' (fst b)) c w' (snd b) /\
                ph s1' c = Running /\
                forall pre post, fst b = pre ++ post -> Inv m (submits m s1' pre) /\ ph (submits m s1' pre) c = Running).
  { intros s1 w H1 Hp. exists s1, w. split; [reflexivity|]. split; [exact Hp|].
    intros pre post _. apply submits_inv; assumption. }
  destruct (ph s c) eqn:Hp; try discriminate Ht.
  - destruct (mc s c); [discriminate Ht|]. unfold body. red_state. apply G.
    + apply inv_pop_enter; assumption.
    + red_state. apply upd_same.
  - destruct (mc s c); unfold body; red_state; apply G; try (red_state; apply upd_same).
    + pose proof (inv_pop_resume m s c r w H Hr Hp) as H1. by_ext H1.
    + eapply inv_pop_resume; eassumption.
Qed.

(* ------------------------------------------------------------------------------------------- *)
(* 9. C11 — sequential task managers                                                            *)

(* a body that has been entered and has not finished *)
Definition body_open (s : state) (c : nat) : Prop :=
  ent s c = true /\ (ph s c = Running \/ ph s c = Parked \/ exists w, ph s c = Waking w).

Lemma seq_parts m s : is_seq m = true -> Inv m s -> Core s /\ SeqJ s /\ Idle s /\ SeqX m s.
Proof. intros Es [Hc Hm]. unfold MI in Hm. rewrite Es in Hm. unfold SeqI in Hm. tauto. Qed.

(* one at a time: the only task that exists and whose done-callbacks have not run is manager.task; so
   there are never two such tasks and never two open bodies *)
Theorem seq_mutex_inv m s :
  is_seq m = true -> Inv m s ->
  (forall c, is_live (ph s c) = true <-> running s = Some c) /\
  (forall c c', is_live (ph s c) = true -> is_live (ph s c') = true -> c = c') /\
  (forall c c', body_open s c -> body_open s c' -> c = c').
Proof.
  intros Es H. destruct (seq_parts m s Es H) as (Hc & Hj & Hi & Hx).
  assert (A : forall c, is_live (ph s c) = true <-> running s = Some c).
  { intros c. split; [apply is_live_running; exact Hj|apply running_is_live; exact Hj]. }
  assert (B : forall c c', is_live (ph s c) = true -> is_live (ph s c') = true -> c = c').
  { intros c c' H1 H2. apply A in H1. apply A in H2. congruence. }
  split; [exact A|]. split; [exact B|].
  intros c c' [_ H1] [_ H2]. apply B.
  - destruct H1 as [->|[->|[w ->]]]; reflexivity.
  - destruct H2 as [->|[->|[w ->]]]; reflexivity.
Qed.

Theorem seq_mutex m evs :
  is_seq m = true ->
  (forall c, is_live (ph (run m evs) c) = true <-> running (run m evs) = Some c) /\
  (forall c c', is_live (ph (run m evs) c) = true -> is_live (ph (run m evs) c') = true -> c = c') /\
  (forall c c', body_open (run m evs) c -> body_open (run m evs) c' -> c = c') /\
  (running (run m evs) = None -> queue (run m evs) = []).
Proof.
  intros Es. pose proof (run_inv m evs) as H. destruct (seq_mutex_inv m _ Es H) as (A & B & C).
  destruct (seq_parts m _ Es H) as (_ & _ & Hi & _). split; [exact A|split; [exact B|split; [exact C|exact Hi]]].
Qed.

(* in order: tasks are created in the submission order of the coroutines that were not dropped (what is
   still queued follows in that order); bodies are entered in the order of task creation *)
Theorem seq_order_inv m s :
  is_seq m = true -> Inv m s ->
  started s ++ map fst (queue s) = filter (fun x => negb (memb x (closed s))) (map fst (subk s)) /\
  entlog s = filter (ent s) (started s).
Proof.
  intros Es H. destruct (seq_parts m s Es H) as (Hc & Hj & Hi & Hx). split.
  - exact (k_ord s Hc).
  - exact (q_elog _ _ _ _ _ _ _ Hj).
Qed.

Theorem seq_order m evs :
  is_seq m = true ->
  started (run m evs) ++ map fst (queue (run m evs)) =
    filter (fun x => negb (memb x (closed (run m evs)))) (map fst (subk (run m evs))) /\
  entlog (run m evs) = filter (ent (run m evs)) (started (run m evs)).
Proof. intros Es. apply (seq_order_inv m); [exact Es|apply run_inv]. Qed.

(* what the loop does when it runs the done-callbacks of c under a sequential manager *)
Lemma seq_done_run m s c r bs :
  is_seq m = true -> Inv m s -> ready s = HDone c :: r ->
  exists d, ph s c = Done d /\ running s = Some c /\
    step m s (Run bs) =
    start_next (set_running (set_ph (set_ready (set_flag s false) r) (upd (ph s) c (Processed d))) None).
Proof.
  intros Es H Hr. destruct (seq_parts m s Es H) as (Hc & Hj & Hi & Hx).
  destruct (head_done_phase s c r Hc Hr) as [d Hp]. exists d. split; [exact Hp|].
  assert (Hru : running s = Some c) by (apply is_live_running; [exact Hj|rewrite Hp; reflexivity]).
  split; [exact Hru|].
  unfold step. red_state. rewrite Hr. cbn [run_handles]. red_state. rewrite Hr.
  unfold run_done. red_state. rewrite Hp.
  destruct m; try discriminate Es; cbn [done_cb]; unfold seq_done_cb; red_state;
    rewrite Hru; cbn [opt_eqb]; rewrite Nat.eqb_refl; reflexivity.
Qed.

(* progress: whenever the running task is done (it returned, raised or took a cancellation) its
   done-callbacks are in the ready queue, and running them starts the head of the queue in the same
   step; a task that still has to be stepped has its handle in the ready queue *)
Theorem seq_progress_inv m s :
  is_seq m = true -> Inv m s ->
  (forall c, running s = Some c ->
     match ph s c with
     | Created | Waking _ => In (HStep c) (ready s)
     | Done _ => In (HDone c) (ready s)
     | Parked | Running => True
     | _ => False
     end) /\
  (forall c r bs, ready s = HDone c :: r ->
     running s = Some c /\
     match queue s with
     | [] => running (step m s (Run bs)) = None /\ queue (step m s (Run bs)) = []
     | (c', k') :: q =>
         running (step m s (Run bs)) = Some c' /\ queue (step m s (Run bs)) = q /\
         ph (step m s (Run bs)) c' = Created /\ In (HStep c') (ready (step m s (Run bs))) /\
         started (step m s (Run bs)) = started s ++ [c']
     end).
Proof.
  intros Es H. destruct (seq_parts m s Es H) as (Hc & Hj & Hi & Hx). split.
  - intros c Hru. pose proof (running_is_live s c Hj Hru) as Hl.
    destruct (ph s c) eqn:Hp; try discriminate Hl; try exact I.
    + apply (k_rs s Hc). rewrite Hp. reflexivity.
    + apply (k_rs s Hc). rewrite Hp. reflexivity.
    + apply (k_rd s Hc). rewrite Hp. reflexivity.
  - intros c r bs Hr. destruct (seq_done_run m s c r bs Es H Hr) as (d & Hp & Hru & ->).
    split; [exact Hru|]. unfold start_next. red_state.
    destruct (queue s) as [|[c' k'] q] eqn:Hq; red_state; rewrite ?Hq.
    + split; reflexivity.
    + split; [reflexivity|]. split; [reflexivity|]. split; [apply upd_same|]. split; [|reflexivity].
      apply in_or_app. right. left. reflexivity.
Qed.

Theorem seq_progress m evs :
  is_seq m = true ->
  (forall c, running (run m evs) = Some c ->
     match ph (run m evs) c with
     | Created | Waking _ => In (HStep c) (ready (run m evs))
     | Done _ => In (HDone c) (ready (run m evs))
     | Parked | Running => True
     | _ => False
     end) /\
  (forall c r bs, ready (run m evs) = HDone c :: r ->
     running (run m evs) = Some c /\
     match queue (run m evs) with
     | [] => running (run m (evs ++ [Run bs])) = None /\ queue (run m (evs ++ [Run bs])) = []
     | (c', k') :: q =>
         running (run m (evs ++ [Run bs])) = Some c' /\ queue (run m (evs ++ [Run bs])) = q /\
         ph (run m (evs ++ [Run bs])) c' = Created /\ In (HStep c') (ready (run m (evs ++ [Run bs]))) /\
         started (run m (evs ++ [Run bs])) = started (run m evs) ++ [c']
     end).
Proof.
  intros Es. pose proof (seq_progress_inv m (run m evs) Es (run_inv m evs)) as [A B]. split; [exact A|].
  intros c r bs Hr. rewrite !run_snoc. exact (B c r bs Hr).
Qed.

(* what a plain submission does *)
Lemma submit_seq_busy s c k r0 : running s = Some r0 -> submit_seq s c k = enqueue s c k.
Proof. intros Hr. unfold submit_seq, task_start. red_state. rewrite Hr. reflexivity. Qed.

Lemma submit_seq_idle s c k :
  running s = None -> queue s = [] ->
  submit_seq s c k = set_running (spawn (set_queue (enqueue s c k) []) c) (Some c).
Proof. intros Hr Hq. unfold submit_seq, task_start, start_next. red_state. rewrite Hr, Hq. reflexivity. Qed.

(* at the bound exactly the victim named by the policy is closed - the new coroutine, the oldest queued,
   the newest queued - and nothing else changes; below the bound nothing is closed; the queue never
   exceeds max_queue.  [s] is any state that satisfies the invariant: the states between events
   (run_inv) and the states inside a running body (mid_body_inv). *)
Theorem seq_drop_exact q p s c k :
  1 <= q -> Inv (MSeqLim q p) s -> ph s c = Unknown ->
  length (queue s) <= q /\
  let s' := submit (MSeqLim q p) s c k in
  if length (queue s) <? q then
    closed s' = closed s /\
    match running s with
    | Some _ => queue s' = queue s ++ [(c, k)] /\ started s' = started s /\ running s' = running s
    | None => queue s' = [] /\ running s' = Some c /\ started s' = started s ++ [c]
    end
  else
    started s' = started s /\ running s' = running s /\
    match p with
    | SSkip => closed s' = closed s ++ [c] /\ queue s' = queue s
    | SSkipFirst => exists v kv t, queue s = (v, kv) :: t /\ closed s' = closed s ++ [v] /\ queue s' = t ++ [(c, k)]
    | SSkipLast => exists v kv t, queue s = t ++ [(v, kv)] /\ closed s' = closed s ++ [v] /\ queue s' = t ++ [(c, k)]
    end.
Proof.
  intros Hq1 H Hp. destruct (seq_parts (MSeqLim q p) s eq_refl H) as (Hc & Hj & Hi & Hx). cbn in Hx.
  split; [exact Hx|]. cbn zeta. unfold submit. rewrite Hp. unfold submit_seqlim.
  destruct (Nat.leb_spec q (length (queue s))) as [Hfull|Hroom];
    destruct (Nat.ltb_spec (length (queue s)) q) as [Hlt|Hge]; try lia.
  - (* at the bound *)
    assert (Hne : queue s <> []) by (intros E; rewrite E in Hfull; cbn in Hfull; lia).
    destruct (running s) as [r0|] eqn:Hr; [|exfalso; apply Hne; apply Hi; exact Hr].
    destruct p.
    + unfold reject. red_state. repeat split; try reflexivity. exact Hr.
    + destruct (queue s) as [|[v kv] t] eqn:Hqs; [contradiction|].
      rewrite (submit_seq_busy _ c k r0) by (red_state; exact Hr). red_state.
      split; [reflexivity|]. split; [exact Hr|]. exists v, kv, t. repeat split; reflexivity.
    + pose proof (unsnoc_spec (queue s)) as Hu. destruct (unsnoc (queue s)) as [[t [v kv]]|]; [|contradiction].
      rewrite (submit_seq_busy _ c k r0) by (red_state; exact Hr). red_state.
      split; [reflexivity|]. split; [exact Hr|]. exists v, kv, t. repeat split; try reflexivity. exact Hu.
  - (* below the bound *)
    destruct (running s) as [r0|] eqn:Hr.
    + rewrite (submit_seq_busy s c k r0 Hr). red_state. repeat split; try reflexivity. exact Hr.
    + rewrite (submit_seq_idle s c k Hr (Hi Hr)). red_state. repeat split; reflexivity.
Qed.

Theorem seq_queue_bound q p evs : length (queue (run (MSeqLim q p) evs)) <= q.
Proof.
  destruct (seq_parts (MSeqLim q p) _ eq_refl (run_inv (MSeqLim q p) evs)) as (_ & _ & _ & Hx). exact Hx.
Qed.

(* the unbounded sequential manager never closes anything *)
Theorem seq_plain_no_drop s c k : closed (submit MSeq s c k) = closed s.
Proof.
  unfold submit. destruct (ph s c); try reflexivity. unfold submit_seq, task_start, start_next. red_state.
  destruct (running s); [reflexivity|]. destruct (queue s ++ [(c, k)]) as [|[a ka] t]; reflexivity.
Qed.

(* de-duplication: [lastkey k l = Some c] says that c is the newest submission for key k in the log l *)
Lemma lastkey_none k l : lastkey k l = None <-> forall c, ~ In (c, k) l.
Proof.
  induction l as [|[a ka] l IH]; cbn; [split; [intros _ c []|reflexivity]|].
  destruct (lastkey k l) as [x|].
  - split; [discriminate|]. intros H. exfalso. destruct IH as [_ IH].
    assert (E : Some x = None) by (apply IH; intros c Hc; apply (H c); right; exact Hc). discriminate E.
  - destruct IH as [IH _]. specialize (IH eq_refl). destruct (Nat.eqb_spec ka k) as [->|Hne].
    + split; [discriminate|]. intros H. exfalso. apply (H a). left. reflexivity.
    + split; [|reflexivity]. intros _ c [E|Hc]; [injection E as _ E; contradiction|exact (IH c Hc)].
Qed.

Lemma lastkey_spec k l c :
  lastkey k l = Some c <-> exists l1 l2, l = l1 ++ (c, k) :: l2 /\ forall c', ~ In (c', k) l2.
Proof.
  split.
  - induction l as [|[a ka] l IH]; cbn; [discriminate|].
    destruct (lastkey k l) as [x|] eqn:E.
    + intros Hx. injection Hx as ->. destruct (IH eq_refl) as (l1 & l2 & -> & Hn).
      exists ((a, ka) :: l1), l2. split; [reflexivity|exact Hn].
    + destruct (Nat.eqb_spec ka k) as [->|Hne]; [|discriminate]. intros Hx. injection Hx as ->.
      exists [], l. split; [reflexivity|]. apply lastkey_none. exact E.
  - intros (l1 & l2 & -> & Hn). induction l1 as [|[a ka] l1 IH]; cbn.
    + apply lastkey_none in Hn. rewrite Hn, Nat.eqb_refl. reflexivity.
    + rewrite IH. reflexivity.
Qed.

(* at most one pending coroutine per key, and it is the newest submission for that key *)
Theorem dedup_newest_inv s :
  Inv MSeqDedup s ->
  NoDup (map snd (queue s)) /\
  forall c k, In (c, k) (queue s) ->
    exists l1 l2, subk s = l1 ++ (c, k) :: l2 /\ forall c', ~ In (c', k) l2.
Proof.
  intros H. destruct (seq_parts MSeqDedup s eq_refl H) as (Hc & Hj & Hi & [Hx1 Hx2]).
  split; [exact Hx1|]. intros c k Hin. apply lastkey_spec. apply Hx2. exact Hin.
Qed.

Theorem dedup_newest evs :
  NoDup (map snd (queue (run MSeqDedup evs))) /\
  forall c k, In (c, k) (queue (run MSeqDedup evs)) ->
    exists l1 l2, subk (run MSeqDedup evs) = l1 ++ (c, k) :: l2 /\ forall c', ~ In (c', k) l2.
Proof. apply dedup_newest_inv. apply run_inv. Qed.

(* a submission closes exactly the pending coroutine with the same key (if there is one) and queues the
   new one at the end *)
Theorem dedup_drop_exact s c k :
  Inv MSeqDedup s -> ph s c = Unknown ->
  let s' := submit MSeqDedup s c k in
  (forall v, In (v, k) (queue s) ->
     exists q1 q2, queue s = q1 ++ (v, k) :: q2 /\ closed s' = closed s ++ [v] /\
                   queue s' = q1 ++ q2 ++ [(c, k)] /\ started s' = started s) /\
  ((forall v, ~ In (v, k) (queue s)) ->
     closed s' = closed s /\
     match running s with
     | Some _ => queue s' = queue s ++ [(c, k)] /\ started s' = started s
     | None => queue s' = [] /\ running s' = Some c /\ started s' = started s ++ [c]
     end).
Proof.
  intros H Hp. destruct (seq_parts MSeqDedup s eq_refl H) as (Hc & Hj & Hi & [Hx1 Hx2]).
  cbn zeta. unfold submit. rewrite Hp. unfold submit_dedup.
  pose proof (take_key_spec k (queue s)) as Ht. destruct (take_key k (queue s)) as [[v|] q'].
  - destruct Ht as (q1 & q2 & Hq & -> & Hn).
    assert (Hne : queue s <> []) by (rewrite Hq; destruct q1; discriminate).
    destruct (running s) as [r0|] eqn:Hr; [|exfalso; apply Hne; apply Hi; exact Hr].
    rewrite (submit_seq_busy _ c k r0) by (red_state; exact Hr). red_state. split.
    + intros v' Hin. assert (v' = v).
      { rewrite Hq in Hin, Hx1. rewrite map_app in Hx1. cbn in Hx1. apply in_app_or in Hin.
        destruct Hin as [Hin|[E|Hin]]; [|injection E; congruence|].
        - exfalso. apply Hn. apply in_map_iff. exists (v', k). split; [reflexivity|exact Hin].
        - exfalso. apply (NoDup_remove_2 _ _ _ Hx1). apply in_or_app. right.
          apply in_map_iff. exists (v', k). split; [reflexivity|exact Hin]. }
      subst v'. exists q1, q2. rewrite <- app_assoc. repeat split; try reflexivity. exact Hq.
    + intros Hno. exfalso. apply (Hno v). rewrite Hq. apply in_or_app. right. left. reflexivity.
  - destruct Ht as [-> Hn]. split.
    + intros v Hin. exfalso. apply Hn. apply in_map_iff. exists (v, k). split; [reflexivity|exact Hin].
    + intros _. destruct (running s) as [r0|] eqn:Hr.
      * rewrite (submit_seq_busy s c k r0 Hr). red_state. repeat split; reflexivity.
      * rewrite (submit_seq_idle s c k Hr (Hi Hr)). red_state. repeat split; reflexivity.
Qed.

(* ------------------------------------------------------------------------------------------- *)
(* conservation (all managers): every submitted coroutine is in exactly one of: queued, has a task
   (created ... done-callbacks run), closed unstarted; nothing is started twice, no body runs twice, a
   coroutine that was dropped or is still queued has never run *)
Theorem conservation_inv m s :
  Inv m s ->
  (* the lists of the manager / the loop agree with the phase of every coroutine *)
  (forall c, In c (map fst (subk s)) <-> ph s c <> Unknown) /\
  (forall c, In c (map fst (queue s)) <-> ph s c = Queued) /\
  (forall c, In c (started s) <-> has_task (ph s c) = true) /\
  (forall c, In c (closed s) <-> ph s c = Closed) /\
  (* exactly one of the three for every submitted coroutine *)
  (forall c, In c (map fst (subk s)) ->
     (In c (map fst (queue s)) /\ ~ In c (started s) /\ ~ In c (closed s)) \/
     (~ In c (map fst (queue s)) /\ In c (started s) /\ ~ In c (closed s)) \/
     (~ In c (map fst (queue s)) /\ ~ In c (started s) /\ In c (closed s))) /\
  (* none twice *)
  NoDup (map fst (subk s)) /\ NoDup (started s) /\ NoDup (map fst (queue s)) /\ NoDup (closed s) /\
  NoDup (entlog s) /\
  (* only started coroutines run; dropped and queued ones never ran *)
  (forall c, In c (entlog s) -> In c (started s)) /\
  (forall c, In c (closed s) -> ~ In c (entlog s)) /\
  (forall c, In c (map fst (queue s)) -> ~ In c (entlog s)) /\
  (* the loop's ready queue holds exactly one handle for every task that has to be stepped / is done *)
  (forall c, In (HStep c) (ready s) <-> (ph s c = Created \/ exists w, ph s c = Waking w)) /\
  (forall c, In (HDone c) (ready s) <-> exists d, ph s c = Done d) /\
  NoDup (ready s).
Proof.
  intros [Hc _]. pose proof (core_nd_sq s Hc) as Hnd.
  destruct Hc as [Hsub Hst Hcl Hq Hnds Hndc Hord Hrs Hrd Hndr Hel Hent Hnde].
  assert (A1 : forall c, In c (map fst (subk s)) <-> ph s c <> Unknown).
  { intros c. rewrite (Hsub c). destruct (ph s c); cbn; split; congruence. }
  assert (A2 : forall c, In c (map fst (queue s)) <-> ph s c = Queued).
  { intros c. rewrite (Hq c). destruct (ph s c); cbn; split; congruence. }
  assert (A4 : forall c, In c (closed s) <-> ph s c = Closed).
  { intros c. rewrite (Hcl c). destruct (ph s c); cbn; split; congruence. }
  assert (E1 : forall c, In c (entlog s) -> In c (started s)).
  { intros c Hin. apply Hst. apply Hel in Hin. apply Hent in Hin. destruct (ph s c); cbn in *; congruence. }
  split; [exact A1|]. split; [exact A2|]. split; [exact Hst|]. split; [exact A4|]. split.
  { intros c Hin. rewrite (A2 c), (Hst c), (A4 c). apply A1 in Hin.
    destruct (ph s c); cbn; try congruence;
      try (left; repeat split; congruence); try (right; left; repeat split; congruence);
      right; right; repeat split; congruence. }
  split; [exact Hnds|]. split; [exact (NoDup_app_l _ _ Hnd)|]. split; [exact (NoDup_app_r _ _ Hnd)|].
  split; [exact Hndc|]. split; [exact Hnde|]. split; [exact E1|]. split.
  { intros c Hin Hin2. apply E1 in Hin2. apply A4 in Hin. apply Hst in Hin2. rewrite Hin in Hin2. discriminate. }
  split.
  { intros c Hin Hin2. apply E1 in Hin2. apply A2 in Hin. apply Hst in Hin2. rewrite Hin in Hin2. discriminate. }
  split.
  { intros c. rewrite (Hrs c). destruct (ph s c); cbn; split; try congruence; try tauto;
      try (intros [H0|[w0 H0]]; congruence); intros _; right; eexists; reflexivity. }
  split; [|exact Hndr].
  intros c. rewrite (Hrd c). destruct (ph s c); cbn; split; try congruence;
    try (intros [d0 H0]; congruence); intros _; eexists; reflexivity.
Qed.

Theorem conservation_short m s :
  Inv m s ->
  (forall c, In c (map fst (subk s)) ->
     (In c (map fst (queue s)) /\ ~ In c (started s) /\ ~ In c (closed s)) \/
     (~ In c (map fst (queue s)) /\ In c (started s) /\ ~ In c (closed s)) \/
     (~ In c (map fst (queue s)) /\ ~ In c (started s) /\ In c (closed s))) /\
  NoDup (started s) /\ NoDup (entlog s) /\
  (forall c, In c (entlog s) -> In c (started s)) /\
  (forall c, In c (closed s) -> ~ In c (entlog s)).
Proof.
  intros H. destruct (conservation_inv m s H) as (_ & _ & _ & _ & A & _ & B & _ & _ & C & D & E & _).
  split; [exact A|]. split; [exact B|]. split; [exact C|]. split; [exact D|exact E].
Qed.

Definition conservation_stmt (s : state) : Prop :=
  (forall c, In c (map fst (subk s)) <-> ph s c <> Unknown) /\
  (forall c, In c (map fst (queue s)) <-> ph s c = Queued) /\
  (forall c, In c (started s) <-> has_task (ph s c) = true) /\
  (forall c, In c (closed s) <-> ph s c = Closed) /\
  (forall c, In c (map fst (subk s)) ->
     (In c (map fst (queue s)) /\ ~ In c (started s) /\ ~ In c (closed s)) \/
     (~ In c (map fst (queue s)) /\ In c (started s) /\ ~ In c (closed s)) \/
     (~ In c (map fst (queue s)) /\ ~ In c (started s) /\ In c (closed s))) /\
  NoDup (map fst (subk s)) /\ NoDup (started s) /\ NoDup (map fst (queue s)) /\ NoDup (closed s) /\
  NoDup (entlog s) /\
  (forall c, In c (entlog s) -> In c (started s)) /\
  (forall c, In c (closed s) -> ~ In c (entlog s)) /\
  (forall c, In c (map fst (queue s)) -> ~ In c (entlog s)) /\
  (forall c, In (HStep c) (ready s) <-> (ph s c = Created \/ exists w, ph s c = Waking w)) /\
  (forall c, In (HDone c) (ready s) <-> exists d, ph s c = Done d) /\
  NoDup (ready s).

Theorem seq_conservation m evs : is_seq m = true -> conservation_stmt (run m evs).
Proof. intros _. apply (conservation_inv m). apply run_inv. Qed.

Theorem par_conservation m evs : is_par m = true -> conservation_stmt (run m evs).
Proof. intros _. apply (conservation_inv m). apply run_inv. Qed.

(* ------------------------------------------------------------------------------------------- *)
(* 10. C12 — parallel task managers                                                             *)

Lemma par_parts m s : is_par m = true -> Inv m s -> Core s /\ ParI s /\ ParX m s.
Proof.
  intros Ep [Hc Hm]. unfold MI in Hm. assert (Es : is_seq m = false) by (destruct m; cbn in *; congruence).
  rewrite Es in Hm. tauto.
Qed.

Theorem par_bound_inv n p s : Inv (MParLim n p) s -> length (tracked s) <= n.
Proof. intros H. destruct (par_parts (MParLim n p) s eq_refl H) as (_ & _ & Hx). exact Hx. Qed.

Theorem par_bound n p evs : length (tracked (run (MParLim n p) evs)) <= n.
Proof. apply (par_bound_inv n p). apply run_inv. Qed.

(* at the limit: skip closes the new coroutine unstarted and changes nothing else; cancel_first /
   cancel_last take the oldest / newest tracked task out of the deque and call Task.cancel() on it, then
   the new task is created (its first step is scheduled after whatever the cancellation scheduled) and
   tracked.  Below the limit the new task is created and tracked.  [s] is any state that satisfies
   the invariant (between events, or inside a running body). *)
Theorem par_victim n p s c k :
  1 <= n -> Inv (MParLim n p) s -> ph s c = Unknown ->
  let s' := submit (MParLim n p) s c k in
  if length (tracked s) <? n then
    tracked s' = tracked s ++ [c] /\ closed s' = closed s /\ mcanc s' = mcanc s /\
    started s' = started s ++ [c] /\ ph s' c = Created /\ ready s' = ready s ++ [HStep c]
  else
    match p with
    | PSkip =>
        tracked s' = tracked s /\ closed s' = closed s ++ [c] /\ mcanc s' = mcanc s /\
        started s' = started s /\ ph s' c = Closed /\ ready s' = ready s /\
        (forall x, x <> c -> ph s' x = ph s x) /\ mc s' = mc s
    | PCancelFirst =>
        exists v t, tracked s = v :: t /\
          tracked s' = t ++ [c] /\ mcanc s' = mcanc s ++ [v] /\ closed s' = closed s /\
          started s' = started s ++ [c] /\ ph s' c = Created /\
          ready s' = ready (task_cancel s v) ++ [HStep c] /\
          (forall x, x <> c -> ph s' x = ph (task_cancel s v) x) /\ mc s' = mc (task_cancel s v)
    | PCancelLast =>
        exists v t, tracked s = t ++ [v] /\
          tracked s' = t ++ [c] /\ mcanc s' = mcanc s ++ [v] /\ closed s' = closed s /\
          started s' = started s ++ [c] /\ ph s' c = Created /\
          ready s' = ready (task_cancel s v) ++ [HStep c] /\
          (forall x, x <> c -> ph s' x = ph (task_cancel s v) x) /\ mc s' = mc (task_cancel s v)
    end.
Proof.
  intros Hn H Hp. destruct (par_parts (MParLim n p) s eq_refl H) as (Hc & Hi & Hx). cbn in Hx.
  cbn zeta. unfold submit. rewrite Hp. unfold submit_parlim.
  assert (V : forall v t, 
    let s' := track (cancel_victim s v t) c k in
    tracked s' = t ++ [c] /\ mcanc s' = mcanc s ++ [v] /\ closed s' = closed s /\
    started s' = started s ++ [c] /\ ph s' c = Created /\
    ready s' = ready (task_cancel s v) ++ [HStep c] /\
    (forall x, x <> c -> ph s' x = ph (task_cancel s v) x) /\ mc s' = mc (task_cancel s v)).
  { intros v t. cbn zeta. unfold track, cancel_victim, task_cancel. red_state.
    destruct (ph s v); red_state; repeat split; try reflexivity; try (apply upd_same);
      intros x Hx0; apply upd_other; exact Hx0. }
  destruct (Nat.leb_spec n (length (tracked s))) as [Hfull|Hroom];
    destruct (Nat.ltb_spec (length (tracked s)) n) as [Hlt|Hge]; try lia.
  - assert (Hne : tracked s <> []) by (intros E; rewrite E in Hfull; cbn in Hfull; lia).
    destruct p.
    + unfold reject. red_state. repeat split; try reflexivity; try (apply upd_same).
      intros x Hx0. apply upd_other. exact Hx0.
    + destruct (tracked s) as [|v t] eqn:Ht; [contradiction|]. exists v, t. split; [reflexivity|]. apply V.
    + pose proof (unsnoc_spec (tracked s)) as Hu. destruct (unsnoc (tracked s)) as [[t v]|]; [|contradiction].
      exists v, t. split; [exact Hu|]. apply V.
  - unfold track. red_state. repeat split; try reflexivity. apply upd_same.
Qed.

(* what Task.cancel() means for the victim, spelled out *)
Theorem task_cancel_effect s v :
  match ph s v with
  | Parked => ph (task_cancel s v) v = Waking WCanc /\ ready (task_cancel s v) = ready s ++ [HStep v]
  | Created | Running | Waking _ => mc (task_cancel s v) v = true /\ ph (task_cancel s v) = ph s /\ ready (task_cancel s v) = ready s
  | _ => task_cancel s v = s
  end.
Proof.
  unfold task_cancel. destruct (ph s v); red_state; try reflexivity;
    try (split; [apply upd_same|split; reflexivity]).
Qed.

Lemma par_done_run m s c r bs :
  is_par m = true -> Inv m s -> ready s = HDone c :: r ->
  exists d, ph s c = Done d /\
    step m s (Run bs) = untrack (set_ph (set_ready (set_flag s false) r) (upd (ph s) c (Processed d))) c.
Proof.
  intros Ep H Hr. destruct (par_parts m s Ep H) as (Hc & Hi & Hx).
  destruct (head_done_phase s c r Hc Hr) as [d Hp]. exists d. split; [exact Hp|].
  unfold step. red_state. rewrite Hr. cbn [run_handles]. red_state. rewrite Hr.
  unfold run_done. red_state. rewrite Hp. destruct m; try discriminate Ep; reflexivity.
Qed.

(* release: only tasks that exist and whose done-callbacks have not run are tracked; every such task is
   tracked unless the manager itself cancelled it; running the done-callbacks of a task removes it *)
Theorem par_release_inv m s :
  is_par m = true -> Inv m s ->
  (forall c, In c (tracked s) -> is_live (ph s c) = true) /\
  (forall c, is_live (ph s c) = true -> In c (tracked s) \/ In c (mcanc s)) /\
  NoDup (tracked s) /\
  (forall c r bs, ready s = HDone c :: r ->
     ~ In c (tracked (step m s (Run bs))) /\ (exists d, ph (step m s (Run bs)) c = Processed d) /\
     length (tracked (step m s (Run bs))) <= length (tracked s)).
Proof.
  intros Ep H. destruct (par_parts m s Ep H) as (Hc & [H1 H2 H3 H4 H5] & Hx).
  split; [exact H1|]. split; [exact H2|]. split; [exact H3|].
  intros c r bs Hr. destruct (par_done_run m s c r bs Ep H Hr) as (d & Hp & ->).
  unfold untrack. red_state. split; [apply remove_first_NoDup_notin; exact H3|]. split.
  - exists d. apply upd_same.
  - apply remove_first_length.
Qed.

Theorem par_release m evs :
  is_par m = true ->
  (forall c, In c (tracked (run m evs)) -> is_live (ph (run m evs) c) = true) /\
  (forall c, is_live (ph (run m evs) c) = true -> In c (tracked (run m evs)) \/ In c (mcanc (run m evs))) /\
  NoDup (tracked (run m evs)) /\
  (forall c r bs, ready (run m evs) = HDone c :: r ->
     ~ In c (tracked (run m (evs ++ [Run bs]))) /\ (exists d, ph (run m (evs ++ [Run bs])) c = Processed d) /\
     length (tracked (run m (evs ++ [Run bs]))) <= length (tracked (run m evs))).
Proof.
  intros Ep. destruct (par_release_inv m (run m evs) Ep (run_inv m evs)) as (A & B & C & D).
  split; [exact A|]. split; [exact B|]. split; [exact C|].
  intros c r bs Hr. rewrite !run_snoc. exact (D c r bs Hr).
Qed.

(* the unbounded manager: every submitted coroutine gets a task, nothing is dropped or cancelled by the
   manager, and a task is in the set exactly from its creation until its done-callbacks have run *)
Theorem unbounded_keeps_inv s :
  Inv MPar s ->
  (forall c, In c (map fst (subk s)) -> In c (started s)) /\
  closed s = [] /\ mcanc s = [] /\
  (forall c, In c (tracked s) <-> is_live (ph s c) = true) /\
  (forall c d, ph s c = Processed d -> ~ In c (tracked s)).
Proof.
  intros H. destruct (par_parts MPar s eq_refl H) as (Hc & [H1 H2 H3 H4 H5] & [Hx1 Hx2]).
  assert (A : forall c, In c (tracked s) <-> is_live (ph s c) = true).
  { intros c. split; [apply H1|]. intros Hl. destruct (H2 c Hl) as [Hin|Hin]; [exact Hin|].
    rewrite Hx1 in Hin. destruct Hin. }
  split.
  - intros c Hin. apply (k_st s Hc). apply (k_sub s Hc) in Hin.
    assert (Hncl : ~ In c (closed s)) by (rewrite Hx2; tauto).
    assert (Hnq : ~ In c (map fst (queue s))) by (destruct H5 as [-> _]; tauto).
    destruct (ph s c) eqn:Hp; cbn in *; try reflexivity; try discriminate.
    + exfalso. apply Hnq. apply (k_q s Hc). rewrite Hp. reflexivity.
    + exfalso. apply Hncl. apply (k_cl s Hc). rewrite Hp. reflexivity.
  - split; [exact Hx2|]. split; [exact Hx1|]. split; [exact A|].
    intros c d Hp Hin. apply A in Hin. rewrite Hp in Hin. discriminate.
Qed.

Theorem unbounded_keeps evs :
  (forall c, In c (map fst (subk (run MPar evs))) -> In c (started (run MPar evs))) /\
  closed (run MPar evs) = [] /\ mcanc (run MPar evs) = [] /\
  (forall c, In c (tracked (run MPar evs)) <-> is_live (ph (run MPar evs) c) = true) /\
  (forall c d, ph (run MPar evs) c = Processed d -> ~ In c (tracked (run MPar evs))).
Proof. apply unbounded_keeps_inv. apply run_inv. Qed.

(* every submission to the unbounded manager creates and tracks the task at once *)
Theorem unbounded_starts s c k :
  ph s c = Unknown ->
  let s' := submit MPar s c k in
  tracked s' = tracked s ++ [c] /\ started s' = started s ++ [c] /\ ph s' c = Created /\
  ready s' = ready s ++ [HStep c].
Proof.
  intros Hp. cbn zeta. unfold submit. rewrite Hp. unfold track. red_state.
  repeat split; try reflexivity. apply upd_same.
Qed.

(* ------------------------------------------------------------------------------------------- *)
(* 11. non-vacuity: the situations the theorems speak about are reachable                       *)

(* the bound is hit, skip_first drops the oldest queued coroutine *)
Example ex_skip_first :
  let s := run (MSeqLim 1 SSkipFirst) [Submit 0 0; Submit 1 0; Submit 2 0] in
  running s = Some 0 /\ queue s = [(2, 0)] /\ closed s = [1] /\ ph s 1 = Closed /\ ent s 1 = false.
Proof. vm_compute. repeat split; reflexivity. Qed.

Example ex_skip_last :
  let s := run (MSeqLim 2 SSkipLast) [Submit 0 0; Submit 1 0; Submit 2 0; Submit 3 0] in
  running s = Some 0 /\ queue s = [(1, 0); (3, 0)] /\ closed s = [2].
Proof. vm_compute. repeat split; reflexivity. Qed.

Example ex_skip :
  let s := run (MSeqLim 1 SSkip) [Submit 0 0; Submit 1 0; Submit 2 0] in
  running s = Some 0 /\ queue s = [(1, 0)] /\ closed s = [2].
Proof. vm_compute. repeat split; reflexivity. Qed.

(* the hypothesis of seq_progress is reachable: the running task is done, its done-callbacks are at the
   head of the ready queue, a coroutine waits; running the handle starts it *)
Example ex_progress :
  let s := run MSeq [Submit 0 0; Submit 1 0; Run [([], NFin)]] in
  ready s = [HDone 0] /\ running s = Some 0 /\ queue s = [(1, 0)] /\
  let s' := run MSeq [Submit 0 0; Submit 1 0; Run [([], NFin)]; Run []] in
  running s' = Some 1 /\ queue s' = [] /\ ready s' = [HStep 1] /\ started s' = [0; 1].
Proof. vm_compute. repeat split; reflexivity. Qed.

(* a submission between a completion and its done-callback is queued, not started *)
Example ex_between :
  let s := run MSeq [Submit 0 0; Run [([], NFin)]; Submit 1 0] in
  ph s 0 = Done DRet /\ running s = Some 0 /\ queue s = [(1, 0)] /\ started s = [0].
Proof. vm_compute. repeat split; reflexivity. Qed.

(* cancellation before the first step: the body never runs, the next coroutine is started *)
Example ex_cancel_before_first_step :
  let s := run MSeq [Submit 0 0; Submit 1 0; CancelExt 0; Run []; Run []] in
  ph s 0 = Processed DCanc /\ ent s 0 = false /\ entlog s = [] /\ running s = Some 1 /\ started s = [0; 1].
Proof. vm_compute. repeat split; reflexivity. Qed.

(* submissions from inside a running body (the hypotheses of mid_body_inv are reachable) *)
Example ex_inside :
  let s0 := run (MSeqLim 1 SSkipFirst) [Submit 0 0] in
  ready s0 = [HStep 0] /\ takes_beh s0 0 = true /\
  let s := run (MSeqLim 1 SSkipFirst) [Submit 0 0; Run [([(1, 0); (2, 0)], NPark)]] in
  ph s 0 = Parked /\ queue s = [(2, 0)] /\ closed s = [1] /\ entlog s = [0].
Proof. vm_compute. repeat split; reflexivity. Qed.

(* de-duplication: the pending coroutine of a key is replaced by the newer one and moves to the end *)
Example ex_dedup :
  let s := run MSeqDedup [Submit 0 7; Submit 1 5; Submit 2 7; Submit 3 5; Submit 4 7] in
  running s = Some 0 /\ queue s = [(3, 5); (4, 7)] /\ closed s = [1; 2] /\
  lastkey 5 (subk s) = Some 3 /\ lastkey 7 (subk s) = Some 4.
Proof. vm_compute. repeat split; reflexivity. Qed.

(* parallel, at the limit: cancel_first cancels the oldest task (parked: its future is cancelled, the
   wake-up is scheduled before the first step of the new task) *)
Example ex_cancel_first :
  let s := run (MParLim 2 PCancelFirst) [Submit 0 0; Submit 1 0; Run [([], NPark)]; Submit 2 0] in
  tracked s = [1; 2] /\ mcanc s = [0] /\ ph s 0 = Waking WCanc /\ ready s = [HStep 1; HStep 0; HStep 2].
Proof. vm_compute. repeat split; reflexivity. Qed.

(* cancel_last from inside the newest task: the task that is executing is cancelled by the policy; the
   future it parks on is cancelled at once *)
Example ex_cancel_last_self :
  let s := run (MParLim 1 PCancelLast) [Submit 0 0; Run [([(1, 0)], NPark)]] in
  tracked s = [1] /\ mcanc s = [0] /\ ph s 0 = Waking WCanc /\ mc s 0 = false /\ ready s = [HStep 1; HStep 0].
Proof. vm_compute. repeat split; reflexivity. Qed.

Example ex_par_skip :
  let s := run (MParLim 1 PSkip) [Submit 0 0; Submit 1 0] in
  tracked s = [0] /\ closed s = [1] /\ ph s 1 = Closed /\ started s = [0].
Proof. vm_compute. repeat split; reflexivity. Qed.

(* release: the slot is freed by the done-callbacks, not by the completion itself *)
Example ex_release :
  let s := run (MParLim 1 PSkip) [Submit 0 0; Run [([], NFin)]] in
  ph s 0 = Done DRet /\ tracked s = [0] /\ ready s = [HDone 0] /\
  let s' := run (MParLim 1 PSkip) [Submit 0 0; Run [([], NFin)]; Run []; Submit 1 0] in
  ph s' 0 = Processed DRet /\ tracked s' = [1].
Proof. vm_compute. repeat split; reflexivity. Qed.

(* observation (not a clause of C12): the bound is on the tracked tasks; a task the manager cancelled is
   no longer tracked but lives until it has processed - or swallowed - the cancellation, so more than
   [limit] tasks can be alive *)
Example ex_live_can_exceed_limit :
  let s := run (MParLim 1 PCancelFirst)
               [Submit 0 0; Run [([], NPark)]; Submit 1 0; Run [([], NPark)]; Run [([], NPark)]] in
  tracked s = [1] /\ ph s 0 = Parked /\ ph s 1 = Parked /\ mcanc s = [0].
Proof. vm_compute. repeat split; reflexivity. Qed.

Example ex_unbounded :
  let s := run MPar [Submit 0 0; Submit 1 0; Tick [([], NFin); ([], NPark)]; Tick []] in
  ph s 0 = Processed DRet /\ ph s 1 = Parked /\ tracked s = [1] /\ started s = [0; 1].
Proof. vm_compute. repeat split; reflexivity. Qed.

(* observation: between a task's completion and its done-callbacks (one loop iteration) the finished task
   still occupies its slot: a submission in that window is rejected by skip although nothing is running *)
Example ex_skip_in_the_window :
  let s := run (MParLim 1 PSkip) [Submit 0 0; Run [([], NFin)]; Submit 1 0] in
  ph s 0 = Done DRet /\ tracked s = [0] /\ closed s = [1].
Proof. vm_compute. repeat split; reflexivity. Qed.
