(* TaskMgr.v — executable model of eascheduler.task_managers (sequential.py, parallel.py) running on an
   asyncio event loop.  No proofs here (TaskMgrFacts.v).

   Coroutines are numbers.  asyncio is modelled at the granularity of loop handles:

     * the loop owns a FIFO ready queue of handles: [HStep c] = "give task c a step" (its first step
       after create_task, or the wake-up after the future it waits on was resolved / failed / cancelled),
       [HDone c] = "run the done-callbacks of task c" (scheduled by call_soon when the task became done,
       so they run one handle later at the earliest: _task_done / set.discard / _remove_task run here);
     * events from outside the loop's handles: a submission (manager.create_task), the harness resolving
       or failing the future a coroutine is parked on, Task.cancel() from outside;
     * [Run bs] lets the loop execute the handle at the head of the ready queue, [Tick bs] is one loop
       iteration (BaseEventLoop._run_once): exactly the handles that are ready when it begins.  [bs]
       scripts what the coroutine bodies do when they are resumed: submit further coroutines from inside,
       then park on a new future / finish.
     * Task.cancel() follows CPython: on a task parked on a pending future the future is cancelled (the
       wake-up is scheduled); otherwise (first step not yet taken, wake-up already scheduled, or the task
       is the one that is executing right now) the _must_cancel flag is set and consumed by the next step
       or by the park that ends the current step; a cancellation that arrives before the first step closes
       the coroutine without running any of its code.                                                    *)
From EAS Require Import Base.
Open Scope nat_scope.

Inductive spol := SSkip | SSkipFirst | SSkipLast.
Inductive ppol := PSkip | PCancelFirst | PCancelLast.

Inductive mgr :=
  | MSeq                                 (* SequentialTaskManager *)
  | MSeqLim (maxq : nat) (p : spol)      (* LimitingSequentialTaskManager(max_queue, action) *)
  | MSeqDedup                            (* SequentialDeduplicatingTaskManager *)
  | MPar                                 (* ParallelTaskManager *)
  | MParLim (lim : nat) (p : ppol).      (* LimitingParallelTaskManager(parallel, action) *)

Inductive wake := WRes | WExc | WCanc.        (* what the pending wake-up will deliver *)
Inductive dkind := DRet | DExc | DCanc.       (* how the task ended *)

Inductive phase :=
  | Unknown                 (* never submitted *)
  | Queued                  (* in the manager's queue, no task *)
  | Closed                  (* coro.close() by the manager: never started, no task *)
  | Created                 (* task exists, first step scheduled, body not entered *)
  | Running                 (* its step is executing right now (only inside an event) *)
  | Parked                  (* body entered, awaiting a pending future *)
  | Waking (w : wake)       (* wake-up scheduled *)
  | Done (d : dkind)        (* task done, done-callbacks scheduled *)
  | Processed (d : dkind).  (* done-callbacks have run *)

Inductive handle := HStep (c : nat) | HDone (c : nat).

(* what a body does when it is resumed: submissions from inside, then ... *)
Inductive next :=
  | NPark        (* await a new future *)
  | NFin         (* finish: return, or re-raise what woke it (exception / CancelledError) *)
  | NRaise       (* finish by raising *)
  | NRet.        (* finish by returning, swallowing whatever woke it *)
Definition beh : Type := list (nat * nat) * next.

Inductive event :=
  | Submit (c k : nat)        (* manager.create_task(coro c [, key k]) from outside *)
  | Resolve (c : nat)         (* future of c .set_result *)
  | Fail (c : nat)            (* future of c .set_exception *)
  | CancelExt (c : nat)       (* task of c .cancel() from outside *)
  | Run (bs : list beh)       (* the loop runs the head of the ready queue *)
  | Tick (bs : list beh).     (* one loop iteration *)

Record state := mkst {
  ph : nat -> phase;  mc : nat -> bool;  ent : nat -> bool;
  subk : list (nat * nat);       (* submission log (coroutine, key) *)
  started : list nat;            (* asyncio.create_task order *)
  entlog : list nat;             (* body entry order *)
  closed : list nat;             (* closed unstarted by the manager, in order *)
  mcanc : list nat;              (* cancelled by the manager's policy, in order *)
  queue : list (nat * nat);      (* sequential managers: deque / OrderedDict *)
  running : option nat;          (* sequential managers: self.task *)
  tracked : list nat;            (* parallel managers: self.tasks *)
  ready : list handle;           (* the loop's ready queue *)
  flag : bool                    (* the last event contained an invalid request *)
}.

Definition init : state :=
  mkst (fun _ => Unknown) (fun _ => false) (fun _ => false) [] [] [] [] [] [] None [] [] false.

Definition upd {A} (f : nat -> A) (c : nat) (v : A) : nat -> A := fun x => if Nat.eqb x c then v else f x.

Definition set_ph s v := mkst v (mc s) (ent s) (subk s) (started s) (entlog s) (closed s) (mcanc s) (queue s) (running s) (tracked s) (ready s) (flag s).
Definition set_mc s v := mkst (ph s) v (ent s) (subk s) (started s) (entlog s) (closed s) (mcanc s) (queue s) (running s) (tracked s) (ready s) (flag s).
Definition set_ent s v := mkst (ph s) (mc s) v (subk s) (started s) (entlog s) (closed s) (mcanc s) (queue s) (running s) (tracked s) (ready s) (flag s).
Definition set_subk s v := mkst (ph s) (mc s) (ent s) v (started s) (entlog s) (closed s) (mcanc s) (queue s) (running s) (tracked s) (ready s) (flag s).
Definition set_started s v := mkst (ph s) (mc s) (ent s) (subk s) v (entlog s) (closed s) (mcanc s) (queue s) (running s) (tracked s) (ready s) (flag s).
Definition set_entlog s v := mkst (ph s) (mc s) (ent s) (subk s) (started s) v (closed s) (mcanc s) (queue s) (running s) (tracked s) (ready s) (flag s).
Definition set_closed s v := mkst (ph s) (mc s) (ent s) (subk s) (started s) (entlog s) v (mcanc s) (queue s) (running s) (tracked s) (ready s) (flag s).
Definition set_mcanc s v := mkst (ph s) (mc s) (ent s) (subk s) (started s) (entlog s) (closed s) v (queue s) (running s) (tracked s) (ready s) (flag s).
Definition set_queue s v := mkst (ph s) (mc s) (ent s) (subk s) (started s) (entlog s) (closed s) (mcanc s) v (running s) (tracked s) (ready s) (flag s).
Definition set_running s v := mkst (ph s) (mc s) (ent s) (subk s) (started s) (entlog s) (closed s) (mcanc s) (queue s) v (tracked s) (ready s) (flag s).
Definition set_tracked s v := mkst (ph s) (mc s) (ent s) (subk s) (started s) (entlog s) (closed s) (mcanc s) (queue s) (running s) v (ready s) (flag s).
Definition set_ready s v := mkst (ph s) (mc s) (ent s) (subk s) (started s) (entlog s) (closed s) (mcanc s) (queue s) (running s) (tracked s) v (flag s).
Definition set_flag s v := mkst (ph s) (mc s) (ent s) (subk s) (started s) (entlog s) (closed s) (mcanc s) (queue s) (running s) (tracked s) (ready s) v.

Definition invalid (s : state) : state := set_flag s true.

(* ------------------------------------------------------------------------------------------- *)
(* asyncio primitives                                                                          *)

(* asyncio.create_task(coro c): the task exists, its first step is scheduled with call_soon *)
Definition spawn (s : state) (c : nat) : state :=
  set_ready (set_started (set_ph s (upd (ph s) c Created)) (started s ++ [c])) (ready s ++ [HStep c]).

(* coro.close() on a coroutine that was never started: no code of it runs *)
Definition close (s : state) (c : nat) : state :=
  set_closed (set_ph s (upd (ph s) c Closed)) (closed s ++ [c]).

(* the future c awaits becomes done: its callback (the task's wake-up) is scheduled *)
Definition wake_up (s : state) (c : nat) (w : wake) : state :=
  set_ready (set_ph s (upd (ph s) c (Waking w))) (ready s ++ [HStep c]).

(* Task.cancel() *)
Definition task_cancel (s : state) (c : nat) : state :=
  match ph s c with
  | Parked => wake_up s c WCanc                               (* fut_waiter.cancel() succeeds *)
  | Created | Running | Waking _ => set_mc s (upd (mc s) c true)   (* _must_cancel = True *)
  | _ => s                                                    (* done: cancel() returns False *)
  end.

(* ------------------------------------------------------------------------------------------- *)
(* sequential managers                                                                          *)

(* tail of SequentialTaskManagerBase._task_done: _get_next_task, create_task, add_done_callback *)
Definition start_next (s : state) : state :=
  match queue s with
  | [] => s
  | (c, _) :: q => set_running (spawn (set_queue s q) c) (Some c)
  end.

(* _task_done(done_task) as a done-callback *)
Definition seq_done_cb (s : state) (c : nat) : state :=
  start_next (if opt_eqb Nat.eqb (running s) (Some c) then set_running s None else s).

(* _task_start *)
Definition task_start (s : state) : state :=
  match running s with
  | Some _ => s
  | None => start_next s
  end.

(* the three ways a fresh coroutine enters a manager; each writes the submission log *)
Definition log_sub (s : state) (c k : nat) : state := set_subk s (subk s ++ [(c, k)]).

Definition enqueue (s : state) (c k : nat) : state :=
  set_queue (set_ph (log_sub s c k) (upd (ph s) c Queued)) (queue s ++ [(c, k)]).

Definition reject (s : state) (c k : nat) : state := close (log_sub s c k) c.

Definition submit_seq (s : state) (c k : nat) : state := task_start (enqueue s c k).

Fixpoint unsnoc {A} (l : list A) : option (list A * A) :=
  match l with
  | [] => None
  | x :: t => match unsnoc t with
              | None => Some ([], x)
              | Some (t', y) => Some (x :: t', y)
              end
  end.

(* the branches "pop from an empty deque" are unreachable for max_queue >= 1 / parallel >= 1 (the
   constructors refuse smaller values); the model rejects the new coroutine there *)
Definition submit_seqlim (maxq : nat) (p : spol) (s : state) (c k : nat) : state :=
  if maxq <=? length (queue s) then
    match p with
    | SSkip => reject s c k
    | SSkipFirst => match queue s with
                    | (v, _) :: q => submit_seq (close (set_queue s q) v) c k
                    | [] => reject s c k
                    end
    | SSkipLast => match unsnoc (queue s) with
                   | Some (q, (v, _)) => submit_seq (close (set_queue s q) v) c k
                   | None => reject s c k
                   end
    end
  else submit_seq s c k.

(* OrderedDict.pop(key, None) *)
Fixpoint take_key (k : nat) (q : list (nat * nat)) : option nat * list (nat * nat) :=
  match q with
  | [] => (None, [])
  | (c, k') :: t => if Nat.eqb k' k then (Some c, t)
                    else let (r, t') := take_key k t in (r, (c, k') :: t')
  end.

Definition submit_dedup (s : state) (c k : nat) : state :=
  match take_key k (queue s) with
  | (Some v, q) => submit_seq (close (set_queue s q) v) c k
  | (None, _) => submit_seq s c k
  end.

(* ------------------------------------------------------------------------------------------- *)
(* parallel managers                                                                            *)

Definition track (s : state) (c k : nat) : state :=
  let s1 := spawn (log_sub s c k) c in set_tracked s1 (tracked s1 ++ [c]).

(* tasks.popleft().cancel() / tasks.pop().cancel(): [rest] is what stays tracked *)
Definition cancel_victim (s : state) (v : nat) (rest : list nat) : state :=
  task_cancel (set_mcanc (set_tracked s rest) (mcanc s ++ [v])) v.

Definition submit_parlim (lim : nat) (p : ppol) (s : state) (c k : nat) : state :=
  if lim <=? length (tracked s) then
    match p with
    | PSkip => reject s c k
    | PCancelFirst => match tracked s with
                      | v :: r => track (cancel_victim s v r) c k
                      | [] => reject s c k
                      end
    | PCancelLast => match unsnoc (tracked s) with
                     | Some (r, v) => track (cancel_victim s v r) c k
                     | None => reject s c k
                     end
    end
  else track s c k.

(* set.discard / LimitingParallelTaskManager._remove_task *)
Definition untrack (s : state) (c : nat) : state := set_tracked s (remove_first c (tracked s)).

(* ------------------------------------------------------------------------------------------- *)
Definition submit (m : mgr) (s : state) (c k : nat) : state :=
  match ph s c with
  | Unknown =>
      match m with
      | MSeq => submit_seq s c k
      | MSeqLim q p => submit_seqlim q p s c k
      | MSeqDedup => submit_dedup s c k
      | MPar => track s c k
      | MParLim n p => submit_parlim n p s c k
      end
  | _ => invalid s       (* a coroutine object is submitted once *)
  end.

Definition done_cb (m : mgr) (s : state) (c : nat) : state :=
  match m with
  | MSeq | MSeqLim _ _ | MSeqDedup => seq_done_cb s c
  | MPar | MParLim _ _ => untrack s c
  end.

Fixpoint submits (m : mgr) (s : state) (l : list (nat * nat)) : state :=
  match l with
  | [] => s
  | (c, k) :: t => submits m (submit m s c k) t
  end.

(* the task becomes done: its done-callbacks are scheduled with call_soon *)
Definition finish (s : state) (c : nat) (d : dkind) : state :=
  set_ready (set_ph s (upd (ph s) c (Done d))) (ready s ++ [HDone c]).

(* the coroutine returned: "task is cancelled right before coro stops" when _must_cancel is set *)
Definition finish_ret (s : state) (c : nat) : state :=
  if mc s c then finish (set_mc s (upd (mc s) c false)) c DCanc else finish s c DRet.

(* the body of c runs (it was resumed with [w]): submissions, then park or finish.  A _must_cancel that was
   set during this very step (the manager cancelled the task that is executing) cancels the future the body
   parks on at once; it is cleared only when the coroutine returns, not when it raises. *)
Definition end_step (s : state) (c : nat) (w : wake) (n : next) : state :=
  match n with
  | NPark => if mc s c
             then wake_up (set_mc s (upd (mc s) c false)) c WCanc
             else set_ph s (upd (ph s) c Parked)
  | NFin => match w with
            | WRes => finish_ret s c
            | WExc => finish s c DExc
            | WCanc => finish s c DCanc
            end
  | NRaise => finish s c DExc
  | NRet => finish_ret s c
  end.

Definition body (m : mgr) (s : state) (c : nat) (w : wake) (b : beh) : state :=
  let s1 := set_ph s (upd (ph s) c Running) in
  end_step (submits m s1 (fst b)) c w (snd b).

(* Task.__step of c; its handle has already been taken off the ready queue *)
Definition run_step (m : mgr) (s : state) (c : nat) (b : beh) : state :=
  match ph s c with
  | Created =>
      if mc s c then finish (set_mc s (upd (mc s) c false)) c DCanc   (* CancelledError thrown into the unstarted coroutine *)
      else body m (set_entlog (set_ent s (upd (ent s) c true)) (entlog s ++ [c])) c WRes b
  | Waking w =>
      if mc s c then body m (set_mc s (upd (mc s) c false)) c WCanc b
      else body m s c w b
  | _ => invalid s
  end.

(* the done-callbacks of c; handle already taken *)
Definition run_done (m : mgr) (s : state) (c : nat) : state :=
  match ph s c with
  | Done d => done_cb m (set_ph s (upd (ph s) c (Processed d))) c
  | _ => invalid s
  end.

Definition default_beh : beh := ([], NFin).

(* a step resumes the body (and so consumes a scripted behaviour) unless the task was cancelled before
   its first step *)
Definition takes_beh (s : state) (c : nat) : bool :=
  match ph s c with Created => negb (mc s c) | Waking _ => true | _ => false end.

(* run [n] handles from the head of the ready queue, bodies consume [bs] *)
Fixpoint run_handles (m : mgr) (n : nat) (bs : list beh) (s : state) : state :=
  match n with
  | O => s
  | S n' =>
      match ready s with
      | [] => s
      | HStep c :: r =>
          run_handles m n' (if takes_beh s c then tl bs else bs) (run_step m (set_ready s r) c (hd default_beh bs))
      | HDone c :: r => run_handles m n' bs (run_done m (set_ready s r) c)
      end
  end.

Definition has_task (p : phase) : bool :=
  match p with Created | Running | Parked | Waking _ | Done _ | Processed _ => true | _ => false end.

Definition step (m : mgr) (s0 : state) (e : event) : state :=
  let s := set_flag s0 false in
  match e with
  | Submit c k => submit m s c k
  | Resolve c => match ph s c with Parked => wake_up s c WRes | _ => invalid s end
  | Fail c => match ph s c with Parked => wake_up s c WExc | _ => invalid s end
  | CancelExt c => if has_task (ph s c) then task_cancel s c else invalid s
  | Run bs => match ready s with [] => invalid s | _ => run_handles m 1 bs s end
  | Tick bs => match ready s with [] => invalid s | _ => run_handles m (length (ready s)) bs s end
  end.

Definition run (m : mgr) (evs : list event) : state := fold_left (step m) evs init.
