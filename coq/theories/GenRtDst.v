(* GenRtDst.v — what the code generated from src/eascheduler/helpers/dst_param.py (coq/gen/GenDst.v, written by
   tools/gen_dst.py on every run) is expressed in.  Hand-written, no proofs here (GenDstEq.v).

   A Python function becomes a Gallina function into [out R X]:
     [ORet r]  the function returned r          [OExc x]  it raised x         [OStuck]  the runtime is stuck
   (stuck = a `while` loop ran out of LOOP_FUEL rounds or a primitive has no answer on the given table; Python is
   never stuck, so theorems about generated code are stated for runs that are not stuck).
   A function that reads or writes the module globals TIME_FORWARD / TIME_BACKWARD takes the record [globals] and
   gives it back next to the value (R = globals * value) AND next to the exception (X = globals * dexn): what was
   stored before a raise stays stored.
   A generator function is the list of the values it yields (R = list item): its body has no effect besides reading
   the world, and the translator refuses a generator body that can raise.
   Loops are the combinators [for_each] / [while_loop] over a body that answers with a [ctl]:
     [Next s] end of the body (or `continue`): go on with the variables s
     [Brk b]  `break` with the variables b       [Retn r] `return`        [Throw x] `raise`        [Stuck]
   The [world] is what `whenever` consults: the time-zone table of the system zone and the clock.  The clock is ONE
   instant: the two reads of SystemDateTime.now() during one _setup() see the same year (trusted). *)
From EAS Require Import Base Civil Time Replace Dst.
From Coq Require Import String.

Inductive dexn :=
  | XSkipped               (* whenever.SkippedTime *)
  | XRepeated              (* whenever.RepeatedTime *)
  | XValue                 (* ValueError *)
  | XType                  (* TypeError: unpacking a bool *)
  | XAttr                  (* AttributeError: None has no attribute ... *)
  | XAssert                (* AssertionError *)
  | XNotImplemented.       (* NotImplementedError *)

Inductive out (R X : Type) := ORet (r : R) | OExc (x : X) | OStuck.
Arguments ORet {R X} r.
Arguments OExc {R X} x.
Arguments OStuck {R X}.

Inductive ctl (St B R X : Type) := Next (s : St) | Brk (b : B) | Retn (r : R) | Throw (x : X) | Stuck.
Arguments Next {St B R X} s.
Arguments Brk {St B R X} b.
Arguments Retn {St B R X} r.
Arguments Throw {St B R X} x.
Arguments Stuck {St B R X}.

(* `for x in l: body`.  [Next s] at the end = the iterable is exhausted (the `else:` clause runs). *)
Fixpoint for_each {A St B R X : Type} (l : list A) (body : A -> St -> ctl St B R X) (s : St) : ctl St B R X :=
  match l with
  | [] => Next s
  | a :: r =>
      match body a s with
      | Next s' => for_each r body s'
      | Brk b => Brk b
      | Retn v => Retn v
      | Throw x => Throw x
      | Stuck => Stuck
      end
  end.

(* `while cond: body` with at most [fuel] tests of the condition *)
Fixpoint while_loop {St B R X : Type} (fuel : nat) (cond : St -> bool) (body : St -> ctl St B R X) (s : St)
  : ctl St B R X :=
  match fuel with
  | O => Stuck
  | S f =>
      if cond s then
        match body s with
        | Next s' => while_loop f cond body s'
        | Brk b => Brk b
        | Retn v => Retn v
        | Throw x => Throw x
        | Stuck => Stuck
        end
      else Next s
  end.

Definition LOOP_FUEL : nat := WALK_FUEL.

(* ------------------------------------------------------------------------------------------- *)
(* tuples of ints and iterators over them *)
Inductive iterable := ITuple (l : list Z) | IIter (rest : list Z).

Definition it_reversed (l : list Z) : iterable := IIter (rev l).           (* reversed(<tuple>) *)
Definition it_items (it : iterable) : list Z := match it with ITuple l => l | IIter l => l end.
(* `x in it` AFTER a complete `for ... in it` (the translator checks that position): a tuple is still all there,
   an iterator is exhausted and the test, which would consume it, finds nothing *)
Definition it_mem_after (x : Z) (it : iterable) : bool :=
  match it with ITuple l => zmemb x l | IIter _ => false end.
Definition py_range (lo hi : Z) : list Z := zrange lo hi.

(* ------------------------------------------------------------------------------------------- *)
(* whenever.Time = nanoseconds since midnight; hour / minute / second / nanosecond are its digits *)
Definition time_of (h m s n : Z) : Z := h * HOUR + m * MINUTE + s * NS + n.
Definition t_hour (t : Z) : Z := t / HOUR.
Definition t_minute (t : Z) : Z := (t mod HOUR) / MINUTE.
Definition t_second (t : Z) : Z := (t mod MINUTE) / NS.
Definition t_nano (t : Z) : Z := t mod NS.
Definition odef (o : option Z) (d : Z) : Z := match o with Some v => v | None => d end.
Definition time_replace (h m s n : option Z) (t : Z) : Z :=
  time_of (odef h (t_hour t)) (odef m (t_minute t)) (odef s (t_second t)) (odef n (t_nano t)).

(* ------------------------------------------------------------------------------------------- *)
(* whenever.SystemDateTime = its instant (Z ns); the world gives the zone's table and the clock *)
Record world := { w_tz : tz; w_now : Z }.

Definition sdt_now (W : world) : Z := w_now W.
Definition sdt_year (W : world) (i : Z) : Z := local_year (to_local (w_tz W) i).
Definition sdt_month (W : world) (i : Z) : Z := local_month (to_local (w_tz W) i).
(* SystemDateTime(y, m, d): midnight, disambiguate='compatible' - the earlier instant of a repeated midnight, a
   skipped midnight moved forward by the gap; [None]: the table has no answer (stuck) *)
Definition sdt_make (W : world) (y m d : Z) : option Z :=
  let l := days_from_civil y m d * DAY in
  match candidates (w_tz W) l with
  | i :: _ => Some i
  | [] => match gap_of (w_tz W) l with Some (ob, _) => Some (l - ob * NS) | None => None end
  end.
Definition sdt_add_hours (i h : Z) : Z := i + h * HOUR.                      (* .add(hours=h): elapsed hours *)
(* dt.replace_time(t, disambiguate='raise'): the date of dt with the time of day t *)
Definition sdt_replace_time_raise (W : world) (i t : Z) : replaced :=
  replace_raise (w_tz W) (local_day (to_local (w_tz W) i)) t.

(* ------------------------------------------------------------------------------------------- *)
(* find_time's result: bool | tuple[str, Time, Time] *)
Inductive ftval := FBool (b : bool) | FTuple (d : string) (lo up : Z).

(* the module globals: Dst.globals; DstHandlingRequiredBool(v) = RBool v, DstHandlingRequiredDate(l, u) = RDate l u *)
Definition set_fwd (v : option req) (g : globals) : globals := {| g_fwd := v; g_bwd := g_bwd g |}.
Definition set_bwd (v : option req) (g : globals) : globals := {| g_fwd := g_fwd g; g_bwd := v |}.
Definition is_none {A} (o : option A) : bool := match o with None => true | Some _ => false end.
