(* SchedApi.v — every API operation and every loop wake-up preserves the scheduler invariant. *)
From EAS Require Import Base BaseFacts Sched SchedInv.
From EASGen Require Import Generated.
From Coq Require Import Sorted.

Section Api.
Variable E : env.

Definition Inv (s : st) : Prop := WFq [] s /\ TimerOK s.

Lemma Inv_init t0 en : Inv (init t0 en).
Proof.
  split; [|reflexivity].
  constructor; cbn.
  - constructor.
  - constructor.
  - intros j [].
  - intros j H; discriminate.
  - intros j H; discriminate.
  - intros j; unfold nxt; cbn; split; [discriminate|congruence].
  - intros j H; discriminate.
  - intros j H; discriminate.
  - reflexivity.
Qed.

Lemma notin_q_of_X X s j : WFq (j :: X) s -> ~ In j (queue s).
Proof. intros W Hin. destruct (wf_q _ _ W j Hin) as (_ & Hc). apply Hc; left; reflexivity. Qed.

Lemma TimerOK_fields s s' : queue s' = queue s -> jobs s' = jobs s -> enabled s' = enabled s -> timer s' = timer s ->
  TimerOK s -> TimerOK s'.
Proof. apply TimerOK_view. Qed.

(* job_finish from a state satisfying the invariant *)
Lemma job_finish_inv fuel j s s' :
  Inv s -> job_finish E fuel j s = Some s' -> Inv s' /\ frame s s'.
Proof.
  intros (W & T) H. rewrite job_finish_eq in H.
  destruct (remove_job E fuel j s) as [s1|] eqn:ER; [|discriminate]. injection H as <-.
  destruct (core_specs_all E fuel) as (_ & _ & _ & _ & Hrm & _).
  assert (Wr : WFq [j] (set_queue (remove_first j (queue s)) s)) by (apply WFq_remove; [exact W|intros []]).
  destruct (Hrm [] j s s1 Wr ER) as (W1 & F1 & T1 & _).
  specialize (T1 (fun _ => T)).
  pose proof (notin_q_of_X _ _ _ W1) as Hnq.
  destruct (finish_job_props E j s1) as (q1 & q2 & q3 & q4 & q5 & q6 & q7 & q8).
  set (b := with_linked (with_status_next (jobs s1 j) Finished None) false) in *.
  assert (Wb : WFq [j] (set_job j b s1)).
  { apply WFq_set_job_out; [exact W1|exact Hnq|subst b; repeat split; cbn; congruence|subst b; cbn; congruence]. }
  split; [split|].
  - eapply WFq_drop with (j := j).
    + eapply WFq_view; [|exact Wb]. apply fields_view; cbn [queue jobs njobs broken set_job set_jobs]; assumption.
    + rewrite q8. unfold upd. rewrite Nat.eqb_refl. cbn. discriminate.
  - eapply TimerOK_fields; [..|apply (TimerOK_set_job_out s1 j b Hnq T1)];
      cbn [queue jobs enabled timer set_job set_jobs]; assumption.
  - eapply frame_trans; [exact F1|]. repeat split; assumption.
Qed.

(* remove_job, then set_next_run None (pause / stop) *)
Lemma pause_inv fuel j s s1 :
  Inv s -> remove_job E fuel j s = Some s1 -> Inv (set_next_run E j None s1) /\ frame s (set_next_run E j None s1).
Proof.
  intros (W & T) ER.
  destruct (core_specs_all E fuel) as (_ & _ & _ & _ & Hrm & _).
  assert (Wr : WFq [j] (set_queue (remove_first j (queue s)) s)) by (apply WFq_remove; [exact W|intros []]).
  destruct (Hrm [] j s s1 Wr ER) as (W1 & F1 & T1 & _).
  specialize (T1 (fun _ => T)).
  pose proof (notin_q_of_X _ _ _ W1) as Hnq.
  destruct (set_next_run_props E j None s1) as (q1 & q2 & q3 & q4 & q5 & q6 & q7 & q8 & q9).
  set (b := with_status_next (jobs s1 j) Paused None) in *.
  assert (Wb : WFq [j] (set_job j b s1)).
  { apply WFq_set_job_out; [exact W1|exact Hnq|subst b; repeat split; cbn; congruence|].
    subst b; cbn. apply (wf_rn _ _ W1). }
  split; [split|].
  - eapply WFq_drop with (j := j).
    + eapply WFq_view; [|exact Wb]. apply fields_view; cbn [queue jobs njobs broken set_job set_jobs]; assumption.
    + rewrite q9. unfold upd. rewrite Nat.eqb_refl. cbn. discriminate.
  - eapply TimerOK_fields; [..|apply (TimerOK_set_job_out s1 j b Hnq T1)];
      cbn [queue jobs enabled timer set_job set_jobs]; assumption.
  - eapply frame_trans; [exact F1|]. repeat split; assumption.
Qed.

(* set_next_run (Some v) on a linked job, then update_job = remove_job; add_job (reset / resume) *)
Lemma retime_inv fuel j v s s' :
  Inv s -> jlinked (jobs s j) = true ->
  update_job E fuel j (set_next_run E j (Some v) s) = Some s' ->
  Inv s' /\ frame s s'.
Proof.
  intros (W & T) Hlk H. unfold update_job in H.
  destruct (set_next_run_props E j (Some v) s) as (q1 & q2 & q3 & q4 & q5 & q6 & q7 & q8 & q9).
  remember (set_next_run E j (Some v) s) as s2 eqn:Es2.
  destruct (remove_job E fuel j s2) as [s3|] eqn:ER; [|discriminate].
  destruct (core_specs_all E fuel) as (_ & _ & _ & Hadd & Hrm & _).
  set (b := with_status_next (jobs s j) Running (Some v)) in *.
  (* the state remove_job starts from, with j already taken out of the queue *)
  assert (Wr0 : WFq [j] (set_queue (remove_first j (queue s)) s)) by (apply WFq_remove; [exact W|intros []]).
  assert (Hnq0 : ~ In j (remove_first j (queue s))) by (apply remove_first_NoDup_notin; apply (wf_nodup _ _ W)).
  assert (Wb : WFq [j] (set_job j b (set_queue (remove_first j (queue s)) s))).
  { apply WFq_set_job_out; [exact Wr0|exact Hnq0| |intros _; cbn; apply (wf_rn _ _ W); exact Hlk].
    subst b. split; [|split]; cbn; [split; congruence|intros _; exact Hlk|congruence]. }
  assert (Wr : WFq [j] (set_queue (remove_first j (queue s2)) s2)).
  { eapply WFq_view; [|exact Wb]. apply fields_view; cbn [queue jobs njobs broken set_job set_jobs set_queue]; congruence. }
  destruct (Hrm [] j s2 s3 Wr ER) as (W3 & F3 & T3 & _).
  assert (T3' : TimerOK s3).
  { apply T3. intros Hh. (* j is not the head: the timer is still right *)
    unfold TimerOK. rewrite q1, q3, q4. rewrite q1 in Hh. unfold TimerOK in T.
    destruct (queue s) as [|h t] eqn:Eq; [exact T|]. cbn [is_head] in Hh.
    unfold nxt in *. rewrite q9. unfold upd. rewrite Hh. exact T. }
  pose proof (notin_q_of_X _ _ _ W3) as Hnq3.
  destruct (Hadd [] j s3 s' W3 Hnq3 (fun x => x) H) as (W4 & F4 & T4 & _).
  split; [split; [exact W4|apply T4; exact T3']|].
  eapply frame_trans; [|exact F4]. eapply frame_trans; [|exact F3]. subst s2. repeat split; assumption.
Qed.

Lemma WFq_njobs_S X s : WFq X s -> WFq X (set_njobs (S (njobs s)) s).
Proof.
  intros [H1 H2 H3 H3' H4 H5 H6 H7 H8]. constructor; cbn [queue jobs njobs broken set_njobs]; auto.
  intros j Hj. specialize (H3' j Hj). lia.
Qed.

Lemma fresh_not_queued s : WFq [] s -> ~ In (njobs s) (queue s).
Proof.
  intros W Hin. destruct (wf_q _ _ W _ Hin) as (Hr & _).
  pose proof (wf_rn _ _ W _ (wf_lk _ _ W _ Hr)). lia.
Qed.

Lemma same_sn_view s j b :
  jstatus b = jstatus (jobs s j) -> jnext b = jnext (jobs s j) -> jlinked b = jlinked (jobs s j) ->
  same_view s (set_job j b s).
Proof.
  intros a c d. split; [reflexivity|]. split; [|split; reflexivity].
  intros k. cbn [jobs set_job set_jobs]. unfold upd. destruct (Nat.eqb_spec k j) as [->|]; repeat split; assumption.
Qed.

Lemma TimerOK_same_next s s' :
  queue s' = queue s -> (forall k, jnext (jobs s' k) = jnext (jobs s k)) -> enabled s' = enabled s ->
  timer s' = timer s -> TimerOK s -> TimerOK s'.
Proof. unfold TimerOK, nxt. intros -> H -> ->. destruct (queue s); [auto|]. rewrite H. auto. Qed.

Lemma Inv_same_sn s j b :
  jstatus b = jstatus (jobs s j) -> jnext b = jnext (jobs s j) -> jlinked b = jlinked (jobs s j) ->
  Inv s -> Inv (set_job j b s).
Proof.
  intros a c d (W & T). split; [eapply WFq_view; [apply same_sn_view; assumption|exact W]|].
  eapply TimerOK_same_next; [..|exact T]; try reflexivity.
  intros k. cbn [jobs set_job set_jobs]. unfold upd. destruct (Nat.eqb_spec k j) as [->|]; [assumption|reflexivity].
Qed.

Lemma Inv_add_ev e s : Inv s -> Inv (add_ev e s).
Proof.
  intros (W & T). split; [eapply WFq_view; [apply view_add_ev|exact W]|].
  eapply TimerOK_fields; [..|exact T]; reflexivity.
Qed.

(* set_next_run on a linked job that is not queued, then add_job *)
Lemma arm_inv fuel j nx s s' :
  Inv s -> ~ In j (queue s) -> jlinked (jobs s j) = true ->
  add_job E fuel j (set_next_run E j nx s) = Some s' -> Inv s' /\ frame s s'.
Proof.
  intros (W & T) Hnq Hlk H.
  destruct (set_next_run_props E j nx s) as (q1 & q2 & q3 & q4 & q5 & q6 & q7 & q8 & q9).
  remember (set_next_run E j nx s) as s2 eqn:Es2.
  destruct (core_specs_all E fuel) as (_ & _ & _ & Hadd & _).
  set (b := with_status_next (jobs s j) (match nx with None => Paused | Some _ => Running end) nx) in *.
  assert (Wb : WFq [j] (set_job j b s)).
  { apply WFq_set_job_out; [apply WFq_weaken; assumption|exact Hnq| |intros _; cbn; apply (wf_rn _ _ W); exact Hlk].
    subst b. destruct nx; (split; [|split]); cbn; try (split; congruence); try congruence; intros _; exact Hlk. }
  assert (W2 : WFq [j] s2).
  { eapply WFq_view; [|exact Wb]. apply fields_view; cbn [queue jobs njobs broken set_job set_jobs]; congruence. }
  assert (T2 : TimerOK s2).
  { eapply TimerOK_fields; [..|apply (TimerOK_set_job_out s j b Hnq T)];
      cbn [queue jobs enabled timer set_job set_jobs]; congruence. }
  assert (Hnq2 : ~ In j (queue s2)) by (rewrite q1; exact Hnq).
  destruct (Hadd [] j s2 s' W2 Hnq2 (fun x => x) H) as (W4 & F4 & T4 & _).
  split; [split; [exact W4|apply T4; exact T2]|].
  eapply frame_trans; [|exact F4]. subst s2. repeat split; assumption.
Qed.

(* creation *)
Lemma create_inv fuel hs b s s' r :
  Inv s -> jstatus b = Created -> jnext b = None ->
  create E fuel hs b s = (s', r) -> r <> NoFuel -> Inv s'.
Proof.
  intros (W & T) Hbs Hbn H Hr. unfold create in H.
  destruct (hs && store_has (jkey b) (store s)); [injection H as <- <-; split; assumption|].
  cbv zeta in H.
  set (j := njobs s) in *.
  set (b1 := with_linked (with_stored b hs) true) in *.
  set (s1 := if hs then set_store ((jkey b1, j) :: store (set_njobs (S j) (set_job j b1 s))) (set_njobs (S j) (set_job j b1 s))
             else set_njobs (S j) (set_job j b1 s)) in *.
  assert (Hj : ~ In j (queue s)) by (apply fresh_not_queued; exact W).
  assert (Wj : WFq [j] (set_job j b1 (set_njobs (S j) s))).
  { apply WFq_set_job_out.
    - apply WFq_weaken; [apply WFq_njobs_S; exact W|exact Hj].
    - exact Hj.
    - subst b1. split; [|split]; cbn; rewrite ?Hbs, ?Hbn; [split; congruence|congruence|congruence].
    - intros _. cbn. lia. }
  assert (V1 : queue s1 = queue s /\ jobs s1 = upd (jobs s) j b1 /\ njobs s1 = S j /\ broken s1 = broken s /\
               enabled s1 = enabled s /\ timer s1 = timer s).
  { subst s1. destruct hs; repeat split. }
  destruct V1 as (v1 & v2 & v3 & v4 & v5 & v6).
  assert (I1 : Inv s1).
  { split.
    - eapply WFq_drop with (j := j).
      + eapply WFq_view; [|exact Wj]. apply fields_view; cbn [queue jobs njobs broken set_job set_jobs set_njobs]; assumption.
      + rewrite v2. unfold upd. rewrite Nat.eqb_refl. subst b1; cbn. congruence.
    - eapply TimerOK_fields; [..|apply (TimerOK_set_job_out s j b1 Hj T)];
        cbn [queue jobs enabled timer set_job set_jobs]; assumption. }
  assert (Hj1 : ~ In j (queue s1)) by (rewrite v1; exact Hj).
  assert (Hlk1 : jlinked (jobs s1 j) = true).
  { rewrite v2. unfold upd. rewrite Nat.eqb_refl. reflexivity. }
  clearbody s1. clear Wj.
  assert (Hfin : forall sx e, Inv sx ->
            (match job_finish E fuel j sx with Some sy => (sy, Raised e) | None => (sx, NoFuel) end) = (s', r) -> Inv s').
  { intros sx e Ix Hx. destruct (job_finish E fuel j sx) as [sy|] eqn:EF.
    - injection Hx as <- <-. apply (job_finish_inv _ _ _ _ Ix EF).
    - injection Hx as <- <-. congruence. }
  assert (Harm : forall sx nx, Inv sx -> ~ In j (queue sx) -> jlinked (jobs sx j) = true ->
            lift (add_job E fuel j (set_next_run E j nx sx)) (set_next_run E j nx sx) = (s', r) -> Inv s').
  { intros sx nx Ix Hq Hl Hx. unfold lift in Hx. destruct (add_job E fuel j _) as [sy|] eqn:EA.
    - injection Hx as <- <-. apply (arm_inv _ _ _ _ _ Ix Hq Hl EA).
    - injection Hx as <- <-. congruence. }
  destruct (jkind b1).
  - destruct (too_old s1 (jexec_t b1)).
    + eapply Hfin; [exact I1|exact H].
    + eapply Harm; [exact I1|exact Hj1|exact Hlk1|exact H].
  - eapply Harm; [exact I1|exact Hj1|exact Hlk1|exact H].
  - set (s2 := add_ev (EProd j) s1) in *.
    assert (I2 : Inv s2) by (apply Inv_add_ev; exact I1).
    destruct (prod E j _ _) as [v|e|].
    + destruct (too_old s2 v).
      * eapply Hfin; [exact I2|exact H].
      * eapply Harm; [exact I2|exact Hj1|exact Hlk1|exact H].
    + eapply Hfin; [exact I2|exact H].
    + injection H as <- <-. congruence.
Qed.

Lemma Inv_enabled_of_timer s w : Inv s -> timer s = Some w -> enabled s = true.
Proof.
  intros (_ & T) Hw. unfold TimerOK in T. destruct (queue s); [congruence|].
  destruct (enabled s); [reflexivity|congruence].
Qed.

Theorem step_op_inv fuel hs s o s' r :
  Inv s -> step_op E fuel hs s o = (s', r) -> r <> NoFuel -> Inv s'.
Proof.
  intros I H Hr. destruct o; cbn [step_op] in H.
  - eapply create_inv; [exact I| | |exact H|exact Hr]; reflexivity.
  - destruct (secs <=? 0); [injection H as <- <-; exact I|].
    eapply create_inv; [exact I| | |exact H|exact Hr]; reflexivity.
  - eapply create_inv; [exact I| | |exact H|exact Hr]; reflexivity.
  - (* cancel *)
    destruct (is_finished s j); [injection H as <- <-; exact I|].
    unfold lift in H. destruct (job_finish E fuel j s) as [s1|] eqn:EF; injection H as <- <-; [|congruence].
    apply (job_finish_inv _ _ _ _ I EF).
  - (* pause *)
    destruct (is_finished s j); [injection H as <- <-; exact I|].
    destruct (remove_job E fuel j s) as [s1|] eqn:ER; injection H as <- <-; [|congruence].
    apply (pause_inv _ _ _ _ I ER).
  - (* resume *)
    destruct (is_finished s j); [injection H as <- <-; exact I|].
    destruct (jlinked (jobs s j)) eqn:Hlk; cbn [negb] in H; [|injection H as <- <-; exact I].
    cbv zeta in H. set (s1 := add_ev (EProd j) s) in *.
    assert (I1 : Inv s1) by (apply Inv_add_ev; exact I).
    destruct (prod E j _ _) as [v|e|]; [|injection H as <- <-; exact I1|injection H as <- <-; congruence].
    destruct (too_old s1 v); [injection H as <- <-; exact I1|].
    unfold lift in H. destruct (update_job E fuel j _) as [s2|] eqn:EU; injection H as <- <-; [|congruence].
    eapply retime_inv; [exact I1| |exact EU]. exact Hlk.
  - (* reset *)
    destruct (jlinked (jobs s j)) eqn:Hlk; cbn [negb] in H; [|injection H as <- <-; exact I].
    cbv zeta in H. unfold lift in H.
    destruct (update_job E fuel j _) as [s2|] eqn:EU; injection H as <- <-; [|congruence].
    eapply retime_inv; [exact I|exact Hlk|exact EU].
  - (* set_countdown *)
    destruct (is_finished s j); [injection H as <- <-; exact I|].
    destruct (secs <=? 0); injection H as <- <-; [exact I|].
    apply Inv_same_sn; [reflexivity..|exact I].
  - (* enable *)
    destruct (Bool.eqb b (enabled s)); [injection H as <- <-; exact I|].
    cbv zeta in H. unfold lift in H.
    destruct (set_timer E fuel (set_enabled_f b s)) as [s2|] eqn:ES; injection H as <- <-; [|congruence].
    destruct I as (W & T).
    destruct (core_specs_all E fuel) as (Hst & _).
    assert (W1 : WFq [] (set_enabled_f b s)) by (eapply WFq_view; [|exact W]; apply fields_view; reflexivity).
    destruct (Hst [] _ _ W1 ES) as (a & c & _). split; assumption.
  - (* register *)
    destruct w; [destruct (memb cb (jcbu (jobs s j)))|destruct (memb cb (jcbf (jobs s j)))];
      injection H as <- <-; try exact I; (apply Inv_same_sn; [reflexivity..|exact I]).
  - (* unregister *)
    destruct w; injection H as <- <-; (apply Inv_same_sn; [reflexivity..|exact I]).
  - (* advance *)
    injection H as <- <-. destruct I as (W & T). split.
    + eapply WFq_view; [|exact W]. apply fields_view; reflexivity.
    + eapply TimerOK_fields; [..|exact T]; reflexivity.
  - (* wake *)
    destruct (timer s) as [w|] eqn:Ew; [|injection H as <- <-; exact I].
    destruct (w <=? now s); [|injection H as <- <-; exact I].
    unfold lift in H. destruct (run_jobs E fuel s) as [s2|] eqn:ER; injection H as <- <-; [|congruence].
    destruct (core_specs_all E fuel) as (_ & Hrj & _).
    destruct (Hrj [] _ _ (proj1 I) (Inv_enabled_of_timer _ _ I Ew) ER) as (a & c & _). split; assumption.
  - (* early wake *)
    destruct (timer s) as [w|] eqn:Ew; [|injection H as <- <-; exact I].
    unfold lift in H. destruct (run_jobs E fuel s) as [s2|] eqn:ER; injection H as <- <-; [|congruence].
    destruct (core_specs_all E fuel) as (_ & Hrj & _).
    destruct (Hrj [] _ _ (proj1 I) (Inv_enabled_of_timer _ _ I Ew) ER) as (a & c & _). split; assumption.
Qed.

Lemma Inv_opi v s : Inv s -> Inv (set_opi v s).
Proof.
  intros (W & T). split; [eapply WFq_view; [|exact W]; apply fields_view; reflexivity|].
  eapply TimerOK_fields; [..|exact T]; reflexivity.
Qed.

Theorem step_inv fuel hs s o s' r :
  Inv s -> step E fuel hs s o = (s', r) -> r <> NoFuel -> Inv s'.
Proof.
  intros I H Hr. unfold step in H. destruct (step_op E fuel hs s o) as (s1, r1) eqn:ES.
  injection H as <- <-. apply Inv_opi. eapply step_op_inv; eassumption.
Qed.

(* every reachable state: histories of any length *)
Theorem run_inv fuel hs ops : forall s s' rs,
  Inv s -> run E fuel hs s ops = (s', rs) -> ~ In NoFuel rs -> Inv s'.
Proof.
  induction ops as [|o t IH]; intros s s' rs I H Hr; cbn [run] in H.
  - injection H as <- <-. exact I.
  - destruct (step E fuel hs s o) as (s1, r) eqn:ES. destruct (run E fuel hs s1 t) as (s2, rs') eqn:ER.
    injection H as <- <-. eapply IH; [|exact ER|intros Hc; apply Hr; right; exact Hc].
    eapply step_inv; [exact I|exact ES|intros ->; apply Hr; left; reflexivity].
Qed.

End Api.
