(* ParseFacts.v — facts about the argument parser of Parse.v.

   1. sets as strictly increasing lists: membership / sortedness of zinsert, zunion, canon;
      extensionality ([sorted_ext]); [wrapped_range_spec]
   2. strings: strip / split_first / split_on on printed syntax
   3. the grammar  list := item (',' item)* ; item := atom | atom '-' atom ;
                   atom := ws* (digits | name) ws*
      as a tree type with printer [print] and denotation [denote]; [parse_sound] (string level, with
      surrounding white space) and [parse_values_sound] (nestings of lists / ints / strings)
   4. rejection: [reject_*], error propagation through ranges, comma lists and nested lists,
      [parse_opts_fuel] (the recursion of _parse_str_options never needs more than depth 2)
   5. the name tables: every English and German full name and abbreviation maps to its number, in
      every casing ([spelling_day], [spelling_month]).                                            *)
From Coq Require Import Sorted.
From Coq Require String Ascii.
From EAS Require Import Base BaseFacts Parse.

(* =========================================================================================== *)
(* 1. sets *)
Notation sorted := (StronglySorted Z.lt).

Lemma zinsert_In x l y : In y (zinsert x l) <-> y = x \/ In y l.
Proof.
  induction l as [|z t IH]; cbn [zinsert]; [cbn; intuition|].
  destruct (x <? z) eqn:E1; [cbn; intuition|].
  destruct (x =? z) eqn:E2.
  - assert (x = z) by lia. subst. cbn. intuition.
  - cbn [In]. rewrite IH. intuition.
Qed.

Lemma zinsert_sorted x l : sorted l -> sorted (zinsert x l).
Proof.
  induction 1 as [|z t Ht IH Hz]; cbn [zinsert]; [repeat constructor|].
  destruct (x <? z) eqn:E1.
  - constructor; [constructor; assumption|]. constructor; [lia|].
    rewrite Forall_forall in *. intros y Hy. specialize (Hz y Hy). lia.
  - destruct (x =? z) eqn:E2; [constructor; assumption|].
    constructor; [exact IH|]. rewrite Forall_forall in *. intros y Hy.
    apply zinsert_In in Hy. destruct Hy as [->|Hy]; [lia|auto].
Qed.

Lemma zunion_In ret r y : In y (zunion ret r) <-> In y ret \/ In y r.
Proof.
  unfold zunion. induction r as [|x t IH]; cbn [fold_right]; [cbn; intuition|].
  rewrite zinsert_In, IH. cbn. intuition.
Qed.

Lemma zunion_sorted ret r : sorted ret -> sorted (zunion ret r).
Proof.
  intros H. unfold zunion. induction r as [|x t IH]; cbn [fold_right]; [exact H|].
  apply zinsert_sorted. exact IH.
Qed.

Lemma canon_In l y : In y (canon l) <-> In y l.
Proof. unfold canon. rewrite zunion_In. cbn. intuition. Qed.

Lemma canon_sorted l : sorted (canon l).
Proof. unfold canon. apply zunion_sorted. constructor. Qed.

Lemma sorted_NoDup l : sorted l -> NoDup l.
Proof.
  induction 1 as [|z t Ht IH Hz]; constructor; [|exact IH].
  intros Hin. rewrite Forall_forall in Hz. specialize (Hz z Hin). lia.
Qed.

(* two strictly increasing lists with the same members are the same list *)
Lemma sorted_ext a : forall b, sorted a -> sorted b -> (forall x, In x a <-> In x b) -> a = b.
Proof.
  induction a as [|x a IH]; intros b Ha Hb Hab.
  - destruct b as [|y b]; [reflexivity|]. exfalso. apply (proj2 (Hab y)). left. reflexivity.
  - destruct b as [|y b]; [exfalso; apply (proj1 (Hab x)); left; reflexivity|].
    inversion Ha as [|? ? Ha' Hx]; subst. inversion Hb as [|? ? Hb' Hy]; subst.
    rewrite Forall_forall in Hx, Hy.
    assert (x = y).
    { destruct (proj1 (Hab x) (or_introl eq_refl)) as [E|Hin]; [auto|].
      destruct (proj2 (Hab y) (or_introl eq_refl)) as [E|Hin']; [auto|].
      specialize (Hx y Hin'). specialize (Hy x Hin). lia. }
    subst y. f_equal. apply IH; [assumption|assumption|].
    intros z. split; intros Hz.
    + destruct (proj1 (Hab z) (or_intror Hz)) as [E|Hin]; [|exact Hin].
      subst z. specialize (Hx x Hz). lia.
    + destruct (proj2 (Hab z) (or_intror Hz)) as [E|Hin]; [|exact Hin].
      subst z. specialize (Hy x Hz). lia.
Qed.

Lemma canon_id l : sorted l -> canon l = l.
Proof. intros H. apply sorted_ext; [apply canon_sorted|exact H|apply canon_In]. Qed.

Lemma range_from_In n : forall s x, In x (range_from s n) <-> s <= x < s + Z.of_nat n.
Proof.
  induction n as [|n IH]; intros s x; cbn [range_from]; [cbn; lia|].
  cbn [In]. rewrite IH. lia.
Qed.

Lemma py_range_In lo hi x : In x (py_range lo hi) <-> lo <= x < hi.
Proof. unfold py_range. rewrite range_from_In. lia. Qed.

Theorem wrapped_range_spec a b mx x :
  In x (wrapped_range a b mx) <->
  (a <= b /\ a <= x <= b) \/ (b < a /\ (a <= x <= mx \/ 1 <= x <= b)).
Proof.
  unfold wrapped_range. destruct (a <? b) eqn:E1.
  - rewrite canon_In, py_range_In. lia.
  - destruct (a =? b) eqn:E2.
    + cbn. lia.
    + rewrite zunion_In, canon_In, !py_range_In. lia.
Qed.

Lemma wrapped_range_sorted a b mx : sorted (wrapped_range a b mx).
Proof.
  unfold wrapped_range. destruct (a <? b); [apply canon_sorted|].
  destruct (a =? b); [repeat constructor|]. apply zunion_sorted, canon_sorted.
Qed.

Example wrapped_range_examples :
  wrapped_range 5 1 7 = [1; 5; 6; 7] (* Fr-Mo *) /\ wrapped_range 10 2 12 = [1; 2; 10; 11; 12] (* Oct-Feb *) /\
  wrapped_range 1 5 7 = [1; 2; 3; 4; 5] /\ wrapped_range 3 3 7 = [3] /\ wrapped_range 28 3 31 = [1; 2; 3; 28; 29; 30; 31].
Proof. repeat split. Qed.

(* =========================================================================================== *)
(* results that are a set with given members *)
Definition ok_set (res : result (list Z)) (elems : list Z) : Prop :=
  exists r, res = Ok r /\ sorted r /\ forall x, In x r <-> In x elems.

Lemma ok_set_canon res elems : ok_set res elems -> res = Ok (canon elems).
Proof.
  intros (r & -> & Hs & Hi). f_equal. apply sorted_ext; [exact Hs|apply canon_sorted|].
  intros x. rewrite canon_In. apply Hi.
Qed.

Lemma ok_set_ext res e1 e2 : (forall x, In x e1 <-> In x e2) -> ok_set res e1 -> ok_set res e2.
Proof. intros H (r & E & Hs & Hi). exists r. split; [exact E|split; [exact Hs|]]. intros x. rewrite Hi. apply H. Qed.

Lemma union_results_ok {A} (f : A -> result (list Z)) (g : A -> list Z) l :
  forall ret, (forall a, In a l -> ok_set (f a) (g a)) -> sorted ret ->
  ok_set (union_results f l ret) (ret ++ flat_map g l).
Proof.
  induction l as [|a t IH]; intros ret Hf Hret; cbn [union_results flat_map].
  - exists ret. split; [reflexivity|split; [exact Hret|]]. intros x. rewrite app_nil_r. tauto.
  - destruct (Hf a (or_introl eq_refl)) as (r & E & Hs & Hi). rewrite E.
    eapply ok_set_ext; [|apply IH; [intros b Hb; apply Hf; right; exact Hb|apply zunion_sorted; exact Hret]].
    intros x. rewrite !in_app_iff, zunion_In, Hi. tauto.
Qed.

Lemma union_results_ext {A} (f g : A -> result (list Z)) l :
  forall ret, (forall a, In a l -> f a = g a) -> union_results f l ret = union_results g l ret.
Proof.
  induction l as [|a t IH]; intros ret H; cbn [union_results]; [reflexivity|].
  rewrite (H a (or_introl eq_refl)). destruct (g a); try reflexivity.
  apply IH. intros b Hb. apply H. right. exact Hb.
Qed.

(* the first exception wins; a list with a failing element fails *)
Lemma union_results_raise {A} (f : A -> result (list Z)) l :
  forall ret, (forall a, In a l -> f a <> OutOfFuel) -> (exists a e, In a l /\ f a = Raise e) ->
  exists e, union_results f l ret = Raise e.
Proof.
  induction l as [|a t IH]; intros ret Hnf (b & e & Hb & Eb); [destruct Hb|].
  cbn [union_results]. destruct (f a) as [r|e'|] eqn:Ea.
  - destruct Hb as [->|Hb]; [congruence|].
    apply IH; [intros c Hc; apply Hnf; right; exact Hc|exists b, e; auto].
  - exists e'. reflexivity.
  - exfalso. apply (Hnf a (or_introl eq_refl)). exact Ea.
Qed.

(* =========================================================================================== *)
(* 2. strings *)
Definition all_space (s : str) : bool := forallb isspace s.

(* non-empty, first and last character are not white space *)
Definition is_trimmed (s : str) : bool :=
  match s with [] => false | c :: _ => negb (isspace c) && negb (isspace (last s 0)) end.

Lemma zmemb_app x a b : zmemb x (a ++ b) = zmemb x a || zmemb x b.
Proof. induction a as [|c t IH]; cbn [zmemb app]; [reflexivity|]. rewrite IH, orb_assoc. reflexivity. Qed.

Lemma lstrip_spaces pre s : all_space pre = true -> lstrip (pre ++ s) = lstrip s.
Proof.
  unfold all_space. induction pre as [|c t IH]; cbn [forallb app lstrip]; [reflexivity|].
  rewrite andb_true_iff. intros [Hc Ht]. rewrite Hc. apply IH. exact Ht.
Qed.

Lemma lstrip_all_space s : all_space s = true -> lstrip s = [].
Proof. intros H. rewrite <- (app_nil_r s). rewrite lstrip_spaces by exact H. reflexivity. Qed.

Lemma all_space_rev s : all_space (rev s) = all_space s.
Proof.
  unfold all_space. induction s as [|c t IH]; [reflexivity|]. cbn [rev forallb].
  rewrite forallb_app, IH. cbn [forallb]. rewrite andb_true_r. apply andb_comm.
Qed.

Lemma strip_core pre core post :
  all_space pre = true -> all_space post = true -> is_trimmed core = true ->
  strip (pre ++ core ++ post) = core.
Proof.
  intros Hpre Hpost Hc. unfold strip, rstrip. rewrite lstrip_spaces by exact Hpre.
  destruct core as [|c core']; [discriminate|].
  cbn [is_trimmed] in Hc. rewrite andb_true_iff, !negb_true_iff in Hc. destruct Hc as [Hc1 Hc2].
  cbn [app lstrip]. rewrite Hc1.
  change (c :: core' ++ post) with ((c :: core') ++ post).
  rewrite rev_app_distr. rewrite lstrip_spaces by (rewrite all_space_rev; exact Hpost).
  destruct (exists_last (l := c :: core') ltac:(discriminate)) as (init & z & E).
  rewrite E in *. rewrite last_last in Hc2. rewrite rev_app_distr. cbn [rev app lstrip].
  rewrite Hc2. rewrite <- (rev_involutive init) at 2.
  change (z :: rev init) with ([z] ++ rev init). rewrite rev_app_distr. cbn [rev app].
  rewrite rev_involutive. reflexivity.
Qed.

Lemma strip_all_space s : all_space s = true -> strip s = [].
Proof. intros H. unfold strip, rstrip. rewrite (lstrip_all_space s H). reflexivity. Qed.

Lemma split_first_app d a b : zmemb d a = false -> split_first d (a ++ d :: b) = Some (a, b).
Proof.
  induction a as [|c t IH]; cbn [zmemb app split_first].
  - intros _. rewrite Z.eqb_refl. reflexivity.
  - rewrite orb_false_iff. intros [Hc Ht]. rewrite Z.eqb_sym, Hc, (IH Ht). reflexivity.
Qed.

Lemma split_on_single d p : zmemb d p = false -> split_on d p = [p].
Proof.
  induction p as [|c t IH]; cbn [zmemb split_on]; [reflexivity|].
  rewrite orb_false_iff. intros [Hc Ht]. rewrite Z.eqb_sym, Hc, (IH Ht). reflexivity.
Qed.

Lemma split_on_app d p s : zmemb d p = false -> split_on d (p ++ d :: s) = p :: split_on d s.
Proof.
  induction p as [|c t IH]; cbn [zmemb app split_on].
  - intros _. rewrite Z.eqb_refl. reflexivity.
  - rewrite orb_false_iff. intros [Hc Ht]. rewrite Z.eqb_sym, Hc, (IH Ht). reflexivity.
Qed.

(* every part of a split is free of the delimiter: for EVERY string *)
Lemma split_on_parts d s : Forall (fun p => zmemb d p = false) (split_on d s).
Proof.
  induction s as [|c t IH]; cbn [split_on]; [repeat constructor|].
  destruct (c =? d) eqn:E; [constructor; [reflexivity|exact IH]|].
  destruct (split_on d t) as [|p ps]; [repeat constructor; cbn; rewrite Z.eqb_sym, E; reflexivity|].
  inversion IH as [|? ? Hp Hps]; subst. constructor; [|exact Hps].
  cbn [zmemb]. rewrite Z.eqb_sym, E. exact Hp.
Qed.

(* ',' join *)
Fixpoint join (d : Z) (parts : list str) : str :=
  match parts with
  | [] => []
  | [p] => p
  | p :: rest => p ++ d :: join d rest
  end.

Lemma split_on_join d parts :
  parts <> [] -> Forall (fun p => zmemb d p = false) parts -> split_on d (join d parts) = parts.
Proof.
  induction parts as [|p rest IH]; [congruence|]. intros _ H. inversion H as [|? ? Hp Hrest]; subst.
  destruct rest as [|q rest']; [apply split_on_single; exact Hp|].
  change (join d (p :: q :: rest')) with (p ++ d :: join d (q :: rest')).
  rewrite split_on_app by exact Hp. f_equal. apply IH; [discriminate|exact Hrest].
Qed.

Lemma zmemb_join d parts :
  Forall (fun p => zmemb d p = false) parts ->
  zmemb d (join d parts) = match parts with _ :: _ :: _ => true | _ => false end.
Proof.
  intros H. destruct parts as [|p [|q rest]]; [reflexivity| |].
  - inversion H; subst. assumption.
  - change (join d (p :: q :: rest)) with (p ++ d :: join d (q :: rest)).
    rewrite zmemb_app. cbn [zmemb]. rewrite Z.eqb_refl. cbn. apply orb_true_r.
Qed.

(* =========================================================================================== *)
(* the recursion of _parse_str_options: depth 2 suffices, for every string *)
Lemma parse_single_str_cases lk mn mx s :
  parse_single_str lk mn mx s = Raise EValueError \/
  exists n, parse_single_str lk mn mx s = Ok n /\ mn <= n <= mx /\
            ((isdigit (strip s) = true /\ forallb is_ascii_digit (strip s) = true /\ n = digits_val (strip s)) \/
             (isdigit (strip s) = false /\ exists tbl, lk = Some tbl /\ lookup_name tbl (strip s) = Some n)).
Proof.
  unfold parse_single_str, py_int, check_range.
  destruct (isdigit (strip s)) eqn:Ed.
  - destruct (forallb is_ascii_digit (strip s)) eqn:Ea; [|left; reflexivity].
    destruct (INT_MAX_STR_DIGITS <? Z.of_nat (length (strip s))); [left; reflexivity|].
    destruct ((mn <=? digits_val (strip s)) && (digits_val (strip s) <=? mx)) eqn:Er; [|left; reflexivity].
    right. eexists. split; [reflexivity|]. split; [lia|]. left. auto.
  - destruct lk as [tbl|]; [|left; reflexivity].
    destruct (lookup_name tbl (strip s)) as [n|] eqn:El; [|left; reflexivity].
    destruct ((mn <=? n) && (n <=? mx)) eqn:Er; [|left; reflexivity].
    right. exists n. split; [reflexivity|]. split; [lia|]. right. split; [reflexivity|]. exists tbl. auto.
Qed.

Lemma parse_item_fuel lk mn mx v : parse_item lk mn mx v <> OutOfFuel.
Proof.
  unfold parse_item. destruct (zmemb DASH v).
  - destruct (split_first DASH v) as [[a b]|]; [|discriminate].
    destruct (parse_single_str_cases lk mn mx a) as [E|(na & E & _)]; rewrite E; cbn [bind]; [discriminate|].
    destruct (parse_single_str_cases lk mn mx b) as [E'|(nb & E' & _)]; rewrite E'; cbn [bind]; discriminate.
  - destruct (parse_single_str_cases lk mn mx v) as [E|(n & E & _)]; rewrite E; cbn [bind]; discriminate.
Qed.

Lemma parse_opts_nocomma fuel lk mn mx v :
  zmemb COMMA v = false -> parse_opts (S fuel) lk mn mx v = parse_item lk mn mx v.
Proof. intros H. cbn [parse_opts]. rewrite H. reflexivity. Qed.

Lemma parse_opts_unfold fuel lk mn mx v :
  parse_opts (S (S fuel)) lk mn mx v =
  if zmemb COMMA v then union_results (parse_item lk mn mx) (split_on COMMA v) [] else parse_item lk mn mx v.
Proof.
  cbn [parse_opts]. destruct (zmemb COMMA v) eqn:E; [|reflexivity].
  apply union_results_ext. intros p Hp.
  pose proof (split_on_parts COMMA v) as H. rewrite Forall_forall in H.
  rewrite (H p Hp). reflexivity.
Qed.

Theorem parse_opts_fuel fuel lk mn mx v :
  (2 <= fuel)%nat ->
  parse_opts fuel lk mn mx v = parse_str_options lk mn mx v /\ parse_str_options lk mn mx v <> OutOfFuel.
Proof.
  intros Hf. destruct fuel as [|[|fuel]]; [lia|lia|]. unfold parse_str_options.
  rewrite !parse_opts_unfold. split; [reflexivity|].
  destruct (zmemb COMMA v); [|apply parse_item_fuel].
  generalize (@nil Z). induction (split_on COMMA v) as [|p ps IH]; intros ret; cbn [union_results]; [discriminate|].
  destruct (parse_item lk mn mx p) eqn:E; [apply IH|discriminate|exfalso; eapply parse_item_fuel; exact E].
Qed.

Lemma parse_str_options_unfold lk mn mx v :
  parse_str_options lk mn mx v =
  if zmemb COMMA v then union_results (parse_item lk mn mx) (split_on COMMA v) [] else parse_item lk mn mx v.
Proof. unfold parse_str_options. apply parse_opts_unfold. Qed.

(* =========================================================================================== *)
(* 3. the grammar *)
Inductive atom :=
  | ANum (pre ds post : str)          (* ws* digits ws* *)
  | AName (pre nm post : str).        (* ws* name ws*   *)
Inductive item := ISingle (a : atom) | IRange (a b : atom).
Definition tree := list item.         (* item (',' item)* : a non-empty list *)

Definition print_atom (a : atom) : str :=
  match a with ANum pre ds post => pre ++ ds ++ post | AName pre nm post => pre ++ nm ++ post end.
Definition print_item (it : item) : str :=
  match it with
  | ISingle a => print_atom a
  | IRange a b => print_atom a ++ DASH :: print_atom b
  end.
Definition print (t : tree) : str := join COMMA (map print_item t).

(* side conditions.  Numbers: a non-empty string of ASCII digits of at most 4300 characters (CPython
   refuses longer ones) whose value is in range.  Names: the lookup of const.py finds the name and the
   number is in range; the name itself is non-empty, does not begin or end with white space, contains
   neither ',' nor '-' and is not a digit string (all of this holds for every casing of every key of
   the real tables: [spelling_day], [spelling_month] below).                                       *)
Definition num_ok (mn mx : Z) (ds : str) : bool :=
  match ds with [] => false | _ => true end && forallb is_ascii_digit ds
  && (Z.of_nat (length ds) <=? INT_MAX_STR_DIGITS) && (mn <=? digits_val ds) && (digits_val ds <=? mx).

Definition name_ok (lk : option (list (str * Z))) (mn mx : Z) (nm : str) : bool :=
  match lk with
  | None => false
  | Some tbl => match lookup_name tbl nm with Some n => (mn <=? n) && (n <=? mx) | None => false end
  end && is_trimmed nm && negb (zmemb COMMA nm) && negb (zmemb DASH nm) && negb (isdigit nm).

Definition atom_ok lk (mn mx : Z) (a : atom) : bool :=
  match a with
  | ANum pre ds post => all_space pre && all_space post && num_ok mn mx ds
  | AName pre nm post => all_space pre && all_space post && name_ok lk mn mx nm
  end.
Definition item_ok lk (mn mx : Z) (it : item) : bool :=
  match it with ISingle a => atom_ok lk mn mx a | IRange a b => atom_ok lk mn mx a && atom_ok lk mn mx b end.
Definition tree_ok lk (mn mx : Z) (t : tree) : bool :=
  match t with [] => false | _ => forallb (item_ok lk mn mx) t end.

(* denotation *)
Definition atom_val (lk : option (list (str * Z))) (a : atom) : Z :=
  match a with
  | ANum _ ds _ => digits_val ds
  | AName _ nm _ => match lk with
                    | Some tbl => match lookup_name tbl nm with Some n => n | None => 0 end
                    | None => 0
                    end
  end.
Definition item_den lk (mx : Z) (it : item) : list Z :=
  match it with
  | ISingle a => [atom_val lk a]
  | IRange a b => wrapped_range (atom_val lk a) (atom_val lk b) mx
  end.
Definition denote lk (mx : Z) (t : tree) : list Z := canon (flat_map (item_den lk mx) t).

Lemma denote_In lk mx t x : In x (denote lk mx t) <-> exists it, In it t /\ In x (item_den lk mx it).
Proof.
  unfold denote. rewrite canon_In, in_flat_map. tauto.
Qed.

Lemma denote_sorted lk mx t : sorted (denote lk mx t).
Proof. apply canon_sorted. Qed.

(* what a range item denotes, in full *)
Lemma item_den_range lk mx a b x :
  In x (item_den lk mx (IRange a b)) <->
  let va := atom_val lk a in let vb := atom_val lk b in
  (va <= vb /\ va <= x <= vb) \/ (vb < va /\ (va <= x <= mx \/ 1 <= x <= vb)).
Proof. apply wrapped_range_spec. Qed.

(* ------------------------------------------------------------------------------------------- *)
Lemma space_not_delim c : isspace c = true -> c <> COMMA /\ c <> DASH.
Proof. unfold isspace, COMMA, DASH. lia. Qed.

Lemma all_space_no d s : d = COMMA \/ d = DASH -> all_space s = true -> zmemb d s = false.
Proof.
  intros Hd. unfold all_space. induction s as [|c t IH]; cbn [forallb zmemb]; [reflexivity|].
  rewrite andb_true_iff. intros [Hc Ht]. rewrite (IH Ht), orb_false_r.
  destruct (space_not_delim c Hc). destruct Hd; subst d; lia.
Qed.

Lemma digits_no d s : d = COMMA \/ d = DASH -> forallb is_ascii_digit s = true -> zmemb d s = false.
Proof.
  intros Hd. induction s as [|c t IH]; cbn [forallb zmemb]; [reflexivity|].
  rewrite andb_true_iff. intros [Hc Ht]. rewrite (IH Ht), orb_false_r.
  unfold is_ascii_digit, COMMA, DASH in *. destruct Hd; subst d; lia.
Qed.

Lemma digit_not_space c : is_ascii_digit c = true -> isspace c = false.
Proof. unfold is_ascii_digit, isspace. lia. Qed.

Lemma digits_trimmed ds : ds <> [] -> forallb is_ascii_digit ds = true -> is_trimmed ds = true.
Proof.
  intros Hne Hd. destruct ds as [|c t]; [congruence|]. cbn [is_trimmed].
  rewrite forallb_forall in Hd.
  rewrite (digit_not_space c (Hd c (or_introl eq_refl))).
  destruct (exists_last (l := c :: t) ltac:(discriminate)) as (init & z & E). rewrite E. rewrite last_last.
  rewrite (digit_not_space z); [reflexivity|]. apply Hd. rewrite E. apply in_or_app. right. left. reflexivity.
Qed.

Lemma digits_isdigit ds : ds <> [] -> forallb is_ascii_digit ds = true -> isdigit ds = true.
Proof.
  intros Hne Hd. destruct ds as [|c t]; [congruence|]. unfold isdigit.
  rewrite forallb_forall in *. intros x Hx. unfold isdigit_cp. rewrite (Hd x Hx). reflexivity.
Qed.

Lemma atom_no_delim lk mn mx a d :
  d = COMMA \/ d = DASH -> atom_ok lk mn mx a = true -> zmemb d (print_atom a) = false.
Proof.
  intros Hd H. destruct a as [pre ds post|pre nm post]; cbn [atom_ok print_atom] in *.
  - unfold num_ok in H. repeat rewrite andb_true_iff in H.
    destruct H as [[Hpre Hpost] [[[[_ Hds] _] _] _]].
    rewrite !zmemb_app, (all_space_no d pre Hd Hpre), (all_space_no d post Hd Hpost), (digits_no d ds Hd Hds).
    reflexivity.
  - unfold name_ok in H. repeat rewrite andb_true_iff in H.
    destruct H as [[Hpre Hpost] [[[[_ _] Hc] Hda] _]]. rewrite negb_true_iff in Hc, Hda.
    rewrite !zmemb_app, (all_space_no d pre Hd Hpre), (all_space_no d post Hd Hpost).
    destruct Hd; subst d; [rewrite Hc|rewrite Hda]; reflexivity.
Qed.

Lemma check_range_ok mn mx n : (mn <=? n) && (n <=? mx) = true -> check_range mn mx n = Ok n.
Proof. intros H. unfold check_range. rewrite H. reflexivity. Qed.

Lemma parse_atom lk mn mx a :
  atom_ok lk mn mx a = true -> parse_single_str lk mn mx (print_atom a) = Ok (atom_val lk a).
Proof.
  intros H. destruct a as [pre ds post|pre nm post]; cbn [atom_ok print_atom atom_val] in *.
  - unfold num_ok in H. repeat rewrite andb_true_iff in H.
    destruct H as [[Hpre Hpost] [[[[Hne Hds] Hlen] Hlo] Hhi]].
    assert (Hne' : ds <> []) by (destruct ds; [discriminate|discriminate]).
    unfold parse_single_str. rewrite (strip_core pre ds post Hpre Hpost (digits_trimmed ds Hne' Hds)).
    rewrite (digits_isdigit ds Hne' Hds). unfold py_int. rewrite Hds.
    destruct (INT_MAX_STR_DIGITS <? Z.of_nat (length ds)) eqn:E; [lia|].
    apply check_range_ok. rewrite Hlo, Hhi. reflexivity.
  - unfold name_ok in H. repeat rewrite andb_true_iff in H.
    destruct H as [[Hpre Hpost] [[[[Hlk Htr] _] _] Hnd]]. rewrite negb_true_iff in Hnd.
    unfold parse_single_str. rewrite (strip_core pre nm post Hpre Hpost Htr). rewrite Hnd.
    destruct lk as [tbl|]; [|discriminate].
    destruct (lookup_name tbl nm) as [n|]; [|discriminate]. apply check_range_ok. exact Hlk.
Qed.

Lemma parse_item_ok lk mn mx it :
  item_ok lk mn mx it = true -> ok_set (parse_item lk mn mx (print_item it)) (item_den lk mx it).
Proof.
  intros H. destruct it as [a|a b]; cbn [item_ok print_item item_den] in *.
  - unfold parse_item. rewrite (atom_no_delim lk mn mx a DASH (or_intror eq_refl) H).
    rewrite (parse_atom lk mn mx a H). cbn [bind].
    exists [atom_val lk a]. split; [reflexivity|split; [repeat constructor|tauto]].
  - rewrite andb_true_iff in H. destruct H as [Ha Hb]. unfold parse_item.
    rewrite zmemb_app. cbn [zmemb]. rewrite Z.eqb_refl, orb_true_r.
    rewrite (split_first_app DASH _ _ (atom_no_delim lk mn mx a DASH (or_intror eq_refl) Ha)).
    rewrite (parse_atom lk mn mx a Ha), (parse_atom lk mn mx b Hb). cbn [bind].
    eexists. split; [reflexivity|split; [apply zunion_sorted; constructor|]].
    intros x. rewrite zunion_In. cbn [In]. tauto.
Qed.

Lemma item_no_comma lk mn mx it : item_ok lk mn mx it = true -> zmemb COMMA (print_item it) = false.
Proof.
  intros H. destruct it as [a|a b]; cbn [item_ok print_item] in *.
  - apply (atom_no_delim lk mn mx a COMMA (or_introl eq_refl) H).
  - rewrite andb_true_iff in H. destruct H as [Ha Hb]. rewrite zmemb_app. cbn [zmemb].
    rewrite (atom_no_delim lk mn mx a COMMA (or_introl eq_refl) Ha),
            (atom_no_delim lk mn mx b COMMA (or_introl eq_refl) Hb). reflexivity.
Qed.

(* THE string-level soundness theorem: every string of the grammar (white space around every atom,
   numbers or names, ranges, comma lists) is accepted and read as the set it denotes *)
Theorem parse_sound lk mn mx t :
  tree_ok lk mn mx t = true -> parse_str_options lk mn mx (print t) = Ok (denote lk mx t).
Proof.
  intros H. unfold tree_ok in H. destruct t as [|it0 t0] eqn:Et; [discriminate|]. rewrite <- Et in *.
  assert (Hne : t <> []) by (subst t; discriminate).
  rewrite forallb_forall in H.
  assert (Hparts : Forall (fun p => zmemb COMMA p = false) (map print_item t)).
  { rewrite Forall_forall. intros p Hp. apply in_map_iff in Hp. destruct Hp as (it & <- & Hit).
    apply (item_no_comma lk mn mx it (H it Hit)). }
  unfold denote. apply ok_set_canon.
  rewrite parse_str_options_unfold. unfold print. rewrite (zmemb_join COMMA _ Hparts).
  destruct (map print_item t) as [|p [|q rest]] eqn:Em.
  - destruct t; [congruence|discriminate].
  - (* a single item: no comma *)
    destruct t as [|it [|? ?]]; try discriminate. cbn [map] in Em. inversion Em; subst p.
    cbn [join flat_map]. rewrite app_nil_r. apply parse_item_ok. apply H. left. reflexivity.
  - (* two or more items *)
    rewrite <- Em in Hparts |- *. rewrite split_on_join; [|destruct t; [congruence|discriminate]|exact Hparts].
    assert (G : forall ret, sorted ret ->
                ok_set (union_results (parse_item lk mn mx) (map print_item t) ret) (ret ++ flat_map (item_den lk mx) t)).
    { clear Em Hparts Hne Et. induction t as [|it t' IH]; intros ret Hret; cbn [map union_results flat_map].
      - exists ret. split; [reflexivity|split; [exact Hret|]]. intros x. rewrite app_nil_r. tauto.
      - destruct (parse_item_ok lk mn mx it (H it (or_introl eq_refl))) as (r & E & Hs & Hi). rewrite E.
        eapply ok_set_ext; [|apply IH; [intros b Hb; apply H; right; exact Hb|apply zunion_sorted; exact Hret]].
        intros x. rewrite !in_app_iff, zunion_In, Hi. tauto. }
    apply (G [] ltac:(constructor)).
Qed.

(* ------------------------------------------------------------------------------------------- *)
(* nestings of Python lists / ints / strings *)
Inductive vtree := TInt (n : Z) | TStr (t : tree) | TList (l : list vtree).

Fixpoint vprint (v : vtree) : pval :=
  match v with TInt n => VInt n | TStr t => VStr (print t) | TList l => VList (map vprint l) end.

Fixpoint vtree_ok lk (mn mx : Z) (v : vtree) : bool :=
  match v with
  | TInt n => (mn <=? n) && (n <=? mx)
  | TStr t => tree_ok lk mn mx t
  | TList l => match l with [] => false | _ => forallb (vtree_ok lk mn mx) l end
  end.

Fixpoint vflat lk (mx : Z) (v : vtree) : list Z :=
  match v with
  | TInt n => [n]
  | TStr t => flat_map (item_den lk mx) t
  | TList l => flat_map (vflat lk mx) l
  end.
Definition vdenote lk (mx : Z) (v : vtree) : list Z := canon (vflat lk mx v).

Lemma vtree_ind' (P : vtree -> Prop)
  (Hint : forall n, P (TInt n)) (Hstr : forall t, P (TStr t))
  (Hlist : forall l, Forall P l -> P (TList l)) : forall v, P v.
Proof.
  fix IH 1. intros [n|t|l]; [apply Hint|apply Hstr|].
  apply Hlist. revert l. fix IHl 1. intros [|v t]; constructor; [apply IH|apply IHl].
Qed.

Lemma parse_val_ok lk mn mx v :
  vtree_ok lk mn mx v = true -> ok_set (parse_val lk mn mx (vprint v)) (vflat lk mx v).
Proof.
  induction v as [n|t|l IH] using vtree_ind'; intros H; cbn [vtree_ok vprint vflat parse_val] in *.
  - unfold parse_single_int. rewrite (check_range_ok mn mx n H). cbn [bind].
    exists [n]. split; [reflexivity|split; [repeat constructor|tauto]].
  - rewrite (parse_sound lk mn mx t H). exists (denote lk mx t).
    split; [reflexivity|split; [apply denote_sorted|]]. intros x. unfold denote. apply canon_In.
  - destruct l as [|v0 l0] eqn:El; [discriminate|]. rewrite <- El in *.
    assert (Hm : map vprint l <> []) by (subst l; discriminate).
    destruct (map vprint l) as [|p ps] eqn:Em; [congruence|]. rewrite <- Em. clear Em Hm p ps El v0 l0.
    rewrite forallb_forall in H. rewrite Forall_forall in IH.
    assert (G : forall ret, sorted ret ->
                ok_set (union_results (parse_val lk mn mx) (map vprint l) ret) (ret ++ flat_map (vflat lk mx) l)).
    { induction l as [|w l' IHl]; intros ret Hret; cbn [map union_results flat_map].
      - exists ret. split; [reflexivity|split; [exact Hret|]]. intros x. rewrite app_nil_r. tauto.
      - destruct (IH w (or_introl eq_refl) (H w (or_introl eq_refl))) as (r & E & Hs & Hi). rewrite E.
        eapply ok_set_ext; [|apply IHl; [intros b Hb; apply IH; right; exact Hb
                                         |intros b Hb; apply H; right; exact Hb|apply zunion_sorted; exact Hret]].
        intros x. rewrite !in_app_iff, zunion_In, Hi. tauto. }
    apply (G [] ltac:(constructor)).
Qed.

(* _parse_values on a non-empty sequence of well-formed values, arbitrarily nested *)
Theorem parse_values_sound lk mn mx (vs : list vtree) :
  vtree_ok lk mn mx (TList vs) = true ->
  parse_values lk mn mx (map vprint vs) = Ok (vdenote lk mx (TList vs)).
Proof.
  intros H. unfold parse_values, vdenote. apply ok_set_canon.
  apply (parse_val_ok lk mn mx (TList vs) H).
Qed.

Lemma vdenote_In lk mx vs x :
  In x (vdenote lk mx (TList vs)) <-> exists v, In v vs /\ In x (vflat lk mx v).
Proof. unfold vdenote. rewrite canon_In. cbn [vflat]. rewrite in_flat_map. tauto. Qed.

(* the public entry points *)
Corollary get_values_sound d (vs : list vtree) :
  vtree_ok (dom_lookup d) (dom_min d) (dom_max d) (TList vs) = true ->
  get_values d (map vprint vs) = Ok (vdenote (dom_lookup d) (dom_max d) (TList vs)) /\
  builder_values d (map vprint vs) = Ok (vdenote (dom_lookup d) (dom_max d) (TList vs)).
Proof.
  intros H. split; [apply parse_values_sound; exact H|].
  unfold builder_values, get_values.
  change [VList (map vprint vs)] with (map vprint [TList vs]).
  rewrite parse_values_sound.
  - f_equal. unfold vdenote. apply sorted_ext; [apply canon_sorted|apply canon_sorted|].
    intros x. rewrite !canon_In. cbn [vflat flat_map]. rewrite app_nil_r. tauto.
  - cbn [vtree_ok forallb] in *. rewrite andb_true_r. exact H.
Qed.

(* =========================================================================================== *)
(* 4. rejection *)
(* an atom that is neither an in-range number nor a table name is rejected *)
Theorem reject_number_out_of_range lk mn mx s :
  isdigit (strip s) = true -> ~ (mn <= digits_val (strip s) <= mx) ->
  parse_single_str lk mn mx s = Raise EValueError.
Proof.
  intros Hd Hr. destruct (parse_single_str_cases lk mn mx s) as [E|(n & E & Hn & [(_ & _ & ->)|(Hd' & _)])];
    [exact E|contradiction|congruence].
Qed.

Theorem reject_unknown_name lk mn mx s :
  isdigit (strip s) = false ->
  (forall tbl, lk = Some tbl -> lookup_name tbl (strip s) = None) ->
  parse_single_str lk mn mx s = Raise EValueError.
Proof.
  intros Hd Hl. destruct (parse_single_str_cases lk mn mx s) as [E|(n & E & Hn & [(Hd' & _)|(_ & tbl & Elk & El)])];
    [exact E|congruence|]. rewrite (Hl tbl Elk) in El. discriminate.
Qed.

Theorem reject_name_out_of_range tbl mn mx s n :
  isdigit (strip s) = false -> lookup_name tbl (strip s) = Some n -> ~ (mn <= n <= mx) ->
  parse_single_str (Some tbl) mn mx s = Raise EValueError.
Proof.
  intros Hd Hl Hr.
  destruct (parse_single_str_cases (Some tbl) mn mx s) as [E|(k & E & Hk & [(Hd' & _)|(_ & tbl' & Elk & El)])];
    [exact E|congruence|]. inversion Elk; subst tbl'. rewrite Hl in El. inversion El; subst. contradiction.
Qed.

(* superscript digits satisfy str.isdigit() but int() refuses them *)
Theorem reject_superscript lk mn mx s :
  isdigit (strip s) = true -> forallb is_ascii_digit (strip s) = false ->
  parse_single_str lk mn mx s = Raise EValueError.
Proof. intros Hd Ha. unfold parse_single_str, py_int. rewrite Hd, Ha. reflexivity. Qed.

Theorem reject_empty_atom lk mn mx s :
  all_space s = true -> (forall tbl, lk = Some tbl -> assoc [] tbl = None) ->
  parse_single_str lk mn mx s = Raise EValueError.
Proof.
  intros Hs Hl. apply reject_unknown_name; rewrite (strip_all_space s Hs); [reflexivity|].
  intros tbl E. unfold lookup_name. cbn. apply Hl. exact E.
Qed.

(* a failing atom makes its item fail ... *)
Theorem reject_item lk mn mx v :
  zmemb COMMA v = false ->
  (if zmemb DASH v
   then exists a b, split_first DASH v = Some (a, b) /\
                    (parse_single_str lk mn mx a = Raise EValueError \/ parse_single_str lk mn mx b = Raise EValueError)
   else parse_single_str lk mn mx v = Raise EValueError) ->
  parse_str_options lk mn mx v = Raise EValueError.
Proof.
  intros Hc H. rewrite parse_str_options_unfold, Hc. unfold parse_item.
  destruct (zmemb DASH v).
  - destruct H as (a & b & -> & [E|E]).
    + rewrite E. reflexivity.
    + rewrite E. destruct (parse_single_str_cases lk mn mx a) as [E'|(n & E' & _)]; rewrite E'; reflexivity.
  - rewrite H. reflexivity.
Qed.

(* ... a failing item makes the comma list fail ... *)
Theorem reject_list lk mn mx v part e :
  zmemb COMMA v = true -> In part (split_on COMMA v) -> parse_item lk mn mx part = Raise e ->
  exists e', parse_str_options lk mn mx v = Raise e'.
Proof.
  intros Hc Hp He. rewrite parse_str_options_unfold, Hc.
  apply union_results_raise; [intros a _; apply parse_item_fuel|exists part, e; auto].
Qed.

(* ... and a failing value makes the whole argument list fail, at any nesting depth *)
Lemma parse_val_fuel lk mn mx : forall v, parse_val lk mn mx v <> OutOfFuel.
Proof.
  fix IH 1. intros [n|s|l]; cbn [parse_val].
  - unfold parse_single_int, check_range, bind. destruct ((mn <=? n) && (n <=? mx)); discriminate.
  - apply (parse_opts_fuel 2 lk mn mx s). lia.
  - destruct l as [|v0 l0]; [discriminate|].
    generalize (@nil Z). generalize (v0 :: l0). fix IHl 1. intros [|w l'] ret; cbn [union_results]; [discriminate|].
    destruct (parse_val lk mn mx w) eqn:E; [apply IHl|discriminate|exfalso; exact (IH w E)].
Qed.

Theorem reject_values lk mn mx (vs : list pval) v e :
  In v vs -> parse_val lk mn mx v = Raise e -> exists e', parse_values lk mn mx vs = Raise e'.
Proof.
  intros Hv He. unfold parse_values. cbn [parse_val]. destruct vs as [|v0 l0] eqn:El; [destruct Hv|].
  rewrite <- El in *. replace (match l0 with _ => _ end) with (union_results (parse_val lk mn mx) vs []).
  - apply union_results_raise; [intros a _; apply parse_val_fuel|exists v, e; auto].
  - subst vs. reflexivity.
Qed.

Theorem reject_no_values lk mn mx : parse_values lk mn mx [] = Raise EValueError.
Proof. reflexivity. Qed.

Theorem reject_int_out_of_range lk mn mx n :
  ~ (mn <= n <= mx) -> parse_val lk mn mx (VInt n) = Raise EValueError.
Proof.
  intros H. cbn [parse_val]. unfold parse_single_int, check_range.
  destruct ((mn <=? n) && (n <=? mx)) eqn:E; [lia|reflexivity].
Qed.

(* whatever IS accepted is a set within the admissible range *)
Lemma parse_item_range lk mn mx v r x :
  mn = 1 -> parse_item lk mn mx v = Ok r -> In x r -> mn <= x <= mx.
Proof.
  intros Hmn. unfold parse_item. destruct (zmemb DASH v).
  - destruct (split_first DASH v) as [[a b]|]; [|discriminate].
    destruct (parse_single_str_cases lk mn mx a) as [E|(na & E & Ha & _)]; rewrite E; [discriminate|].
    destruct (parse_single_str_cases lk mn mx b) as [E'|(nb & E' & Hb & _)]; rewrite E'; [discriminate|].
    cbn [bind]. intros H Hx. inversion H; subst r. rewrite zunion_In in Hx. destruct Hx as [[]|Hx].
    apply wrapped_range_spec in Hx. lia.
  - destruct (parse_single_str_cases lk mn mx v) as [E|(n & E & Hn & _)]; rewrite E; [discriminate|].
    cbn [bind]. intros H Hx. inversion H; subst r. destruct Hx as [<-|[]]. exact Hn.
Qed.

(* bundles for props/C17.v *)
Theorem reject_atoms :
  (forall lk mn mx s, isdigit (strip s) = true -> ~ (mn <= digits_val (strip s) <= mx) ->
     parse_single_str lk mn mx s = Raise EValueError) /\
  (forall lk mn mx s, isdigit (strip s) = false -> (forall tbl, lk = Some tbl -> lookup_name tbl (strip s) = None) ->
     parse_single_str lk mn mx s = Raise EValueError) /\
  (forall tbl mn mx s n, isdigit (strip s) = false -> lookup_name tbl (strip s) = Some n -> ~ (mn <= n <= mx) ->
     parse_single_str (Some tbl) mn mx s = Raise EValueError) /\
  (forall lk mn mx s, isdigit (strip s) = true -> forallb is_ascii_digit (strip s) = false ->
     parse_single_str lk mn mx s = Raise EValueError) /\
  (forall lk mn mx s, all_space s = true -> (forall tbl, lk = Some tbl -> assoc [] tbl = None) ->
     parse_single_str lk mn mx s = Raise EValueError).
Proof.
  split; [exact reject_number_out_of_range|split; [exact reject_unknown_name|split; [exact reject_name_out_of_range|
    split; [exact reject_superscript|exact reject_empty_atom]]]].
Qed.

Theorem reject_propagates :
  (forall lk mn mx v, zmemb COMMA v = false ->
     (if zmemb DASH v
      then exists a b, split_first DASH v = Some (a, b) /\
             (parse_single_str lk mn mx a = Raise EValueError \/ parse_single_str lk mn mx b = Raise EValueError)
      else parse_single_str lk mn mx v = Raise EValueError) ->
     parse_str_options lk mn mx v = Raise EValueError) /\
  (forall lk mn mx v part e, zmemb COMMA v = true -> In part (split_on COMMA v) ->
     parse_item lk mn mx part = Raise e -> exists e', parse_str_options lk mn mx v = Raise e') /\
  (forall lk mn mx vs v e, In v vs -> parse_val lk mn mx v = Raise e -> exists e', parse_values lk mn mx vs = Raise e') /\
  (forall lk mn mx, parse_values lk mn mx [] = Raise EValueError) /\
  (forall lk mn mx, parse_val lk mn mx (VList []) = Raise EValueError) /\
  (forall lk mn mx n, ~ (mn <= n <= mx) -> parse_val lk mn mx (VInt n) = Raise EValueError).
Proof.
  split; [exact reject_item|split; [exact reject_list|split; [exact reject_values|split; [exact reject_no_values|
    split; [reflexivity|exact reject_int_out_of_range]]]]].
Qed.

Theorem denote_facts :
  (forall lk mx t x, In x (denote lk mx t) <-> exists it, In it t /\ In x (item_den lk mx it)) /\
  (forall lk mx t, StronglySorted Z.lt (denote lk mx t)) /\
  (forall lk mx a, item_den lk mx (ISingle a) = [atom_val lk a]) /\
  (forall lk mx a b x, In x (item_den lk mx (IRange a b)) <->
     let va := atom_val lk a in let vb := atom_val lk b in
     (va <= vb /\ va <= x <= vb) \/ (vb < va /\ (va <= x <= mx \/ 1 <= x <= vb))).
Proof.
  split; [exact denote_In|split; [exact denote_sorted|split; [reflexivity|exact item_den_range]]].
Qed.

(* =========================================================================================== *)
(* 5. the name tables *)
Definition of_string (s : String.string) : str :=
  map (fun a => Z.of_N (Ascii.N_of_ascii a)) (String.list_ascii_of_string s).

(* the names of the property text; non-ASCII letters are spliced in as code points (228 = ä) *)
Module NameLists.
Import String.
Definition english_german_days : list (str * Z) :=
  map (fun p => (of_string (fst p), snd p))
  [("monday", 1); ("mon", 1); ("montag", 1); ("mo", 1); ("tuesday", 2); ("tue", 2); ("dienstag", 2); ("di", 2);
   ("wednesday", 3); ("wed", 3); ("mittwoch", 3); ("mi", 3); ("thursday", 4); ("thu", 4); ("donnerstag", 4); ("do", 4);
   ("friday", 5); ("fri", 5); ("freitag", 5); ("fr", 5); ("saturday", 6); ("sat", 6); ("samstag", 6); ("sa", 6);
   ("sunday", 7); ("sun", 7); ("sonntag", 7); ("so", 7)]%string.

Definition english_german_months : list (str * Z) :=
  map (fun p => (of_string (fst p), snd p))
  [("january", 1); ("jan", 1); ("januar", 1); ("february", 2); ("feb", 2); ("februar", 2);
   ("march", 3); ("mar", 3); ("mrz", 3); ("april", 4); ("apr", 4); ("may", 5); ("mai", 5);
   ("june", 6); ("jun", 6); ("juni", 6); ("july", 7); ("jul", 7); ("juli", 7); ("august", 8); ("aug", 8);
   ("september", 9); ("sep", 9); ("october", 10); ("oct", 10); ("oktober", 10); ("okt", 10);
   ("november", 11); ("nov", 11); ("december", 12); ("dec", 12); ("dezember", 12); ("dez", 12)]%string
  ++ [(of_string "m" ++ [228] ++ of_string "rz", 3); (of_string "m" ++ [228] ++ of_string "r", 3)].

End NameLists.
Export NameLists.

Definition same_items (a b : list (str * Z)) : bool :=
  forallb (fun kv => opt_eqb Z.eqb (assoc (fst kv) b) (Some (snd kv))) a &&
  forallb (fun kv => opt_eqb Z.eqb (assoc (fst kv) a) (Some (snd kv))) b.

Lemma opt_eqb_Z a b : opt_eqb Z.eqb a (Some b) = true -> a = Some b.
Proof. destruct a as [x|]; cbn; [intros H; f_equal; lia|discriminate]. Qed.

(* every English and German full name and abbreviation maps to its number, and the tables contain
   nothing else (under LC_ALL=C) *)
Theorem day_names_table :
  (forall nm n, In (nm, n) english_german_days -> assoc nm day_names = Some n) /\
  (forall nm n, In (nm, n) day_names -> assoc nm english_german_days = Some n /\ 1 <= n <= 7).
Proof.
  assert (H : same_items english_german_days day_names
              && forallb (fun kv => (1 <=? snd kv) && (snd kv <=? 7)) day_names = true) by (vm_compute; reflexivity).
  unfold same_items in H. rewrite !andb_true_iff, !forallb_forall in H. destruct H as [[H1 H2] H3].
  split; intros nm n Hin.
  - apply opt_eqb_Z. apply (H1 (nm, n) Hin).
  - split; [apply opt_eqb_Z; apply (H2 (nm, n) Hin)|]. specialize (H3 (nm, n) Hin). cbn [snd] in H3. lia.
Qed.

Theorem month_names_table :
  (forall nm n, In (nm, n) english_german_months -> assoc nm month_names = Some n) /\
  (forall nm n, In (nm, n) month_names -> assoc nm english_german_months = Some n /\ 1 <= n <= 12).
Proof.
  assert (H : same_items english_german_months month_names
              && forallb (fun kv => (1 <=? snd kv) && (snd kv <=? 12)) month_names = true) by (vm_compute; reflexivity).
  unfold same_items in H. rewrite !andb_true_iff, !forallb_forall in H. destruct H as [[H1 H2] H3].
  split; intros nm n Hin.
  - apply opt_eqb_Z. apply (H1 (nm, n) Hin).
  - split; [apply opt_eqb_Z; apply (H2 (nm, n) Hin)|]. specialize (H3 (nm, n) Hin). cbn [snd] in H3. lia.
Qed.

(* ------------------------------------------------------------------------------------------- *)
(* every casing: if lower-casing a name gives a table key, the name satisfies the side conditions of
   [parse_sound] and denotes the key's number *)
Definition letter (c : Z) : bool := ((97 <=? c) && (c <=? 122)) || (c =? 228).     (* a-z, ä *)
Definition special (c : Z) : bool := isspace c || (c =? COMMA) || (c =? DASH) || isdigit_cp c.

Lemma assoc_z_In c tbl l : assoc_z c tbl = Some l -> In (c, l) tbl.
Proof.
  induction tbl as [|[k v] t IH]; cbn [assoc_z]; [discriminate|].
  destruct (c =? k) eqn:E; [intros H; inversion H; subst; left; f_equal; lia|intros H; right; apply IH; exact H].
Qed.

Lemma special_lower c : special c = true -> lower_cp c = [c].
Proof.
  intros H. unfold lower_cp. destruct (assoc_z c lower_tbl) as [l|] eqn:E; [|reflexivity].
  exfalso. apply assoc_z_In in E.
  assert (Hk : forallb (fun kv => negb (special (fst kv))) lower_tbl = true) by (vm_compute; reflexivity).
  rewrite forallb_forall in Hk. specialize (Hk (c, l) E). cbn [fst] in Hk. rewrite H in Hk. discriminate.
Qed.

Lemma lower_cp_nonempty c : lower_cp c <> [].
Proof.
  unfold lower_cp. destruct (assoc_z c lower_tbl) as [l|] eqn:E; [|discriminate].
  apply assoc_z_In in E.
  assert (Hk : forallb (fun kv => match snd kv with [] => false | _ => true end) lower_tbl = true) by (vm_compute; reflexivity).
  rewrite forallb_forall in Hk. specialize (Hk (c, l) E). cbn [snd] in Hk. destruct l; [discriminate|discriminate].
Qed.

Lemma letter_not_special c : letter c = true -> special c = false.
Proof. unfold letter, special, isspace, isdigit_cp, is_ascii_digit, COMMA, DASH. lia. Qed.

Lemma lower_letters_plain nm :
  forallb letter (lower nm) = true -> forallb (fun c => negb (special c)) nm = true.
Proof.
  unfold lower. induction nm as [|c t IH]; cbn [flat_map forallb]; [reflexivity|].
  rewrite forallb_app, andb_true_iff. intros [Hc Ht]. rewrite (IH Ht), andb_true_r.
  destruct (special c) eqn:E; [|reflexivity].
  rewrite (special_lower c E) in Hc. cbn [forallb] in Hc. rewrite andb_true_r in Hc.
  rewrite (letter_not_special c Hc) in E. discriminate.
Qed.

Lemma plain_name_wf nm :
  nm <> [] -> forallb (fun c => negb (special c)) nm = true ->
  is_trimmed nm = true /\ zmemb COMMA nm = false /\ zmemb DASH nm = false /\ isdigit nm = false.
Proof.
  intros Hne H. rewrite forallb_forall in H.
  assert (Hs : forall c, In c nm -> isspace c = false /\ (c =? COMMA) = false /\ (c =? DASH) = false /\ isdigit_cp c = false).
  { intros c Hc. specialize (H c Hc). unfold special in H. rewrite negb_true_iff, !orb_false_iff in H. tauto. }
  destruct nm as [|c t]; [congruence|]. repeat split.
  - cbn [is_trimmed]. destruct (Hs c (or_introl eq_refl)) as (-> & _).
    destruct (exists_last (l := c :: t) ltac:(discriminate)) as (init & z & E). rewrite E, last_last.
    destruct (Hs z) as (-> & _); [rewrite E; apply in_or_app; right; left; reflexivity|reflexivity].
  - apply not_true_is_false. intros Hm. apply zmemb_In in Hm. destruct (Hs _ Hm) as (_ & Hx & _).
    rewrite Z.eqb_refl in Hx. discriminate.
  - apply not_true_is_false. intros Hm. apply zmemb_In in Hm. destruct (Hs _ Hm) as (_ & _ & Hx & _).
    rewrite Z.eqb_refl in Hx. discriminate.
  - unfold isdigit. cbn [forallb]. destruct (Hs c (or_introl eq_refl)) as (_ & _ & _ & ->). reflexivity.
Qed.

Definition key_plain (kv : str * Z) : bool :=
  match fst kv with [] => false | _ => true end && forallb letter (fst kv) && list_eqb Z.eqb (strip (fst kv)) (fst kv).

Lemma list_eqb_Z a : forall b, list_eqb Z.eqb a b = true -> a = b.
Proof.
  induction a as [|x a IH]; intros [|y b]; cbn [list_eqb]; try discriminate; [reflexivity|].
  rewrite andb_true_iff. intros [H1 H2]. f_equal; [lia|apply IH; exact H2].
Qed.

Lemma assoc_In k tbl n : assoc k tbl = Some n -> exists k', In (k', n) tbl /\ str_eqb k k' = true.
Proof.
  induction tbl as [|[k' v] t IH]; cbn [assoc]; [discriminate|].
  destruct (str_eqb k k') eqn:E.
  - intros H. inversion H; subst. exists k'. split; [left; reflexivity|exact E].
  - intros H. destruct (IH H) as (k'' & Hin & Ek). exists k''. split; [right; exact Hin|exact Ek].
Qed.

Lemma spelling_generic tbl mn mx :
  forallb key_plain tbl = true ->
  forallb (fun kv => (mn <=? snd kv) && (snd kv <=? mx)) tbl = true ->
  forall nm key n, lower nm = key -> assoc key tbl = Some n ->
    name_ok (Some tbl) mn mx nm = true /\ lookup_name tbl nm = Some n /\ mn <= n <= mx.
Proof.
  intros Hkeys Hvals nm key n Hl Ha.
  destruct (assoc_In key tbl n Ha) as (k' & Hin & Ek). apply list_eqb_Z in Ek. subst k'.
  rewrite forallb_forall in Hkeys, Hvals.
  pose proof (Hkeys (key, n) Hin) as Hk. pose proof (Hvals (key, n) Hin) as Hv. cbn [snd] in Hv.
  unfold key_plain in Hk. cbn [fst] in Hk. rewrite !andb_true_iff in Hk. destruct Hk as [[Hne Hlet] Hstrip].
  apply list_eqb_Z in Hstrip.
  assert (Hlook : lookup_name tbl nm = Some n) by (unfold lookup_name; rewrite Hl, Hstrip; exact Ha).
  assert (Hnm : nm <> []) by (intros ->; cbn in Hl; subst key; discriminate).
  rewrite <- Hl in Hlet.
  destruct (plain_name_wf nm Hnm (lower_letters_plain nm Hlet)) as (H1 & H2 & H3 & H4).
  split; [|split; [exact Hlook|lia]].
  unfold name_ok. rewrite Hlook, Hv, H1, H2, H3, H4. reflexivity.
Qed.

Theorem spelling_day nm key n :
  lower nm = key -> assoc key day_names = Some n ->
  name_ok (Some day_names) 1 7 nm = true /\ lookup_name day_names nm = Some n /\ 1 <= n <= 7.
Proof. apply spelling_generic; vm_compute; reflexivity. Qed.

Theorem spelling_month nm key n :
  lower nm = key -> assoc key month_names = Some n ->
  name_ok (Some month_names) 1 12 nm = true /\ lookup_name month_names nm = Some n /\ 1 <= n <= 12.
Proof. apply spelling_generic; vm_compute; reflexivity. Qed.


Theorem name_tables :
  ((forall nm n, In (nm, n) english_german_days -> assoc nm day_names = Some n) /\
   (forall nm n, In (nm, n) day_names -> assoc nm english_german_days = Some n /\ 1 <= n <= 7)) /\
  ((forall nm n, In (nm, n) english_german_months -> assoc nm month_names = Some n) /\
   (forall nm n, In (nm, n) month_names -> assoc nm english_german_months = Some n /\ 1 <= n <= 12)).
Proof. split; [exact day_names_table|exact month_names_table]. Qed.

Theorem spelling_any_case :
  (forall nm key n, lower nm = key -> assoc key day_names = Some n ->
     name_ok (Some day_names) 1 7 nm = true /\ lookup_name day_names nm = Some n /\ 1 <= n <= 7) /\
  (forall nm key n, lower nm = key -> assoc key month_names = Some n ->
     name_ok (Some month_names) 1 12 nm = true /\ lookup_name month_names nm = Some n /\ 1 <= n <= 12).
Proof. split; [exact spelling_day|exact spelling_month]. Qed.

(* ------------------------------------------------------------------------------------------- *)
(* the hypotheses are satisfiable: concrete non-trivial strings *)
Module Examples.
Import String.
Example parse_sound_example :
  (* " Fr - mo ,3,\tSAMSTAG" for weekdays *)
  let t := [IRange (AName [32] (of_string "Fr") [32]) (AName [32] (of_string "mo") [32]);
            ISingle (ANum [] (of_string "3") []);
            ISingle (AName [9] (of_string "SAMSTAG") [])] in
  tree_ok (Some day_names) 1 7 t = true /\
  print t = of_string " Fr - mo ,3," ++ [9] ++ of_string "SAMSTAG" /\
  denote (Some day_names) 7 t = [1; 3; 5; 6; 7] /\
  parse_str_options (Some day_names) 1 7 (print t) = Ok [1; 3; 5; 6; 7].
Proof. vm_compute. repeat split. Qed.

Example parse_values_example :
  (* get_months('Oct-Feb', [3, ['M\xc4RZ , 5']]) *)
  let vs := [TStr [IRange (AName [] (of_string "Oct") []) (AName [] (of_string "Feb") [])];
             TList [TInt 3; TList [TStr [ISingle (AName [] (of_string "M" ++ [196] ++ of_string "RZ") [32]);
                                         ISingle (ANum [32] (of_string "5") [])]]]] in
  vtree_ok (Some month_names) 1 12 (TList vs) = true /\
  get_months (map vprint vs) = Ok [1; 2; 3; 5; 10; 11; 12].
Proof. vm_compute. repeat split. Qed.

Example reject_examples :
  get_weekdays [VStr (of_string "1--3")] = Raise EValueError /\ get_weekdays [VStr (of_string "mo-")] = Raise EValueError /\
  get_weekdays [VStr (of_string "8")] = Raise EValueError /\ get_days [VStr (of_string "mo")] = Raise EValueError /\
  get_days [VStr [178]] = Raise EValueError /\ get_months [VStr (of_string "1,")] = Raise EValueError /\
  get_months [] = Raise EValueError /\ get_months [VList []] = Raise EValueError /\ get_weekdays [VInt 0] = Raise EValueError /\
  get_days [VStr (of_string "28-3")] = Ok [1; 2; 3; 28; 29; 30; 31].
Proof. vm_compute. repeat split. Qed.
End Examples.
