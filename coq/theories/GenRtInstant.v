(* GenRtInstant.v — what the code generated from get_timedelta / get_pos_timedelta_secs / get_time / get_instant of
   src/eascheduler/builder/helper.py (coq/gen/GenInstant.v, written by tools/gen_instant.py on every run) is
   expressed in, on top of GenRtDst.v (out / world / Time digits).  Hand-written, no proofs (GenInstantEq.v).

   The argument of these functions is ANY Python value; the runtime value [pyval] keeps of it what the functions can
   find out: its class (for `case C():`) and what whenever's conversions answer for it.  A duration is Z ns, an
   Instant / SystemDateTime is its instant (Z ns), a Time is Z ns since midnight. *)
From EAS Require Import Base Civil Time Replace Dst GenRtDst.

Inductive pyval :=
  | VNone
  | VDatetime (aware : option Z) (wall : Z)  (* datetime.datetime: tzinfo set -> Some (the instant, datetime's own rules);
                                                wall = its year..microsecond fields as local ns *)
  | VSystem (i : Z)                          (* whenever.SystemDateTime *)
  | VInstant (i : Z)                         (* whenever.Instant *)
  | VPyTimedelta (ns : Z)                    (* datetime.timedelta *)
  | VTimeDelta (ns : Z)                      (* whenever.TimeDelta *)
  | VNum (isint : bool) (ns : option Z)      (* int (bool) / float; ns = TimeDelta(seconds=v), None: whenever refuses (nan, inf, range) *)
  | VStr (dur : option Z) (tod : option Z)   (* str; what TimeDelta.parse_common_iso / Time.parse_common_iso answer *)
  | VTime (tod : Z)                          (* whenever.Time *)
  | VPyTime (tod : option Z)                 (* datetime.time; None: Time.from_py_time refuses it *)
  | VOther.                                  (* any other class *)

Inductive pyclass := CNone | CDatetime | CSystemDateTime | CInstant | CPyTimedelta | CTimeDelta | CInt | CFloat | CStr
                   | CTime | CPyTime.

(* isinstance(v, C) / `case C():` / `case None:` *)
Definition pv_isinstance (v : pyval) (c : pyclass) : bool :=
  match v, c with
  | VNone, CNone | VDatetime _ _, CDatetime | VSystem _, CSystemDateTime | VInstant _, CInstant
  | VPyTimedelta _, CPyTimedelta | VTimeDelta _, CTimeDelta | VStr _ _, CStr | VTime _, CTime | VPyTime _, CPyTime => true
  | VNum isint _, CInt => isint
  | VNum isint _, CFloat => negb isint
  | _, _ => false
  end.

(* a conversion: a value or the exception it raises *)
Inductive pres := PVal (z : Z) | PExc (e : dexn).

(* `return value` where the function returns a TimeDelta / Time / Instant: the value as that *)
Definition pv_as_timedelta (v : pyval) : pres := match v with VTimeDelta ns => PVal ns | _ => PExc XType end.
Definition pv_as_time (v : pyval) : pres := match v with VTime t => PVal t | _ => PExc XType end.
Definition pv_as_instant (v : pyval) : pres := match v with VInstant i => PVal i | _ => PExc XType end.
Definition pv_system_instant (v : pyval) : pres :=                       (* value.instant() *)
  match v with VSystem i => PVal i | _ => PExc XAttr end.

Definition td_from_py (v : pyval) : pres :=                              (* TimeDelta.from_py_timedelta(v) *)
  match v with VPyTimedelta ns => PVal ns | _ => PExc XType end.
Definition td_seconds (v : pyval) : pres :=                              (* TimeDelta(seconds=v) *)
  match v with VNum _ (Some ns) => PVal ns | VNum _ None => PExc XValue | _ => PExc XType end.
Definition td_parse (v : pyval) : pres :=                                (* TimeDelta.parse_common_iso(v) *)
  match v with VStr (Some d) _ => PVal d | VStr None _ => PExc XValue | _ => PExc XType end.
Definition time_from_py (v : pyval) : pres :=                            (* Time.from_py_time(v) *)
  match v with VPyTime (Some t) => PVal t | VPyTime None => PExc XValue | _ => PExc XType end.
Definition time_parse (v : pyval) : pres :=                              (* Time.parse_common_iso(v) *)
  match v with VStr _ (Some t) => PVal t | VStr _ None => PExc XValue | _ => PExc XType end.

(* datetime.datetime: tzinfo and the wall-clock fields *)
Definition pv_dt_aware (v : pyval) : bool := match v with VDatetime (Some _) _ => true | _ => false end.
Definition pv_wall (v : pyval) : Z := match v with VDatetime _ l => l | _ => 0 end.
Definition pv_year (v : pyval) : Z := local_year (pv_wall v).
Definition pv_month (v : pyval) : Z := local_month (pv_wall v).
Definition pv_day (v : pyval) : Z := local_dom (pv_wall v).
Definition pv_hour (v : pyval) : Z := t_hour (local_tod (pv_wall v)).
Definition pv_minute (v : pyval) : Z := t_minute (local_tod (pv_wall v)).
Definition pv_second (v : pyval) : Z := t_second (local_tod (pv_wall v)).
Definition pv_microsecond (v : pyval) : Z := t_nano (local_tod (pv_wall v)) / 1000.
Definition sdt_from_py (v : pyval) : pres :=                             (* SystemDateTime.from_py_datetime(v) *)
  match v with VDatetime (Some i) _ => PVal i | VDatetime None _ => PExc XValue | _ => PExc XType end.

(* SystemDateTime(y, m, d, h, mi, s, nanosecond=ns): disambiguate='compatible' (cf. GenRtDst.sdt_make) *)
Definition sdt_make7 (W : world) (y m d h mi s ns : Z) : option Z :=
  let l := days_from_civil y m d * DAY + time_of h mi s ns in
  match candidates (w_tz W) l with
  | i :: _ => Some i
  | [] => match gap_of (w_tz W) l with Some (ob, _) => Some (l - ob * NS) | None => None end
  end.

(* a local date-time to THE instant that shows it (disambiguate='raise') *)
Definition resolve_raise_x (z : tz) (l : Z) : pres :=
  match candidates z l with
  | [] => PExc XSkipped
  | [i] => PVal i
  | _ :: _ :: _ => PExc XRepeated
  end.
(* dt.replace_time(t, disambiguate='raise'): the date of dt with the time of day t *)
Definition sdt_replace_time (W : world) (i t : Z) : pres :=
  resolve_raise_x (w_tz W) (mk_local (local_day (to_local (w_tz W) i)) t).
(* dt.add(days=n, disambiguate='raise'): n calendar days later at the same wall-clock time *)
Definition sdt_add_days (W : world) (i n : Z) : pres :=
  resolve_raise_x (w_tz W) (to_local (w_tz W) i + n * DAY).
