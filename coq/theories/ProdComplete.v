(* ProdComplete.v — C05, COMPLETENESS for time-of-day and interval triggers: the search does not give up while
   an admissible occurrence exists within its horizon.

   Time of day (TimeProducer.get_next).  The walk visits exactly the [loop_bound] = 99 999 local days
       walk_start z dt = local_day (to_local z dt) - 1,  ...,  walk_start z dt + 99 998
   ([in_horizon]); the early start day counts as one of the rounds.
   * [time_walk_cases]: the answer is EXACTLY one of: Ok v with v the first admissible occurrence of the first
     day of the horizon that has one / Raise e with e the error of [replace] on a day reached before any
     admissible occurrence / Raise EInfiniteLoop with no admissible occurrence on any day of the horizon;
   * [time_complete]: an admissible occurrence on a day of the horizon (and no error of [replace] on the days
     before it) gives Ok; [time_complete_earliest]: and then (well-formed table) the answer is the earliest
     admissible occurrence of all days and it is not after the witness;
   * [time_infinite_loop_iff]: InfiniteLoopDetectedError iff every day of the horizon is quiet;
   * [time_horizon_tight_refuted]: an occurrence on the day after the horizon is NOT found (vm_compute witness);
   * [replace_exn_kind], [gap_exists], [replace_no_exn]: when [replace] cannot raise;
   * [time_nofilter_never_starves]: without a filter and with policies other than 'skip' the answer is always
     Ok, found not later than the second local day after the reference instant's; [time_nofilter_starves_only_if]:
     which policy / table combinations can starve.
   Interval (IntervalProducer.get_next), fuel n = the budget of the unbounded filter search:
   * [interval_walk_cases], [interval_complete], [interval_out_of_fuel_iff], [interval_complete_get_next]. *)
From EAS Require Import Base BaseFacts Civil Time TimeFacts TimeOrder Filters Replace ReplaceFacts
  Producers ProdStrict ProdEarliest ProdEarliest2.
From EASGen Require Import Generated.

(* ------------------------------------------------------------------------------------------- *)
(* 1. the horizon of the day walk *)
Definition LBZ : Z := Z.pos loop_bound.
Lemma LBZ_val : LBZ = 99999.
Proof. reflexivity. Qed.
Lemma loop_bound_nat : Z.of_nat (Pos.to_nat loop_bound) = LBZ.
Proof. unfold LBZ. lia. Qed.

Definition walk_start (z : tz) (dt : Z) : Z := local_day (to_local z dt) - 1.
Definition in_horizon (z : tz) (dt d : Z) : Prop := walk_start z dt <= d < walk_start z dt + LBZ.

(* a day the walk passes without answering: [replace] does not raise and no result of the day is admissible *)
Definition quiet (z : tz) (tr : treplacer) (f : option filt) (dt d : Z) : Prop :=
  (forall e, replace z tr d <> RExn e) /\ forall u, In u (day_results z tr d) -> ~ admissible z f dt u.

Definition first_adm (z : tz) (f : option filt) (dt : Z) (l : list Z) (v : Z) : Prop :=
  In v l /\ admissible z f dt v /\ forall u, In u l -> admissible z f dt u -> v <= u.

Definition step_post (z : tz) (tr : treplacer) (f : option filt) (dt d : Z) (r : result Z) : Prop :=
  match r with
  | Ok v => first_adm z f dt (day_results z tr d) v
  | Raise e => replace z tr d = RExn e
  | OutOfFuel => False
  end.

Lemma time_step_cases z tr f dt d :
  match time_step z tr f dt d with
  | inl d' => d' = d + 1 /\ quiet z tr f dt d
  | inr r => step_post z tr f dt d r
  end.
Proof.
  unfold time_step, quiet, step_post, first_adm, day_results, admissible.
  destruct (replace z tr d) as [i|a b| |e] eqn:ER.
  - destruct (dt <? i) eqn:E1; cbn [andb].
    + destruct (allow_opt z f i) eqn:E2.
      * split; [left; reflexivity|]. split; [split; [lia|exact E2]|]. intros u [<-|[]] _. lia.
      * split; [reflexivity|]. split; [intros e; discriminate|]. intros u [<-|[]] (_ & Hc). congruence.
    + split; [reflexivity|]. split; [intros e; discriminate|]. intros u [<-|[]] (Hc & _). lia.
  - pose proof (replace_RTwo_lt _ _ _ _ _ ER) as Hab.
    destruct ((dt <? a) && allow_opt z f a) eqn:Ea.
    + apply andb_true_iff in Ea. destruct Ea as (E1 & E2).
      split; [left; reflexivity|]. split; [split; [lia|exact E2]|]. intros u [<-|[<-|[]]] _; lia.
    + destruct ((dt <? b) && allow_opt z f b) eqn:Eb.
      * apply andb_true_iff in Eb. destruct Eb as (E1 & E2).
        split; [right; left; reflexivity|]. split; [split; [lia|exact E2]|].
        intros u [<-|[<-|[]]] (Hc1 & Hc2); [|lia].
        apply andb_false_iff in Ea. destruct Ea as [E|E]; [lia|congruence].
      * split; [reflexivity|]. split; [intros e; discriminate|]. intros u [<-|[<-|[]]] (Hc1 & Hc2).
        -- apply andb_false_iff in Ea. destruct Ea as [E|E]; [lia|congruence].
        -- apply andb_false_iff in Eb. destruct Eb as [E|E]; [lia|congruence].
  - split; [reflexivity|]. split; [intros e; discriminate|]. intros u [].
  - reflexivity.
Qed.

(* n rounds from day d: either all n days d .. d+n-1 were quiet, or the walk stopped on the first day that is
   not quiet *)
Lemma time_walk_nat z tr f dt : forall n d,
  match iter_nat n (time_step z tr f dt) d with
  | inl d' => d' = d + Z.of_nat n /\ forall x, d <= x < d' -> quiet z tr f dt x
  | inr r => exists day, d <= day < d + Z.of_nat n /\ (forall x, d <= x < day -> quiet z tr f dt x) /\
                         step_post z tr f dt day r
  end.
Proof.
  induction n as [|n IH]; intros d; cbn [iter_nat].
  - split; [lia|]. intros x Hx. lia.
  - pose proof (time_step_cases z tr f dt d) as Hs.
    destruct (time_step z tr f dt d) as [d1|r].
    + destruct Hs as (-> & Hq). specialize (IH (d + 1)).
      destruct (iter_nat n (time_step z tr f dt) (d + 1)) as [d'|r].
      * destruct IH as (-> & Hall). split; [lia|]. intros x Hx.
        destruct (Z.eq_dec x d) as [->|Hne]; [exact Hq|apply Hall; lia].
      * destruct IH as (day & Hd & Hall & Hp). exists day. split; [lia|]. split; [|exact Hp].
        intros x Hx. destruct (Z.eq_dec x d) as [->|Hne]; [exact Hq|apply Hall; lia].
    + exists d. split; [lia|]. split; [intros x Hx; lia|exact Hs].
Qed.

(* the answer of TimeProducer.get_next, exactly *)
Theorem time_walk_cases z tr f dt :
  (exists day v, in_horizon z dt day /\ (forall x, walk_start z dt <= x < day -> quiet z tr f dt x) /\
                 first_adm z f dt (day_results z tr day) v /\ next_time z tr f dt = Ok v) \/
  (exists day e, in_horizon z dt day /\ (forall x, walk_start z dt <= x < day -> quiet z tr f dt x) /\
                 replace z tr day = RExn e /\ next_time z tr f dt = Raise e) \/
  ((forall x, in_horizon z dt x -> quiet z tr f dt x) /\ next_time z tr f dt = Raise EInfiniteLoop).
Proof.
  unfold next_time, in_horizon. fold (walk_start z dt). rewrite iter_until_nat.
  pose proof (time_walk_nat z tr f dt (Pos.to_nat loop_bound) (walk_start z dt)) as H.
  rewrite loop_bound_nat in H.
  destruct (iter_nat (Pos.to_nat loop_bound) (time_step z tr f dt) (walk_start z dt)) as [d'|r].
  - right; right. destruct H as (-> & Hall). split; [exact Hall|reflexivity].
  - destruct H as (day & Hd & Hall & Hp). destruct r as [v|e|]; cbn [step_post] in Hp.
    + left. exists day, v. split; [lia|]. split; [exact Hall|]. split; [exact Hp|reflexivity].
    + right; left. exists day, e. split; [lia|]. split; [exact Hall|]. split; [exact Hp|reflexivity].
    + destruct Hp.
Qed.

(* ------------------------------------------------------------------------------------------- *)
(* 2. completeness of the day walk *)
Lemma quiet_not_admissible z tr f dt d u :
  quiet z tr f dt d -> In u (day_results z tr d) -> dt < u -> allow_opt z f u = true -> False.
Proof. intros (_ & Hq) Hu H1 H2. apply (Hq u Hu). split; assumption. Qed.

Lemma day_results_exn z tr d e : replace z tr d = RExn e -> day_results z tr d = [].
Proof. unfold day_results. intros ->. reflexivity. Qed.

(* an admissible occurrence on a day of the horizon is never given up on: the answer is Ok, unless [replace]
   raises on an earlier day of the walk (the exception escapes from get_next; see [replace_no_exn]) *)
Theorem time_complete z tr f dt d u :
  in_horizon z dt d -> In u (day_results z tr d) -> dt < u -> allow_opt z f u = true ->
  (forall d' e, walk_start z dt <= d' < d -> replace z tr d' <> RExn e) ->
  exists day v, walk_start z dt <= day <= d /\ first_adm z f dt (day_results z tr day) v /\
                next_time z tr f dt = Ok v.
Proof.
  intros Hh Hu Hdu Ha Hne.
  destruct (time_walk_cases z tr f dt) as [(day & v & Hd & Hall & Hf & Hn)|[(day & e & Hd & Hall & Hr & Hn)|(Hall & Hn)]].
  - exists day, v. split; [|split; assumption]. split; [apply Hd|].
    destruct (Z.le_gt_cases day d) as [Hle|Hgt]; [exact Hle|]. exfalso.
    apply (quiet_not_admissible z tr f dt d u); [apply Hall; unfold in_horizon in Hh; lia|assumption..].
  - exfalso. destruct (Z.lt_ge_cases day d) as [Hlt|Hge].
    + apply (Hne day e); [split; [apply Hd|exact Hlt]|exact Hr].
    + destruct (Z.eq_dec day d) as [->|Hneq].
      * rewrite (day_results_exn _ _ _ _ Hr) in Hu. destruct Hu.
      * apply (quiet_not_admissible z tr f dt d u); [apply Hall; unfold in_horizon in Hh; lia|assumption..].
  - exfalso. apply (quiet_not_admissible z tr f dt d u); [apply Hall; exact Hh|assumption..].
Qed.

(* with a well-formed table: the answer is the earliest admissible occurrence of ALL local days, in particular
   it is not after the witness *)
Corollary time_complete_earliest z tr f dt d u :
  wf_tz_b z = true -> wf_tr tr ->
  in_horizon z dt d -> In u (day_results z tr d) -> dt < u -> allow_opt z f u = true ->
  (forall d' e, walk_start z dt <= d' < d -> replace z tr d' <> RExn e) ->
  exists v, next_time z tr f dt = Ok v /\ earliest_after (occ_time z tr f) dt v /\ v <= u.
Proof.
  intros Hz Ht Hh Hu Hdu Ha Hne.
  destruct (time_complete z tr f dt d u Hh Hu Hdu Ha Hne) as (day & v & _ & _ & Hn).
  exists v. split; [exact Hn|]. pose proof (time_earliest z tr f dt v Hz Ht Hn) as He.
  split; [exact He|]. destruct He as (_ & _ & Hmin). apply Hmin; [exists d; split; assumption|exact Hdu].
Qed.

Corollary time_complete_get_next E tr f st dt d u :
  in_horizon (pz E) dt d -> In u (day_results (pz E) tr d) -> dt < u -> allow_opt (pz E) f u = true ->
  (forall d' e, walk_start (pz E) dt <= d' < d -> replace (pz E) tr d' <> RExn e) ->
  exists v, get_next E (PTime tr f) st dt = (Ok v, st).
Proof.
  intros Hh Hu Hdu Ha Hne. destruct (time_complete _ tr f dt d u Hh Hu Hdu Ha Hne) as (day & v & _ & _ & Hn).
  exists v. cbn [get_next]. rewrite Hn. reflexivity.
Qed.

(* ------------------------------------------------------------------------------------------- *)
(* 3. which errors can come out of [replace]; InfiniteLoopDetectedError characterised *)
Lemma find_after_exn_kind z day tod e : find_after z day tod = RExn e -> e = EOther \/ e = EValueError.
Proof.
  unfold find_after. set (base := day * DAY + tod / MINUTE * MINUTE).
  pose proof (iter_until_rule (after_step z base) (fun _ => True) (fun r => forall e, r = RExn e -> e = EOther)
                (Z.to_pos after_search_minutes) 0) as R.
  destruct (iter_until (Z.to_pos after_search_minutes) (after_step z base) 0) as [k|r].
  - intros H. injection H as <-. right; reflexivity.
  - intros H. left. apply R; [|exact I|exact H]. intros k _. unfold after_step.
    destruct (candidates z (base + (k + 1) * MINUTE)) as [|x [|y t]]; [exact I|discriminate|].
    intros e' He'. injection He' as <-. reflexivity.
Qed.

Lemma find_after_not_skip z day tod : find_after z day tod <> RSkip.
Proof.
  unfold find_after. set (base := day * DAY + tod / MINUTE * MINUTE).
  pose proof (iter_until_rule (after_step z base) (fun _ => True) (fun r => r <> RSkip)
                (Z.to_pos after_search_minutes) 0) as R.
  destruct (iter_until (Z.to_pos after_search_minutes) (after_step z base) 0) as [k|r]; [discriminate|].
  apply R; [|exact I]. intros k _. unfold after_step.
  destruct (candidates z (base + (k + 1) * MINUTE)) as [|x [|y t]]; [exact I|discriminate|discriminate].
Qed.

(* [replace] raises only: ValueError of the 'after' search (no existing minute within 121 minutes), or the
   exceptions the model files under EOther (a repeated minute met by the 'after' search; a skipped time in a
   table where no forward transition explains it) *)
Lemma replace_exn_kind z tr d e : replace z tr d = RExn e -> e = EOther \/ e = EValueError.
Proof.
  unfold replace. destruct (candidates z (d * DAY + tr_tod tr)) as [|i1 [|i2 rest]].
  - destruct (tr_sk tr).
    + discriminate.
    + destruct (gap_of z _) as [[ob oa]|]; [discriminate|]. intros H; injection H as <-. left; reflexivity.
    + destruct (gap_of z _) as [[ob oa]|]; [discriminate|]. intros H; injection H as <-. left; reflexivity.
    + apply find_after_exn_kind.
  - discriminate.
  - destruct (tr_rp tr); discriminate.
Qed.

(* the search gives up exactly when every one of the 99 999 days of the horizon is quiet *)
Theorem time_infinite_loop_iff z tr f dt :
  next_time z tr f dt = Raise EInfiniteLoop <-> forall x, in_horizon z dt x -> quiet z tr f dt x.
Proof.
  destruct (time_walk_cases z tr f dt) as [(day & v & Hd & Hall & Hf & Hn)|[(day & e & Hd & Hall & Hr & Hn)|(Hall & Hn)]].
  - split; [rewrite Hn; discriminate|]. intros Hq. exfalso. destruct Hf as (Hin & (H1 & H2) & _).
    apply (quiet_not_admissible z tr f dt day v (Hq day Hd) Hin H1 H2).
  - split.
    + rewrite Hn. intros H. injection H as ->. destruct (replace_exn_kind _ _ _ _ Hr); discriminate.
    + intros Hq. exfalso. destruct (Hq day Hd) as (Hne & _). apply (Hne e Hr).
  - split; [intros _; exact Hall|intros _; exact Hn].
Qed.

(* and it never reports running out of (model) fuel *)
Lemma next_time_not_out_of_fuel z tr f dt : next_time z tr f dt <> OutOfFuel.
Proof.
  destruct (time_walk_cases z tr f dt) as [(day & v & _ & _ & _ & Hn)|[(day & e & _ & _ & _ & Hn)|(_ & Hn)]];
    rewrite Hn; discriminate.
Qed.

(* ------------------------------------------------------------------------------------------- *)
(* 4. when [replace] cannot raise: a skipped local time lies in the gap of a forward transition when the
   transitions of the table are in ascending order *)
Definition tz_ascending (z : tz) : bool :=
  match tz_trans z with [] => true | (t, _) :: r => ascending t r end.

Lemma wf_tz_ascending z : wf_tz_b z = true -> tz_ascending z = true.
Proof. unfold wf_tz_b, tz_ascending. intros H. apply andb_prop in H. apply H. Qed.

Lemma gap_from_exists : forall l cur lo loc,
  match l with [] => True | (t, _) :: r => lo <= t /\ ascending t r = true end ->
  lo + cur * NS <= loc ->
  (forall i, lo <= i -> i + offset_from cur l i * NS <> loc) ->
  gap_from cur l loc <> None.
Proof.
  induction l as [|[t o] r IH]; intros cur lo loc Hasc Hlo Hno.
  - exfalso. apply (Hno (loc - cur * NS)); [lia|]. cbn [offset_from]. lia.
  - destruct Hasc as (Hlt & Hasc). cbn [gap_from].
    destruct ((t + cur * NS <=? loc) && (loc <? t + o * NS)) eqn:EC; [discriminate|].
    destruct (Z.lt_ge_cases loc (t + cur * NS)) as [Hbefore|Hafter].
    + exfalso. apply (Hno (loc - cur * NS)); [lia|]. cbn [offset_from].
      destruct (loc - cur * NS <? t) eqn:E; lia.
    + assert (Hpast : t + o * NS <= loc) by lia.
      apply (IH o t loc).
      * destruct r as [|[t' o'] r']; [exact I|]. cbn [ascending] in Hasc. apply andb_prop in Hasc.
        destruct Hasc as (H1 & H2). split; [lia|exact H2].
      * exact Hpast.
      * intros i Hi. specialize (Hno i (Z.le_trans _ _ _ Hlt Hi)). cbn [offset_from] in Hno.
        destruct (i <? t) eqn:E; [lia|exact Hno].
Qed.

Theorem gap_exists z l :
  tz_ascending z = true -> candidates z l = [] -> exists ob oa, gap_of z l = Some (ob, oa).
Proof.
  intros Hasc Hc.
  assert (Hno : forall i, to_local z i <> l).
  { intros i Hi. apply candidates_spec in Hi. rewrite Hc in Hi. destruct Hi. }
  unfold tz_ascending in Hasc. unfold gap_of.
  assert (Hg : gap_from (tz_init z) (tz_trans z) l <> None).
  { destruct (tz_trans z) as [|[t o] r] eqn:ET.
    - apply (gap_from_exists [] (tz_init z) (l - tz_init z * NS) l); [exact I|lia|].
      intros i _. specialize (Hno i). unfold to_local, offset_at in Hno. rewrite ET in Hno. exact Hno.
    - apply (gap_from_exists ((t, o) :: r) (tz_init z) (Z.min t (l - tz_init z * NS)) l).
      + split; [lia|exact Hasc].
      + lia.
      + intros i _. specialize (Hno i). unfold to_local, offset_at in Hno. rewrite ET in Hno. exact Hno. }
  destruct (gap_from (tz_init z) (tz_trans z) l) as [[ob oa]|]; [eauto|congruence].
Qed.

Definition no_exn (z : tz) (tr : treplacer) : Prop := forall d e, replace z tr d <> RExn e.

(* every policy but 'after' never raises on an ascending table *)
Theorem replace_no_exn z tr : tz_ascending z = true -> tr_sk tr <> SkAfter -> no_exn z tr.
Proof.
  intros Hasc Hsk d e. unfold replace.
  destruct (candidates z (d * DAY + tr_tod tr)) as [|i1 [|i2 rest]] eqn:EC.
  - destruct (gap_exists z _ Hasc EC) as (ob & oa & ->). destruct (tr_sk tr); [discriminate..|congruence].
  - discriminate.
  - destruct (tr_rp tr); discriminate.
Qed.

Lemma replace_not_skip z tr d : tr_sk tr <> SkSkip -> tr_rp tr <> RpSkip -> replace z tr d <> RSkip.
Proof.
  intros Hsk Hrp. unfold replace. destruct (candidates z (d * DAY + tr_tod tr)) as [|i1 [|i2 rest]].
  - destruct (tr_sk tr); [congruence| | |apply find_after_not_skip];
      destruct (gap_of z _) as [[ob oa]|]; discriminate.
  - discriminate.
  - destruct (tr_rp tr); [congruence|discriminate..].
Qed.

(* RSkip means: the configured time is skipped that day and the policy for skipped times is 'skip', or it is
   repeated and the policy for repeated times is 'skip' *)
Lemma replace_skip_inv z tr d :
  replace z tr d = RSkip ->
  (candidates z (d * DAY + tr_tod tr) = [] /\ tr_sk tr = SkSkip) \/
  (exists i1 i2 rest, candidates z (d * DAY + tr_tod tr) = i1 :: i2 :: rest /\ tr_rp tr = RpSkip).
Proof.
  unfold replace. destruct (candidates z (d * DAY + tr_tod tr)) as [|i1 [|i2 rest]].
  - destruct (tr_sk tr) eqn:ES.
    + intros _. left. split; reflexivity.
    + destruct (gap_of z _) as [[ob oa]|]; discriminate.
    + destruct (gap_of z _) as [[ob oa]|]; discriminate.
    + intros H. exfalso. exact (find_after_not_skip _ _ _ H).
  - discriminate.
  - destruct (tr_rp tr) eqn:ER; try discriminate. intros _. right. exists i1, i2, rest. split; reflexivity.
Qed.

(* ------------------------------------------------------------------------------------------- *)
(* 5. no filter: the trigger never starves unless the policy is 'skip' *)
Lemma horizon_day_plus2 z dt : in_horizon z dt (local_day (to_local z dt) + 2).
Proof. unfold in_horizon, walk_start. rewrite LBZ_val. lia. Qed.

Theorem time_nofilter_never_starves z tr dt :
  wf_tz_b z = true -> wf_tr tr -> tr_sk tr <> SkSkip -> tr_rp tr <> RpSkip -> no_exn z tr ->
  exists v, next_time z tr None dt = Ok v /\ earliest_after (occ_day z tr) dt v /\
            forall u, In u (day_results z tr (local_day (to_local z dt) + 2)) -> v <= u.
Proof.
  intros Hz Ht Hsk Hrp Hne. pose proof (wf_tz_spread z Hz) as Hsp.
  set (d := local_day (to_local z dt) + 2).
  assert (Hex : exists u, In u (day_results z tr d)).
  { unfold day_results. destruct (replace z tr d) as [i|a b| |e] eqn:ER.
    - exists i. left; reflexivity.
    - exists a. left; reflexivity.
    - exfalso. exact (replace_not_skip z tr d Hsk Hrp ER).
    - exfalso. exact (Hne d e ER). }
  destruct Hex as (u & Hu).
  assert (Hdu : dt < u) by (apply (day_results_after_ref z tr d u dt Hsp (proj1 Ht) Hu); unfold d; lia).
  destruct (time_complete_earliest z tr None dt d u Hz Ht (horizon_day_plus2 z dt) Hu Hdu eq_refl
              (fun d' e _ => Hne d' e)) as (v & Hn & He & _).
  exists v. split; [exact Hn|]. split.
  - apply (earliest_after_ext (occ_time z tr None)); [apply occ_time_None|exact He].
  - intros u' Hu'. destruct He as (_ & _ & Hmin). apply Hmin; [exists d; split; [exact Hu'|reflexivity]|].
    apply (day_results_after_ref z tr d u' dt Hsp (proj1 Ht) Hu'). unfold d. lia.
Qed.

(* policies 'earlier' / 'later' for skipped times: no side condition on [replace] is left *)
Corollary time_nofilter_never_starves_el z tr dt :
  wf_tz_b z = true -> wf_tr tr -> tr_sk tr = SkEarlier \/ tr_sk tr = SkLater -> tr_rp tr <> RpSkip ->
  exists v, next_time z tr None dt = Ok v /\ earliest_after (occ_day z tr) dt v.
Proof.
  intros Hz Ht Hsk Hrp.
  destruct (time_nofilter_never_starves z tr dt Hz Ht) as (v & H1 & H2 & _).
  - destruct Hsk as [-> | ->]; discriminate.
  - exact Hrp.
  - apply replace_no_exn; [apply wf_tz_ascending; exact Hz|]. destruct Hsk as [-> | ->]; discriminate.
  - exists v. split; assumption.
Qed.

(* which combinations CAN starve an unfiltered trigger: only a table in which the configured wall-clock time is
   skipped (policy for skipped times = 'skip') or repeated (policy for repeated times = 'skip') on each of the
   99 996 consecutive local days  local day of dt + 2 .. local day of dt + 99 997 *)
Theorem time_nofilter_starves_only_if z tr dt :
  wf_tz_b z = true -> wf_tr tr -> next_time z tr None dt = Raise EInfiniteLoop ->
  forall d, local_day (to_local z dt) + 2 <= d < walk_start z dt + LBZ -> replace z tr d = RSkip.
Proof.
  intros Hz Ht Hn d Hd. pose proof (wf_tz_spread z Hz) as Hsp.
  assert (Hq : quiet z tr None dt d).
  { apply (proj1 (time_infinite_loop_iff z tr None dt) Hn). unfold in_horizon, walk_start in *. lia. }
  assert (Hnone : forall u, In u (day_results z tr d) -> False).
  { intros u Hu. apply (quiet_not_admissible z tr None dt d u Hq Hu); [|reflexivity].
    apply (day_results_after_ref z tr d u dt Hsp (proj1 Ht) Hu). lia. }
  destruct Hq as (Hne & _). unfold day_results in Hnone. destruct (replace z tr d) as [i|a b| |e] eqn:ER.
  - exfalso. apply (Hnone i). left; reflexivity.
  - exfalso. apply (Hnone a). left; reflexivity.
  - reflexivity.
  - exfalso. exact (Hne e eq_refl).
Qed.

(* ------------------------------------------------------------------------------------------- *)
(* 6. interval: the filter search visits the first [fuel] grid points after the reference instant *)
Definition ifirst (c iv dt : Z) : Z := interval_first (interval_back c iv dt) iv dt.

Lemma interval_walk_nat z f iv : forall n g,
  match iter_nat n (fun g => if allow_opt z f g then inr g else inl (g + iv)) g with
  | inl g' => g' = g + Z.of_nat n * iv /\ forall k, 0 <= k < Z.of_nat n -> allow_opt z f (g + k * iv) = false
  | inr v => exists k, 0 <= k < Z.of_nat n /\ v = g + k * iv /\ allow_opt z f v = true /\
                       forall j, 0 <= j < k -> allow_opt z f (g + j * iv) = false
  end.
Proof.
  induction n as [|n IH]; intros g; cbn [iter_nat].
  - split; [lia|]. intros k Hk. lia.
  - destruct (allow_opt z f g) eqn:Eg.
    + exists 0. split; [lia|]. split; [lia|]. split; [exact Eg|]. intros j Hj. lia.
    + specialize (IH (g + iv)).
      destruct (iter_nat n (fun g => if allow_opt z f g then inr g else inl (g + iv)) (g + iv)) as [g'|v].
      * destruct IH as (-> & Hall). split; [lia|]. intros k Hk.
        destruct (Z.eq_dec k 0) as [->|Hne]; [rewrite Z.mul_0_l, Z.add_0_r; exact Eg|].
        replace (g + k * iv) with (g + iv + (k - 1) * iv) by lia. apply Hall. lia.
      * destruct IH as (k & Hk & -> & Ha & Hall). exists (k + 1). split; [lia|]. split; [lia|].
        split; [exact Ha|]. intros j Hj.
        destruct (Z.eq_dec j 0) as [->|Hne]; [rewrite Z.mul_0_l, Z.add_0_r; exact Eg|].
        replace (g + j * iv) with (g + iv + (j - 1) * iv) by lia. apply Hall. lia.
Qed.

(* the answer of IntervalProducer.get_next, exactly (the model's OutOfFuel stands for the code's loop still
   running after [fuel] rounds) *)
Theorem interval_walk_cases z fuel c iv f dt :
  (exists k, 0 <= k < Z.pos fuel /\ allow_opt z f (ifirst c iv dt + k * iv) = true /\
             (forall j, 0 <= j < k -> allow_opt z f (ifirst c iv dt + j * iv) = false) /\
             next_interval z fuel c iv f dt = Ok (ifirst c iv dt + k * iv)) \/
  ((forall k, 0 <= k < Z.pos fuel -> allow_opt z f (ifirst c iv dt + k * iv) = false) /\
   next_interval z fuel c iv f dt = OutOfFuel).
Proof.
  unfold next_interval. fold (ifirst c iv dt). rewrite iter_until_nat.
  pose proof (interval_walk_nat z f iv (Pos.to_nat fuel) (ifirst c iv dt)) as H.
  rewrite positive_nat_Z in H.
  destruct (iter_nat (Pos.to_nat fuel) _ (ifirst c iv dt)) as [g'|v].
  - right. destruct H as (_ & Hall). split; [exact Hall|reflexivity].
  - left. destruct H as (k & Hk & -> & Ha & Hall). exists k. repeat split; assumption || lia.
Qed.

Lemma ifirst_props c iv dt : 0 < iv -> on_grid c iv (ifirst c iv dt) /\ dt < ifirst c iv dt <= dt + iv.
Proof.
  intros Hiv. unfold ifirst. split.
  - apply interval_first_grid; [exact Hiv|apply interval_back_grid; exact Hiv].
  - split; [apply interval_first_gt; [exact Hiv|apply interval_back_le; exact Hiv]|].
    pose proof (interval_first_tight (interval_back c iv dt) iv dt Hiv). lia.
Qed.

(* a grid point after dt is  first + k * iv  with k >= 0 *)
Lemma grid_point_index c iv dt u :
  0 < iv -> on_grid c iv u -> dt < u -> exists k, 0 <= k /\ u = ifirst c iv dt + k * iv.
Proof.
  intros Hiv Hu Hdu. destruct (ifirst_props c iv dt Hiv) as (Hg & Hlo & Hhi).
  unfold on_grid in *. apply Z.mod_divide in Hg; [|lia]. apply Z.mod_divide in Hu; [|lia].
  destruct Hg as (a & Ha). destruct Hu as (b & Hb). exists (b - a). split; [nia|lia].
Qed.

(* COMPLETENESS, interval: an admissible grid point among the first [fuel] grid points after dt is found *)
Theorem interval_complete z fuel c iv f dt u :
  0 < iv -> on_grid c iv u -> dt < u -> u < ifirst c iv dt + Z.pos fuel * iv -> allow_opt z f u = true ->
  exists g, next_interval z fuel c iv f dt = Ok g /\ g <= u /\
            dt < g /\ on_grid c iv g /\ allow_opt z f g = true /\
            forall w, dt < w < g -> on_grid c iv w -> allow_opt z f w = false.
Proof.
  intros Hiv Hu Hdu Hlim Ha. destruct (grid_point_index c iv dt u Hiv Hu Hdu) as (k & Hk & ->).
  assert (Hkf : k < Z.pos fuel) by nia.
  destruct (interval_walk_cases z fuel c iv f dt) as [(k' & Hk' & Ha' & Hall & Hn)|(Hall & Hn)].
  - exists (ifirst c iv dt + k' * iv). split; [exact Hn|]. split.
    + destruct (Z.le_gt_cases k' k) as [Hle|Hgt]; [nia|]. rewrite (Hall k) in Ha by lia. discriminate.
    + apply (interval_earliest z fuel c iv f dt _ Hiv Hn).
  - rewrite (Hall k) in Ha by lia. discriminate.
Qed.

(* the same with the limit stated from dt: any admissible grid point in (dt, dt + fuel * iv] suffices *)
Corollary interval_complete_within z fuel c iv f dt u :
  0 < iv -> on_grid c iv u -> dt < u <= dt + Z.pos fuel * iv -> allow_opt z f u = true ->
  exists g, next_interval z fuel c iv f dt = Ok g /\ g <= u.
Proof.
  intros Hiv Hu (Hdu & Hlim) Ha. destruct (ifirst_props c iv dt Hiv) as (_ & Hlo & _).
  destruct (interval_complete z fuel c iv f dt u Hiv Hu Hdu) as (g & Hn & Hle & _); [lia|exact Ha|].
  exists g. split; assumption.
Qed.

Theorem interval_out_of_fuel_iff z fuel c iv f dt :
  next_interval z fuel c iv f dt = OutOfFuel <->
  forall k, 0 <= k < Z.pos fuel -> allow_opt z f (ifirst c iv dt + k * iv) = false.
Proof.
  destruct (interval_walk_cases z fuel c iv f dt) as [(k & Hk & Ha & _ & Hn)|(Hall & Hn)].
  - split; [rewrite Hn; discriminate|]. intros H. rewrite (H k Hk) in Ha. discriminate.
  - split; [intros _; exact Hall|intros _; exact Hn].
Qed.

Lemma next_interval_never_raises z fuel c iv f dt e : next_interval z fuel c iv f dt <> Raise e.
Proof.
  destruct (interval_walk_cases z fuel c iv f dt) as [(k & _ & _ & _ & Hn)|(_ & Hn)]; rewrite Hn; discriminate.
Qed.

(* without a filter the first grid point after dt is the answer, whatever the fuel *)
Corollary interval_nofilter_ok z fuel c iv dt : next_interval z fuel c iv None dt = Ok (ifirst c iv dt).
Proof.
  destruct (interval_walk_cases z fuel c iv None dt) as [(k & Hk & _ & Hall & Hn)|(Hall & _)].
  - destruct (Z.eq_dec k 0) as [->|Hne]; [rewrite Hn; f_equal; lia|].
    specialize (Hall 0). cbn [allow_opt] in Hall. discriminate Hall. lia.
  - specialize (Hall 0). cbn [allow_opt] in Hall. discriminate Hall. lia.
Qed.

(* through get_next: the grid is the one through the cached point (through start when nothing is cached);
   n = interval_fuel E *)
Definition icell (id : nat) (start : option Z) (st : pstate) (dt : Z) : Z :=
  match ilookup id (icache st) with
  | Some c => c
  | None => match start with Some s => s | None => dt + 1000 end
  end.

Theorem interval_complete_get_next E id start iv f st dt u :
  0 < iv -> on_grid (icell id start st dt) iv u ->
  dt < u <= dt + Z.pos (interval_fuel E) * iv -> allow_opt (pz E) f u = true ->
  exists g, get_next E (PInterval id start iv f) st dt = (Ok g, with_icache (iset id g (icache st)) st) /\ g <= u.
Proof.
  intros Hiv Hu Hr Ha.
  destruct (interval_complete_within (pz E) (interval_fuel E) _ iv f dt u Hiv Hu Hr Ha) as (g & Hn & Hle).
  exists g. split; [|exact Hle]. cbn [get_next]. fold (icell id start st dt). rewrite Hn. reflexivity.
Qed.

(* ------------------------------------------------------------------------------------------- *)
(* 7. Examples.  Daily 07:30 with a Monday-only filter on the two-transition table; reference instant
   Friday 2025-10-24 02:30 local (+02); the week-end in between has the autumn change.  The witness is Monday
   2025-10-27 (local day 20388) 07:30 +01 = 06:30Z; the hypotheses of [time_complete_earliest] hold, so the
   answer is Ok, the earliest admissible occurrence, and (computed) that very Monday. *)
Definition tr0730 : treplacer := {| tr_tod := (7 * 3600 + 1800) * NS; tr_sk := SkLater; tr_rp := RpTwice |}.
Definition monday_only : option filt := Some (FWeekday [1]).
Definition ex_dt : Z := 1761265800 * NS.
Definition ex_monday : Z := 1761546600 * NS.

Example ex_tr0730_wf : wf_tr tr0730 /\ no_exn berlin2 tr0730.
Proof.
  split; [unfold wf_tr; vm_compute; split; [discriminate|reflexivity]|].
  apply replace_no_exn; [vm_compute; reflexivity|discriminate].
Qed.

Example ex_time_complete_hyps :
  walk_start berlin2 ex_dt = 20384 /\ in_horizon berlin2 ex_dt 20388 /\
  In ex_monday (day_results berlin2 tr0730 20388) /\ ex_dt < ex_monday /\
  allow_opt berlin2 monday_only ex_monday = true.
Proof.
  split; [vm_compute; reflexivity|]. split; [unfold in_horizon; vm_compute; split; [discriminate|reflexivity]|].
  split; [vm_compute; left; reflexivity|]. split; vm_compute; reflexivity.
Qed.

Example ex_time_complete :
  exists v, next_time berlin2 tr0730 monday_only ex_dt = Ok v /\
            earliest_after (occ_time berlin2 tr0730 monday_only) ex_dt v /\ v <= ex_monday.
Proof.
  destruct ex_time_complete_hyps as (_ & Hh & Hu & Hlt & Ha). destruct ex_tr0730_wf as (Ht & Hne).
  apply (time_complete_earliest berlin2 tr0730 monday_only ex_dt 20388 ex_monday);
    [vm_compute; reflexivity|exact Ht|exact Hh|exact Hu|exact Hlt|exact Ha|].
  intros d' e _. apply Hne.
Qed.

Example ex_time_complete_value : next_time berlin2 tr0730 monday_only ex_dt = Ok ex_monday.
Proof. vm_compute. reflexivity. Qed.

(* unfiltered, policies later / twice: never starves, from any reference instant *)
Example ex_time_never_starves dt :
  exists v, next_time berlin2 tr0730 None dt = Ok v /\ earliest_after (occ_day berlin2 tr0730) dt v.
Proof.
  apply time_nofilter_never_starves_el; [vm_compute; reflexivity|apply ex_tr0730_wf|right; reflexivity|discriminate].
Qed.

(* the horizon is exact.  Fixed offset +1 h, daily 07:30, a date filter that accepts one single local day:
   - the day walk_start + 99 998 = (local day of dt) + 99 997, the LAST day of the horizon: found (by the theorem);
   - the day walk_start + 99 999 = (local day of dt) + 99 998: InfiniteLoopDetectedError although the occurrence
     exists.  (The walk starts one day early and that day is one of the 99 999 rounds.)  *)
Definition plus1 : tz := {| tz_init := 3600; tz_trans := [] |}.
Definition only_day (d : Z) : option filt := Some (FDateSet [d] false).

Example ex_last_day_found :
  in_horizon plus1 ex_dt (walk_start plus1 ex_dt + 99998) /\
  exists v, next_time plus1 tr0730 (only_day (walk_start plus1 ex_dt + 99998)) ex_dt = Ok v.
Proof.
  assert (Hh : in_horizon plus1 ex_dt (walk_start plus1 ex_dt + 99998)).
  { unfold in_horizon. rewrite LBZ_val. lia. }
  split; [exact Hh|].
  destruct (time_complete plus1 tr0730 (only_day (walk_start plus1 ex_dt + 99998)) ex_dt
              (walk_start plus1 ex_dt + 99998) ((walk_start plus1 ex_dt + 99998) * DAY + tr_tod tr0730 - 3600 * NS))
    as (day & v & _ & _ & Hn).
  - exact Hh.
  - vm_compute. left; reflexivity.
  - vm_compute. reflexivity.
  - vm_compute. reflexivity.
  - intros d' e _. apply replace_no_exn; [reflexivity|discriminate].
  - exists v. exact Hn.
Qed.

Example ex_day_after_horizon_missed :
  next_time plus1 tr0730 (only_day (walk_start plus1 ex_dt + 99999)) ex_dt = Raise EInfiniteLoop.
Proof. vm_compute. reflexivity. Qed.

Theorem time_horizon_tight_refuted :
  ~ (forall z tr f dt d u,
       walk_start z dt <= d <= walk_start z dt + LBZ -> In u (day_results z tr d) -> dt < u ->
       allow_opt z f u = true -> no_exn z tr -> exists v, next_time z tr f dt = Ok v).
Proof.
  intros H.
  destruct (H plus1 tr0730 (only_day (walk_start plus1 ex_dt + 99999)) ex_dt (walk_start plus1 ex_dt + 99999)
              ((walk_start plus1 ex_dt + 99999) * DAY + tr_tod tr0730 - 3600 * NS)) as (v & Hv).
  - rewrite LBZ_val. lia.
  - vm_compute. left; reflexivity.
  - vm_compute. reflexivity.
  - vm_compute. reflexivity.
  - apply replace_no_exn; [reflexivity|discriminate].
  - rewrite ex_day_after_horizon_missed in Hv. discriminate.
Qed.

(* policy 'skip' for skipped times: the day of the spring change has no occurrence of 02:30, the walk passes
   it and answers with the next day *)
Example ex_skip_day_passed :
  day_results berlin2 (tr0230 SkSkip RpTwice) 20177 = [] /\
  next_time berlin2 (tr0230 SkSkip RpTwice) None (1743211800 * NS) = Ok (1743381000 * NS).
Proof. split; vm_compute; reflexivity. Qed.

(* interval: every 7 hours from 2025-06-02T00:00Z, Monday-only filter, asked on Monday 2025-06-02 23:30 local:
   the next Monday point is 168 h = 24 grid steps after the start; it is found with fuel 24, not with fuel 3 *)
Definition ex_iv_start : Z := 1748822400 * NS.
Definition ex_iv_dt : Z := 1748899800 * NS.
Definition ex_iv_u : Z := ex_iv_start + 24 * (7 * 3600 * NS).

Example ex_interval_complete :
  exists g, next_interval berlin2 24 ex_iv_start (7 * 3600 * NS) monday_only ex_iv_dt = Ok g /\ g <= ex_iv_u.
Proof.
  apply interval_complete_within.
  - vm_compute; reflexivity.
  - vm_compute; reflexivity.
  - vm_compute. split; [reflexivity|discriminate].
  - vm_compute; reflexivity.
Qed.

Example ex_interval_values :
  next_interval berlin2 24 ex_iv_start (7 * 3600 * NS) monday_only ex_iv_dt = Ok ex_iv_u /\
  next_interval berlin2 3 ex_iv_start (7 * 3600 * NS) monday_only ex_iv_dt = OutOfFuel.
Proof. split; vm_compute; reflexivity. Qed.

(* ------------------------------------------------------------------------------------------- *)
(* 8. [time_complete] needs the hypothesis that [replace] does not raise on the days before the witness.
   A table (well-formed: one forward change of 3 h, 02:00 -> 05:00 local on day 20000) and the policy 'after' for
   02:00: on day 20000 the search of find_time_after_dst_switch tries the 121 minutes 02:01 .. 04:01, all
   skipped, and raises ValueError; the exception escapes from get_next although 02:00 exists on day 20001 and on
   every later day.  (Replayed on the implementation with TZ=Pacific/Apia, 12:00 'after', reference instant
   2011-12-29 13:00 local: ValueError 'Could not find a time after the DST switch'; policies 'later' and 'skip'
   answer 2011-12-31 12:00.) *)
Definition gap3 : tz := {| tz_init := 0; tz_trans := [((20000 * 86400 + 2 * 3600) * NS, 3 * 3600)] |}.
Definition tr0200_after : treplacer := {| tr_tod := 2 * 3600 * NS; tr_sk := SkAfter; tr_rp := RpTwice |}.
Definition gap3_dt : Z := (19999 * 86400 + 12 * 3600) * NS.

Example ex_after_search_fails :
  wf_tz_b gap3 = true /\ replace gap3 tr0200_after 20000 = RExn EValueError /\
  day_results gap3 tr0200_after 20001 = [(20001 * 86400 + 2 * 3600 - 3 * 3600) * NS] /\
  next_time gap3 tr0200_after None gap3_dt = Raise EValueError.
Proof. vm_compute. repeat split; reflexivity. Qed.

Theorem time_complete_without_no_exn_refuted :
  ~ (forall z tr f dt d u,
       wf_tz_b z = true -> wf_tr tr -> in_horizon z dt d -> In u (day_results z tr d) -> dt < u ->
       allow_opt z f u = true -> exists v, next_time z tr f dt = Ok v).
Proof.
  intros H. destruct ex_after_search_fails as (Hz & _ & Hres & Hn).
  destruct (H gap3 tr0200_after None gap3_dt 20001 ((20001 * 86400 + 2 * 3600 - 3 * 3600) * NS)) as (v & Hv).
  - exact Hz.
  - unfold wf_tr. vm_compute. split; [discriminate|reflexivity].
  - unfold in_horizon. vm_compute. split; [discriminate|reflexivity].
  - rewrite Hres. left; reflexivity.
  - vm_compute; reflexivity.
  - reflexivity.
  - rewrite Hn in Hv. discriminate.
Qed.
