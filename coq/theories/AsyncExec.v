(* AsyncExec.v — executable model of eascheduler.executor.base.AsyncExecutor on top of the task-manager /
   event-loop model of TaskMgr.v.  No proofs here (AsyncExecFacts.v).

       def execute(self):         self.task_manager.create_task(self._execute())
       async def _execute(self):
           try:                   await self._func(...)              
           except Exception as e: process_exception(e)

   The coroutine the task manager sees is the wrapper [_execute]; the user coroutine runs inside it.  The
   events and the scripts are those of TaskMgr.v, but a script [(subs, n)] now says what the USER body does
   when it is resumed.  The wrapper turns it into what the wrapped coroutine does:

     * the user body parks                          -> the wrapper parks (same future);
     * the user body returns                        -> the wrapper returns;
     * an Exception leaves the user body ([NRaise], or [NFin] after it was woken by an exception)
                                                    -> caught: the exception handler is called once with it,
                                                       the wrapper RETURNS;
     * a CancelledError leaves the user body ([NFin] after it was woken by a cancellation)
                                                    -> BaseException, not caught: the wrapper re-raises it, the
                                                       handler is not called;
     * a cancellation before the first step and a coroutine closed unstarted by a manager policy never
       enter the wrapper: no user code, no handler call (these steps do not consume a script).

   Besides the state of TaskMgr.v the run carries two logs:
     [ulog]  the trace of the user bodies: (coroutine, what woke it, what the script made it do), one entry per
             resumption of a user body;
     [hlog]  the calls of the exception handler: which coroutine's exception, in call order.            *)
From EAS Require Import Base TaskMgr.
Open Scope nat_scope.

(* how a resumption of the user body ends *)
Inductive uout := UPark | UReturn | UExcn | UCancelled.

Definition user_out (w : wake) (n : next) : uout :=
  match n with
  | NPark => UPark
  | NRaise => UExcn
  | NRet => UReturn
  | NFin => match w with WRes => UReturn | WExc => UExcn | WCanc => UCancelled end
  end.

(* try: await user  except Exception as e: process_exception(e) *)
Definition handler_called (o : uout) : bool := match o with UExcn => true | _ => false end.

(* what the wrapper does, as a behaviour of TaskMgr.v; [NFin] is used for the re-raised CancelledError only
   (the wake-up was [WCanc] then) *)
Definition wrap_next (o : uout) : next :=
  match o with
  | UPark => NPark
  | UReturn => NRet
  | UExcn => NRet
  | UCancelled => NFin
  end.

Definition wrap_beh (w : wake) (b : beh) : beh := (fst b, wrap_next (user_out w (snd b))).

(* what the next step of task c delivers to the body: the scheduled wake-up, overridden by a pending
   _must_cancel; the first step delivers nothing *)
Definition eff_wake (s : state) (c : nat) : wake :=
  match ph s c with
  | Waking w => if mc s c then WCanc else w
  | _ => WRes
  end.

Record astate := mkast {
  ast : state;                        (* loop + task manager, TaskMgr.v *)
  hlog : list nat;                    (* exception handler calls *)
  ulog : list (nat * wake * next)     (* resumptions of user bodies *)
}.

Definition ainit : astate := mkast init [] [].
Definition with_st (a : astate) (s : state) : astate := mkast s (hlog a) (ulog a).

(* Task.__step of the wrapped coroutine c; [r] is the rest of the ready queue *)
Definition arun_step (m : mgr) (a : astate) (c : nat) (r : list handle) (b : beh) : astate :=
  let s := ast a in
  let w := eff_wake s c in
  let o := user_out w (snd b) in
  mkast (run_step m (set_ready s r) c (wrap_beh w b))
        (if handler_called o then hlog a ++ [c] else hlog a)
        (ulog a ++ [(c, w, snd b)]).

(* run [n] handles from the head of the ready queue; user bodies consume [bs] *)
Fixpoint arun_handles (m : mgr) (n : nat) (bs : list beh) (a : astate) : astate :=
  match n with
  | O => a
  | S n' =>
      match ready (ast a) with
      | [] => a
      | HStep c :: r =>
          if takes_beh (ast a) c
          then arun_handles m n' (tl bs) (arun_step m a c r (hd default_beh bs))
          else arun_handles m n' bs (with_st a (run_step m (set_ready (ast a) r) c (hd default_beh bs)))
      | HDone c :: r => arun_handles m n' bs (with_st a (run_done m (set_ready (ast a) r) c))
      end
  end.

Definition astep (m : mgr) (a : astate) (e : event) : astate :=
  let s := set_flag (ast a) false in
  match e with
  | Run bs => match ready s with [] => with_st a (invalid s) | _ => arun_handles m 1 bs (with_st a s) end
  | Tick bs => match ready s with [] => with_st a (invalid s)
               | _ => arun_handles m (length (ready s)) bs (with_st a s) end
  | _ => with_st a (step m (ast a) e)
  end.

Definition arun (m : mgr) (evs : list event) : astate := fold_left (astep m) evs ainit.

(* ------------------------------------------------------------------------------------------- *)
(* the same run seen from the task manager: the scripts of the wrapped coroutines                *)

Fixpoint wrap_bs (m : mgr) (n : nat) (bs : list beh) (s : state) : list beh :=
  match n with
  | O => bs
  | S n' =>
      match ready s with
      | [] => bs
      | HStep c :: r =>
          if takes_beh s c
          then let b' := wrap_beh (eff_wake s c) (hd default_beh bs) in
               b' :: wrap_bs m n' (tl bs) (run_step m (set_ready s r) c b')
          else wrap_bs m n' bs (run_step m (set_ready s r) c (hd default_beh bs))
      | HDone c :: r => wrap_bs m n' bs (run_done m (set_ready s r) c)
      end
  end.

Definition wrap_event (m : mgr) (s0 : state) (e : event) : event :=
  let s := set_flag s0 false in
  match e with
  | Run bs => Run (wrap_bs m 1 bs s)
  | Tick bs => Tick (wrap_bs m (length (ready s)) bs s)
  | _ => e
  end.

Fixpoint wrap_events (m : mgr) (s : state) (evs : list event) : list event :=
  match evs with
  | [] => []
  | e :: t => let e' := wrap_event m s e in e' :: wrap_events m (step m s e') t
  end.

(* ------------------------------------------------------------------------------------------- *)
(* reading the logs *)

Definition is_exit (x : nat * wake * next) : bool := match snd x with NPark => false | _ => true end.
Definition is_raise (x : nat * wake * next) : bool := handler_called (user_out (snd (fst x)) (snd x)).
Definition who (x : nat * wake * next) : nat := fst (fst x).

(* the user body of c was left by an Exception: it raised, or it let the exception it was woken with escape *)
Definition left_by_exception (a : astate) (c : nat) : Prop :=
  exists w n, In (c, w, n) (ulog a) /\ (n = NRaise \/ (n = NFin /\ w = WExc)).
(* ... by a CancelledError *)
Definition left_by_cancellation (a : astate) (c : nat) : Prop := In (c, WCanc, NFin) (ulog a).
(* ... by returning *)
Definition left_by_return (a : astate) (c : nat) : Prop :=
  (exists w, In (c, w, NRet) (ulog a)) \/ In (c, WRes, NFin) (ulog a).
(* the user body of c never ran *)
Definition never_ran (a : astate) (c : nat) : Prop := forall w n, ~ In (c, w, n) (ulog a).

Definition is_fin (p : phase) : bool := match p with Done _ | Processed _ => true | _ => false end.
