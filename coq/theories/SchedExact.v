(* SchedExact.v — C02 / C08: the FRAME of the re-entrant core.  A call of one of the six core functions
   only appends to the log; a job that the call does not start keeps its record; every start made by the
   call is the start of a queued job (or of the job the call was made for) for exactly the next-run time
   the job had announced BEFORE the call, and that time was reached; a started job is afterwards not due
   any more.  Purely syntactic (no well-formedness needed), for every amount of fuel, assuming only that
   triggers answer strictly in the future (C04; a trigger raising inside execute() is finding F5). *)
From EAS Require Import Base BaseFacts Sched SchedInv SchedApi.
From EASGen Require Import Generated.

Definition started (k : nat) (l : list event) : Prop := exists t a o, In (EExec k t a o) l.
Definition noexec (l : list event) : Prop := forall j t a o, ~ In (EExec j t a o) l.
(* job k has announced next-run time a, and a is reached *)
Definition due_at (s : st) (k : nat) (a : Z) : Prop := jnext (jobs s k) = Some a /\ a <= now s.

(* what the core may do to a job record: status / next run / linked flag only; status and next run are kept,
   or a one-shot job became FINISHED, or a countdown job became PAUSED, or the job is a recurring one *)
Definition jstep (b b' : job) : Prop :=
  jkind b' = jkind b /\ jexec_t b' = jexec_t b /\ jsecs b' = jsecs b /\ jkey b' = jkey b /\
  jcbu b' = jcbu b /\ jcbf b' = jcbf b /\
  ((jstatus b' = jstatus b /\ jnext b' = jnext b) \/
   (jkind b = KOnce /\ jstatus b' = Finished /\ jnext b' = None) \/
   (jkind b = KCountdown /\ jstatus b' = Paused /\ jnext b' = None) \/
   jkind b = KAt).

Lemma jstep_refl b : jstep b b.
Proof. unfold jstep; repeat split; auto. Qed.
Lemma jstep_trans a b c : jstep a b -> jstep b c -> jstep a c.
Proof.
  unfold jstep. intros (a1&a2&a3&a4&a5&a6&a7) (b1&b2&b3&b4&b5&b6&b7).
  repeat split; try congruence.
  destruct a7 as [(x1&x2)|[(x1&x2&x3)|[(x1&x2&x3)|x1]]]; destruct b7 as [(y1&y2)|[(y1&y2&y3)|[(y1&y2&y3)|y1]]];
    first [left; split; congruence | right; left; repeat split; congruence
          | right; right; left; repeat split; congruence | right; right; right; congruence].
Qed.

Lemma started_app k l1 l2 : started k (l1 ++ l2) <-> started k l1 \/ started k l2.
Proof.
  unfold started. split.
  - intros (t & a & o & H). apply in_app_or in H. destruct H; [left|right]; eauto.
  - intros [(t & a & o & H)|(t & a & o & H)]; exists t, a, o; apply in_or_app; auto.
Qed.
Lemma noexec_not_started k l : noexec l -> ~ started k l.
Proof. intros H (t & a & o & Hin). exact (H _ _ _ _ Hin). Qed.
Lemma noexec_nil : noexec [].
Proof. intros j t a o []. Qed.
Lemma noexec_app l1 l2 : noexec l1 -> noexec l2 -> noexec (l1 ++ l2).
Proof. intros H1 H2 j t a o H. apply in_app_or in H. destruct H; [eapply H1|eapply H2]; eassumption. Qed.

Lemma started_dec k l : started k l \/ ~ started k l.
Proof.
  induction l as [|e t IH]; [right; intros (a & b & c & [])|].
  destruct IH as [(a & b & c & H)|IH]; [left; exists a, b, c; right; exact H|].
  assert (Hother : (forall j a b c, e = EExec j a b c -> j <> k) -> ~ started k (e :: t)).
  { intros He (x & y & z & [Hc|Hc]); [eapply He; [exact Hc|reflexivity]|apply IH; exists x, y, z; exact Hc]. }
  destruct e as [j a b c| | | |]; try (right; apply Hother; intros; discriminate).
  destruct (Nat.eq_dec j k) as [->|Hne]; [left; exists a, b, c; left; reflexivity|].
  right. apply Hother. intros j' a' b' c' Hc. injection Hc as <- _ _ _. exact Hne.
Qed.

(* [A]: the job the call was made for (add_job / exec_job); it may start although it is not queued *)
Record Fr (A : nat -> Prop) (s s' : st) (l : list event) : Prop := {
  fr_log : log s' = l ++ log s;
  fr_now : now s' = now s;
  fr_opi : opi s' = opi s;
  fr_njobs : njobs s' = njobs s;
  fr_en : enabled s' = enabled s;
  fr_keep : forall k, ~ started k l -> jobs s' k = jobs s k;
  fr_exec : forall j t a o, In (EExec j t a o) l ->
              t = now s /\ o = opi s /\ (A j \/ In j (queue s)) /\ due_at s j a;
  fr_cool : forall k a, started k l -> ~ due_at s' k a;
  fr_queue : forall k, In k (queue s') -> A k \/ In k (queue s);
  fr_step : forall k, jstep (jobs s k) (jobs s' k)
}.

(* nothing happened to jobs and log *)
Lemma Fr_id (A : nat -> Prop) s s' :
  log s' = log s -> now s' = now s -> opi s' = opi s -> njobs s' = njobs s -> enabled s' = enabled s ->
  jobs s' = jobs s -> (forall k, In k (queue s') -> A k \/ In k (queue s)) -> Fr A s s' [].
Proof.
  intros a b c d e f g. constructor; auto.
  - intros k _. rewrite f. reflexivity.
  - intros j t x o [].
  - intros k x (t & y & o & []).
  - intros k. rewrite f. apply jstep_refl.
Qed.

(* the call started from a state that looks the same, with a queue (and argument) that is not larger *)
Lemma Fr_pre (A A' : nat -> Prop) s0 s s' l :
  log s = log s0 -> now s = now s0 -> opi s = opi s0 -> njobs s = njobs s0 -> enabled s = enabled s0 ->
  jobs s = jobs s0 -> (forall k, A k \/ In k (queue s) -> A' k \/ In k (queue s0)) ->
  Fr A s s' l -> Fr A' s0 s' l.
Proof.
  intros a b c d e f g [H1 H2 H3 H4 H5 H6 H7 H8 H9 H10]. unfold due_at in *.
  constructor; try congruence.
  - intros k Hk. rewrite H6 by exact Hk. rewrite f. reflexivity.
  - intros j t x o Hin. destruct (H7 j t x o Hin) as (p & q & r & u). unfold due_at in *. rewrite <- b, <- c, <- f. auto.
  - exact H8.
  - intros k Hk. apply g. apply H9. exact Hk.
  - intros k. rewrite <- f. apply H10.
Qed.

(* afterwards only non-start events are logged and the queue does not grow *)
Lemma Fr_post (A : nat -> Prop) s s1 s' l l2 :
  Fr A s s1 l -> log s' = l2 ++ log s1 -> noexec l2 ->
  now s' = now s1 -> opi s' = opi s1 -> njobs s' = njobs s1 -> enabled s' = enabled s1 ->
  jobs s' = jobs s1 -> (forall k, In k (queue s') -> In k (queue s1)) -> Fr A s s' (l2 ++ l).
Proof.
  intros [H1 H2 H3 H4 H5 H6 H7 H8 H9 H10] a Hn b c d e f g. unfold due_at in *.
  constructor; try congruence.
  - rewrite a, H1. apply app_assoc.
  - intros k Hk. rewrite f. apply H6. intros Hs. apply Hk. apply started_app. right. exact Hs.
  - intros j t x o Hin. apply in_app_or in Hin. destruct Hin as [Hin|Hin]; [destruct (Hn _ _ _ _ Hin)|exact (H7 _ _ _ _ Hin)].
  - intros k x Hk. apply started_app in Hk. destruct Hk as [Hk|Hk]; [destruct (noexec_not_started _ _ Hn Hk)|].
    unfold due_at. rewrite f, b. apply H8. exact Hk.
  - intros k Hk. apply H9. apply g. exact Hk.
  - intros k. rewrite f. apply H10.
Qed.

(* two calls in sequence; the second may be made for a job that the first could have started *)
Lemma Fr_trans (A1 A2 : nat -> Prop) s s1 s2 l1 l2 :
  Fr A1 s s1 l1 -> Fr A2 s1 s2 l2 -> (forall k, A2 k -> A1 k \/ In k (queue s)) ->
  Fr A1 s s2 (l2 ++ l1).
Proof.
  intros [H1 H2 H3 H4 H5 H6 H7 H8 H9 H10] [G1 G2 G3 G4 G5 G6 G7 G8 G9 G10] Hsub.
  assert (Hq : forall k, A2 k \/ In k (queue s1) -> A1 k \/ In k (queue s)).
  { intros k [Hk|Hk]; [apply Hsub; exact Hk|apply H9; exact Hk]. }
  constructor; try congruence.
  - rewrite G1, H1. apply app_assoc.
  - intros k Hk. rewrite G6, H6; [reflexivity| |]; intros Hs; apply Hk; apply started_app; auto.
  - intros j t x o Hin. apply in_app_or in Hin. destruct Hin as [Hin|Hin]; [|exact (H7 _ _ _ _ Hin)].
    destruct (G7 _ _ _ _ Hin) as (p & q & r & u).
    split; [congruence|]. split; [congruence|]. split; [apply Hq; exact r|].
    (* j was not started by the first call: otherwise it would not be due in s1 *)
    assert (Hns : ~ started j l1) by (intros Hs; exact (H8 j x Hs u)).
    unfold due_at in *. rewrite <- (H6 j Hns), <- H2. exact u.
  - intros k x Hk Hd. apply started_app in Hk.
    destruct (started_dec k l2) as [Hs2|Hn2]; [exact (G8 k x Hs2 Hd)|].
    destruct Hk as [Hs2|Hs1]; [tauto|].
    apply (H8 k x Hs1). unfold due_at in *. rewrite <- (G6 k Hn2), <- G2. exact Hd.
  - intros k Hk. apply Hq. apply G9. exact Hk.
  - intros k. eapply jstep_trans; [apply H10|apply G10].
Qed.

(* ------------------------------------------------------------------------------------------- *)
(* what the non-core pieces write into the log *)
Section LogPieces.
Variable E : env.

Lemma run_cbs_log_ext mk cbs s : (forall cb j t a o, mk cb <> EExec j t a o) ->
  exists l, log (run_cbs E mk cbs s) = l ++ log s /\ noexec l.
Proof.
  intros Hmk. revert s; induction cbs as [|cb t IH]; intros s; cbn [run_cbs].
  - exists []. split; [reflexivity|apply noexec_nil].
  - match goal with |- context [run_cbs E mk t ?sx] => destruct (IH sx) as (l & Hl & Hn) end.
    destruct (fail_cb E cb _); cbn [log add_ev set_log] in Hl.
    + exists (l ++ [EHandler (HCb cb); mk cb]). split; [rewrite Hl, <- app_assoc; reflexivity|].
      apply noexec_app; [exact Hn|]. intros j x a o [Hc|[Hc|[]]]; [discriminate|eapply Hmk; exact Hc].
    + exists (l ++ [mk cb]). split; [rewrite Hl, <- app_assoc; reflexivity|].
      apply noexec_app; [exact Hn|]. intros j x a o [Hc|[]]. eapply Hmk; exact Hc.
Qed.

Lemma set_next_run_log j nx s : exists l, log (set_next_run E j nx s) = l ++ log s /\ noexec l.
Proof. unfold set_next_run. cbv zeta. apply (run_cbs_log_ext _ _ (set_job j _ s)). intros; discriminate. Qed.

Lemma finish_job_log j s : exists l, log (finish_job E j s) = l ++ log s /\ noexec l.
Proof.
  unfold finish_job. cbv zeta.
  match goal with |- context [run_cbs E ?mk ?cbs ?sx] => destruct (run_cbs_log_ext mk cbs sx) as (l & Hl & Hn) end.
  { intros; discriminate. }
  exists l. split; [|exact Hn]. rewrite Hl. destruct (jstored (jobs s j)); reflexivity.
Qed.

Lemma exec_pre_log j t s : exists p, log (exec_pre E j t s) = p ++ log s /\
  In (EExec j (now s) t (opi s)) p /\
  (forall i x a o, In (EExec i x a o) p -> i = j /\ x = now s /\ a = t /\ o = opi s).
Proof.
  unfold exec_pre. cbv zeta. destruct (fail_exec E j _); cbn [log add_ev set_log].
  - exists [EHandler (HExec j); EExec j (now s) t (opi s)]. split; [reflexivity|]. split; [right; left; reflexivity|].
    intros i x a o [Hc|[Hc|[]]]; [discriminate|injection Hc as <- <- <- <-; auto].
  - exists [EExec j (now s) t (opi s)]. split; [reflexivity|]. split; [left; reflexivity|].
    intros i x a o [Hc|[]]. injection Hc as <- <- <- <-; auto.
Qed.
End LogPieces.

Definition NoA : nat -> Prop := fun _ => False.

Section Core.
Variable E : env.
(* every trigger answers, strictly in the future (C04) *)
Hypothesis prod_ok : forall j k t, exists v, prod E j k t = Ok v /\ t < v.

(* job.execute(): the start is logged, the core may run (job_finish of a one-shot job), then the record of
   j is replaced by one that is not due *)
Lemma Fr_exec_wrap j t s s1 s' l1 l2 b :
  due_at s j t ->
  Fr NoA (exec_pre E j t s) s1 l1 ->
  log s' = l2 ++ log s1 -> noexec l2 ->
  now s' = now s1 -> opi s' = opi s1 -> njobs s' = njobs s1 -> enabled s' = enabled s1 ->
  queue s' = queue s1 -> jobs s' = upd (jobs s1) j b -> jstep (jobs s1 j) b ->
  (forall a, jnext b = Some a -> now s < a) ->
  exists l, Fr (eq j) s s' l.
Proof.
  intros Hdue [H1 H2 H3 H4 H5 H6 H7 H8 H9 H10] a Hn b1 b2 b3 b4 b5 b6 Hst Hfut.
  destruct (exec_pre_props E j t s) as ((v1 & v2 & v3 & v4) & p1 & p2 & p3 & p4 & p5).
  destruct (exec_pre_log E j t s) as (p & Hp & Hin & Honly).
  remember (exec_pre E j t s) as s0 eqn:Es0. clear Es0.
  assert (Hj : started j p) by (exists (now s), t, (opi s); exact Hin).
  assert (Hother : forall k, k <> j -> jobs s' k = jobs s1 k).
  { intros k Hne. rewrite b6. unfold upd. destruct (Nat.eqb_spec k j); [congruence|reflexivity]. }
  exists (l2 ++ l1 ++ p). constructor; try congruence.
  - rewrite a, H1, Hp. rewrite <- !app_assoc. reflexivity.
  - intros k Hk.
    assert (Hne : k <> j).
    { intros ->. apply Hk. apply started_app. right. apply started_app. right. exact Hj. }
    rewrite (Hother k Hne), H6, v2; [reflexivity|].
    intros Hs. apply Hk. apply started_app. right. apply started_app. left. exact Hs.
  - intros i x y o Hi. apply in_app_or in Hi. destruct Hi as [Hi|Hi]; [destruct (Hn _ _ _ _ Hi)|].
    apply in_app_or in Hi. destruct Hi as [Hi|Hi].
    + destruct (H7 _ _ _ _ Hi) as (q1 & q2 & [[]|q3] & q4). unfold due_at in *. rewrite v2, p1 in q4.
      split; [congruence|]. split; [congruence|]. split; [right; congruence|exact q4].
    + destruct (Honly _ _ _ _ Hi) as (-> & -> & -> & ->). repeat split; try apply Hdue. left; reflexivity.
  - intros k x Hk (Hd1 & Hd2). apply started_app in Hk. destruct Hk as [Hk|Hk]; [exact (noexec_not_started _ _ Hn Hk)|].
    destruct (Nat.eq_dec k j) as [->|Hne].
    + rewrite b6 in Hd1. unfold upd in Hd1. rewrite Nat.eqb_refl in Hd1. specialize (Hfut x Hd1).
      assert (now s' = now s) by congruence. lia.
    + apply started_app in Hk. destruct Hk as [Hk|(x1 & x2 & x3 & Hk)].
      * apply (H8 k x Hk). unfold due_at. rewrite <- (Hother k Hne), <- b1. split; assumption.
      * destruct (Honly _ _ _ _ Hk) as (-> & _). congruence.
  - intros k Hk. right. rewrite b5 in Hk. destruct (H9 k Hk) as [[]|Hq]. congruence.
  - intros k. destruct (Nat.eq_dec k j) as [->|Hne].
    + rewrite b6. unfold upd. rewrite Nat.eqb_refl. eapply jstep_trans; [|exact Hst]. rewrite <- v2. apply H10.
    + rewrite (Hother k Hne), <- v2. apply H10.
Qed.

Definition fr_specs (f : nat) : Prop :=
  (forall s s', set_timer E f s = Some s' -> exists l, Fr NoA s s' l) /\
  (forall s s', run_jobs E f s = Some s' -> exists l, Fr NoA s s' l) /\
  (forall s s', run_loop E f s = Some s' -> exists l, Fr NoA s s' l) /\
  (forall j s s', add_job E f j s = Some s' -> exists l, Fr (eq j) s s' l) /\
  (forall j s s', remove_job E f j s = Some s' ->
     exists l, Fr NoA (set_queue (remove_first j (queue s)) s) s' l) /\
  (forall j t s s', due_at s j t -> exec_job E f j t s = Some s' -> exists l, Fr (eq j) s s' l).

Lemma Fr_same (A : nat -> Prop) s sx :
  log sx = log s -> now sx = now s -> opi sx = opi s -> njobs sx = njobs s -> enabled sx = enabled s ->
  jobs sx = jobs s -> queue sx = queue s -> exists l, Fr A s sx l.
Proof. intros. exists []. apply Fr_id; auto. intros k Hk. right. congruence. Qed.

Lemma fr_set_timer_step f : fr_specs f ->
  forall s s', set_timer E (S f) s = Some s' -> exists l, Fr NoA s s' l.
Proof.
  intros (_ & IHrj & _) s s' H. rewrite set_timer_S in H. cbv zeta in H.
  destruct (queue (set_timer_f None s)) as [|h q]; [injection H as <-; apply Fr_same; reflexivity|].
  destruct (negb (enabled (set_timer_f None s))); [injection H as <-; apply Fr_same; reflexivity|].
  destruct (jnext (jobs (set_timer_f None s) h)) as [t|]; [|injection H as <-; apply Fr_same; reflexivity].
  destruct (t <=? now (set_timer_f None s)); [|injection H as <-; apply Fr_same; reflexivity].
  apply IHrj in H. destruct H as (l & F). exists l.
  eapply Fr_pre; [..|exact F]; try reflexivity. intros k Hk; exact Hk.
Qed.

Lemma fr_run_jobs_step f : fr_specs f ->
  forall s s', run_jobs E (S f) s = Some s' -> exists l, Fr NoA s s' l.
Proof.
  intros (IHst & _ & IHlp & _) s s' H. rewrite run_jobs_S in H. cbv zeta in H.
  destruct (run_loop E f (set_timer_f None s)) as [s1|] eqn:EL; [|discriminate].
  apply IHlp in EL. destruct EL as (l1 & F1).
  assert (F1' : Fr NoA s s1 l1) by (eapply Fr_pre; [..|exact F1]; try reflexivity; intros k Hk; exact Hk).
  destruct (broken s1); [injection H as <-; eauto|].
  destruct (queue s1); [injection H as <-; eauto|].
  apply IHst in H. destruct H as (l2 & F2). exists (l2 ++ l1).
  eapply Fr_trans; [exact F1'|exact F2|]. intros k [].
Qed.

Lemma fr_add_job_step f : fr_specs f ->
  forall j s s', add_job E (S f) j s = Some s' -> exists l, Fr (eq j) s s' l.
Proof.
  intros (IHst & _) j s s' H. rewrite add_job_S in H.
  destruct (status_eqb _ _); [|injection H as <-; apply Fr_same; reflexivity].
  cbv zeta in H.
  assert (Hq : forall k, NoA k \/ In k (queue (set_queue (insort s j (queue s)) s)) -> j = k \/ In k (queue s)).
  { intros k [[]|Hk]. cbn [queue set_queue] in Hk. apply In_insort in Hk.
    destruct Hk; [left; congruence|right; assumption]. }
  destruct (is_head _ _).
  - apply IHst in H. destruct H as (l & F). exists l. eapply Fr_pre; [..|exact Hq|exact F]; reflexivity.
  - injection H as <-. exists []. apply Fr_id; try reflexivity. intros k Hk. apply Hq. right. exact Hk.
Qed.

Lemma fr_remove_job_step f : fr_specs f ->
  forall j s s', remove_job E (S f) j s = Some s' ->
    exists l, Fr NoA (set_queue (remove_first j (queue s)) s) s' l.
Proof.
  intros (IHst & _) j s s' H. rewrite remove_job_S in H.
  destruct (queue s) as [|h t] eqn:Eq.
  - apply IHst in H. destruct H as (l & F). exists l. eapply Fr_pre; [..|exact F]; try reflexivity.
    intros k [[]|Hk]. rewrite Eq in Hk. destruct Hk.
  - cbv zeta in H. destruct (remove_first j (h :: t)) as [|h' t'] eqn:Er.
    + apply IHst in H. destruct H as (l & F). exists l. exact F.
    + destruct (Nat.eqb h j).
      * apply IHst in H. destruct H as (l & F). exists l. exact F.
      * injection H as <-. apply Fr_same; reflexivity.
Qed.

Lemma fr_run_loop_step f : fr_specs f ->
  forall s s', run_loop E (S f) s = Some s' -> exists l, Fr NoA s s' l.
Proof.
  intros (_ & _ & IHlp & IHadd & _ & IHex) s s' H. rewrite run_loop_S in H.
  destruct (queue s) as [|h q] eqn:Eq; [injection H as <-; apply Fr_same; reflexivity|].
  destruct (jnext (jobs s h)) as [t|] eqn:Ht.
  2:{ injection H as <-. exists ([EHandler HLoop] ++ []).
      eapply (Fr_post NoA s s _ [] [EHandler HLoop]); try reflexivity.
      - apply Fr_id; try reflexivity. intros k Hk; right; exact Hk.
      - intros j t a o [Hc|[]]; discriminate.
      - intros k Hk; exact Hk. }
  destruct (now s <? t) eqn:Elt; [injection H as <-; apply Fr_same; reflexivity|]. cbv zeta in H.
  apply Z.ltb_ge in Elt.
  destruct (exec_job E f h t (set_queue q s)) as [s2|] eqn:EX; [|discriminate].
  assert (Hd : due_at (set_queue q s) h t) by (split; [exact Ht|exact Elt]).
  apply (IHex h t _ _ Hd) in EX. destruct EX as (l1 & F1).
  assert (F1' : Fr NoA s s2 l1).
  { eapply Fr_pre; [..|exact F1]; try reflexivity.
    intros k [<-|Hk]; right; rewrite Eq; [left; reflexivity|right; exact Hk]. }
  destruct (status_eqb (jstatus (jobs s2 h)) Running).
  - destruct (add_job E f h s2) as [s3|] eqn:EA; [|discriminate].
    apply IHadd in EA. destruct EA as (l2 & F2). apply IHlp in H. destruct H as (l3 & F3).
    assert (F12 : Fr NoA s s3 (l2 ++ l1)).
    { eapply Fr_trans; [exact F1'|exact F2|]. intros k <-. right. rewrite Eq. left; reflexivity. }
    exists (l3 ++ l2 ++ l1). eapply Fr_trans; [exact F12|exact F3|]. intros k [].
  - apply IHlp in H. destruct H as (l3 & F3). exists (l3 ++ l1).
    eapply Fr_trans; [exact F1'|exact F3|]. intros k [].
Qed.

Lemma tol_nonneg : 0 <= past_tolerance_ns.
Proof. vm_compute. discriminate. Qed.

Lemma fr_exec_job_step f : fr_specs f ->
  forall j t s s', due_at s j t -> exec_job E (S f) j t s = Some s' -> exists l, Fr (eq j) s s' l.
Proof.
  intros (_ & _ & _ & _ & IHrm & _) j t s s' Hd H. rewrite exec_job_S in H. cbv zeta in H.
  destruct (exec_pre_props E j t s) as ((v1 & v2 & v3 & v4) & p1 & p2 & p3 & p4 & p5).
  assert (F0 : Fr NoA (exec_pre E j t s) (exec_pre E j t s) []).
  { apply Fr_id; try reflexivity. intros k Hk; right; exact Hk. }
  destruct (jkind (jobs (exec_pre E j t s) j)) eqn:Ek.
  - destruct (remove_job E f j (exec_pre E j t s)) as [s1|] eqn:ER; [|discriminate]. injection H as <-.
    apply IHrm in ER. destruct ER as (l1 & F1).
    assert (F1' : Fr NoA (exec_pre E j t s) s1 l1).
    { eapply Fr_pre; [..|exact F1]; try reflexivity. intros k [[]|Hk]. right.
      cbn [queue set_queue] in Hk. eapply remove_first_In; exact Hk. }
    destruct (finish_job_props E j s1) as (q1 & q2 & q3 & q4 & q5 & q6 & q7 & q8).
    destruct (finish_job_log E j s1) as (l2 & Hl2 & Hn2).
    assert (Hk1 : jkind (jobs s1 j) = KOnce) by (destruct (fr_step _ _ _ _ F1' j) as (e & _); congruence).
    eapply Fr_exec_wrap; [exact Hd|exact F1'|exact Hl2|exact Hn2|exact q2|exact q6|exact q5|exact q3|exact q1|exact q8| |].
    + unfold jstep; cbn. repeat (split; [reflexivity|]). right; left. auto.
    + intros a Ha. cbn in Ha. discriminate.
  - injection H as <-.
    destruct (set_next_run_props E j None (exec_pre E j t s)) as (q1 & q2 & q3 & q4 & q5 & q6 & q7 & q8 & q9).
    destruct (set_next_run_log E j None (exec_pre E j t s)) as (l2 & Hl2 & Hn2).
    eapply Fr_exec_wrap; [exact Hd|exact F0|exact Hl2|exact Hn2|exact q2|exact q6|exact q5|exact q3|exact q1|exact q9| |].
    + unfold jstep; cbn. repeat (split; [reflexivity|]). right; right; left. auto.
    + intros a Ha. cbn in Ha. discriminate.
  - remember (add_ev (EProd j) (exec_pre E j t s)) as s1 eqn:Es1.
    destruct (prod_ok j (count_prod j (log (exec_pre E j t s))) (now s1)) as (v & Hv & Hlt).
    rewrite Hv in H.
    assert (Hold : too_old s1 v = false).
    { unfold too_old. apply Z.ltb_ge. pose proof tol_nonneg. lia. }
    rewrite Hold in H. injection H as <-.
    destruct (set_next_run_props E j (Some v) s1) as (q1 & q2 & q3 & q4 & q5 & q6 & q7 & q8 & q9).
    destruct (set_next_run_log E j (Some v) s1) as (l2 & Hl2 & Hn2).
    eapply (Fr_exec_wrap j t s _ _ [] (l2 ++ [EProd j])); [exact Hd|exact F0| | |..].
    + rewrite Hl2, Es1. cbn [log add_ev set_log]. rewrite <- app_assoc. reflexivity.
    + apply noexec_app; [exact Hn2|]. intros i x a o [Hc|[]]; discriminate.
    + rewrite q2, Es1; reflexivity.
    + rewrite q6, Es1; reflexivity.
    + rewrite q5, Es1; reflexivity.
    + rewrite q3, Es1; reflexivity.
    + rewrite q1, Es1; reflexivity.
    + rewrite q9, Es1. reflexivity.
    + unfold jstep; cbn. repeat (split; [reflexivity|]). right; right; right. exact Ek.
    + intros a Ha. cbn in Ha. injection Ha as <-. rewrite Es1 in Hlt. cbn [now add_ev set_log] in Hlt. lia.
Qed.

Theorem fr_specs_all : forall f, fr_specs f.
Proof.
  induction f as [|f IH].
  - repeat split; intros; discriminate.
  - split; [apply fr_set_timer_step; exact IH|].
    split; [apply fr_run_jobs_step; exact IH|].
    split; [apply fr_run_loop_step; exact IH|].
    split; [apply fr_add_job_step; exact IH|].
    split; [apply fr_remove_job_step; exact IH|apply fr_exec_job_step; exact IH].
Qed.

(* ------------------------------------------------------------------------------------------- *)
(* the statement without the auxiliary list: the new events of a call are the front of the log *)
Definition new_events (s s' : st) : list event := firstn (length (log s') - length (log s)) (log s').

Lemma new_events_app s s' l : log s' = l ++ log s -> new_events s s' = l.
Proof.
  intros H. unfold new_events. rewrite H, app_length.
  replace (length l + length (log s) - length (log s))%nat with (length l + 0)%nat by lia.
  rewrite firstn_app_2. cbn. apply app_nil_r.
Qed.

Definition CoreFrame (A : nat -> Prop) (s s' : st) : Prop :=
  (exists l, log s' = l ++ log s) /\
  now s' = now s /\ opi s' = opi s /\ njobs s' = njobs s /\ enabled s' = enabled s /\
  (forall k, ~ started k (new_events s s') -> jobs s' k = jobs s k) /\
  (forall j t a o, In (EExec j t a o) (new_events s s') ->
     t = now s /\ o = opi s /\ (A j \/ In j (queue s)) /\ jnext (jobs s j) = Some a /\ a <= now s) /\
  (forall k a, started k (new_events s s') -> ~ (jnext (jobs s' k) = Some a /\ a <= now s')) /\
  (forall k, In k (queue s') -> A k \/ In k (queue s)) /\
  (forall k, jstep (jobs s k) (jobs s' k)).

Lemma Fr_CoreFrame A s s' l : Fr A s s' l -> CoreFrame A s s'.
Proof.
  intros [H1 H2 H3 H4 H5 H6 H7 H8 H9 H10]. unfold CoreFrame. rewrite (new_events_app _ _ _ H1).
  split; [exists l; exact H1|]. repeat (split; [assumption|]). assumption.
Qed.

Lemma fr_remove_job_s f j s s' : remove_job E f j s = Some s' -> exists l, Fr NoA s s' l /\
  (forall i t a o, In (EExec i t a o) l -> In i (remove_first j (queue s))).
Proof.
  intros H. destruct (fr_specs_all f) as (_ & _ & _ & _ & Hrm & _). destruct (Hrm j s s' H) as (l & F).
  exists l. split.
  - eapply Fr_pre; [..|exact F]; try reflexivity. intros k [[]|Hk]. right. eapply remove_first_In; exact Hk.
  - intros i t a o Hin. destruct (fr_exec _ _ _ _ F _ _ _ _ Hin) as (_ & _ & [[]|Hq] & _). exact Hq.
Qed.

(* C02 (frame of the core), for every amount of fuel: a job that the call does not start keeps its record; every
   start made by the call is a start of a queued job (or of the job the call was made for) for the next-run time
   it had announced before the call, which was reached; a started job is not due afterwards *)
Theorem core_frame f :
  (forall s s', set_timer E f s = Some s' -> CoreFrame NoA s s') /\
  (forall s s', run_jobs E f s = Some s' -> CoreFrame NoA s s') /\
  (forall s s', run_loop E f s = Some s' -> CoreFrame NoA s s') /\
  (forall j s s', add_job E f j s = Some s' -> CoreFrame (eq j) s s') /\
  (forall j s s', remove_job E f j s = Some s' -> CoreFrame NoA s s' /\
     (forall i t a o, In (EExec i t a o) (new_events s s') -> In i (remove_first j (queue s)))) /\
  (forall j t s s', jnext (jobs s j) = Some t -> t <= now s -> exec_job E f j t s = Some s' ->
     CoreFrame (eq j) s s').
Proof.
  destruct (fr_specs_all f) as (H1 & H2 & H3 & H4 & H5 & H6).
  split; [intros s s' H; destruct (H1 s s' H) as (l & F); eapply Fr_CoreFrame; exact F|].
  split; [intros s s' H; destruct (H2 s s' H) as (l & F); eapply Fr_CoreFrame; exact F|].
  split; [intros s s' H; destruct (H3 s s' H) as (l & F); eapply Fr_CoreFrame; exact F|].
  split; [intros j s s' H; destruct (H4 j s s' H) as (l & F); eapply Fr_CoreFrame; exact F|].
  split.
  - intros j s s' H. destruct (fr_remove_job_s f j s s' H) as (l & F & Hin).
    split; [eapply Fr_CoreFrame; exact F|]. rewrite (new_events_app _ _ _ (fr_log _ _ _ _ F)). exact Hin.
  - intros j t s s' Ha Hb H. destruct (H6 j t s s' (conj Ha Hb) H) as (l & F). eapply Fr_CoreFrame; exact F.
Qed.
End Core.
