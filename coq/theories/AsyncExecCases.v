(* AsyncExecCases.v — Coq side of the correspondence check of the asynchronous executor (C10): a case is a
   manager configuration, an event trace (scripts = what the USER coroutines do) and what the implementation
   (the real AsyncExecutor on the real task managers) looked like after every event: the loop / manager
   observation of TaskMgrCases.v, the calls of the exception handler and the trace of the user bodies.
   [amismatches] runs the model of AsyncExec.v on the trace and reports the first event at which the model
   and the implementation differ. *)
From EAS Require Import Base TaskMgr TaskMgrCases AsyncExec.
From Coq Require Import NArith.
Open Scope nat_scope.

Record aobs := {
  ao_obs : obs;                (* as for the bare task managers *)
  ao_hlog : list N;            (* coroutines whose exception was handed to the handler, in call order *)
  ao_ulog : list N             (* resumptions of user bodies: 16 c + 4 wake + next *)
}.

Record acase := { ac_mgr : mgr; ac_evs : list event; ac_obs : list aobs }.

Definition next_code (n : next) : nat := match n with NPark => 0 | NFin => 1 | NRaise => 2 | NRet => 3 end.
Definition ulog_code (x : nat * wake * next) : nat :=
  16 * who x + 4 * wake_code (snd (fst x)) + next_code (snd x).

Definition mk_aobs (m : mgr) (a : astate) : aobs := {|
  ao_obs := mk_obs m (ast a);
  ao_hlog := nn (hlog a);
  ao_ulog := nn (map ulog_code (ulog a))
|}.

Definition aobs_eqb (a b : aobs) : bool :=
  obs_eqb (ao_obs a) (ao_obs b) && nl_eqb (ao_hlog a) (ao_hlog b) && nl_eqb (ao_ulog a) (ao_ulog b).

Fixpoint model_aobs (m : mgr) (a : astate) (evs : list event) : list aobs :=
  match evs with
  | [] => []
  | e :: t => let a' := astep m a e in mk_aobs m a' :: model_aobs m a' t
  end.

Definition acase_model_obs (c : acase) : list aobs := model_aobs (ac_mgr c) ainit (ac_evs c).

Fixpoint afirst_diff (i : nat) (a b : list aobs) : option nat :=
  match a, b with
  | [], [] => None
  | x :: a', y :: b' => if aobs_eqb x y then afirst_diff (S i) a' b' else Some i
  | _, _ => Some i
  end.

Definition afirst_mismatch (c : acase) : option nat := afirst_diff 0 (acase_model_obs c) (ac_obs c).

Fixpoint amismatches_from (i : nat) (cs : list acase) : list (nat * nat) :=
  match cs with
  | [] => []
  | c :: t => match afirst_mismatch c with
              | None => amismatches_from (S i) t
              | Some k => (i, k) :: amismatches_from (S i) t
              end
  end.
Definition amismatches (cs : list acase) : list (nat * nat) := amismatches_from 0 cs.

(* ------------------------------------------------------------------------------------------- *)
(* Executable versions of the theorems of AsyncExecFacts.v, evaluated on the implementation's own
   observations (non-vacuity on real runs, classification of a mismatch).                          *)
Fixpoint nodup_n (l : list N) : bool :=
  match l with [] => true | x :: t => negb (existsb (N.eqb x) t) && nodup_n t end.

(* a resumption code whose user body was left by an Exception: next = raise, or next = fin after wake = exc *)
Definition code_raised (x : N) : bool :=
  let r := N.to_nat (N.modulo x 16) in Nat.eqb (r mod 4) 2 || Nat.eqb r 5.
Definition code_who (x : N) : N := N.div x 16.

(* phase codes 10 / 13: the task ended with an exception *)
Definition code_dexc (x : N) : bool := let p := N.to_nat (N.modulo x 16) in Nat.eqb p 10 || Nat.eqb p 13.

Definition aobs_ok (o : aobs) : bool :=
  nodup_n (ao_hlog o)
  && nl_eqb (ao_hlog o) (map code_who (filter code_raised (ao_ulog o)))
  && negb (existsb code_dexc (o_cids (ao_obs o))).

Definition acase_wellformed (c : acase) : bool := forallb aobs_ok (ac_obs c).

Definition as_case (c : acase) : case :=
  {| c_mgr := ac_mgr c; c_evs := ac_evs c; c_obs := map ao_obs (ac_obs c) |}.
(* the loop / manager observations also satisfy the executable C11 / C12 invariants *)
Definition acase_mgr_wellformed (c : acase) : bool := case_wellformed (as_case c).
