(* SchedStore.v — C07, the job store: in every reachable state the store holds exactly the jobs that were
   added to it and have not finished, under pairwise different keys; a duplicate key is rejected with
   KeyError and nothing changes.  The invariant is checked against the atoms of SchedTrace.v, which covers the
   six re-entrant core functions (for every amount of fuel) and every API operation. *)
From EAS Require Import Base BaseFacts Sched SchedInv SchedApi SchedTrace.
From EASGen Require Import Generated.

Definition StoreOK (s : st) : Prop :=
  NoDup (map fst (store s)) /\
  forall key j, In (key, j) (store s) <->
    ((j < njobs s)%nat /\ jstored (jobs s j) = true /\ jkey (jobs s j) = key /\ jstatus (jobs s j) <> Finished).

(* only jobs that exist are registered with the store *)
Definition StoredBound (s : st) : Prop := forall j, jstored (jobs s j) = true -> (j < njobs s)%nat.

Definition StoreInv (s : st) : Prop := StoreOK s /\ StoredBound s.

(* ------------------------------------------------------------------------------------------- *)
(* association-list facts *)
Lemma store_has_In key l : store_has key l = true <-> In key (map fst l).
Proof.
  induction l as [|(k, j) t IH]; cbn [store_has map fst In]; [split; [discriminate|tauto]|].
  rewrite orb_true_iff, IH, Z.eqb_eq. tauto.
Qed.

Lemma In_fst {A B} (a : A) (b : B) l : In (a, b) l -> In a (map fst l).
Proof. intros H. apply in_map_iff. exists (a, b). split; [reflexivity|exact H]. Qed.

Lemma NoDup_fst_inj {A B} (l : list (A * B)) a x y :
  NoDup (map fst l) -> In (a, x) l -> In (a, y) l -> x = y.
Proof.
  induction l as [|(k, v) t IH]; cbn [map fst In]; [tauto|].
  intros Hnd [Hx|Hx] [Hy|Hy]; inversion Hnd as [|? ? Hk Ht]; subst.
  - congruence.
  - injection Hx as -> ->. exfalso. apply Hk. eapply In_fst; exact Hy.
  - injection Hy as -> ->. exfalso. apply Hk. eapply In_fst; exact Hx.
  - apply IH; assumption.
Qed.

Lemma In_store_remove key l k j :
  NoDup (map fst l) -> (In (k, j) (store_remove key l) <-> In (k, j) l /\ k <> key).
Proof.
  induction l as [|(k0, j0) t IH]; cbn [store_remove map fst In]; [tauto|].
  intros Hnd. inversion Hnd as [|? ? Hk Ht]; subst.
  destruct (Z.eqb_spec k0 key) as [->|Hne].
  - split.
    + intros Hin. split; [right; exact Hin|]. intros ->. apply Hk. eapply In_fst; exact Hin.
    + intros ([Heq|Hin] & Hn); [injection Heq as -> ->; congruence|exact Hin].
  - cbn [In]. rewrite (IH Ht). split.
    + intros [Heq|(Hin & Hn)]; [injection Heq as -> ->; split; [left; reflexivity|exact Hne]|split; [right; exact Hin|exact Hn]].
    + intros ([Heq|Hin] & Hn); [left; exact Heq|right; split; assumption].
Qed.

Lemma In_fst_store_remove key l k : In k (map fst (store_remove key l)) -> In k (map fst l).
Proof.
  induction l as [|(k0, j0) t IH]; cbn [store_remove map fst In]; [tauto|].
  destruct (Z.eqb k0 key); cbn [map fst In]; [tauto|]. intros [H|H]; [left; exact H|right; apply IH; exact H].
Qed.

Lemma NoDup_store_remove key l : NoDup (map fst l) -> NoDup (map fst (store_remove key l)).
Proof.
  induction l as [|(k0, j0) t IH]; cbn [store_remove map fst]; [intros H; exact H|].
  intros Hnd. inversion Hnd as [|? ? Hk Ht]; subst.
  destruct (Z.eqb k0 key); [exact Ht|]. cbn [map fst]. constructor; [|apply IH; exact Ht].
  intros Hc. apply Hk. eapply In_fst_store_remove; exact Hc.
Qed.

(* ------------------------------------------------------------------------------------------- *)
Section Store.
Variable E : env.

Lemma finish_job_store j s :
  store (finish_job E j s) =
  if jstored (jobs s j) then store_remove (jkey (jobs s j)) (store s) else store s.
Proof.
  unfold finish_job. cbv zeta.
  match goal with |- store (run_cbs E ?mk ?cbs ?sx) = _ => destruct (run_cbs_other E mk cbs sx) as (_ & _ & _ & h & _) end.
  rewrite h. destruct (jstored (jobs s j)); reflexivity.
Qed.

Lemma StoreInv_same s s' :
  jobs s' = jobs s -> njobs s' = njobs s -> store s' = store s -> StoreInv s -> StoreInv s'.
Proof. unfold StoreInv, StoreOK, StoredBound. intros -> -> ->. auto. Qed.

(* a job record is replaced by one with the same key and store registration that is finished iff the old one was *)
Lemma StoreInv_upd s s' j b :
  store s' = store s -> njobs s' = njobs s -> jobs s' = upd (jobs s) j b ->
  jstored b = jstored (jobs s j) -> jkey b = jkey (jobs s j) ->
  (jstatus b = Finished <-> jstatus (jobs s j) = Finished) ->
  StoreInv s -> StoreInv s'.
Proof.
  intros Hs Hn Hj Hst Hk Hf ((Hnd & Hiff) & Hb). split; [split|].
  - rewrite Hs. exact Hnd.
  - intros key k. rewrite Hs, Hn, Hj, Hiff. unfold upd.
    destruct (Nat.eqb_spec k j) as [->|Hne]; [|tauto]. rewrite Hst, Hk. tauto.
  - intros k. rewrite Hn, Hj. unfold upd.
    destruct (Nat.eqb_spec k j) as [->|Hne]; [rewrite Hst|]; apply Hb.
Qed.

Lemma StoreInv_set_job s j b :
  jstored b = jstored (jobs s j) -> jkey b = jkey (jobs s j) ->
  (jstatus b = Finished <-> jstatus (jobs s j) = Finished) ->
  StoreInv s -> StoreInv (set_job j b s).
Proof. intros. eapply (StoreInv_upd s (set_job j b s) j b); try eassumption; reflexivity. Qed.

Lemma StoreInv_finish j s :
  jstatus (jobs s j) <> Finished -> StoreInv s -> StoreInv (finish_job E j s).
Proof.
  intros Hnf ((Hnd & Hiff) & Hb).
  destruct (finish_job_props E j s) as (_ & _ & _ & _ & q5 & _ & _ & q8).
  pose proof (finish_job_store j s) as q9.
  set (b := jobs s j) in *.
  set (b' := with_linked (with_status_next b Finished None) false) in *.
  split; [split|].
  - rewrite q9. destruct (jstored b); [apply NoDup_store_remove|]; exact Hnd.
  - intros key k. rewrite q5, q8, q9. unfold upd.
    destruct (jstored b) eqn:Est.
    + assert (Hin : In (jkey b, j) (store s)).
      { apply Hiff. split; [apply Hb; exact Est|]. split; [exact Est|split; [reflexivity|exact Hnf]]. }
      rewrite In_store_remove by exact Hnd. rewrite Hiff.
      destruct (Nat.eqb_spec k j) as [->|Hne].
      * fold b. subst b'. cbn [jstatus with_linked with_status_next]. split; [intros (H1 & H2)|intros H1]; exfalso; [|tauto].
        apply H2. symmetry. apply H1.
      * split; [tauto|]. intros H1. split; [exact H1|]. intros ->. apply Hne.
        eapply NoDup_fst_inj; [exact Hnd| |exact Hin]. apply Hiff. exact H1.
    + rewrite Hiff. destruct (Nat.eqb_spec k j) as [->|Hne]; [|tauto].
      fold b. subst b'. cbn [jstatus jstored jkey with_linked with_status_next]. rewrite Est.
      split; intros H1; exfalso; [destruct H1 as (_ & H1 & _); discriminate|tauto].
  - intros k. rewrite q5, q8. unfold upd. destruct (Nat.eqb_spec k j) as [->|Hne]; [|apply Hb].
    subst b'. cbn [jstored with_linked with_status_next]. apply Hb.
Qed.

Lemma StoreInv_alloc hs b s :
  hs && store_has (jkey b) (store s) = false -> jstatus b = Created -> StoreInv s -> StoreInv (alloc hs b s).
Proof.
  intros Hdup Hbs ((Hnd & Hiff) & Hb).
  destruct (alloc_fields hs b s) as (_ & v2 & v3 & _ & _ & _ & _ & v8 & _).
  set (n := njobs s) in *.
  assert (Hnew : forall key, ~ In (key, n) (store s)).
  { intros key Hin. apply Hiff in Hin. destruct Hin as (Hlt & _). fold n in Hlt. lia. }
  split; [split|].
  - rewrite v8. destruct hs; [|exact Hnd]. cbn [map fst]. constructor; [|exact Hnd].
    cbn [andb] in Hdup. intros Hc. apply store_has_In in Hc. congruence.
  - intros key k. rewrite v2, v3, v8. unfold upd.
    destruct (Nat.eqb_spec k n) as [->|Hne].
    + cbn [jstored jkey jstatus with_linked with_stored]. rewrite Hbs. destruct hs.
      * cbn [In]. split.
        -- intros [Heq|Hin]; [injection Heq as <-|exfalso; eapply Hnew; exact Hin].
           split; [lia|]. split; [reflexivity|]. split; [reflexivity|discriminate].
        -- intros (_ & _ & <- & _). left. reflexivity.
      * split; [intros Hin; exfalso; eapply Hnew; exact Hin|]. intros (_ & Hc & _). discriminate.
    + assert (Hold : In (key, k) (store s) <->
                ((k < S n)%nat /\ jstored (jobs s k) = true /\ jkey (jobs s k) = key /\ jstatus (jobs s k) <> Finished)).
      { rewrite Hiff. fold n. split; [intros (H1 & H2); split; [lia|exact H2]|].
        intros (H1 & H2 & H3). split; [apply Hb; exact H2|]. split; [exact H2|exact H3]. }
      destruct hs; [|exact Hold]. cbn [In]. rewrite <- Hold. split; [intros [Heq|Hin]; [congruence|exact Hin]|].
      intros Hin. right. exact Hin.
  - intros k. rewrite v2, v3. unfold upd. destruct (Nat.eqb_spec k n) as [->|Hne]; [intros _; lia|].
    intros Hk. apply Hb in Hk. fold n in Hk. lia.
Qed.

Lemma StoreInv_atom U c HS a b : atom E U c HS a b -> StoreInv a -> StoreInv b.
Proof.
  intros Hat Hs. destruct Hat.
  - eapply StoreInv_same; eassumption.
  - eapply StoreInv_same; [..|exact Hs]; reflexivity.
  - destruct (set_next_run_props E j nx s) as (_ & _ & _ & _ & q5 & _ & _ & q8 & q9).
    eapply StoreInv_upd; [exact q8|exact q5|exact q9|reflexivity|reflexivity| |exact Hs].
    cbn [jstatus with_status_next]. split; [destruct nx; discriminate|]. intros Hc. congruence.
  - apply StoreInv_finish; assumption.
  - apply StoreInv_set_job; [reflexivity|reflexivity|reflexivity|exact Hs].
  - apply StoreInv_set_job; [reflexivity|reflexivity|reflexivity|exact Hs].
  - apply StoreInv_set_job; [reflexivity|reflexivity|reflexivity|exact Hs].
  - apply StoreInv_set_job; [reflexivity|reflexivity|reflexivity|exact Hs].
  - apply StoreInv_set_job; [reflexivity|reflexivity|reflexivity|exact Hs].
  - apply StoreInv_alloc; assumption.
Qed.

Lemma StoreInv_init t0 en : StoreInv (init t0 en).
Proof.
  split; [split|].
  - constructor.
  - intros key j. cbn. split; [tauto|]. intros (H & _). lia.
  - intros j H. cbn in H. discriminate.
Qed.

(* --- the six re-entrant core functions, for every amount of fuel --------------------------- *)
Theorem store_core_specs fuel :
  (forall X s s', WFq X s -> StoreInv s -> set_timer E fuel s = Some s' -> StoreInv s') /\
  (forall X s s', WFq X s -> enabled s = true -> StoreInv s -> run_jobs E fuel s = Some s' -> StoreInv s') /\
  (forall X s s', WFq X s -> enabled s = true -> Tl s -> StoreInv s -> run_loop E fuel s = Some s' -> StoreInv s') /\
  (forall X j s s', WFq (j :: X) s -> ~ In j (queue s) -> ~ In j X -> StoreInv s ->
     add_job E fuel j s = Some s' -> StoreInv s') /\
  (forall X j s s', WFq (j :: X) (set_queue (remove_first j (queue s)) s) -> StoreInv s ->
     remove_job E fuel j s = Some s' -> StoreInv s') /\
  (forall X j t s s', WFq (j :: X) s -> ~ In j (queue s) -> jstatus (jobs s j) = Running -> enabled s = true -> Tl s ->
     StoreInv s -> exec_job E fuel j t s = Some s' -> StoreInv s').
Proof.
  destruct (tr_specs_all E (fun _ => True) true (fun _ => True) fuel) as (T1 & T2 & T3 & T4 & T5 & T6).
  pose proof (steps_preserves E (fun _ => True) true (fun _ => True) StoreInv
                (StoreInv_atom (fun _ => True) true (fun _ => True))) as Hp.
  split; [|split; [|split; [|split; [|split]]]].
  - intros X s s' W Hs H. eapply Hp; [eapply T1; eassumption|exact Hs].
  - intros X s s' W En Hs H. eapply Hp; [eapply T2; eassumption|exact Hs].
  - intros X s s' W En HTl Hs H. eapply Hp; [eapply T3; eassumption|exact Hs].
  - intros X j s s' W Hq HX Hs H. eapply Hp; [eapply T4; eassumption|exact Hs].
  - intros X j s s' W Hs H. eapply Hp; [eapply T5; eassumption|exact Hs].
  - intros X j t s s' W Hq Hr En HTl Hs H. eapply Hp; [eapply T6; eassumption|exact Hs].
Qed.

(* --- every API operation ------------------------------------------------------------------- *)
Theorem step_op_store fuel hs s o s' r :
  Inv s -> StoreInv s -> step_op E fuel hs s o = (s', r) -> r <> NoFuel -> StoreInv s'.
Proof.
  intros I Hs H Hr.
  eapply (steps_preserves E (fun _ => True) true (fun _ => True) StoreInv); [apply StoreInv_atom| |exact Hs].
  eapply step_op_trace; [exact Logic.I|exact I| |reflexivity|exact H|exact Hr].
  unfold op_ok, tgt. destruct (op_target o); [right; exact Logic.I|exact Logic.I].
Qed.

(* --- every history ------------------------------------------------------------------------- *)
Theorem run_store fuel hs ops s s' rs :
  Inv s -> StoreInv s -> run E fuel hs s ops = (s', rs) -> ~ In NoFuel rs -> StoreInv s'.
Proof.
  intros I Hs H Hr.
  eapply (run_preserves E (fun _ => True) true (fun _ => True) StoreInv);
    [apply StoreInv_atom|exact Logic.I|exact I|exact Hs|apply ops_ok_any|exact H|exact Hr].
Qed.

Theorem store_exact fuel hs t0 en ops s rs :
  run E fuel hs (init t0 en) ops = (s, rs) -> ~ In NoFuel rs -> StoreOK s.
Proof.
  intros H Hr. eapply run_store; [apply Inv_init|apply StoreInv_init|exact H|exact Hr].
Qed.

Theorem stored_bound fuel hs t0 en ops s rs :
  run E fuel hs (init t0 en) ops = (s, rs) -> ~ In NoFuel rs -> StoredBound s.
Proof.
  intros H Hr. eapply run_store; [apply Inv_init|apply StoreInv_init|exact H|exact Hr].
Qed.

(* when the builder has a store, every job that was created is registered with it *)
Definition AllStored (hs : bool) (s : st) : Prop := forall j, (j < njobs s)%nat -> jstored (jobs s j) = hs.

Lemma AllStored_upd hs s s' j b :
  njobs s' = njobs s -> jobs s' = upd (jobs s) j b -> jstored b = jstored (jobs s j) ->
  AllStored hs s -> AllStored hs s'.
Proof.
  intros Hn Hj Hst Ha k. rewrite Hn, Hj. unfold upd.
  destruct (Nat.eqb_spec k j) as [->|Hne]; [rewrite Hst|]; apply Ha.
Qed.

Lemma AllStored_set_job hs s j b :
  jstored b = jstored (jobs s j) -> AllStored hs s -> AllStored hs (set_job j b s).
Proof. intros. eapply (AllStored_upd hs s (set_job j b s) j b); try eassumption; reflexivity. Qed.

Lemma AllStored_atom hs U c a b : atom E U c (fun h => h = hs) a b -> AllStored hs a -> AllStored hs b.
Proof.
  intros Hat Ha. destruct Hat.
  - intros k. rewrite H, H0. apply Ha.
  - exact Ha.
  - destruct (set_next_run_props E j nx s) as (_ & _ & _ & _ & q5 & _ & _ & _ & q9).
    eapply AllStored_upd; [exact q5|exact q9|reflexivity|exact Ha].
  - destruct (finish_job_props E j s) as (_ & _ & _ & _ & q5 & _ & _ & q8).
    eapply AllStored_upd; [exact q5|exact q8|reflexivity|exact Ha].
  - apply AllStored_set_job; [reflexivity|exact Ha].
  - apply AllStored_set_job; [reflexivity|exact Ha].
  - apply AllStored_set_job; [reflexivity|exact Ha].
  - apply AllStored_set_job; [reflexivity|exact Ha].
  - apply AllStored_set_job; [reflexivity|exact Ha].
  - destruct (alloc_fields hs0 b s) as (_ & v2 & v3 & _). subst hs0.
    intros k. rewrite v2, v3. unfold upd. destruct (Nat.eqb_spec k (njobs s)) as [->|Hne]; [reflexivity|].
    intros Hk. apply Ha. lia.
Qed.

Theorem all_stored fuel hs t0 en ops s rs :
  run E fuel hs (init t0 en) ops = (s, rs) -> ~ In NoFuel rs -> AllStored hs s.
Proof.
  intros H Hr.
  eapply (run_preserves E (fun _ => True) true (fun h => h = hs) (AllStored hs));
    [apply AllStored_atom|reflexivity|apply Inv_init| |apply ops_ok_any|exact H|exact Hr].
  intros j Hj. cbn in Hj. lia.
Qed.

(* C07, store exactness in its plain form: with a job store, the store holds exactly the jobs created so far
   that have not finished, each under its own id, and no id twice *)
Theorem store_contents fuel t0 en ops s rs :
  run E fuel true (init t0 en) ops = (s, rs) -> ~ In NoFuel rs ->
  NoDup (map fst (store s)) /\
  forall key j, In (key, j) (store s) <->
    ((j < njobs s)%nat /\ jkey (jobs s j) = key /\ jstatus (jobs s j) <> Finished).
Proof.
  intros H Hr. destruct (store_exact _ _ _ _ _ _ _ H Hr) as (Hnd & Hiff).
  pose proof (all_stored _ _ _ _ _ _ _ H Hr) as Ha.
  split; [exact Hnd|]. intros key j. rewrite Hiff. split; [tauto|].
  intros (H1 & H2). split; [exact H1|]. split; [apply Ha; exact H1|exact H2].
Qed.

(* --- consequences ---------------------------------------------------------------------------- *)
Theorem duplicate_key_rejected fuel b s :
  store_has (jkey b) (store s) = true -> create E fuel true b s = (s, Raised EKeyError).
Proof. intros H. unfold create. rewrite H. reflexivity. Qed.

(* the three creating operations, on a builder with a store *)
Theorem duplicate_key_rejected_ops fuel s key :
  store_has key (store s) = true ->
  (forall t, step_op E fuel true s (OOnce t key) = (s, Raised EKeyError)) /\
  (forall secs, 0 < secs -> step_op E fuel true s (OCountdown secs key) = (s, Raised EKeyError)) /\
  step_op E fuel true s (OAt key) = (s, Raised EKeyError).
Proof.
  intros H. split; [|split].
  - intros t. cbn [step_op]. apply duplicate_key_rejected. exact H.
  - intros secs Hs. cbn [step_op]. replace (secs <=? 0) with false by (symmetry; apply Z.leb_gt; exact Hs).
    apply duplicate_key_rejected. exact H.
  - cbn [step_op]. apply duplicate_key_rejected. exact H.
Qed.

(* "the key is taken" means: a job that is registered with the store and has not finished carries it *)
Theorem store_has_live s key :
  StoreOK s ->
  (store_has key (store s) = true <->
   exists j, (j < njobs s)%nat /\ jstored (jobs s j) = true /\ jkey (jobs s j) = key /\ jstatus (jobs s j) <> Finished).
Proof.
  intros (_ & Hiff). rewrite store_has_In, in_map_iff. split.
  - intros ((k, j) & Hk & Hin). cbn in Hk. subst k. exists j. apply Hiff. exact Hin.
  - intros (j & Hj). exists (key, j). split; [reflexivity|apply Hiff; exact Hj].
Qed.

Theorem finished_not_stored s j key :
  StoreOK s -> jstatus (jobs s j) = Finished -> ~ In (key, j) (store s).
Proof. intros (_ & Hiff) Hf Hin. apply Hiff in Hin. tauto. Qed.

Theorem store_keys_unique s key j1 j2 :
  StoreOK s -> In (key, j1) (store s) -> In (key, j2) (store s) -> j1 = j2.
Proof. intros (Hnd & _) H1 H2. eapply NoDup_fst_inj; eassumption. Qed.

(* two different live jobs of the store never share an id *)
Theorem live_keys_distinct s j1 j2 :
  StoreOK s -> j1 <> j2 ->
  (j1 < njobs s)%nat -> jstored (jobs s j1) = true -> jstatus (jobs s j1) <> Finished ->
  (j2 < njobs s)%nat -> jstored (jobs s j2) = true -> jstatus (jobs s j2) <> Finished ->
  jkey (jobs s j1) <> jkey (jobs s j2).
Proof.
  intros Hok Hne a1 b1 c1 a2 b2 c2 Hk. apply Hne.
  eapply store_keys_unique with (key := jkey (jobs s j1)); [exact Hok| |]; apply Hok.
  - split; [exact a1|]. split; [exact b1|]. split; [reflexivity|exact c1].
  - split; [exact a2|]. split; [exact b2|]. split; [symmetry; exact Hk|exact c2].
Qed.

End Store.

(* ------------------------------------------------------------------------------------------- *)
(* The hypotheses are satisfiable, and the statements say something, on a concrete history with a store:
   two jobs, a duplicate id (rejected), a cancel (leaves the store), the freed id is accepted again, a one-shot
   job runs and finishes by itself (leaves the store). *)
Definition store_ex_env : env :=
  {| prod := fun _ _ t => Ok (t + 1000000000); fail_exec := fun _ _ => false; fail_cb := fun cb k => Nat.eqb cb 7 |}.

Definition store_ex_ops : list op :=
  [OOnce 5000000000 11; OCountdown 3000000000 12; OOnce 9000000000 11; OCancel 1; OCountdown 1000000000 12;
   OAt 13; OAdvance 5000000000; OWake].

Definition store_is_nofuel (r : outcome) : bool := match r with NoFuel => true | _ => false end.

Example store_example :
  (let '(s, rs) := run store_ex_env 40 true (init 0 true) store_ex_ops in
   (store s, map (fun j => jstatus (jobs s j)) (seq 0 (njobs s)), existsb store_is_nofuel rs,
    nth 2 rs Done)) =
  ([(13, 3%nat); (12, 2%nat)], [Finished; Finished; Paused; Running], false, Raised EKeyError).
Proof. vm_compute. reflexivity. Qed.
