(* ProdOps2.v — C13 / C14 completed:
   1. earliest / latest in terms of the LOCAL time of day of the occurrence: unchanged when within the bound,
      otherwise the bound's instant; the bound lies on the local day of the occurrence; never beyond the bound;
   2. offset chains are complete: followed the way a job follows it, an offset trigger visits EVERY occurrence of
      the underlying trigger (negative offsets: always; positive offsets: when smaller than the distance to the
      next occurrence) — and an offset at least as wide as the period skips occurrences;
   3. F6 as a theorem: jitter with a negative lower bound fires twice for one occurrence;
   4. the shift-forward branch of jitter, exactly.                                                          *)
From EAS Require Import Base BaseFacts Civil Time TimeFacts TimeOrder Filters Replace ReplaceFacts
  Producers ProdStrict ProdEarliest ProdEarliest2 ProdOps.
From EASGen Require Import Generated.

(* ------------------------------------------------------------------------------------------- *)
(* 1. earliest / latest and the local clock *)
Section Clamp.
Variable z : tz.
Variable tr : treplacer.

(* the bound instant that the clamp uses is one of the instants [replace] yields for the occurrence's local day *)
Lemma clamp_target_day_result n dt e :
  clamp_target z tr n dt = Ok (Some e) -> In e (day_results z tr (local_day (to_local z n))).
Proof.
  unfold clamp_target, day_results. destruct (replace z tr (local_day (to_local z n))) as [i|a b| |x]; try discriminate.
  - intros H. injection H as <-. left; reflexivity.
  - intros H. injection H as <-. destruct (a <=? dt); cbn [In]; auto.
Qed.

(* the bound's wall-clock time exists exactly once on the local day of the occurrence *)
Lemma clamp_target_unique n dt e :
  candidates z (local_day (to_local z n) * DAY + tr_tod tr) = [e] ->
  clamp_target z tr n dt = Ok (Some e) /\ to_local z e = local_day (to_local z n) * DAY + tr_tod tr.
Proof.
  intros H. destruct (replace_unique z tr _ e H) as (Hr & Hl). unfold clamp_target. rewrite Hr. split; [reflexivity|exact Hl].
Qed.

Theorem earliest_is_max n dt e :
  candidates z (local_day (to_local z n) * DAY + tr_tod tr) = [e] -> apply_earliest z tr n dt = Ok (Z.max n e).
Proof.
  intros H. destruct (clamp_target_unique n dt e H) as (Hc & _). unfold apply_earliest. rewrite Hc.
  f_equal. destruct (n <? e) eqn:El; lia.
Qed.

Theorem latest_is_min n dt e :
  candidates z (local_day (to_local z n) * DAY + tr_tod tr) = [e] -> apply_latest z tr n dt = Ok (Z.min n e).
Proof.
  intros H. destruct (clamp_target_unique n dt e H) as (Hc & _). unfold apply_latest. rewrite Hc.
  f_equal. destruct (e <? n) eqn:El; lia.
Qed.

(* never beyond the bound (whatever the policy selected) *)
Theorem never_beyond_bound n dt e :
  clamp_target z tr n dt = Ok (Some e) ->
  (forall v, apply_earliest z tr n dt = Ok v -> e <= v /\ (v = n \/ v = e)) /\
  (forall v, apply_latest z tr n dt = Ok v -> v <= e /\ (v = n \/ v = e)).
Proof.
  intros Hc. split; intros v Hv.
  - unfold apply_earliest in Hv. rewrite Hc in Hv. injection Hv as <-. destruct (n <? e) eqn:El; lia.
  - unfold apply_latest in Hv. rewrite Hc in Hv. injection Hv as <-. destruct (e <? n) eqn:El; lia.
Qed.

(* the local clock between the bound instant e and the occurrence n *)
Lemma local_split l : l = local_day l * DAY + local_tod l /\ 0 <= local_tod l < DAY.
Proof. unfold local_day, local_tod. change DAY with 86400000000000. lia. Qed.

Lemma same_offset_diff e n : offset_at z e = offset_at z n -> to_local z n - to_local z e = n - e.
Proof. unfold to_local. intros ->. lia. Qed.

(* the bound shows its wall-clock time on the occurrence's local day (time exists once or is repeated) *)
Definition bound_shown (n e : Z) : Prop := to_local z e = local_day (to_local z n) * DAY + tr_tod tr.

Lemma clamp_target_shown n dt e :
  clamp_target z tr n dt = Ok (Some e) ->
  candidates z (local_day (to_local z n) * DAY + tr_tod tr) <> [] -> bound_shown n e.
Proof.
  intros Hc Hne. apply clamp_target_day_result in Hc.
  destruct (day_results_cases _ _ _ _ Hc) as [H|[(H & _)|(H & _)]]; [exact H|contradiction|contradiction].
Qed.

(* never to another day: a bound that shows its wall-clock time lies on the SAME local day as the occurrence *)
Theorem clamp_same_day n e :
  wf_tr tr -> bound_shown n e ->
  local_day (to_local z e) = local_day (to_local z n) /\ local_tod (to_local z e) = tr_tod tr.
Proof. intros Ht H. apply exact_result_day; assumption. Qed.

(* and for every policy, including the substitutes for a skipped bound (earlier / later / after), as long as the
   bound's time of day is not within the spread after midnight or within [day_dev] before the next midnight *)
Theorem clamp_same_day_any_policy n dt e :
  clamp_target z tr n dt = Ok (Some e) -> spread z * NS <= tr_tod tr -> tr_tod tr + day_dev z < DAY ->
  local_day (to_local z e) = local_day (to_local z n).
Proof.
  intros Hc H1 H2. apply clamp_target_day_result in Hc. apply day_results_local in Hc.
  remember (local_day (to_local z n)) as d eqn:Ed. clear Ed.
  unfold local_day. change DAY with 86400000000000 in *. change NS with 1000000000 in *. lia.
Qed.

Lemma same_offset_order n e :
  bound_shown n e -> offset_at z e = offset_at z n -> n - e = local_tod (to_local z n) - tr_tod tr.
Proof.
  unfold bound_shown. intros Hb Ho. apply same_offset_diff in Ho.
  destruct (local_split (to_local z n)) as (Hs & _). lia.
Qed.

(* no UTC-offset change between the bound instant and the occurrence: the decision is the comparison of the
   occurrence's local time of day with the bound *)
Theorem earliest_local_cases n dt e :
  clamp_target z tr n dt = Ok (Some e) -> bound_shown n e -> offset_at z e = offset_at z n ->
  (tr_tod tr <= local_tod (to_local z n) -> apply_earliest z tr n dt = Ok n) /\
  (local_tod (to_local z n) < tr_tod tr -> apply_earliest z tr n dt = Ok e).
Proof.
  intros Hc Hb Ho. pose proof (same_offset_order n e Hb Ho) as Hd. unfold apply_earliest. rewrite Hc.
  split; intros H; f_equal; destruct (n <? e) eqn:El; lia.
Qed.

Theorem latest_local_cases n dt e :
  clamp_target z tr n dt = Ok (Some e) -> bound_shown n e -> offset_at z e = offset_at z n ->
  (local_tod (to_local z n) <= tr_tod tr -> apply_latest z tr n dt = Ok n) /\
  (tr_tod tr < local_tod (to_local z n) -> apply_latest z tr n dt = Ok e).
Proof.
  intros Hc Hb Ho. pose proof (same_offset_order n e Hb Ho) as Hd. unfold apply_latest. rewrite Hc.
  split; intros H; f_equal; destruct (e <? n) eqn:El; lia.
Qed.

(* EVERY table, no hypothesis on the offsets: the same decision whenever the two times of day are more than the
   spread of the table apart ([local_order]) *)
Theorem earliest_beyond_spread n dt e :
  clamp_target z tr n dt = Ok (Some e) -> bound_shown n e ->
  (tr_tod tr + spread z * NS < local_tod (to_local z n) -> apply_earliest z tr n dt = Ok n) /\
  (local_tod (to_local z n) + spread z * NS < tr_tod tr -> apply_earliest z tr n dt = Ok e).
Proof.
  intros Hc Hb. unfold bound_shown in Hb. destruct (local_split (to_local z n)) as (Hs & _).
  unfold apply_earliest. rewrite Hc. split; intros H; f_equal.
  - assert (e < n) by (apply (local_order z); lia). destruct (n <? e) eqn:El; lia.
  - assert (n < e) by (apply (local_order z); lia). destruct (n <? e) eqn:El; lia.
Qed.

Theorem latest_beyond_spread n dt e :
  clamp_target z tr n dt = Ok (Some e) -> bound_shown n e ->
  (local_tod (to_local z n) + spread z * NS < tr_tod tr -> apply_latest z tr n dt = Ok n) /\
  (tr_tod tr + spread z * NS < local_tod (to_local z n) -> apply_latest z tr n dt = Ok e).
Proof.
  intros Hc Hb. unfold bound_shown in Hb. destruct (local_split (to_local z n)) as (Hs & _).
  unfold apply_latest. rewrite Hc. split; intros H; f_equal.
  - assert (n < e) by (apply (local_order z); lia). destruct (e <? n) eqn:El; lia.
  - assert (e < n) by (apply (local_order z); lia). destruct (e <? n) eqn:El; lia.
Qed.
End Clamp.

(* C13, earliest: the bound's wall-clock time exists exactly once on the occurrence's local day *)
Theorem earliest_unchanged_within_bound z tr n dt e :
  wf_tr tr -> candidates z (local_day (to_local z n) * DAY + tr_tod tr) = [e] ->
  apply_earliest z tr n dt = Ok (Z.max n e) /\
  local_day (to_local z e) = local_day (to_local z n) /\ local_tod (to_local z e) = tr_tod tr /\
  (offset_at z e = offset_at z n ->
     (tr_tod tr <= local_tod (to_local z n) -> apply_earliest z tr n dt = Ok n) /\
     (local_tod (to_local z n) < tr_tod tr -> apply_earliest z tr n dt = Ok e)).
Proof.
  intros Ht H. destruct (clamp_target_unique z tr n dt e H) as (Hc & Hb).
  split; [apply earliest_is_max; exact H|].
  destruct (clamp_same_day z tr n e Ht Hb) as (Hd1 & Hd2). split; [exact Hd1|]. split; [exact Hd2|].
  intros Ho. apply earliest_local_cases; assumption.
Qed.

Theorem latest_unchanged_within_bound z tr n dt e :
  wf_tr tr -> candidates z (local_day (to_local z n) * DAY + tr_tod tr) = [e] ->
  apply_latest z tr n dt = Ok (Z.min n e) /\
  local_day (to_local z e) = local_day (to_local z n) /\ local_tod (to_local z e) = tr_tod tr /\
  (offset_at z e = offset_at z n ->
     (local_tod (to_local z n) <= tr_tod tr -> apply_latest z tr n dt = Ok n) /\
     (tr_tod tr < local_tod (to_local z n) -> apply_latest z tr n dt = Ok e)).
Proof.
  intros Ht H. destruct (clamp_target_unique z tr n dt e H) as (Hc & Hb).
  split; [apply latest_is_min; exact H|].
  destruct (clamp_same_day z tr n e Ht Hb) as (Hd1 & Hd2). split; [exact Hd1|]. split; [exact Hd2|].
  intros Ho. apply latest_local_cases; assumption.
Qed.

(* zones without transitions: every wall-clock time exists exactly once and the offset never changes, so the
   clause of C13 holds without any side condition *)
Lemma fixed_zone_offset z a : tz_trans z = [] -> offset_at z a = tz_init z.
Proof. unfold offset_at. intros ->. reflexivity. Qed.

Lemma fixed_zone_candidates z l : tz_trans z = [] -> candidates z l = [l - tz_init z * NS].
Proof.
  intros H. unfold candidates, offsets. rewrite H. cbn [map sort_uniq fold_right insert_uniq filter].
  unfold to_local. rewrite (fixed_zone_offset z _ H).
  replace (l - tz_init z * NS + tz_init z * NS) with l by lia. rewrite Z.eqb_refl. reflexivity.
Qed.

Theorem earliest_fixed_zone z tr n dt :
  tz_trans z = [] ->
  apply_earliest z tr n dt =
  Ok (if tr_tod tr <=? local_tod (to_local z n) then n
      else local_day (to_local z n) * DAY + tr_tod tr - tz_init z * NS).
Proof.
  intros H. pose proof (fixed_zone_candidates z (local_day (to_local z n) * DAY + tr_tod tr) H) as Hc.
  destruct (clamp_target_unique z tr n dt _ Hc) as (Hct & Hb).
  assert (Ho : offset_at z (local_day (to_local z n) * DAY + tr_tod tr - tz_init z * NS) = offset_at z n)
    by (rewrite !fixed_zone_offset by exact H; reflexivity).
  destruct (earliest_local_cases z tr n dt _ Hct Hb Ho) as (H1 & H2).
  destruct (tr_tod tr <=? local_tod (to_local z n)) eqn:El; [apply H1|apply H2]; lia.
Qed.

Theorem latest_fixed_zone z tr n dt :
  tz_trans z = [] ->
  apply_latest z tr n dt =
  Ok (if local_tod (to_local z n) <=? tr_tod tr then n
      else local_day (to_local z n) * DAY + tr_tod tr - tz_init z * NS).
Proof.
  intros H. pose proof (fixed_zone_candidates z (local_day (to_local z n) * DAY + tr_tod tr) H) as Hc.
  destruct (clamp_target_unique z tr n dt _ Hc) as (Hct & Hb).
  assert (Ho : offset_at z (local_day (to_local z n) * DAY + tr_tod tr - tz_init z * NS) = offset_at z n)
    by (rewrite !fixed_zone_offset by exact H; reflexivity).
  destruct (latest_local_cases z tr n dt _ Hct Hb Ho) as (H1 & H2).
  destruct (local_tod (to_local z n) <=? tr_tod tr) eqn:El; [apply H1|apply H2]; lia.
Qed.

(* the hypotheses are satisfiable on a table with transitions: 2025-10-26 (local day 20387) in [berlin2];
   bound 12:00 exists once (11:00Z); the occurrence 14:00 local is unchanged by earliest and moved to the
   bound by latest *)
Example ex_clamp_hyps :
  let tr := {| tr_tod := 12 * 3600 * NS; tr_sk := SkSkip; tr_rp := RpSkip |} in
  let n := 1761483600 * NS in let e := 1761476400 * NS in
  wf_tr tr /\ candidates berlin2 (local_day (to_local berlin2 n) * DAY + tr_tod tr) = [e] /\
  offset_at berlin2 e = offset_at berlin2 n /\ local_tod (to_local berlin2 n) = 14 * 3600 * NS /\
  apply_earliest berlin2 tr n 0 = Ok n /\ apply_latest berlin2 tr n 0 = Ok e.
Proof. vm_compute. repeat split; intros; discriminate. Qed.

(* why the exactly-once / same-offset hypotheses are there: on the day the clocks go back, bound 02:10 with
   policy 'later' selects the SECOND 02:10; an occurrence showing 02:50 during the first pass has a local time
   of day after the bound and is nevertheless moved (forward in time, to an instant showing 02:10): on such days
   the bound is the instant the DST policy selects, as the property text says *)
Example ex_repeated_bound_later :
  let tr := {| tr_tod := (2 * 3600 + 600) * NS; tr_sk := SkSkip; tr_rp := RpLater |} in
  let n := 1761439800 * NS in          (* 00:50Z = 02:50 local, +2 h *)
  let e := 1761441000 * NS in          (* 01:10Z = 02:10 local, +1 h *)
  tr_tod tr < local_tod (to_local berlin2 n) /\ n < e /\
  clamp_target berlin2 tr n 0 = Ok (Some e) /\ bound_shown berlin2 tr n e /\
  offset_at berlin2 e <> offset_at berlin2 n /\
  apply_earliest berlin2 tr n 0 = Ok e.
Proof. vm_compute. repeat split; intros; discriminate. Qed.

(* ------------------------------------------------------------------------------------------- *)
(* 2. offset chains are complete *)

(* the rule for the operation loop with a caller-chosen invariant on the loop position *)
Lemma op_loop_rule_inv (E : penv) (q : producer) (I : Z -> Prop) (Q : Z -> Prop)
      (body : Z -> pstate -> (Z * pstate) + (result Z * pstate)) dt st :
  I dt ->
  (forall x s n s', I x -> get_next E q s x = (Ok n, s') ->
     match body n s' with
     | inl (y, _) => I y
     | inr (Ok v, _) => Q v
     | inr _ => True
     end) ->
  forall v st',
  finish_loop (iter_until loop_bound
     (fun xs : Z * pstate => let '(x, s) := xs in bind_state (get_next E q s x) body) (dt, st)) = (Ok v, st') ->
  Q v.
Proof.
  intros H0 Hbody v st' H.
  pose proof (iter_until_rule
    (fun xs : Z * pstate => let '(x, s) := xs in bind_state (get_next E q s x) body)
    (fun xs => I (fst xs)) (fun r => forall w s, r = (Ok w, s) -> Q w) loop_bound (dt, st)) as R.
  destruct (iter_until loop_bound _ (dt, st)) as [[y s]|r]; cbn [finish_loop] in H; [discriminate|].
  eapply R; [|exact H0|exact H].
  intros [x s] Hx. cbn [fst] in Hx.
  destruct (get_next E q s x) as [[n|e|] s1] eqn:EG; cbn [bind_state].
  - specialize (Hbody x s n s1 Hx EG).
    destruct (body n s1) as [[y s2]|[[w|e|] s2]].
    + exact Hbody.
    + intros w' s' Hw. injection Hw as <- _. exact Hbody.
    + intros w' s' Hw; discriminate.
    + intros w' s' Hw; discriminate.
  - intros w' s' Hw; discriminate.
  - intros w' s' Hw; discriminate.
Qed.

Lemma get_next_offset_unfold E q off f st dt :
  get_next E (POffset q off f) st dt =
  finish_loop (iter_until loop_bound
    (fun xs : Z * pstate => let '(x, s) := xs in
       bind_state (get_next E q s x)
         (fun n s' => let value := n + off in
                      if (dt <? value) && allow_opt (pz E) f value then inr (Ok value, s') else inl (n, s')))
    (dt, st)).
Proof. reflexivity. Qed.

Section OffsetChain.
Variable E : penv.
Variable q : producer.            (* the underlying trigger, possibly stateful *)
Variable P : Z -> Prop.           (* its occurrences *)
(* chain-regular: every answer of the underlying trigger is the LEAST occurrence after the reference instant *)
Hypothesis Hq : forall st x n st', get_next E q st x = (Ok n, st') -> earliest_after P x n.

(* one step of the chain from the firing  n1 + off : the next firing is  n2 + off  for n2 the occurrence that
   FOLLOWS n1 — provided no occurrence lies in (n1, n1 + off]  (vacuous for off < 0) *)
Theorem offset_next_complete off st n1 v st' :
  (forall u, P u -> n1 < u -> n1 + off < u) ->
  get_next E (POffset q off None) st (n1 + off) = (Ok v, st') ->
  earliest_after P n1 (v - off).
Proof.
  intros Hgap H. rewrite get_next_offset_unfold in H. revert v st' H.
  apply (op_loop_rule_inv E q (fun x => forall u, P u -> n1 < u -> x < u) (fun v => earliest_after P n1 (v - off))
           (fun n s' => let value := n + off in
                        if (n1 + off <? value) && allow_opt (pz E) None value then inr (Ok value, s') else inl (n, s')) (n1 + off) st).
  - exact Hgap.
  - intros x s n s' HI HG. destruct (Hq _ _ _ _ HG) as (Pn & Hxn & Hmin). cbv zeta. cbn [allow_opt].
    destruct (n1 + off <? n + off) eqn:El; cbn [andb].
    + replace (n + off - off) with n by lia. split; [exact Pn|]. split; [lia|].
      intros u Pu Hu. apply Hmin; [exact Pu|apply HI; assumption].
    + intros u Pu Hu. lia.
Qed.

Corollary offset_next_complete_neg off st n1 v st' :
  off < 0 -> get_next E (POffset q off None) st (n1 + off) = (Ok v, st') -> earliest_after P n1 (v - off).
Proof. intros Hoff. apply offset_next_complete. intros u _ Hu. lia. Qed.

(* positive offsets: smaller than the distance from n1 to the occurrence that follows it *)
Corollary offset_next_complete_pos off st n1 n2 v st' :
  earliest_after P n1 n2 -> off < n2 - n1 ->
  get_next E (POffset q off None) st (n1 + off) = (Ok v, st') -> v = n2 + off.
Proof.
  intros Hn2 Hoff H.
  assert (Hv : earliest_after P n1 (v - off)).
  { eapply offset_next_complete; [|exact H]. intros u Pu Hu. destruct Hn2 as (_ & _ & M). specialize (M u Pu Hu). lia. }
  pose proof (earliest_after_unique _ _ _ _ Hn2 Hv). lia.
Qed.

(* the occurrences of the offset trigger: the occurrences of the underlying trigger, shifted *)
Definition shifted (off : Z) (v : Z) : Prop := P (v - off).

Lemma offset_step_enum off st d v st' :
  (forall u, P u -> d - off < u -> d < u) ->
  get_next E (POffset q off None) st d = (Ok v, st') -> earliest_after (shifted off) d v.
Proof.
  intros Hgap H. replace d with ((d - off) + off) in H by lia.
  apply offset_next_complete in H; [|intros u Pu Hu; specialize (Hgap u Pu Hu); lia].
  destruct H as (Pv & Hv & M). split; [exact Pv|]. split; [lia|].
  intros u Pu Hu. unfold shifted in Pu. specialize (M (u - off) Pu). lia.
Qed.

(* C13 / C14: followed the way a job follows it, the offset trigger enumerates ALL shifted occurrences of the
   underlying trigger in increasing order — none omitted, none used twice — provided the offset is smaller than
   the distance between consecutive occurrences (hypothesis 1; vacuous for negative offsets) and the chain is
   started at an instant d such that no occurrence lies in (d - off, d] (hypothesis 2; vacuous for negative offsets,
   true when d is itself a firing  n + off) *)
Theorem offset_chain_complete off :
  (forall n u, P n -> P u -> n < u -> n + off < u) ->
  forall k st d, (forall u, P u -> d - off < u -> d < u) ->
  enumerates (shifted off) d (chain E (POffset q off None) st d k).
Proof.
  intros Hmin. induction k as [|k IH]; intros st d Hd; cbn [chain]; [exact I|].
  destruct (get_next E (POffset q off None) st d) as [[v|e|] st'] eqn:EG; cbn [enumerates]; try reflexivity.
  pose proof (offset_step_enum off st d v st' Hd EG) as Hv.
  split; [exact Hv|]. apply IH. destruct Hv as (Pv & _ & _). unfold shifted in Pv.
  intros u Pu Hu. specialize (Hmin (v - off) u Pv Pu Hu). lia.
Qed.

Corollary offset_chain_complete_neg off :
  off < 0 -> forall k st d, enumerates (shifted off) d (chain E (POffset q off None) st d k).
Proof.
  intros Hoff k st d. apply offset_chain_complete; [intros n u _ _ Hu; lia|intros u _ Hu; lia].
Qed.

(* the observation of the design (hourly.offset(+90 min) realises every second occurrence), in general: when an
   occurrence n2 lies in (n1, n1 + off], the firing that follows  n1 + off  is later than  n2 + off ; as a chain
   is strictly increasing ([chain_increasing]) the occurrence n2 is never realised *)
Theorem offset_wide_skips off st n1 n2 v st' :
  n1 < n2 -> n2 <= n1 + off ->
  get_next E (POffset q off None) st (n1 + off) = (Ok v, st') -> n2 + off < v.
Proof.
  intros H12 Hw H. rewrite get_next_offset_unfold in H. revert v st' H.
  apply (op_loop_rule_inv E q (fun x => n1 + off <= x) (fun v => n2 + off < v)
           (fun n s' => let value := n + off in
                        if (n1 + off <? value) && allow_opt (pz E) None value then inr (Ok value, s') else inl (n, s')) (n1 + off) st).
  - lia.
  - intros x s n s' HI HG. destruct (Hq _ _ _ _ HG) as (_ & Hxn & _). cbv zeta. cbn [allow_opt].
    destruct (n1 + off <? n + off) eqn:El; cbn [andb]; lia.
Qed.
End OffsetChain.

(* the same for an abstract STATELESS, TOTAL underlying trigger given as a function nx ("the least occurrence
   after the reference"): here the firing is also shown to EXIST (the loop ends in one or two rounds) *)
Lemma iter_until_first {St Rt : Type} (f : St -> St + Rt) p s r : f s = inr r -> iter_until p f s = inr r.
Proof.
  intros H. rewrite iter_until_nat. destruct (Pos.to_nat p) as [|m] eqn:Em; [lia|]. cbn [iter_nat]. rewrite H. reflexivity.
Qed.

Lemma iter_until_second {St Rt : Type} (f : St -> St + Rt) p s s1 r :
  (1 < p)%positive -> f s = inl s1 -> f s1 = inr r -> iter_until p f s = inr r.
Proof.
  intros Hp H1 H2. rewrite iter_until_nat. apply Pos2Nat.inj_lt in Hp.
  destruct (Pos.to_nat p) as [|[|m]] eqn:Em; [lia|lia|]. cbn [iter_nat]. rewrite H1, H2. reflexivity.
Qed.

Section OffsetNx.
Variable E : penv.
Variable q : producer.
Variable nx : Z -> Z.
Hypothesis Hnx : forall st x, get_next E q st x = (Ok (nx x), st).
Hypothesis Hfut : forall x, x < nx x.
Hypothesis Hleast : forall x t, x <= t < nx x -> nx t = nx x.

Definition nx_occ (u : Z) : Prop := exists y, nx y = u.

Lemma nx_earliest x : earliest_after nx_occ x (nx x).
Proof.
  split; [exists x; reflexivity|]. split; [apply Hfut|].
  intros u (y & <-) Hu. pose proof (Hfut y) as Hy.
  destruct (Z_lt_le_dec (nx y) (nx x)) as [Hlt|]; [exfalso|lia].
  destruct (Z_le_gt_dec y x) as [Hyx|Hyx].
  - pose proof (Hleast y x). lia.
  - destruct (Z_lt_le_dec y (nx x)) as [Hy2|Hy2]; [pose proof (Hleast x y); lia|lia].
Qed.

Lemma nx_regular st x n st' : get_next E q st x = (Ok n, st') -> earliest_after nx_occ x n.
Proof. rewrite Hnx. intros H. injection H as <- _. apply nx_earliest. Qed.

(* positive offset smaller than the distance to the next occurrence: one round *)
Theorem offset_nx_next_pos off st n1 :
  0 <= off < nx n1 - n1 -> get_next E (POffset q off None) st (n1 + off) = (Ok (nx n1 + off), st).
Proof.
  intros Hoff. rewrite get_next_offset_unfold.
  rewrite (iter_until_first _ loop_bound _ (Ok (nx n1 + off), st)); [reflexivity|].
  rewrite Hnx. cbn [bind_state allow_opt]. cbv zeta.
  rewrite (Hleast n1 (n1 + off)) by lia.
  destruct (n1 + off <? nx n1 + off) eqn:El; [reflexivity|lia].
Qed.

(* negative offset smaller than the distance from the previous occurrence: two rounds *)
Theorem offset_nx_next_neg off st n1 :
  off < 0 -> nx (n1 + off) = n1 -> get_next E (POffset q off None) st (n1 + off) = (Ok (nx n1 + off), st).
Proof.
  intros Hoff Hprev. rewrite get_next_offset_unfold.
  rewrite (iter_until_second _ loop_bound _ (n1, st) (Ok (nx n1 + off), st)); [reflexivity|reflexivity| |].
  - rewrite Hnx. cbn [bind_state allow_opt]. cbv zeta. rewrite Hprev.
    destruct (n1 + off <? n1 + off) eqn:El; [lia|reflexivity].
  - rewrite Hnx. cbn [bind_state allow_opt]. cbv zeta. pose proof (Hfut n1).
    destruct (n1 + off <? nx n1 + off) eqn:El; [reflexivity|lia].
Qed.

(* any negative offset, when the firing exists *)
Theorem offset_nx_next_any_neg off st n1 v st' :
  off < 0 -> get_next E (POffset q off None) st (n1 + off) = (Ok v, st') -> v = nx n1 + off.
Proof.
  intros Hoff H. apply (offset_next_complete_neg E q nx_occ nx_regular) in H; [|exact Hoff].
  pose proof (earliest_after_unique _ _ _ _ H (nx_earliest n1)). lia.
Qed.

(* offset at least as wide as the distance to the next occurrence: that occurrence is skipped *)
Theorem offset_nx_skips off st n1 v st' :
  nx n1 - n1 <= off -> get_next E (POffset q off None) st (n1 + off) = (Ok v, st') -> nx n1 + off < v.
Proof.
  intros Hoff H. pose proof (Hfut n1).
  eapply (offset_wide_skips E q nx_occ nx_regular off st n1 (nx n1)); [lia|lia|exact H].
Qed.
End OffsetNx.

(* instance: the underlying trigger is a time-of-day trigger (any DST policy, any filter) in a zone whose offsets
   differ by at most four hours; its occurrences are [occ_time] (ProdEarliest2.time_earliest) *)
Theorem offset_time_chain_complete E tr f off :
  wf_tz_b (pz E) = true -> wf_tr tr ->
  (forall n u, occ_time (pz E) tr f n -> occ_time (pz E) tr f u -> n < u -> n + off < u) ->
  forall k st d, (forall u, occ_time (pz E) tr f u -> d - off < u -> d < u) ->
  enumerates (fun v => occ_time (pz E) tr f (v - off)) d (chain E (POffset (PTime tr f) off None) st d k).
Proof.
  intros Hz Ht Hmin k st d Hd.
  apply (offset_chain_complete E (PTime tr f) (occ_time (pz E) tr f)); [|exact Hmin|exact Hd].
  intros st0 x n st' H. eapply time_earliest_get_next; eassumption.
Qed.

Corollary offset_time_chain_complete_neg E tr f off :
  wf_tz_b (pz E) = true -> wf_tr tr -> off < 0 ->
  forall k st d,
  enumerates (fun v => occ_time (pz E) tr f (v - off)) d (chain E (POffset (PTime tr f) off None) st d k).
Proof.
  intros Hz Ht Hoff k st d.
  apply (offset_chain_complete_neg E (PTime tr f) (occ_time (pz E) tr f)); [|exact Hoff].
  intros st0 x n st' H. eapply time_earliest_get_next; eassumption.
Qed.

(* the observation, concretely: an hourly trigger (grid through 0) in UTC.  With +30 min and with -90 min every
   occurrence is realised; with +90 min (wider than the period) only every second one: 1 h, 3 h, 5 h *)
Definition utc : tz := {| tz_init := 0; tz_trans := [] |}.
Definition env0 : penv :=
  {| pz := utc; draw := fun _ a _ => a; sun_ev := fun _ _ => None; location := None; interval_fuel := 10%positive |}.
Definition HOUR : Z := 3600 * NS.
Definition hourly : producer := PInterval 0%nat (Some 0) HOUR None.

Example ex_hourly_offsets :
  chain env0 (POffset hourly (HOUR / 2) None) pstate0 0 3 =
    [Ok (1 * HOUR + HOUR / 2); Ok (2 * HOUR + HOUR / 2); Ok (3 * HOUR + HOUR / 2)] /\
  chain env0 (POffset hourly (- (HOUR + HOUR / 2)) None) pstate0 0 3 =
    [Ok (2 * HOUR - (HOUR + HOUR / 2)); Ok (3 * HOUR - (HOUR + HOUR / 2)); Ok (4 * HOUR - (HOUR + HOUR / 2))] /\
  chain env0 (POffset hourly (HOUR + HOUR / 2) None) pstate0 0 3 =
    [Ok (1 * HOUR + (HOUR + HOUR / 2)); Ok (3 * HOUR + (HOUR + HOUR / 2)); Ok (5 * HOUR + (HOUR + HOUR / 2))].
Proof. vm_compute. repeat split. Qed.

(* the hypotheses of section OffsetNx are satisfiable: a daily time-of-day trigger in a zone without
   transitions is stateless and total, and its answer is the least occurrence after the reference *)
Lemma iter_until_third {St Rt : Type} (f : St -> St + Rt) p s s1 s2 r :
  (2 < p)%positive -> f s = inl s1 -> f s1 = inl s2 -> f s2 = inr r -> iter_until p f s = inr r.
Proof.
  intros Hp H1 H2 H3. rewrite iter_until_nat. apply Pos2Nat.inj_lt in Hp.
  destruct (Pos.to_nat p) as [|[|[|m]]] eqn:Em; [lia|lia|lia|]. cbn [iter_nat]. rewrite H1, H2, H3. reflexivity.
Qed.

Section FixedDaily.
Variable E : penv.
Variable tr : treplacer.
Hypothesis Hfix : tz_trans (pz E) = [].
Hypothesis Htr : wf_tr tr.
Local Notation c := (tz_init (pz E) * NS).

Definition daily_nx (x : Z) : Z :=
  if local_tod (x + c) <? tr_tod tr then local_day (x + c) * DAY + tr_tod tr - c
  else (local_day (x + c) + 1) * DAY + tr_tod tr - c.

Lemma fixed_time_step x day :
  time_step (pz E) tr None x day =
  if x <? day * DAY + tr_tod tr - c then inr (Ok (day * DAY + tr_tod tr - c)) else inl (day + 1).
Proof.
  unfold time_step.
  destruct (replace_unique (pz E) tr day _ (fixed_zone_candidates (pz E) (day * DAY + tr_tod tr) Hfix)) as (Hr & _).
  rewrite Hr. cbn [allow_opt]. rewrite andb_true_r. reflexivity.
Qed.

Lemma fixed_next_time x : next_time (pz E) tr None x = Ok (daily_nx x).
Proof.
  unfold next_time, daily_nx, to_local. rewrite (fixed_zone_offset _ x Hfix).
  destruct Htr as (Ht0 & Ht1).
  destruct (local_split (x + c)) as (Hs & Hr). remember (local_day (x + c)) as ld eqn:Eld.
  remember (local_tod (x + c)) as lt eqn:Elt. clear Eld Elt.
  assert (H0 : time_step (pz E) tr None x (ld - 1) = inl (ld - 1 + 1)).
  { rewrite fixed_time_step. destruct (x <? (ld - 1) * DAY + tr_tod tr - c) eqn:El; [lia|reflexivity]. }
  destruct (lt <? tr_tod tr) eqn:Ec.
  - rewrite (iter_until_second _ loop_bound (ld - 1) (ld - 1 + 1) (Ok (ld * DAY + tr_tod tr - c))); [reflexivity|reflexivity|exact H0|].
    rewrite fixed_time_step. replace (ld - 1 + 1) with ld by lia.
    destruct (x <? ld * DAY + tr_tod tr - c) eqn:El; [reflexivity|lia].
  - rewrite (iter_until_third _ loop_bound (ld - 1) (ld - 1 + 1) (ld + 1) (Ok ((ld + 1) * DAY + tr_tod tr - c)));
      [reflexivity|reflexivity|exact H0| |].
    + rewrite fixed_time_step. replace (ld - 1 + 1) with ld by lia.
      destruct (x <? ld * DAY + tr_tod tr - c) eqn:El; [lia|reflexivity].
    + rewrite fixed_time_step. destruct (x <? (ld + 1) * DAY + tr_tod tr - c) eqn:El; [reflexivity|lia].
Qed.

Theorem fixed_daily_nx :
  (forall st x, get_next E (PTime tr None) st x = (Ok (daily_nx x), st)) /\
  (forall x, x < daily_nx x) /\
  (forall x t, x <= t < daily_nx x -> daily_nx t = daily_nx x).
Proof.
  split; [intros st x; cbn [get_next]; rewrite fixed_next_time; reflexivity|].
  destruct Htr as (Ht0 & Ht1). unfold daily_nx, local_day, local_tod.
  change DAY with 86400000000000 in *. split.
  - intros x. destruct (_ <? _) eqn:El; lia.
  - intros x t. destruct ((x + c) mod _ <? _) eqn:El; destruct ((t + c) mod _ <? _) eqn:El2; intros H; nia.
Qed.
End FixedDaily.

(* so: a daily trigger in a fixed-offset zone with ANY offset of less than a day, either sign, fires for every
   day — from the firing of one day the next firing exists and is the firing of the following day *)
Lemma daily_nx_at E tr x k t :
  x + tz_init (pz E) * NS = k * DAY + t -> 0 <= t < DAY ->
  daily_nx E tr x = if t <? tr_tod tr then k * DAY + tr_tod tr - tz_init (pz E) * NS
                    else (k + 1) * DAY + tr_tod tr - tz_init (pz E) * NS.
Proof.
  intros Hx Ht. unfold daily_nx, local_day, local_tod. rewrite Hx.
  assert (Hd : (k * DAY + t) / DAY = k) by (change DAY with 86400000000000 in *; lia).
  assert (Hm : (k * DAY + t) mod DAY = t) by (change DAY with 86400000000000 in *; lia).
  rewrite Hd, Hm. reflexivity.
Qed.

Lemma daily_nx_occurrence E tr y :
  wf_tr tr -> let n1 := daily_nx E tr y in
  daily_nx E tr n1 = n1 + DAY /\ forall off, - DAY < off < 0 -> daily_nx E tr (n1 + off) = n1.
Proof.
  intros (Ht0 & Ht1). cbv zeta.
  assert (Hk : exists k, daily_nx E tr y = k * DAY + tr_tod tr - tz_init (pz E) * NS).
  { unfold daily_nx. destruct (_ <? _); eexists; reflexivity. }
  destruct Hk as (k & ->). remember (tz_init (pz E) * NS) as c eqn:Ec. split.
  - rewrite (daily_nx_at E tr _ k (tr_tod tr)) by (subst c; lia). rewrite <- Ec.
    destruct (tr_tod tr <? tr_tod tr) eqn:El; lia.
  - intros off Hoff. destruct (Z_le_gt_dec 0 (tr_tod tr + off)) as [Hge|Hlt].
    + rewrite (daily_nx_at E tr _ k (tr_tod tr + off)) by (subst c; lia). rewrite <- Ec.
      destruct (tr_tod tr + off <? tr_tod tr) eqn:El; lia.
    + rewrite (daily_nx_at E tr _ (k - 1) (tr_tod tr + off + DAY)) by (subst c; lia). rewrite <- Ec.
      destruct (tr_tod tr + off + DAY <? tr_tod tr) eqn:El; lia.
Qed.

Theorem daily_offset_every_day E tr off st y :
  tz_trans (pz E) = [] -> wf_tr tr -> - DAY < off < DAY ->
  let n1 := daily_nx E tr y in
  get_next E (POffset (PTime tr None) off None) st (n1 + off) = (Ok (n1 + DAY + off), st).
Proof.
  intros Hfix Htr Hoff n1. destruct (fixed_daily_nx E tr Hfix Htr) as (A & B & C).
  destruct (daily_nx_occurrence E tr y Htr) as (Hn & Hp). fold n1 in Hn, Hp.
  destruct (Z_lt_le_dec off 0) as [Hneg|Hpos].
  - rewrite (offset_nx_next_neg E (PTime tr None) (daily_nx E tr) A B C off st n1 Hneg); [rewrite Hn; reflexivity|].
    apply Hp. lia.
  - rewrite (offset_nx_next_pos E (PTime tr None) (daily_nx E tr) A B C off st n1); [rewrite Hn; reflexivity|lia].
Qed.

(* ------------------------------------------------------------------------------------------- *)
(* 4. jitter with a negative lower bound: both branches exactly.  When the reference instant lies inside the
   window (n + lo <= dt) the window is shifted forward by  diff = dt - n - lo + eps : the draw is taken from
   [lo + diff, hi + diff], i.e. the result lies in [dt + eps, dt + eps + (hi - lo)] — beyond n + hi by diff *)
Lemma get_next_jitter_unfold E q lo hi f st dt :
  get_next E (PJitter q lo hi f) st dt =
  finish_loop (iter_until loop_bound
    (fun xs : Z * pstate => let '(x, s) := xs in
       bind_state (get_next E q s x)
         (fun n s' => let '(a, b) := jitter_bounds lo hi n dt in
                      let value := n + draw E (ndraws s') a b in
                      let s'' := with_ndraws (S (ndraws s')) s' in
                      if (dt <? value) && allow_opt (pz E) f value then inr (Ok value, s'') else inl (n, s'')))
    (dt, st)).
Proof. reflexivity. Qed.

Theorem jitter_shift_forward_window E q lo hi f st dt v st' :
  wf_producer q -> draws_in_range E -> lo < hi -> lo < 0 ->
  get_next E (PJitter q lo hi f) st dt = (Ok v, st') ->
  exists n, inner_answer E q dt n /\ dt < v /\ allow_opt (pz E) f v = true /\
    (dt < n + lo -> n + lo <= v <= n + hi) /\
    (n + lo <= dt -> let diff := dt - n - lo + jitter_eps_ns in n + lo + diff <= v <= n + hi + diff).
Proof.
  intros Hwf Hd Hlh Hneg H. rewrite get_next_jitter_unfold in H. revert v st' H.
  apply (op_loop_rule E q dt
           (fun v => exists n, inner_answer E q dt n /\ dt < v /\ allow_opt (pz E) f v = true /\
              (dt < n + lo -> n + lo <= v <= n + hi) /\
              (n + lo <= dt -> let diff := dt - n - lo + jitter_eps_ns in n + lo + diff <= v <= n + hi + diff))
           (fun n s' => let '(a, b) := jitter_bounds lo hi n dt in
                        let value := n + draw E (ndraws s') a b in
                        let s'' := with_ndraws (S (ndraws s')) s' in
                        if (dt <? value) && allow_opt (pz E) f value then inr (Ok value, s'') else inl (n, s'')) st Hwf).
  intros n s' (x & s & Hx & HG).
  destruct (jitter_bounds lo hi n dt) as [a b] eqn:EJ. cbv zeta.
  destruct (dt <? n + draw E (ndraws s') a b) eqn:Elt; cbn [andb]; [|reflexivity].
  destruct (allow_opt (pz E) f _) eqn:Ea; [|reflexivity].
  exists n. split; [exists x, s, s'; auto|]. split; [lia|]. split; [exact Ea|].
  unfold jitter_bounds in EJ. destruct (0 <=? lo) eqn:E0; [lia|].
  destruct (dt - n <? lo) eqn:E1; injection EJ as <- <-.
  - pose proof (Hd (ndraws s') lo hi ltac:(lia)) as Hr. split; [intros _; lia|intros Hc; lia].
  - pose proof (Hd (ndraws s') (lo + (dt - n - lo + jitter_eps_ns)) (hi + (dt - n - lo + jitter_eps_ns)) ltac:(lia)) as Hr.
    split; [intros Hc; lia|intros _; cbv zeta; lia].
Qed.

(* in particular the result of a jitter with a negative lower bound is never more than  hi - lo + eps  after the
   later of the reference instant and the start of the window *)
Corollary jitter_neg_overall E q lo hi f st dt v st' :
  wf_producer q -> draws_in_range E -> lo < hi -> lo < 0 ->
  get_next E (PJitter q lo hi f) st dt = (Ok v, st') ->
  exists n, inner_answer E q dt n /\ Z.max dt (n + lo - 1) < v <= Z.max dt (n + lo) + (hi - lo) + jitter_eps_ns.
Proof.
  intros Hwf Hd Hlh Hneg H.
  destruct (jitter_shift_forward_window _ _ _ _ _ _ _ _ _ Hwf Hd Hlh Hneg H) as (n & A & Hv & _ & W1 & W2).
  exists n. split; [exact A|]. assert (0 <= jitter_eps_ns) by (vm_compute; discriminate).
  destruct (Z_lt_le_dec dt (n + lo)) as [Hc|Hc]; [specialize (W1 Hc)|specialize (W2 Hc); cbv zeta in W2]; lia.
Qed.

(* ------------------------------------------------------------------------------------------- *)
(* 3. F6: jitter with a negative lower bound fires twice for one occurrence *)
Definition SEC : Z := NS.
(* a draw stream that always answers within the bounds it is given: first draw 16 s above the lower bound,
   every later draw 20 s below the upper bound (clipped to the interval) *)
Definition envJ : penv :=
  {| pz := utc;
     draw := fun k a b => match k with O => Z.min b (a + 16 * SEC) | _ => Z.max a (b - 20 * SEC) end;
     sun_ev := fun _ _ => None; location := None; interval_fuel := 10%positive |}.
Definition noon : treplacer := {| tr_tod := 12 * 3600 * NS; tr_sk := SkSkip; tr_rp := RpSkip |}.
Definition jit60 : producer := PJitter (PTime noon None) (- 60 * SEC) (60 * SEC) None.

Lemma envJ_draws : draws_in_range envJ.
Proof. intros k a b Hab. cbn [draw envJ]. unfold SEC, NS. destruct k; lia. Qed.

Definition noon0 : Z := 12 * 3600 * NS.                 (* 1970-01-01T12:00Z, the occurrence b *)
Definition fire1 : Z := noon0 - 44 * SEC.               (* 11:59:16 *)
Definition fire2 : Z := noon0 + 56 * SEC + jitter_eps_ns.   (* 12:00:56.0001 *)
Definition stJ (k : nat) : pstate := {| icache := []; ndraws := k; scache := [] |}.

Lemma envJ_chain :
  chain envJ jit60 pstate0 0 2 = [Ok fire1; Ok fire2] /\
  get_next envJ jit60 pstate0 0 = (Ok fire1, stJ 1) /\
  get_next envJ jit60 (stJ 1) fire1 = (Ok fire2, stJ 2).
Proof. vm_compute. repeat split. Qed.

(* the answers of the underlying daily trigger: to every reference in [0, noon0) it answers noon0, to every later
   reference an instant at least a day after noon0 *)
Lemma noon_answers x n s s' :
  0 <= x -> get_next envJ (PTime noon None) s x = (Ok n, s') ->
  (x < noon0 -> n = noon0) /\ (noon0 <= x -> noon0 + DAY <= n).
Proof.
  intros Hx H.
  assert (Ht : wf_tr noon) by (vm_compute; split; [discriminate|reflexivity]).
  destruct (fixed_daily_nx envJ noon eq_refl Ht) as (A & B & C).
  rewrite A in H. injection H as <- _.
  assert (H0 : daily_nx envJ noon 0 = noon0) by (vm_compute; reflexivity).
  assert (H1 : daily_nx envJ noon noon0 = noon0 + DAY) by (vm_compute; reflexivity).
  split; intros Hc.
  - rewrite <- H0. apply C. rewrite H0. lia.
  - destruct (Z_lt_le_dec x (noon0 + DAY)) as [Hlt|Hge].
    + rewrite (C noon0 x) by (rewrite H1; lia). lia.
    + pose proof (B x). lia.
Qed.

(* F6.  Daily 12:00 in a zone without transitions, jitter(-60 s, +60 s), a draw stream that stays within the
   bounds of every call; the chain a job follows, started at midnight:
     - the first firing, 11:59:16, lies in the window [b - 60 s, b + 60 s] of the occurrence b = 12:00 and before b;
     - computed from that firing, the second firing is 12:00:56.0001 — again inside the window of the SAME b:
       the underlying trigger answers b to both reference instants, and b is the only answer of the underlying
       trigger (to any reference at or after the respective reference instant) within 60 s of either firing;
     - so the occurrence b gives rise to two firings, although the jitter range (120 s) is far narrower than the
       period (one day).                                                                                     *)
Theorem jitter_negative_refuted_concrete :
  let q := PTime noon None in let lo := - 60 * SEC in let hi := 60 * SEC in let b := noon0 in
  tz_trans (pz envJ) = [] /\ wf_tz_b (pz envJ) = true /\ wf_tr noon /\ draws_in_range envJ /\
  lo < 0 < hi /\ hi - lo < DAY /\
  chain envJ (PJitter q lo hi None) pstate0 0 2 = [Ok fire1; Ok fire2] /\
  get_next envJ (PJitter q lo hi None) pstate0 0 = (Ok fire1, stJ 1) /\
  get_next envJ (PJitter q lo hi None) (stJ 1) fire1 = (Ok fire2, stJ 2) /\
  get_next envJ q pstate0 0 = (Ok b, pstate0) /\ get_next envJ q (stJ 1) fire1 = (Ok b, stJ 1) /\
  b + lo <= fire1 < b /\ b < fire2 <= b + hi /\
  (forall n, inner_answer envJ q 0 n -> n + lo <= fire1 <= n + hi -> n = b) /\
  (forall n, inner_answer envJ q fire1 n -> n + lo <= fire2 -> n = b).
Proof.
  cbv zeta. split; [reflexivity|]. split; [reflexivity|].
  split; [vm_compute; split; [discriminate|reflexivity]|]. split; [exact envJ_draws|].
  split; [vm_compute; split; reflexivity|]. split; [vm_compute; reflexivity|].
  destruct envJ_chain as (H1 & H2 & H3). split; [exact H1|]. split; [exact H2|]. split; [exact H3|].
  split; [vm_compute; reflexivity|]. split; [vm_compute; reflexivity|].
  split; [vm_compute; split; [discriminate|reflexivity]|]. split; [vm_compute; split; [reflexivity|discriminate]|].
  assert (Hf1 : fire1 = noon0 - 44 * SEC) by reflexivity.
  assert (Hf2 : fire2 = noon0 + 56 * SEC + 100000) by reflexivity.
  assert (Hn : noon0 = 43200 * SEC) by reflexivity.
  split.
  - intros n (x & s & s' & Hx & HG) Hw. destruct (noon_answers x n s s' Hx HG) as (Ha & Hb).
    destruct (Z_lt_le_dec x noon0) as [Hlt|Hge]; [exact (Ha Hlt)|].
    specialize (Hb Hge). unfold SEC, DAY, NS in *. lia.
  - intros n (x & s & s' & Hx & HG) Hw.
    assert (Hx0 : 0 <= x) by (unfold SEC, DAY, NS in *; lia).
    destruct (noon_answers x n s s' Hx0 HG) as (Ha & Hb).
    destruct (Z_lt_le_dec x noon0) as [Hlt|Hge]; [exact (Ha Hlt)|].
    specialize (Hb Hge). unfold SEC, DAY, NS in *. lia.
Qed.

(* hence the statement of [jitter_nonneg_chain_injective] without its hypothesis  0 <= lo  is FALSE (even when
   weakened to the lower end of the second window and restricted to ranges narrower than a day over a daily
   trigger in a zone without transitions) *)
Theorem jitter_negative_refuted :
  ~ (forall E q lo hi f st1 d0 v1 st2 v2 st3,
       wf_producer q -> draws_in_range E -> lo < hi ->
       get_next E (PJitter q lo hi f) st1 d0 = (Ok v1, st2) ->
       get_next E (PJitter q lo hi f) st2 v1 = (Ok v2, st3) ->
       exists n1 n2, inner_answer E q d0 n1 /\ inner_answer E q v1 n2 /\
                     n1 + lo <= v1 <= n1 + hi /\ n2 + lo <= v2 /\ n1 < n2).
Proof.
  intros Hall.
  destruct jitter_negative_refuted_concrete as (_ & _ & _ & Hd & _ & _ & _ & H1 & H2 & _ & _ & _ & _ & A1 & A2).
  destruct (Hall envJ (PTime noon None) (- 60 * SEC) (60 * SEC) None pstate0 0 fire1 (stJ 1) fire2 (stJ 2)
              I Hd ltac:(vm_compute; reflexivity) H1 H2) as (n1 & n2 & I1 & I2 & W1 & W2 & Hlt).
  pose proof (A1 n1 I1 W1). pose proof (A2 n2 I2 W2). lia.
Qed.

Print Assumptions earliest_unchanged_within_bound.
Print Assumptions offset_chain_complete.
Print Assumptions daily_offset_every_day.
Print Assumptions jitter_negative_refuted.
Print Assumptions jitter_shift_forward_window.
