(* Parse.v — the argument parser of eascheduler/builder/helper.py (_wrapped_range, _parse_single_value,
   _parse_str_options, _parse_values, get_weekdays / get_days / get_months) and the name lookup of
   eascheduler/const.py (get_day_nr / get_month_nr), written after the Python statement by statement.
   Executable definitions only (proofs: ParseFacts.v).

   Strings are lists of Unicode code points ([list Z]).  DOMAIN OF THE MODEL: strings all of whose
   code points are below U+0250 (Basic Latin, Latin-1, Latin Extended-A/B).  For that domain the three
   character classifications the parser relies on are written out explicitly and are compared with the
   running Python for every code point 0 .. 0x24F by the correspondence check:

     str.isspace / str.strip()   U+0009-000D, U+001C-001F, U+0020, U+0085, U+00A0
     str.isdigit                 U+0030-0039 and the superscripts U+00B2 U+00B3 U+00B9
                                 (for which int() raises ValueError: modelled)
     str.lower()                 [lower_tbl] below (226 code points change; U+0130 becomes TWO code
                                 points; 23 results lie above U+0250)

   Above U+0250 Python knows further white space (U+1680, U+2000-200A, U+2028/9, U+202F, U+205F,
   U+3000), further digits that int() DOES accept (e.g. ARABIC-INDIC DIGIT THREE U+0663, FULLWIDTH
   DIGIT ONE U+FF11) and further lower-casings (KELVIN SIGN U+212A -> k); the model makes no claim
   about such strings and the generators do not emit them (the harness probes a few of them against the
   Python oracle only).

   Sets of integers are represented as strictly increasing lists ([zinsert] keeps that shape), which is
   also what the public functions return ([sorted(set)]).                                          *)
From EAS Require Import Base.

Definition str := list Z.

(* ------------------------------------------------------------------------------------------- *)
(* sets as strictly increasing lists *)
Fixpoint zinsert (x : Z) (l : list Z) : list Z :=            (* set.add(x) *)
  match l with
  | [] => [x]
  | y :: t => if x <? y then x :: l else if x =? y then l else y :: zinsert x t
  end.
Definition zunion (ret r : list Z) : list Z := fold_right zinsert ret r.      (* ret.update(r) *)
Definition canon (l : list Z) : list Z := zunion [] l.                        (* set(l) *)

(* range(lo, hi) *)
Fixpoint range_from (start : Z) (len : nat) : list Z :=
  match len with O => [] | S k => start :: range_from (start + 1) k end.
Definition py_range (lo hi : Z) : list Z := range_from lo (Z.to_nat (hi - lo)).

(* def _wrapped_range(start, stop, max_value) *)
Definition wrapped_range (start stop max_value : Z) : list Z :=
  if start <? stop then canon (py_range start (stop + 1))             (* set(range(start, stop + 1)) *)
  else if start =? stop then [start]                                  (* {start} *)
  else zunion (canon (py_range start (max_value + 1)))                (* ret = set(range(start, max_value + 1)) *)
              (py_range 1 (stop + 1)).                                (* ret.update(range(1, stop + 1)) *)

(* ------------------------------------------------------------------------------------------- *)
(* characters *)
Definition COMMA : Z := 44.
Definition DASH : Z := 45.

Definition isspace (c : Z) : bool :=
  ((9 <=? c) && (c <=? 13)) || ((28 <=? c) && (c <=? 32)) || (c =? 133) || (c =? 160).

Definition is_ascii_digit (c : Z) : bool := (48 <=? c) && (c <=? 57).
Definition isdigit_cp (c : Z) : bool := is_ascii_digit c || (c =? 178) || (c =? 179) || (c =? 185).

(* str.strip() *)
Fixpoint lstrip (s : str) : str :=
  match s with [] => [] | c :: t => if isspace c then lstrip t else s end.
Definition rstrip (s : str) : str := rev (lstrip (rev s)).
Definition strip (s : str) : str := rstrip (lstrip s).

(* str.isdigit(): at least one character and all characters are digits *)
Definition isdigit (s : str) : bool :=
  match s with [] => false | _ => forallb isdigit_cp s end.

(* int(s) for a string s with s.isdigit(): the superscript digits are not accepted (ValueError), nor
   are more than 4300 digits (sys.get_int_max_str_digits(), leading zeros count) *)
Definition INT_MAX_STR_DIGITS : Z := 4300.
Definition digits_val (s : str) : Z := fold_left (fun acc c => acc * 10 + (c - 48)) s 0.
Definition py_int (s : str) : option Z :=
  if forallb is_ascii_digit s
  then if INT_MAX_STR_DIGITS <? Z.of_nat (length s) then None else Some (digits_val s)
  else None.

(* value.split(',') *)
Fixpoint split_on (d : Z) (s : str) : list str :=
  match s with
  | [] => [[]]
  | c :: t => if c =? d then [] :: split_on d t
              else match split_on d t with
                   | p :: ps => (c :: p) :: ps
                   | [] => [[c]]                 (* not reachable: split_on never returns [] *)
                   end
  end.

(* value.split('-', 1) for a value that contains the delimiter *)
Fixpoint split_first (d : Z) (s : str) : option (str * str) :=
  match s with
  | [] => None
  | c :: t => if c =? d then Some ([], t)
              else match split_first d t with Some (a, b) => Some (c :: a, b) | None => None end
  end.

Definition str_eqb (a b : str) : bool := list_eqb Z.eqb a b.

(* ------------------------------------------------------------------------------------------- *)
(* the name tables of eascheduler/const.py as they are built under LC_ALL=C (English locale names
   coincide with the hard-coded English ones), in the order of the dicts; and str.lower() on the code
   points below U+0250.  Generated once from the running code; compared with the running code by the
   correspondence check at every run.                                                             *)
Definition day_names : list (str * Z) := [
  ([109; 111], 1);   (* mo *)
  ([109; 111; 110], 1);   (* mon *)
  ([109; 111; 110; 100; 97; 121], 1);   (* monday *)
  ([109; 111; 110; 116; 97; 103], 1);   (* montag *)
  ([100; 105], 2);   (* di *)
  ([100; 105; 101; 110; 115; 116; 97; 103], 2);   (* dienstag *)
  ([116; 117; 101], 2);   (* tue *)
  ([116; 117; 101; 115; 100; 97; 121], 2);   (* tuesday *)
  ([109; 105], 3);   (* mi *)
  ([109; 105; 116; 116; 119; 111; 99; 104], 3);   (* mittwoch *)
  ([119; 101; 100], 3);   (* wed *)
  ([119; 101; 100; 110; 101; 115; 100; 97; 121], 3);   (* wednesday *)
  ([100; 111], 4);   (* do *)
  ([100; 111; 110; 110; 101; 114; 115; 116; 97; 103], 4);   (* donnerstag *)
  ([116; 104; 117], 4);   (* thu *)
  ([116; 104; 117; 114; 115; 100; 97; 121], 4);   (* thursday *)
  ([102; 114], 5);   (* fr *)
  ([102; 114; 101; 105; 116; 97; 103], 5);   (* freitag *)
  ([102; 114; 105], 5);   (* fri *)
  ([102; 114; 105; 100; 97; 121], 5);   (* friday *)
  ([115; 97], 6);   (* sa *)
  ([115; 97; 109; 115; 116; 97; 103], 6);   (* samstag *)
  ([115; 97; 116], 6);   (* sat *)
  ([115; 97; 116; 117; 114; 100; 97; 121], 6);   (* saturday *)
  ([115; 111], 7);   (* so *)
  ([115; 111; 110; 110; 116; 97; 103], 7);   (* sonntag *)
  ([115; 117; 110], 7);   (* sun *)
  ([115; 117; 110; 100; 97; 121], 7)    (* sunday *)
].

Definition month_names : list (str * Z) := [
  ([106; 97; 110], 1);   (* jan *)
  ([106; 97; 110; 117; 97; 114], 1);   (* januar *)
  ([106; 97; 110; 117; 97; 114; 121], 1);   (* january *)
  ([102; 101; 98], 2);   (* feb *)
  ([102; 101; 98; 114; 117; 97; 114], 2);   (* februar *)
  ([102; 101; 98; 114; 117; 97; 114; 121], 2);   (* february *)
  ([109; 97; 114], 3);   (* mar *)
  ([109; 97; 114; 99; 104], 3);   (* march *)
  ([109; 114; 122], 3);   (* mrz *)
  ([109; 228; 114], 3);   (* mär *)
  ([109; 228; 114; 122], 3);   (* märz *)
  ([97; 112; 114], 4);   (* apr *)
  ([97; 112; 114; 105; 108], 4);   (* april *)
  ([109; 97; 105], 5);   (* mai *)
  ([109; 97; 121], 5);   (* may *)
  ([106; 117; 110], 6);   (* jun *)
  ([106; 117; 110; 101], 6);   (* june *)
  ([106; 117; 110; 105], 6);   (* juni *)
  ([106; 117; 108], 7);   (* jul *)
  ([106; 117; 108; 105], 7);   (* juli *)
  ([106; 117; 108; 121], 7);   (* july *)
  ([97; 117; 103], 8);   (* aug *)
  ([97; 117; 103; 117; 115; 116], 8);   (* august *)
  ([115; 101; 112], 9);   (* sep *)
  ([115; 101; 112; 116; 101; 109; 98; 101; 114], 9);   (* september *)
  ([111; 99; 116], 10);   (* oct *)
  ([111; 99; 116; 111; 98; 101; 114], 10);   (* october *)
  ([111; 107; 116], 10);   (* okt *)
  ([111; 107; 116; 111; 98; 101; 114], 10);   (* oktober *)
  ([110; 111; 118], 11);   (* nov *)
  ([110; 111; 118; 101; 109; 98; 101; 114], 11);   (* november *)
  ([100; 101; 99], 12);   (* dec *)
  ([100; 101; 99; 101; 109; 98; 101; 114], 12);   (* december *)
  ([100; 101; 122], 12);   (* dez *)
  ([100; 101; 122; 101; 109; 98; 101; 114], 12)    (* dezember *)
].

Definition lower_tbl : list (Z * list Z) := [
  (65, [97]); (66, [98]); (67, [99]); (68, [100]); (69, [101]); (70, [102]); (71, [103]);
  (72, [104]); (73, [105]); (74, [106]); (75, [107]); (76, [108]); (77, [109]); (78, [110]);
  (79, [111]); (80, [112]); (81, [113]); (82, [114]); (83, [115]); (84, [116]); (85, [117]);
  (86, [118]); (87, [119]); (88, [120]); (89, [121]); (90, [122]); (192, [224]); (193, [225]);
  (194, [226]); (195, [227]); (196, [228]); (197, [229]); (198, [230]); (199, [231]); (200, [232]);
  (201, [233]); (202, [234]); (203, [235]); (204, [236]); (205, [237]); (206, [238]); (207, [239]);
  (208, [240]); (209, [241]); (210, [242]); (211, [243]); (212, [244]); (213, [245]); (214, [246]);
  (216, [248]); (217, [249]); (218, [250]); (219, [251]); (220, [252]); (221, [253]); (222, [254]);
  (256, [257]); (258, [259]); (260, [261]); (262, [263]); (264, [265]); (266, [267]); (268, [269]);
  (270, [271]); (272, [273]); (274, [275]); (276, [277]); (278, [279]); (280, [281]); (282, [283]);
  (284, [285]); (286, [287]); (288, [289]); (290, [291]); (292, [293]); (294, [295]); (296, [297]);
  (298, [299]); (300, [301]); (302, [303]); (304, [105; 775]); (306, [307]); (308, [309]);
  (310, [311]); (313, [314]); (315, [316]); (317, [318]); (319, [320]); (321, [322]); (323, [324]);
  (325, [326]); (327, [328]); (330, [331]); (332, [333]); (334, [335]); (336, [337]); (338, [339]);
  (340, [341]); (342, [343]); (344, [345]); (346, [347]); (348, [349]); (350, [351]); (352, [353]);
  (354, [355]); (356, [357]); (358, [359]); (360, [361]); (362, [363]); (364, [365]); (366, [367]);
  (368, [369]); (370, [371]); (372, [373]); (374, [375]); (376, [255]); (377, [378]); (379, [380]);
  (381, [382]); (385, [595]); (386, [387]); (388, [389]); (390, [596]); (391, [392]); (393, [598]);
  (394, [599]); (395, [396]); (398, [477]); (399, [601]); (400, [603]); (401, [402]); (403, [608]);
  (404, [611]); (406, [617]); (407, [616]); (408, [409]); (412, [623]); (413, [626]); (415, [629]);
  (416, [417]); (418, [419]); (420, [421]); (422, [640]); (423, [424]); (425, [643]); (428, [429]);
  (430, [648]); (431, [432]); (433, [650]); (434, [651]); (435, [436]); (437, [438]); (439, [658]);
  (440, [441]); (444, [445]); (452, [454]); (453, [454]); (455, [457]); (456, [457]); (458, [460]);
  (459, [460]); (461, [462]); (463, [464]); (465, [466]); (467, [468]); (469, [470]); (471, [472]);
  (473, [474]); (475, [476]); (478, [479]); (480, [481]); (482, [483]); (484, [485]); (486, [487]);
  (488, [489]); (490, [491]); (492, [493]); (494, [495]); (497, [499]); (498, [499]); (500, [501]);
  (502, [405]); (503, [447]); (504, [505]); (506, [507]); (508, [509]); (510, [511]); (512, [513]);
  (514, [515]); (516, [517]); (518, [519]); (520, [521]); (522, [523]); (524, [525]); (526, [527]);
  (528, [529]); (530, [531]); (532, [533]); (534, [535]); (536, [537]); (538, [539]); (540, [541]);
  (542, [543]); (544, [414]); (546, [547]); (548, [549]); (550, [551]); (552, [553]); (554, [555]);
  (556, [557]); (558, [559]); (560, [561]); (562, [563]); (570, [11365]); (571, [572]);
  (573, [410]); (574, [11366]); (577, [578]); (579, [384]); (580, [649]); (581, [652]);
  (582, [583]); (584, [585]); (586, [587]); (588, [589]); (590, [591])
].

Fixpoint assoc_z (c : Z) (tbl : list (Z * list Z)) : option (list Z) :=
  match tbl with [] => None | (k, v) :: t => if c =? k then Some v else assoc_z c t end.
Definition lower_cp (c : Z) : list Z := match assoc_z c lower_tbl with Some l => l | None => [c] end.
Definition lower (s : str) : str := flat_map lower_cp s.                (* str.lower() *)

(* dict.get(key) *)
Fixpoint assoc (k : str) (tbl : list (str * Z)) : option Z :=
  match tbl with [] => None | (k', v) :: t => if str_eqb k k' then Some v else assoc k t end.

(* const.get_day_nr / get_month_nr:  key = day.lower().strip(); DAY_NAMES.get(key) or ValueError *)
Definition lookup_name (tbl : list (str * Z)) (s : str) : option Z := assoc (strip (lower s)) tbl.

(* ------------------------------------------------------------------------------------------- *)
(* the parser.  [lk] is the lookup ([None] for get_days: "Aliases can not be resolved"), [mn]/[mx] the
   admissible range.  All exceptions the real functions raise on the modelled inputs are ValueError.  *)
Definition bind {A B} (r : result A) (f : A -> result B) : result B :=
  match r with Ok a => f a | Raise e => Raise e | OutOfFuel => OutOfFuel end.

Definition check_range (mn mx n : Z) : result Z :=
  if (mn <=? n) && (n <=? mx) then Ok n else Raise EValueError.   (* if not min_value <= int_value <= max_value *)

(* _parse_single_value(value: int) *)
Definition parse_single_int (mn mx n : Z) : result Z := check_range mn mx n.

(* _parse_single_value(value: str) *)
Definition parse_single_str (lk : option (list (str * Z))) (mn mx : Z) (value : str) : result Z :=
  let value := strip value in
  if isdigit value then
    match py_int value with Some n => check_range mn mx n | None => Raise EValueError end
  else
    match lk with
    | None => Raise EValueError
    | Some tbl => match lookup_name tbl value with Some n => check_range mn mx n | None => Raise EValueError end
    end.

(* for value in values: ret.update(f(value))   — stops at the first exception *)
Definition union_results {A} (f : A -> result (list Z)) : list A -> list Z -> result (list Z) :=
  fix go (l : list A) (ret : list Z) : result (list Z) :=
    match l with
    | [] => Ok ret
    | a :: t => match f a with
                | Ok r => go t (zunion ret r)
                | Raise e => Raise e
                | OutOfFuel => OutOfFuel
                end
    end.

(* the two comma-free branches of _parse_str_options *)
Definition parse_item lk (mn mx : Z) (value : str) : result (list Z) :=
  if zmemb DASH value then                                           (* elif '-' in value *)
    match split_first DASH value with                                (* start_str, end_str = value.split('-', 1) *)
    | Some (start_str, end_str) =>
        bind (parse_single_str lk mn mx start_str) (fun a =>
        bind (parse_single_str lk mn mx end_str) (fun b =>
        Ok (zunion [] (wrapped_range a b mx))))                      (* ret.update(_wrapped_range(..)) *)
    | None => Raise EOther                                           (* not reachable *)
    end
  else bind (parse_single_str lk mn mx value) (fun a => Ok [a]).     (* ret.add(_parse_single_value(..)) *)

(* _parse_str_options: the real function recurses on the comma-separated parts.  The recursion is
   kept (explicit fuel; [OutOfFuel] is a distinct answer); ParseFacts.parse_opts_fuel shows that the
   depth is at most 2 (a part contains no comma), for every string.                                *)
Fixpoint parse_opts (fuel : nat) lk (mn mx : Z) (value : str) : result (list Z) :=
  match fuel with
  | O => OutOfFuel
  | S fuel' =>
      if zmemb COMMA value                                           (* if ',' in value *)
      then union_results (parse_opts fuel' lk mn mx) (split_on COMMA value) []
      else parse_item lk mn mx value
  end.
Definition parse_str_options lk (mn mx : Z) (value : str) : result (list Z) := parse_opts 2 lk mn mx value.

(* values of type HINT_NAME_OR_NR.  A Python bool is an int (isinstance(True, int)): the harness
   maps True/False to VInt 1 / VInt 0.  Floats, None, bytes, dicts ... are outside the model. *)
Inductive pval := VInt (n : Z) | VStr (s : str) | VList (l : list pval).

(* _parse_values(values) is [parse_val (VList values)]; the elements are dispatched on their type *)
Fixpoint parse_val lk (mn mx : Z) (v : pval) : result (list Z) :=
  match v with
  | VInt n => bind (parse_single_int mn mx n) (fun a => Ok [a])       (* ret.add(_parse_single_value(value)) *)
  | VStr s => parse_str_options lk mn mx s                           (* ret.update(_parse_str_options(value)) *)
  | VList l =>                                                       (* ret.update(_parse_values(value)) *)
      match l with
      | [] => Raise EValueError                                      (* if not values: 'No values provided.' *)
      | _ => union_results (parse_val lk mn mx) l []
      end
  end.
Definition parse_values lk (mn mx : Z) (values : list pval) : result (list Z) := parse_val lk mn mx (VList values).

(* get_weekdays( *values) / get_days / get_months: sorted(_parse_values(values, ...)) *)
Inductive dom := DWeekdays | DDays | DMonths.
Definition dom_lookup (d : dom) : option (list (str * Z)) :=
  match d with DWeekdays => Some day_names | DDays => None | DMonths => Some month_names end.
Definition dom_min (d : dom) : Z := 1.
Definition dom_max (d : dom) : Z := match d with DWeekdays => 7 | DDays => 31 | DMonths => 12 end.
Definition get_values (d : dom) (args : list pval) : result (list Z) :=
  parse_values (dom_lookup d) (dom_min d) (dom_max d) args.
Definition get_weekdays := get_values DWeekdays.
Definition get_days := get_values DDays.
Definition get_months := get_values DMonths.
(* FilterBuilder.weekdays( *args) calls get_weekdays(args), i.e. with ONE positional value: the tuple *)
Definition builder_values (d : dom) (args : list pval) : result (list Z) := get_values d [VList args].
