(* ReplaceFacts.v — C06: TimeReplacer.replace follows the DST policy table exactly, for every table. *)
From EAS Require Import Base BaseFacts Civil Time TimeFacts Replace.
From EASGen Require Import Generated.

Section RF.
Variable z : tz.
Variable tr : treplacer.
Variable day : Z.
Let l := day * DAY + tr_tod tr.

(* the wall-clock time exists once on that day: that instant, and its local time is the configured one *)
Theorem replace_unique i :
  candidates z l = [i] -> replace z tr day = ROne i /\ to_local z i = l.
Proof.
  intros H. unfold replace. fold l. rewrite H. split; [reflexivity|].
  apply candidates_spec. rewrite H. left; reflexivity.
Qed.

(* skipped *)
Theorem replace_skipped :
  candidates z l = [] ->
  (forall i, to_local z i <> l) /\
  match tr_sk tr with
  | SkSkip => replace z tr day = RSkip
  | SkEarlier => forall ob oa, gap_of z l = Some (ob, oa) -> replace z tr day = ROne (l - oa * NS)
  | SkLater => forall ob oa, gap_of z l = Some (ob, oa) -> replace z tr day = ROne (l - ob * NS)
  | SkAfter => replace z tr day = find_after z day (tr_tod tr)
  end.
Proof.
  intros H. split.
  - intros i Hi. apply candidates_spec in Hi. rewrite H in Hi. destruct Hi.
  - unfold replace. fold l. rewrite H. destruct (tr_sk tr); try reflexivity; intros ob oa Hg; rewrite Hg; reflexivity.
Qed.

(* earlier and later differ by exactly the size of the gap *)
Theorem skipped_shift_is_gap ob oa :
  gap_of z l = Some (ob, oa) -> (l - ob * NS) - (l - oa * NS) = (oa - ob) * NS /\ ob < oa.
Proof. intros H. destruct (gap_of_spec _ _ _ _ H) as (Hlt & _). split; [lia|exact Hlt]. Qed.

(* repeated *)
Theorem replace_repeated i1 i2 rest :
  candidates z l = i1 :: i2 :: rest ->
  let last := last_z i1 (i2 :: rest) in
  to_local z i1 = l /\ to_local z last = l /\ i1 < last /\
  match tr_rp tr with
  | RpSkip => replace z tr day = RSkip
  | RpEarlier => replace z tr day = ROne i1
  | RpLater => replace z tr day = ROne last
  | RpTwice => replace z tr day = RTwo i1 last
  end.
Proof.
  intros H last.
  assert (H1 : to_local z i1 = l) by (apply candidates_spec; rewrite H; left; reflexivity).
  assert (H2 : to_local z last = l).
  { apply candidates_spec. rewrite H. apply (last_z_In i1 (i2 :: rest)). }
  assert (H3 : i1 < last).
  { apply sorted_head_lt_last; [rewrite <- H; apply candidates_sorted|discriminate]. }
  split; [exact H1|]. split; [exact H2|]. split; [exact H3|].
  unfold replace. fold l. rewrite H. destruct (tr_rp tr); reflexivity.
Qed.

End RF.

(* 'after': the first whole minute after the skipped time that is not skipped itself *)
Theorem find_after_spec z day tod i :
  find_after z day tod = ROne i ->
  let base := day * DAY + (tod / MINUTE) * MINUTE in
  exists k, 1 <= k <= after_search_minutes /\ candidates z (base + k * MINUTE) = [i] /\
            forall j, 1 <= j < k -> candidates z (base + j * MINUTE) = [].
Proof.
  intros H. cbv zeta. set (base := day * DAY + (tod / MINUTE) * MINUTE). unfold find_after in H. fold base in H.
  rewrite iter_until_nat in H.
  (* bound the round index by the number of rounds *)
  assert (Hgen : forall n m k, (m + n <= Pos.to_nat (Z.to_pos after_search_minutes))%nat ->
            (k = Z.of_nat m /\ forall j, 1 <= j <= k -> candidates z (base + j * MINUTE) = []) ->
            match iter_nat n (after_step z base) k with
            | inl _ => True
            | inr r => forall i, r = ROne i ->
                 exists k', 1 <= k' <= after_search_minutes /\ candidates z (base + k' * MINUTE) = [i] /\
                            forall j, 1 <= j < k' -> candidates z (base + j * MINUTE) = []
            end).
  { induction n as [|n IH]; intros m k Hm (Hk & Hall); cbn [iter_nat]; [exact I|].
    unfold after_step at 1.
    destruct (candidates z (base + (k + 1) * MINUTE)) as [|a [|b t]] eqn:EC.
    - apply (IH (S m) (k + 1)); [lia|]. split; [lia|].
      intros j Hj. destruct (Z.eq_dec j (k + 1)) as [->|]; [exact EC|apply Hall; lia].
    - intros i' Hi'. injection Hi' as <-. exists (k + 1).
      assert (Hpos : Z.of_nat (Pos.to_nat (Z.to_pos after_search_minutes)) = after_search_minutes)
        by (vm_compute; reflexivity).
      split; [lia|]. split; [exact EC|]. intros j Hj. apply Hall. lia.
    - intros i' Hi'. discriminate. }
  specialize (Hgen (Pos.to_nat (Z.to_pos after_search_minutes)) 0%nat 0).
  destruct (iter_nat _ (after_step z base) 0) as [k|r]; [discriminate|].
  apply Hgen; [lia| |exact H]. split; [reflexivity|]. intros j Hj. lia.
Qed.
