(* TaskMgrCases.v — Coq side of the task-manager correspondence check (C11, C12): a case is a manager
   configuration, an event trace and what the implementation looked like after every event;
   [mismatches] runs the model of TaskMgr.v on the trace and reports the first event at which the model
   and the implementation differ. *)
From EAS Require Import Base TaskMgr.
From Coq Require Import NArith.
Open Scope nat_scope.

(* observations are written with binary numbers (N): a case file contains ~10^5 of them *)
Record obs := {
  o_flag : bool;               (* the event contained an invalid request *)
  o_running : option N;        (* coroutine of manager.task *)
  o_queue : list N;            (* queued coroutines, in order *)
  o_qkeys : list N;            (* their keys *)
  o_tracked : list N;          (* manager.tasks (sorted for the set of ParallelTaskManager) *)
  o_ready : list N;            (* loop._ready: 2c = step of task c, 2c+1 = done-callbacks of task c *)
  o_cids : list N;             (* per submitted coroutine, in submission order: phase code + 16 must_cancel + 32 entered *)
  o_started : list N;          (* order of asyncio task creation *)
  o_entlog : list N;           (* order in which bodies were entered *)
  o_closed : list N;           (* closed unstarted by the manager, in order *)
  o_mcanc : list N             (* cancelled by the manager, in order *)
}.

Record case := { c_mgr : mgr; c_evs : list event; c_obs : list obs }.

Definition wake_code (w : wake) : nat := match w with WRes => 0 | WExc => 1 | WCanc => 2 end.
Definition dkind_code (d : dkind) : nat := match d with DRet => 0 | DExc => 1 | DCanc => 2 end.
Definition phase_code (p : phase) : nat :=
  match p with
  | Unknown => 0 | Queued => 1 | Closed => 2 | Created => 3 | Running => 4 | Parked => 5
  | Waking w => 6 + wake_code w
  | Done d => 9 + dkind_code d
  | Processed d => 12 + dkind_code d
  end.
Definition handle_code (h : handle) : nat := match h with HStep c => 2 * c | HDone c => 2 * c + 1 end.

Fixpoint insert_n (x : nat) (l : list nat) : list nat :=
  match l with [] => [x] | y :: t => if x <=? y then x :: y :: t else y :: insert_n x t end.
Definition sort_n (l : list nat) : list nat := fold_right insert_n [] l.

Definition nn (l : list nat) : list N := map N.of_nat l.

Definition mk_obs (m : mgr) (s : state) : obs := {|
  o_flag := flag s;
  o_running := option_map N.of_nat (running s);
  o_queue := nn (map fst (queue s));
  o_qkeys := nn (map snd (queue s));
  o_tracked := nn match m with MPar => sort_n (tracked s) | _ => tracked s end;
  o_ready := nn (map handle_code (ready s));
  o_cids := nn (map (fun c => phase_code (ph s c) + (if mc s c then 16 else 0) + (if ent s c then 32 else 0))
                    (map fst (subk s)));
  o_started := nn (started s);
  o_entlog := nn (entlog s);
  o_closed := nn (closed s);
  o_mcanc := nn (mcanc s)
|}.

Definition nl_eqb := list_eqb N.eqb.
Definition obs_eqb (a b : obs) : bool :=
  Bool.eqb (o_flag a) (o_flag b) && opt_eqb N.eqb (o_running a) (o_running b)
  && nl_eqb (o_queue a) (o_queue b) && nl_eqb (o_qkeys a) (o_qkeys b) && nl_eqb (o_tracked a) (o_tracked b)
  && nl_eqb (o_ready a) (o_ready b) && nl_eqb (o_cids a) (o_cids b) && nl_eqb (o_started a) (o_started b)
  && nl_eqb (o_entlog a) (o_entlog b) && nl_eqb (o_closed a) (o_closed b) && nl_eqb (o_mcanc a) (o_mcanc b).

Fixpoint model_obs (m : mgr) (s : state) (evs : list event) : list obs :=
  match evs with
  | [] => []
  | e :: t => let s' := step m s e in mk_obs m s' :: model_obs m s' t
  end.

Definition case_model_obs (c : case) : list obs := model_obs (c_mgr c) init (c_evs c).

Fixpoint first_diff (i : nat) (a b : list obs) : option nat :=
  match a, b with
  | [], [] => None
  | x :: a', y :: b' => if obs_eqb x y then first_diff (S i) a' b' else Some i
  | _, _ => Some i
  end.

Definition first_mismatch (c : case) : option nat := first_diff 0 (case_model_obs c) (c_obs c).

Fixpoint mismatches_from (i : nat) (cs : list case) : list (nat * nat) :=
  match cs with
  | [] => []
  | c :: t => match first_mismatch c with
              | None => mismatches_from (S i) t
              | Some k => (i, k) :: mismatches_from (S i) t
              end
  end.
Definition mismatches (cs : list case) : list (nat * nat) := mismatches_from 0 cs.

(* ------------------------------------------------------------------------------------------- *)
(* Executable versions of the invariants proved in TaskMgrFacts.v, evaluated on the implementation's
   own observations (non-vacuity of the theorems on real runs, classification of a mismatch).      *)
Definition code_live (x : N) : bool := let p := N.to_nat (N.modulo x 16) in (3 <=? p) && (p <=? 11).
Definition count_live (o : obs) : nat := length (filter code_live (o_cids o)).

Definition obs_seq_ok (o : obs) : bool :=
  (count_live o <=? 1)
  && match o_running o with None => match o_queue o with [] => true | _ => false end | Some _ => true end.

Definition obs_par_ok (lim : option nat) (o : obs) : bool :=
  match lim with None => true | Some n => length (o_tracked o) <=? n end.

Definition case_wellformed (c : case) : bool :=
  match c_mgr c with
  | MSeq | MSeqDedup => forallb obs_seq_ok (c_obs c)
  | MSeqLim q _ => forallb (fun o => obs_seq_ok o && (length (o_queue o) <=? q)) (c_obs c)
  | MPar => forallb (obs_par_ok None) (c_obs c)
  | MParLim n _ => forallb (obs_par_ok (Some n)) (c_obs c)
  end.
