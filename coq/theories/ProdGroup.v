(* ProdGroup.v — C05 for group triggers: the answer of GroupProducer.get_next is the EARLIEST instant after the
   reference instant that is an occurrence of some member and that the group filter accepts.

   * [group_members] is the member loop of [get_next]'s PGroup case as a top-level definition
     ([get_next_group]: by reflexivity);
   * [group_member_ok]: the generic statement, for members specified up to a state invariant (so that it can be
     nested and covers interval members, whose answers depend on the cached grid point);
   * [group_earliest]: the stateless form (member specification quantified over all states);
   * [occ] / [tig] / [tig_member_ok] / [group_earliest_tig]: every expression built from time-of-day triggers,
     interval triggers with a start, and groups of such, nested to any depth, with member-level and group-level
     filters: the answer is the earliest element after the reference instant of the expression's occurrence set
     [occ]; [tig_chain_enumerates]: a chain of answers lists that set in increasing order without omission. *)
From EAS Require Import Base BaseFacts Civil Time TimeFacts TimeOrder Filters Replace Producers ProdStrict
  ProdEarliest ProdEarliest2.
From EASGen Require Import Generated.

Definition min_acc (acc : option Z) (v : Z) : Z := match acc with None => v | Some a => Z.min a v end.

Lemma min_acc_le_v acc v : min_acc acc v <= v.
Proof. destruct acc; cbn [min_acc]; lia. Qed.
Lemma min_acc_le_acc acc v a : acc = Some a -> min_acc acc v <= a.
Proof. intros ->. cbn [min_acc]. lia. Qed.
Lemma min_acc_cases acc v : min_acc acc v = v \/ acc = Some (min_acc acc v).
Proof.
  destruct acc as [a|]; cbn [min_acc]; [|left; reflexivity].
  destruct (Z.min_spec a v) as [(_ & ->)|(_ & ->)]; [right; reflexivity|left; reflexivity].
Qed.

(* the member loop of GroupProducer.get_next: one answer per member (the state threaded through), the minimum
   accumulated; the body is literally the local [fix members] of [get_next] *)
Definition group_members (E : penv)
  : list producer -> pstate -> Z -> option Z -> result (option Z) * pstate :=
  fix members (l : list producer) (st : pstate) (x : Z) (acc : option Z) {struct l}
    : result (option Z) * pstate :=
    match l with
    | [] => (Ok acc, st)
    | q :: t =>
        match get_next E q st x with
        | (Ok v, st') => members t st' x (Some (match acc with None => v | Some a => Z.min a v end))
        | (Raise e, st') => (Raise e, st')
        | (OutOfFuel, st') => (OutOfFuel, st')
        end
    end.

Definition group_round (E : penv) (ps : list producer) (f : option filt) (dt : Z) (xs : Z * pstate)
  : (Z * pstate) + (result Z * pstate) :=
  let '(x, s) := xs in
  bind_state (group_members E ps s x None) (fun m s' =>
    match m with
    | None => inr (Raise EValueError, s')
    | Some v => if (dt <? v) && allow_opt (pz E) f v then inr (Ok v, s') else inl (v, s')
    end).

Lemma get_next_group E ps f st dt :
  get_next E (PGroup ps f) st dt = finish_loop (iter_until loop_bound (group_round E ps f dt) (dt, st)).
Proof. reflexivity. Qed.

Lemma group_members_nil E s x acc : group_members E [] s x acc = (Ok acc, s).
Proof. reflexivity. Qed.

Lemma group_members_cons E q t s x acc :
  group_members E (q :: t) s x acc =
  match get_next E q s x with
  | (Ok v, s') => group_members E t s' x (Some (min_acc acc v))
  | (Raise e, s') => (Raise e, s')
  | (OutOfFuel, s') => (OutOfFuel, s')
  end.
Proof. reflexivity. Qed.

(* ------------------------------------------------------------------------------------------- *)
Section Group.
Variable E : penv.
Local Notation z := (pz E).
Variable Inv : pstate -> Prop.                 (* what the members need of the producer state *)
Variable P : producer -> Z -> Prop.            (* the occurrence set of a member: independent of the state *)

(* a member, started in a state satisfying the invariant, keeps the invariant (whatever it answers) and an
   answer is the earliest occurrence of the member after the reference instant *)
Definition member_ok (Pq : Z -> Prop) (q : producer) : Prop :=
  forall s x r s', Inv s -> get_next E q s x = (r, s') ->
    Inv s' /\ forall n, r = Ok n -> earliest_after Pq x n.

Definition union_occ (ps : list producer) (u : Z) : Prop := exists q, In q ps /\ P q u.

Lemma group_members_spec : forall l s x acc r s',
  (forall q, In q l -> member_ok (P q) q) -> Inv s -> group_members E l s x acc = (r, s') ->
  Inv s' /\ forall m, r = Ok m ->
    match m with
    | None => acc = None /\ l = []
    | Some w => (acc = Some w \/ (union_occ l w /\ x < w)) /\
                (forall a, acc = Some a -> w <= a) /\
                (forall u, union_occ l u -> x < u -> w <= u)
    end.
Proof.
  induction l as [|q t IH]; intros s x acc r s' Hok HI H.
  - rewrite group_members_nil in H. injection H as <- <-. split; [exact HI|].
    intros m Hm. injection Hm as <-. destruct acc as [a|]; [|split; reflexivity].
    split; [left; reflexivity|]. split; [intros a' Ha; injection Ha as <-; lia|].
    intros u (q & [] & _).
  - rewrite group_members_cons in H. destruct (get_next E q s x) as [[v|e|] s1] eqn:EG.
    + destruct (Hok q (or_introl eq_refl) s x (Ok v) s1 HI EG) as (HI1 & Hsp).
      destruct (Hsp v eq_refl) as (Pv & Hxv & Mv).
      destruct (IH s1 x _ r s' (fun q' Hq' => Hok q' (or_intror Hq')) HI1 H) as (HI' & Hr).
      split; [exact HI'|]. intros m Hm. specialize (Hr m Hm).
      destruct m as [w|]; [|destruct Hr as (Hc & _); discriminate].
      destruct Hr as (Hsrc & Hle & Hmin).
      assert (Hwa : w <= min_acc acc v) by (apply Hle; reflexivity).
      pose proof (min_acc_le_v acc v) as Hav.
      split; [|split].
      * destruct Hsrc as [Heq|((q' & Hq' & Pq') & Hxw)].
        -- injection Heq as Heq. destruct (min_acc_cases acc v) as [Hc|Hc].
           ++ right. split; [exists q; split; [left; reflexivity|]; congruence|lia].
           ++ left. congruence.
        -- right. split; [exists q'; split; [right; exact Hq'|exact Pq']|exact Hxw].
      * intros a Ha. pose proof (min_acc_le_acc acc v a Ha). lia.
      * intros u (q' & [<-|Hq'] & Pq') Hxu.
        -- specialize (Mv u Pq' Hxu). lia.
        -- apply Hmin; [exists q'; split; assumption|exact Hxu].
    + injection H as <- <-. destruct (Hok q (or_introl eq_refl) s x _ s1 HI EG) as (HI1 & _).
      split; [exact HI1|]. intros m Hm. discriminate.
    + injection H as <- <-. destruct (Hok q (or_introl eq_refl) s x _ s1 HI EG) as (HI1 & _).
      split; [exact HI1|]. intros m Hm. discriminate.
Qed.

(* one round: the minimum of the members' answers is the earliest occurrence of the union after x *)
Lemma group_round_min ps s x r s' :
  (forall q, In q ps -> member_ok (P q) q) -> Inv s -> group_members E ps s x None = (r, s') ->
  Inv s' /\ forall m, r = Ok m ->
    match m with None => ps = [] | Some w => earliest_after (union_occ ps) x w end.
Proof.
  intros Hok HI H. destruct (group_members_spec _ _ _ _ _ _ Hok HI H) as (HI' & Hr).
  split; [exact HI'|]. intros m Hm. specialize (Hr m Hm). destruct m as [w|]; [|apply Hr].
  destruct Hr as ([Hc|(Hu & Hx)] & _ & Hmin); [discriminate|].
  split; [exact Hu|]. split; [exact Hx|exact Hmin].
Qed.

(* C05, group: a group whose members are ok is ok, with the union of the members' occurrence sets cut down
   by the group filter as its occurrence set.  Loop invariant: the walk position x never falls behind dt and
   every admissible occurrence of the union after dt is still ahead of x. *)
Definition group_I (ps : list producer) (f : option filt) (dt : Z) (xs : Z * pstate) : Prop :=
  Inv (snd xs) /\ dt <= fst xs /\
  forall u, union_occ ps u -> allow_opt z f u = true -> dt < u -> fst xs < u.
Definition group_Q (ps : list producer) (f : option filt) (dt : Z) (rs : result Z * pstate) : Prop :=
  Inv (snd rs) /\ forall v, fst rs = Ok v ->
    earliest_after (fun u => union_occ ps u /\ allow_opt z f u = true) dt v.

Lemma group_round_step ps f dt :
  (forall q, In q ps -> member_ok (P q) q) ->
  forall xs, group_I ps f dt xs ->
    match group_round E ps f dt xs with inl xs' => group_I ps f dt xs' | inr rs => group_Q ps f dt rs end.
Proof.
  intros Hok [x s] (HIs & Hx & Hall). unfold group_I, group_Q. cbn [fst snd] in *. unfold group_round.
  destruct (group_members E ps s x None) as [[m|e|] s1] eqn:EM;
    destruct (group_round_min _ _ _ _ _ Hok HIs EM) as (HI1 & Hm); cbn [bind_state].
  - specialize (Hm m eq_refl). destruct m as [w|].
    + destruct Hm as (Uw & Hxw & Mw).
      destruct ((dt <? w) && allow_opt z f w) eqn:EGd.
      * apply andb_true_iff in EGd. destruct EGd as (E1 & E2). cbn [fst snd]. split; [exact HI1|].
        intros v Hv. injection Hv as <-. split; [split; assumption|]. split; [lia|].
        intros u (Uu & Au) Hu. apply Mw; [exact Uu|]. apply Hall; assumption.
      * cbn [fst snd]. split; [exact HI1|]. split; [lia|].
        intros u Uu Au Hu. specialize (Hall u Uu Au Hu). specialize (Mw u Uu Hall).
        destruct (Z.eq_dec u w) as [->|Hne]; [|lia].
        apply andb_false_iff in EGd. destruct EGd as [Ef|Ef]; [lia|congruence].
    + cbn [fst snd]. split; [exact HI1|]. intros v Hv. discriminate.
  - cbn [fst snd]. split; [exact HI1|]. intros v Hv. discriminate.
  - cbn [fst snd]. split; [exact HI1|]. intros v Hv. discriminate.
Qed.

Theorem group_member_ok ps f :
  (forall q, In q ps -> member_ok (P q) q) ->
  member_ok (fun u => union_occ ps u /\ allow_opt z f u = true) (PGroup ps f).
Proof.
  intros Hok st dt r st' HI H. rewrite get_next_group in H.
  assert (Hinit : group_I ps f dt (dt, st)).
  { unfold group_I. cbn [fst snd]. split; [exact HI|]. split; [lia|]. intros; assumption. }
  pose proof (iter_until_rule (group_round E ps f dt) (group_I ps f dt) (group_Q ps f dt) loop_bound (dt, st)
                (group_round_step ps f dt Hok) Hinit) as R.
  destruct (iter_until loop_bound (group_round E ps f dt) (dt, st)) as [[x s]|[r0 s0]];
    cbn [finish_loop] in H; injection H as <- <-.
  - destruct R as (HI' & _). cbn [snd] in HI'. split; [exact HI'|]. intros v Hv. discriminate.
  - exact R.
Qed.

End Group.

(* ------------------------------------------------------------------------------------------- *)
(* the stateless form: every member answers, from ANY state, with the earliest element after the reference
   instant of an occurrence set that does not depend on the state *)
Theorem group_earliest E (P : producer -> Z -> Prop) ps f st dt v st' :
  (forall q, In q ps -> forall s x n s', get_next E q s x = (Ok n, s') -> earliest_after (P q) x n) ->
  get_next E (PGroup ps f) st dt = (Ok v, st') ->
  earliest_after (fun u => (exists q, In q ps /\ P q u) /\ allow_opt (pz E) f u = true) dt v.
Proof.
  intros Hspec H.
  assert (Hok : forall q, In q ps -> member_ok E (fun _ => True) (P q) q).
  { intros q Hq s x r s' _ Hg. split; [exact I|]. intros n ->. eapply Hspec; eassumption. }
  destruct (group_member_ok E (fun _ => True) P ps f Hok st dt _ st' I H) as (_ & Hv).
  apply (Hv v eq_refl).
Qed.

(* groups of time-of-day triggers (stateless members) *)
Theorem group_of_times_earliest E (trs : list (treplacer * option filt)) f st dt v st' :
  wf_tz_b (pz E) = true -> (forall tr g, In (tr, g) trs -> wf_tr tr) ->
  get_next E (PGroup (map (fun tg => PTime (fst tg) (snd tg)) trs) f) st dt = (Ok v, st') ->
  earliest_after (fun u => (exists tr g, In (tr, g) trs /\ occ_time (pz E) tr g u) /\
                           allow_opt (pz E) f u = true) dt v.
Proof.
  intros Hz Hwf H.
  pose (P := fun (q : producer) (u : Z) =>
               match q with PTime tr g => occ_time (pz E) tr g u | _ => False end).
  assert (Hspec : forall q, In q (map (fun tg => PTime (fst tg) (snd tg)) trs) ->
            forall s x n s', get_next E q s x = (Ok n, s') -> earliest_after (P q) x n).
  { intros q Hq s x n s' Hg. apply in_map_iff in Hq. destruct Hq as ([tr g] & <- & Hin). cbn [fst snd] in *.
    unfold P. eapply time_earliest_get_next; [exact Hz|eapply Hwf; exact Hin|exact Hg]. }
  pose proof (group_earliest E P _ f st dt v st' Hspec H) as (((q & Hq & Pq) & Ha) & Hgt & Hmin).
  split; [|split; [exact Hgt|]].
  - split; [|exact Ha]. apply in_map_iff in Hq. destruct Hq as ([tr g] & <- & Hin). exists tr, g.
    split; [exact Hin|exact Pq].
  - intros u ((tr & g & Hin & Hu) & Hau) Hdu. apply Hmin; [|exact Hdu]. split; [|exact Hau].
    exists (PTime tr g). split; [|exact Hu]. apply in_map_iff. exists (tr, g). split; [reflexivity|exact Hin].
Qed.

(* ------------------------------------------------------------------------------------------- *)
(* time-of-day triggers, interval triggers with a start, and groups of such, to any depth *)

(* the occurrence set of such an expression *)
Fixpoint occ (z : tz) (p : producer) (u : Z) : Prop :=
  match p with
  | PTime tr f => occ_time z tr f u
  | PInterval _ (Some s0) iv f => on_grid s0 iv u /\ allow_opt z f u = true
  | PGroup ps f =>
      (fix ex (l : list producer) : Prop := match l with [] => False | q :: t => occ z q u \/ ex t end) ps /\
      allow_opt z f u = true
  | _ => False
  end.

(* the class of expressions, with the side conditions on the parameters *)
Fixpoint tig (p : producer) : Prop :=
  match p with
  | PTime tr _ => wf_tr tr
  | PInterval _ (Some _) iv _ => 0 < iv
  | PGroup ps _ => (fix all (l : list producer) : Prop := match l with [] => True | q :: t => tig q /\ all t end) ps
  | _ => False
  end.

(* the interval members with the cache cell they use and their grid *)
Fixpoint leaves (p : producer) : list (nat * Z * Z) :=
  match p with
  | PInterval id (Some s0) iv _ => [(id, s0, iv)]
  | PGroup ps _ =>
      (fix fm (l : list producer) : list (nat * Z * Z) := match l with [] => [] | q :: t => leaves q ++ fm t end) ps
  | _ => []
  end.

(* two interval members that share a cache cell use the same grid *)
Definition consistent (G : list (nat * Z * Z)) : Prop :=
  forall id s0 iv s1 iv1, In (id, s0, iv) G -> In (id, s1, iv1) G -> s0 = s1 /\ iv = iv1.

(* the state invariant: a cached value lies on the grid of the member(s) using the cell *)
Definition cache_on_grid (G : list (nat * Z * Z)) (s : pstate) : Prop :=
  forall id s0 iv c, In (id, s0, iv) G -> ilookup id (icache s) = Some c -> on_grid s0 iv c.

Lemma cache_on_grid_pstate0 G : cache_on_grid G pstate0.
Proof. intros id s0 iv c _ H. cbn in H. discriminate. Qed.

Lemma ilookup_iset_eq id v l : ilookup id (iset id v l) = Some v.
Proof.
  induction l as [|[k w] t IH]; cbn [iset ilookup]; [rewrite Nat.eqb_refl; reflexivity|].
  destruct (Nat.eqb k id) eqn:Ek; cbn [ilookup]; rewrite Ek; [reflexivity|exact IH].
Qed.

Lemma ilookup_iset_neq id id' v l : id' <> id -> ilookup id' (iset id v l) = ilookup id' l.
Proof.
  intros Hne. induction l as [|[k w] t IH]; cbn [iset ilookup].
  - destruct (Nat.eqb_spec id id'); [congruence|reflexivity].
  - destruct (Nat.eqb_spec k id) as [->|Hk]; cbn [ilookup].
    + destruct (Nat.eqb_spec id id'); [congruence|reflexivity].
    + destruct (Nat.eqb k id'); [reflexivity|exact IH].
Qed.

Lemma on_grid_refl c iv : 0 < iv -> on_grid c iv c.
Proof. intros H. unfold on_grid. rewrite Z.sub_diag. apply Z.mod_0_l. lia. Qed.

Lemma occ_group_iff z ps f u :
  occ z (PGroup ps f) u <-> union_occ (occ z) ps u /\ allow_opt z f u = true.
Proof.
  cbn [occ]. unfold union_occ.
  assert (Hl : (fix ex (l : list producer) : Prop := match l with [] => False | q :: t => occ z q u \/ ex t end) ps
               <-> exists q, In q ps /\ occ z q u).
  { induction ps as [|q t IH].
    - split; [intros []|intros (q & [] & _)].
    - rewrite IH. split.
      + intros [H|(q' & Hq' & H)]; [exists q; split; [left; reflexivity|exact H]|exists q'; split; [right; exact Hq'|exact H]].
      + intros (q' & [<-|Hq'] & H); [left; exact H|right; exists q'; split; assumption]. }
  rewrite Hl. reflexivity.
Qed.

Lemma tig_group_In ps f q : tig (PGroup ps f) -> In q ps -> tig q.
Proof.
  cbn [tig]. induction ps as [|h t IH]; [intros _ []|].
  intros (Hh & Ht) [<-|Hq]; [exact Hh|apply IH; assumption].
Qed.

Lemma leaves_group_In ps f q : In q ps -> incl (leaves q) (leaves (PGroup ps f)).
Proof.
  cbn [leaves]. induction ps as [|h t IH]; [intros []|].
  intros [<-|Hq]; [apply incl_appl; apply incl_refl|apply incl_appr; apply IH; exact Hq].
Qed.

Section TIG.
Variable E : penv.
Local Notation z := (pz E).
Variable G : list (nat * Z * Z).
Hypothesis Hz : wf_tz_b z = true.
Hypothesis HG : consistent G.

Lemma time_member_ok tr f : wf_tr tr -> member_ok E (cache_on_grid G) (occ z (PTime tr f)) (PTime tr f).
Proof.
  intros Ht s x r s' HI H. cbn [get_next] in H. injection H as <- <-. split; [exact HI|].
  intros n Hn. cbn [occ]. apply time_earliest; assumption.
Qed.

Lemma interval_member_ok id s0 iv f :
  0 < iv -> In (id, s0, iv) G ->
  member_ok E (cache_on_grid G) (occ z (PInterval id (Some s0) iv f)) (PInterval id (Some s0) iv f).
Proof.
  intros Hiv Hin s x r s' HI H. cbn [get_next] in H.
  remember (match ilookup id (icache s) with Some c => c | None => s0 end) as c eqn:Ec.
  assert (Hc : on_grid s0 iv c).
  { subst c. destruct (ilookup id (icache s)) as [c|] eqn:EL; [eapply HI; eassumption|apply on_grid_refl; exact Hiv]. }
  destruct (next_interval z (interval_fuel E) c iv f x) as [g|e|] eqn:EN.
  - injection H as <- <-. destruct (interval_earliest _ _ _ _ _ _ _ Hiv EN) as (Hxg & Hg & Ha & Hmin).
    assert (Hg0 : on_grid s0 iv g) by (apply (on_grid_trans s0 iv c g Hiv Hc); exact Hg).
    split.
    + intros id' s1 iv1 c' Hin' HL. cbn [icache with_icache] in HL.
      destruct (Nat.eq_dec id' id) as [->|Hne].
      * rewrite ilookup_iset_eq in HL. injection HL as <-.
        destruct (HG _ _ _ _ _ Hin Hin') as (<- & <-). exact Hg0.
      * rewrite ilookup_iset_neq in HL by exact Hne. eapply HI; eassumption.
    + intros n Hn. injection Hn as <-. cbn [occ]. split; [split; assumption|]. split; [exact Hxg|].
      intros u (Hu & Hau) Hxu. destruct (Z.lt_ge_cases u g) as [Hlt|Hge]; [|lia].
      assert (Hf : allow_opt z f u = false).
      { apply Hmin; [lia|]. apply (on_grid_trans s0 iv c u Hiv Hc). exact Hu. }
      congruence.
  - injection H as <- <-. split; [exact HI|]. intros n Hn; discriminate.
  - injection H as <- <-. split; [exact HI|]. intros n Hn; discriminate.
Qed.

(* induction over the producer syntax *)
Theorem tig_member_ok : forall p, tig p -> incl (leaves p) G -> member_ok E (cache_on_grid G) (occ z p) p.
Proof.
  fix IH 1. intros [tr f|id [s0|] iv f|ps f|q off f|q tr f|q tr f|q lo hi f|key f] Ht Hincl;
    try (cbn [tig] in Ht; contradiction).
  - apply time_member_ok. exact Ht.
  - apply interval_member_ok; [exact Ht|]. apply Hincl. left; reflexivity.
  - assert (Hm : forall q, In q ps -> member_ok E (cache_on_grid G) (occ z q) q).
    { assert (Hts : forall q, In q ps -> tig q) by (intros q; apply (tig_group_In ps f q Ht)).
      assert (Hls : forall q, In q ps -> incl (leaves q) G).
      { intros q Hq. eapply incl_tran; [apply (leaves_group_In ps f q Hq)|exact Hincl]. }
      clear Ht Hincl. revert Hts Hls. generalize ps. fix IHl 1. intros [|h t] Hts Hls q Hq; [destruct Hq|].
      destruct Hq as [<-|Hq].
      - apply IH; [apply Hts; left; reflexivity|apply Hls; left; reflexivity].
      - apply (IHl t); [intros q' Hq'; apply Hts; right; exact Hq'|intros q' Hq'; apply Hls; right; exact Hq'|exact Hq]. }
    pose proof (group_member_ok E (cache_on_grid G) (occ z) ps f Hm) as Hgrp.
    intros s x r s' HI H. destruct (Hgrp s x r s' HI H) as (HI' & Hr). split; [exact HI'|].
    intros n Hn. eapply earliest_after_ext; [|apply Hr; exact Hn].
    intros u. symmetry. apply occ_group_iff.
Qed.

(* C05 for the whole class: from a state whose cache is on the grids, the answer is the earliest element of
   the expression's occurrence set after the reference instant, and the cache stays on the grids *)
Theorem tig_earliest p st dt v st' :
  tig p -> incl (leaves p) G -> cache_on_grid G st ->
  get_next E p st dt = (Ok v, st') -> earliest_after (occ z p) dt v /\ cache_on_grid G st'.
Proof.
  intros Ht Hl HI H. destruct (tig_member_ok p Ht Hl st dt _ st' HI H) as (HI' & Hr).
  split; [apply Hr; reflexivity|exact HI'].
Qed.

(* a chain of answers lists the occurrence set in increasing order, nothing omitted, nothing repeated *)
Theorem tig_chain_enumerates p :
  tig p -> incl (leaves p) G ->
  forall n st dt, cache_on_grid G st -> enumerates (occ z p) dt (chain E p st dt n).
Proof.
  intros Ht Hl. induction n as [|n IHn]; intros st dt HI; cbn [chain]; [exact I|].
  destruct (get_next E p st dt) as [[v|e|] st'] eqn:EG; cbn [enumerates]; try reflexivity.
  destruct (tig_earliest p st dt v st' Ht Hl HI EG) as (H1 & H2). split; [exact H1|apply IHn; exact H2].
Qed.

End TIG.

(* C05, group, for the class: stated for the group itself, from the initial producer state *)
Theorem group_earliest_tig E ps f dt v st' :
  wf_tz_b (pz E) = true -> tig (PGroup ps f) -> consistent (leaves (PGroup ps f)) ->
  get_next E (PGroup ps f) pstate0 dt = (Ok v, st') ->
  earliest_after (fun u => (exists q, In q ps /\ occ (pz E) q u) /\ allow_opt (pz E) f u = true) dt v.
Proof.
  intros Hz Ht HG H.
  destruct (tig_earliest E _ Hz HG (PGroup ps f) pstate0 dt v st' Ht (incl_refl _) (cache_on_grid_pstate0 _) H) as (He & _).
  eapply earliest_after_ext; [|exact He]. intros u. apply occ_group_iff.
Qed.

(* ------------------------------------------------------------------------------------------- *)
(* Example (the scenario of finding F1, on the two-transition table, local time = UTC + 2 h in June):
   hourly from 2025-06-02T00:00Z  UNION  12:00 local, group filter not (09:00 <= local time < 09:30),
   asked at 08:30 local: 09:00 is rejected by the group filter, the answer is 10:00 local (08:00Z), not 12:00 *)
Definition ex_env : penv :=
  {| pz := berlin2; draw := fun _ _ _ => 0; sun_ev := fun _ _ => None; location := None;
     interval_fuel := 1%positive |}.
Definition ex_members : list producer :=
  [PInterval 0 (Some (1748822400 * NS)) (3600 * NS) None;
   PTime {| tr_tod := 12 * 3600 * NS; tr_sk := SkLater; tr_rp := RpTwice |} None].
Definition ex_gfilter : option filt := Some (FNot (FTime (Some (9 * 3600 * NS)) (Some ((9 * 3600 + 1800) * NS)))).

Example ex_group_answer :
  fst (get_next ex_env (PGroup ex_members ex_gfilter) pstate0 (1748845800 * NS)) = Ok (1748851200 * NS).
Proof. vm_compute. reflexivity. Qed.

Example ex_group_hyps :
  wf_tz_b (pz ex_env) = true /\ tig (PGroup ex_members ex_gfilter) /\
  consistent (leaves (PGroup ex_members ex_gfilter)).
Proof.
  split; [vm_compute; reflexivity|]. split.
  - cbn [tig ex_members]. unfold wf_tr. cbn [tr_tod]. change DAY with 86400000000000. change NS with 1000000000. lia.
  - intros id s0 iv s1 iv1 H1 H2. cbn in H1, H2.
    destruct H1 as [H1|[]]. destruct H2 as [H2|[]]. split; congruence.
Qed.

Example ex_group_earliest :
  earliest_after (fun u => (exists q, In q ex_members /\ occ berlin2 q u) /\ allow_opt berlin2 ex_gfilter u = true)
    (1748845800 * NS) (1748851200 * NS).
Proof.
  destruct ex_group_hyps as (Hz & Ht & Hc).
  destruct (get_next ex_env (PGroup ex_members ex_gfilter) pstate0 (1748845800 * NS)) as [r st'] eqn:EG.
  assert (Hr : r = Ok (1748851200 * NS)) by (pose proof ex_group_answer as H; rewrite EG in H; exact H).
  subst r. exact (group_earliest_tig ex_env ex_members ex_gfilter _ _ st' Hz Ht Hc EG).
Qed.
