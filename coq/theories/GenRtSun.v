(* GenRtSun.v — what the code generated from src/eascheduler/producers/prod_sun.py (coq/gen/GenSun.v, written by
   tools/gen_sun.py on every run) is expressed in, on top of GenRtProd.v.  No proofs here.

   The model of Producers.v names a sun producer by a number [key] ("class + parameters") and a configured
   location by a number [loc]; the Python code handles objects: an astral Observer with three fields, a producer
   object with a class and parameters, and cache keys that are tuples of such values.  A [sunworld] says which
   Python values the model's numbers stand for:
     w_observer loc   the Observer that set_location built for location [loc]   (floats are opaque: a Z names one)
     w_sun key        class and parameters of the producer object named [key]
     w_abs tuple      the model's cache key a Python key tuple denotes (None: not a cache key)
     w_mk_observer    astral's Observer(latitude, longitude, elevation) constructor (set_location only).
   SUN_CACHE, the OrderedDict, IS the model's [scache] (oldest first) read through [w_abs]: a dictionary operation
   on a tuple that [w_abs] does not recognise is STUCK ([None], which is also "out of fuel": the model of the sun
   producers never runs out of fuel, so a stuck path can never be proved equal to the model).
   astral is an oracle: `self.func(observer, date)` is [astral_call E key]: the model's event table
   [sun_ev E key] of the configured location, None = ValueError.                                               *)
From EAS Require Import Base Civil Time Filters Replace Producers GenRtProd.
From EASGen Require Import Generated.

(* hashable Python values that occur in cache keys *)
Inductive pyv :=
  | VDate (d : Z)          (* whenever.Date: its day number *)
  | VFloat (x : Z)         (* a float (latitude, longitude, elevation, azimuth): opaque, named by a Z *)
  | VClass (c : nat)       (* a class object *)
  | VDir (d : nat).        (* astral.SunDirection member *)
Definition pykey := list pyv.

Record observer := { o_latitude : Z; o_longitude : Z; o_elevation : Z }.

(* dynamically typed arguments of set_location *)
Inductive pyty := TInt | TFloat | TStr | TTuple.
Inductive pyarg :=
  | AInt (n : Z) | AFloat (x : Z) | AStr (id : Z) | ATuple (id : Z)   (* id: opaque *)
  | AOther.                                                        (* a value of any other type *)
Definition ty_memb (t : pyty) (l : list pyty) : bool :=
  existsb (fun u => match t, u with TInt, TInt | TFloat, TFloat | TStr, TStr | TTuple, TTuple => true | _, _ => false end) l.
Definition py_isinstance (a : pyarg) (ts : list pyty) : bool :=
  match a with
  | AInt _ => ty_memb TInt ts | AFloat _ => ty_memb TFloat ts | AStr _ => ty_memb TStr ts
  | ATuple _ => ty_memb TTuple ts | AOther => false
  end.

(* the producer objects of prod_sun.py *)
Inductive sunobj :=
  | SunPlain (cls : nat)                                   (* Dawn / Sunrise / Noon / Sunset / Dusk producer *)
  | SunElev (cls : nat) (elevation : Z) (direction : nat)  (* SunElevationProducerCompare *)
  | SunAz (cls : nat) (azimuth : Z).                       (* SunAzimuthProducerCompare *)

Record sunworld := {
  w_observer : nat -> observer;
  w_sun : nat -> sunobj;
  w_abs : pykey -> option (nat * Z * nat);
  w_mk_observer : pyarg -> pyarg -> pyarg -> pres observer     (* astral.Observer(lat, lon, elev): may raise *)
}.

(* the module global OBSERVER as the environment fixes it *)
Definition observer_global (W : sunworld) (E : penv) : option observer := option_map (w_observer W) (location E).

(* dt.to_tz('UTC').date() (and .py_date()) *)
Definition utc_date (i : Z) : Z := utc_day i.

(* astral: self.func(observer, date) for the producer named [key]; the table of [E] is that of the configured
   location, so the observer argument is not looked at *)
Definition astral_call (E : penv) (key : nat) (o : observer) (d : Z) : pres Z :=
  match sun_ev E key d with Some v => PRet v | None => PExc (XErr EValueError) end.

(* a Python datetime is its Z nanoseconds; it has microsecond resolution, so `x.microsecond` is nonzero exactly
   when x is not on a full second *)
Definition py_subsecond (v : Z) : Z := v mod NS.                 (* truth value of x.microsecond *)
Definition py_floor_second (v : Z) : Z := v - v mod NS.          (* x.replace(microsecond=0) *)

(* ---- OrderedDict operations on SUN_CACHE ---- *)
Fixpoint sset (k : nat * Z * nat) (v : Z) (l : list ((nat * Z * nat) * Z)) : list ((nat * Z * nat) * Z) :=
  match l with
  | [] => [(k, v)]
  | (k', w) :: t => if skey_eqb k k' then (k', v) :: t else (k', w) :: sset k v t
  end.

(* d.get(key): outer None = stuck *)
Definition od_get (W : sunworld) (k : pykey) (s : pstate) : option (option Z) :=
  match w_abs W k with None => None | Some mk => Some (slookup mk (scache s)) end.
(* d.move_to_end(key): outer None = stuck, inner None = KeyError *)
Definition od_move_to_end (W : sunworld) (k : pykey) (s : pstate) : option (option pstate) :=
  match w_abs W k with
  | None => None
  | Some mk => Some match slookup mk (scache s) with
                    | None => None
                    | Some v => Some (with_scache (sremove mk (scache s) ++ [(mk, v)]) s)
                    end
  end.
(* len(d) *)
Definition od_len (s : pstate) : Z := Z.of_nat (length (scache s)).
(* d.popitem(last=False) / d.popitem(last=True): None = KeyError (empty) *)
Definition od_popitem_first (s : pstate) : option pstate :=
  match scache s with [] => None | _ :: t => Some (with_scache t s) end.
Definition od_popitem_last (s : pstate) : option pstate :=
  match scache s with [] => None | _ :: _ => Some (with_scache (removelast (scache s)) s) end.
(* d[key] = v: the value is replaced in place, a new key goes to the end; None = stuck *)
Definition od_set (W : sunworld) (k : pykey) (v : Z) (s : pstate) : option pstate :=
  match w_abs W k with None => None | Some mk => Some (with_scache (sset mk v (scache s)) s) end.

(* ---- for <i> in range(<n>): ... else: ...  with a `break` that carries its own variables ---- *)
Inductive rstep (X B A : Type) :=
  | RNext (x : X)           (* end of the body / continue: the loop-carried variables *)
  | RBreak (b : B)          (* break: the variables the code after the loop reads *)
  | RReturn (a : A).
Arguments RNext {X B A} x.
Arguments RBreak {X B A} b.
Arguments RReturn {X B A} a.
Inductive rout (X B A : Type) :=
  | RExhausted (x : X)      (* the range ran out: the `else` clause of the loop runs *)
  | RBroken (b : B)         (* left by `break`: the `else` clause is skipped *)
  | RReturned (a : A).
Arguments RExhausted {X B A} x.
Arguments RBroken {X B A} b.
Arguments RReturned {X B A} a.

Definition r_next {X B A} (x : X) (s : pstate) : PM (rstep X B A) := Some (s, PRet (RNext x)).
Definition r_break {X B A} (b : B) (s : pstate) : PM (rstep X B A) := Some (s, PRet (RBreak b)).
Definition r_return {X B A} (a : A) (s : pstate) : PM (rstep X B A) := Some (s, PRet (RReturn a)).
Definition r_raise {X B A} (s : pstate) (e : pexn) : PM (rstep X B A) := Some (s, PExc e).

Fixpoint for_range_from {X B A} (cnt : nat) (i : Z) (step : Z -> X -> pstate -> PM (rstep X B A)) (x : X) (s : pstate)
  : PM (rout X B A) :=
  match cnt with
  | O => Some (s, PRet (RExhausted x))
  | S c =>
      match step i x s with
      | None => None
      | Some (s', PExc e) => Some (s', PExc e)
      | Some (s', PRet (RNext x')) => for_range_from c (i + 1) step x' s'
      | Some (s', PRet (RBreak b)) => Some (s', PRet (RBroken b))
      | Some (s', PRet (RReturn a)) => Some (s', PRet (RReturned a))
      end
  end.
Definition for_range {X B A} (n : Z) := @for_range_from X B A (Z.to_nat n) 0.

(* ---- set_location: the state of that function is the module global OBSERVER ---- *)
Definition GM (A : Type) : Type := (option observer * pres A)%type.     (* new OBSERVER, outcome *)
Definition g_return {A} (a : A) (s : option observer) : GM A := (s, PRet a).
Definition g_raise {A} (s : option observer) (e : pexn) : GM A := (s, PExc e).
