(* C08 — One-shot and countdown jobs fire exactly when promised (statements only). *)
From EAS Require Import Base Sched SchedInv SchedApi SchedProps SchedLog
                        SchedExact SchedExact2 SchedExact3 SchedExact4.

Theorem C08_invariant_reachable :
  forall E fuel hs t0 en ops s rs,
    run E fuel hs (init t0 en) ops = (s, rs) -> ~ In NoFuel rs -> Inv s.
Proof. intros E fuel hs t0 en ops s rs H. exact (run_inv E fuel hs ops _ _ _ (Inv_init t0 en) H). Qed.
Print Assumptions C08_invariant_reachable.

(* a start never happens before the announced instant (the requested instant of a one-shot, reset
   instant + countdown of a countdown job) ... *)
Theorem C08_never_early :
  forall E fuel hs t0 en ops s rs,
    run E fuel hs (init t0 en) ops = (s, rs) -> Forall not_early (log s).
Proof. exact never_early. Qed.
Print Assumptions C08_never_early.

(* ... and not later than the first wake-up at or after it *)
Theorem C08_on_time_after_wake :
  forall E fuel hs s s', Inv s -> step_op E fuel hs s OWake = (s', Done) -> enabled s' = true -> NoDue s'.
Proof. exact wake_runs_due. Qed.
Print Assumptions C08_on_time_after_wake.

(* ---- additions for props/C08.v -------------------------------------------------------------------
   change the import line to:
   From EAS Require Import Base Sched SchedInv SchedApi SchedProps SchedLog
                           SchedExact SchedExact2 SchedExact3 SchedExact4.
   [op_typed] / [ops_typed]: reset / set_countdown are only used on countdown jobs, resume only on recurring
   jobs, pause not on one-shot jobs - what the control classes of the library offer.                   *)

(* in every reachable state the announced time of a one-shot job is its requested instant (and countdown
   values are positive) *)
Theorem C08_once_announces_requested_instant :
  forall E, (forall j k t, exists v, prod E j k t = Ok v /\ t < v) ->
  forall fuel hs t0 en ops s rs,
    ops_typed E fuel hs (init t0 en) ops -> run E fuel hs (init t0 en) ops = (s, rs) -> ~ In NoFuel rs ->
    Inv s /\
    (forall j a, jkind (jobs s j) = KOnce -> jnext (jobs s j) = Some a -> a = jexec_t (jobs s j)) /\
    (forall j, jkind (jobs s j) = KCountdown -> 0 < jsecs (jobs s j)).
Proof. exact exact_reachable. Qed.
Print Assumptions C08_once_announces_requested_instant.

(* every start of a one-shot job is the start announced for its requested instant, not before that instant, and
   afterwards the job is finished *)
Theorem C08_once_start_exact :
  forall E, (forall j k t, exists v, prod E j k t = Ok v /\ t < v) ->
  forall fuel hs s o s' r j t a oi,
    Inv s -> ExactInv s -> op_typed s o -> step_op E fuel hs s o = (s', r) -> r <> NoFuel ->
    In (EExec j t a oi) (new_events s s') -> jkind (jobs s' j) = KOnce ->
    a = jexec_t (jobs s' j) /\ a <= t /\ t = now s /\ jstatus (jobs s' j) = Finished /\ jnext (jobs s' j) = None.
Proof. exact once_start_exact. Qed.
Print Assumptions C08_once_start_exact.

(* ... and in every history it is started at most once *)
Theorem C08_once_at_most_once :
  forall E, (forall j k t, exists v, prod E j k t = Ok v /\ t < v) ->
  forall fuel hs t0 en ops s rs j,
    ops_typed E fuel hs (init t0 en) ops -> run E fuel hs (init t0 en) ops = (s, rs) -> ~ In NoFuel rs ->
    (j < njobs s)%nat -> jkind (jobs s j) = KOnce ->
    (count_exec j (log s) <= 1)%nat /\ (count_exec j (log s) = 1%nat -> jstatus (jobs s j) = Finished).
Proof. exact once_at_most_once. Qed.
Print Assumptions C08_once_at_most_once.

(* every start of a countdown job is the start for the next-run time it had announced before the operation
   (reset() itself never starts the job), and afterwards the job is paused with no next-run time *)
Theorem C08_countdown_start_exact :
  forall E, (forall j k t, exists v, prod E j k t = Ok v /\ t < v) ->
  forall fuel hs s o s' r j t a oi,
    Inv s -> ExactInv s -> op_typed s o -> step_op E fuel hs s o = (s', r) -> r <> NoFuel ->
    In (EExec j t a oi) (new_events s s') -> jkind (jobs s' j) = KCountdown ->
    jstatus (jobs s j) = Running /\ jnext (jobs s j) = Some a /\ a <= t /\ t = now s /\
    jstatus (jobs s' j) = Paused /\ jnext (jobs s' j) = None /\ jkind (jobs s j) = KCountdown.
Proof. exact countdown_start_exact. Qed.
Print Assumptions C08_countdown_start_exact.

(* the next-run time of a countdown job is set by its own reset() only, to (instant of the reset + countdown value
   in force at that instant); every other operation (also stop, cancel, set_countdown) keeps or clears it *)
Theorem C08_countdown_next_only_by_reset :
  forall E, (forall j k t, exists v, prod E j k t = Ok v /\ t < v) ->
  forall fuel hs s o s' r j a,
    Inv s -> op_typed s o -> step_op E fuel hs s o = (s', r) -> r <> NoFuel ->
    jkind (jobs s j) = KCountdown -> ~ (is_creation o /\ j = njobs s) ->
    jnext (jobs s' j) = Some a ->
    jnext (jobs s j) = Some a \/ (o = OReset j /\ a = now s + jsecs (jobs s j)).
Proof. exact countdown_next_only_by_reset. Qed.
Print Assumptions C08_countdown_next_only_by_reset.

(* never without a preceding reset, at most once per reset: (starts so far) + (1 if a start is pending) is bounded
   by the number of reset() calls on the job, in every history *)
Theorem C08_no_exec_without_reset :
  forall E, (forall j k t, exists v, prod E j k t = Ok v /\ t < v) ->
  forall fuel hs t0 en ops s rs j,
    ops_typed E fuel hs (init t0 en) ops -> run E fuel hs (init t0 en) ops = (s, rs) -> ~ In NoFuel rs ->
    (j < njobs s)%nat -> jkind (jobs s j) = KCountdown ->
    (count_exec j (log s) + pend s j <= resets j ops)%nat.
Proof. exact no_exec_without_reset. Qed.
Print Assumptions C08_no_exec_without_reset.

(* kind, requested instant and key of an existing job never change *)
Theorem C08_job_identity_stable :
  forall E, (forall j k t, exists v, prod E j k t = Ok v /\ t < v) ->
  forall fuel hs s o s' r j,
    Inv s -> step_op E fuel hs s o = (s', r) -> r <> NoFuel -> ~ (is_creation o /\ j = njobs s) ->
    jkind (jobs s' j) = jkind (jobs s j) /\ jexec_t (jobs s' j) = jexec_t (jobs s j) /\
    jkey (jobs s' j) = jkey (jobs s j).
Proof. exact job_identity_stable. Qed.
Print Assumptions C08_job_identity_stable.

(* a finished job (a one-shot job that has run, a cancelled job) never starts again *)
Theorem C08_finished_never_restarts :
  forall E, (forall j k t, exists v, prod E j k t = Ok v /\ t < v) ->
  forall fuel hs ops s s' rs j, Inv s -> jstatus (jobs s j) = Finished -> (j < njobs s)%nat ->
    run E fuel hs s ops = (s', rs) -> ~ In NoFuel rs ->
    jstatus (jobs s' j) = Finished /\ count_exec j (log s') = count_exec j (log s).
Proof. exact finished_never_restarts. Qed.
Print Assumptions C08_finished_never_restarts.
