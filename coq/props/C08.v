(* C08 — One-shot and countdown jobs fire exactly when promised (statements only). *)
From EAS Require Import Base Sched SchedInv SchedApi SchedProps SchedLog.

Theorem C08_invariant_reachable :
  forall E fuel hs t0 en ops s rs,
    run E fuel hs (init t0 en) ops = (s, rs) -> ~ In NoFuel rs -> Inv s.
Proof. intros E fuel hs t0 en ops s rs H. exact (run_inv E fuel hs ops _ _ _ (Inv_init t0 en) H). Qed.
Print Assumptions C08_invariant_reachable.

(* a start never happens before the announced instant (the requested instant of a one-shot, reset
   instant + countdown of a countdown job) ... *)
Theorem C08_never_early :
  forall E fuel hs t0 en ops s rs,
    run E fuel hs (init t0 en) ops = (s, rs) -> Forall not_early (log s).
Proof. exact never_early. Qed.
Print Assumptions C08_never_early.

(* ... and not later than the first wake-up at or after it *)
Theorem C08_on_time_after_wake :
  forall E fuel hs s s', Inv s -> step_op E fuel hs s OWake = (s', Done) -> enabled s' = true -> NoDue s'.
Proof. exact wake_runs_due. Qed.
Print Assumptions C08_on_time_after_wake.
