(* C08 — One-shot and countdown jobs fire exactly when promised (statements only). *)
From EAS Require Import Base Sched SchedInv SchedApi SchedProps SchedLog
                        SchedExact SchedExact2 SchedExact3 SchedExact4.

Theorem C08_invariant_reachable :
  forall E fuel hs t0 en ops s rs,
    run E fuel hs (init t0 en) ops = (s, rs) -> ~ In NoFuel rs -> Inv s.
Proof. intros E fuel hs t0 en ops s rs H. exact (run_inv E fuel hs ops _ _ _ (Inv_init t0 en) H). Qed.
Print Assumptions C08_invariant_reachable.

(* a start never happens before the announced instant (the requested instant of a one-shot, reset
   instant + countdown of a countdown job) ... *)
Theorem C08_never_early :
  forall E fuel hs t0 en ops s rs,
    run E fuel hs (init t0 en) ops = (s, rs) -> Forall not_early (log s).
Proof. exact never_early. Qed.
Print Assumptions C08_never_early.

(* ... and not later than the first wake-up at or after it *)
Theorem C08_on_time_after_wake :
  forall E fuel hs s s', Inv s -> step_op E fuel hs s OWake = (s', Done) -> enabled s' = true -> NoDue s'.
Proof. exact wake_runs_due. Qed.
Print Assumptions C08_on_time_after_wake.

(* ---- additions for props/C08.v -------------------------------------------------------------------
   change the import line to:
   From EAS Require Import Base Sched SchedInv SchedApi SchedProps SchedLog
                           SchedExact SchedExact2 SchedExact3 SchedExact4.
   [op_typed] / [ops_typed]: reset / set_countdown are only used on countdown jobs, resume only on recurring
   jobs, pause not on one-shot jobs - what the control classes of the library offer.                   *)

(* in every reachable state the announced time of a one-shot job is its requested instant (and countdown
   values are positive) *)
Theorem C08_once_announces_requested_instant :
  forall E, (forall j k t, exists v, prod E j k t = Ok v /\ t < v) ->
  forall fuel hs t0 en ops s rs,
    ops_typed E fuel hs (init t0 en) ops -> run E fuel hs (init t0 en) ops = (s, rs) -> ~ In NoFuel rs ->
    Inv s /\
    (forall j a, jkind (jobs s j) = KOnce -> jnext (jobs s j) = Some a -> a = jexec_t (jobs s j)) /\
    (forall j, jkind (jobs s j) = KCountdown -> 0 < jsecs (jobs s j)).
Proof. exact exact_reachable. Qed.
Print Assumptions C08_once_announces_requested_instant.

(* every start of a one-shot job is the start announced for its requested instant, not before that instant, and
   afterwards the job is finished *)
Theorem C08_once_start_exact :
  forall E, (forall j k t, exists v, prod E j k t = Ok v /\ t < v) ->
  forall fuel hs s o s' r j t a oi,
    Inv s -> ExactInv s -> op_typed s o -> step_op E fuel hs s o = (s', r) -> r <> NoFuel ->
    In (EExec j t a oi) (new_events s s') -> jkind (jobs s' j) = KOnce ->
    a = jexec_t (jobs s' j) /\ a <= t /\ t = now s /\ jstatus (jobs s' j) = Finished /\ jnext (jobs s' j) = None.
Proof. exact once_start_exact. Qed.
Print Assumptions C08_once_start_exact.

(* ... and in every history it is started at most once *)
Theorem C08_once_at_most_once :
  forall E, (forall j k t, exists v, prod E j k t = Ok v /\ t < v) ->
  forall fuel hs t0 en ops s rs j,
    ops_typed E fuel hs (init t0 en) ops -> run E fuel hs (init t0 en) ops = (s, rs) -> ~ In NoFuel rs ->
    (j < njobs s)%nat -> jkind (jobs s j) = KOnce ->
    (count_exec j (log s) <= 1)%nat /\ (count_exec j (log s) = 1%nat -> jstatus (jobs s j) = Finished).
Proof. exact once_at_most_once. Qed.
Print Assumptions C08_once_at_most_once.

(* every start of a countdown job is the start for the next-run time it had announced before the operation
   (reset() itself never starts the job), and afterwards the job is paused with no next-run time *)
Theorem C08_countdown_start_exact :
  forall E, (forall j k t, exists v, prod E j k t = Ok v /\ t < v) ->
  forall fuel hs s o s' r j t a oi,
    Inv s -> ExactInv s -> op_typed s o -> step_op E fuel hs s o = (s', r) -> r <> NoFuel ->
    In (EExec j t a oi) (new_events s s') -> jkind (jobs s' j) = KCountdown ->
    jstatus (jobs s j) = Running /\ jnext (jobs s j) = Some a /\ a <= t /\ t = now s /\
    jstatus (jobs s' j) = Paused /\ jnext (jobs s' j) = None /\ jkind (jobs s j) = KCountdown.
Proof. exact countdown_start_exact. Qed.
Print Assumptions C08_countdown_start_exact.

(* the next-run time of a countdown job is set by its own reset() only, to (instant of the reset + countdown value
   in force at that instant); every other operation (also stop, cancel, set_countdown) keeps or clears it *)
Theorem C08_countdown_next_only_by_reset :
  forall E, (forall j k t, exists v, prod E j k t = Ok v /\ t < v) ->
  forall fuel hs s o s' r j a,
    Inv s -> op_typed s o -> step_op E fuel hs s o = (s', r) -> r <> NoFuel ->
    jkind (jobs s j) = KCountdown -> ~ (is_creation o /\ j = njobs s) ->
    jnext (jobs s' j) = Some a ->
    jnext (jobs s j) = Some a \/ (o = OReset j /\ a = now s + jsecs (jobs s j)).
Proof. exact countdown_next_only_by_reset. Qed.
Print Assumptions C08_countdown_next_only_by_reset.

(* never without a preceding reset, at most once per reset: (starts so far) + (1 if a start is pending) is bounded
   by the number of reset() calls on the job, in every history *)
Theorem C08_no_exec_without_reset :
  forall E, (forall j k t, exists v, prod E j k t = Ok v /\ t < v) ->
  forall fuel hs t0 en ops s rs j,
    ops_typed E fuel hs (init t0 en) ops -> run E fuel hs (init t0 en) ops = (s, rs) -> ~ In NoFuel rs ->
    (j < njobs s)%nat -> jkind (jobs s j) = KCountdown ->
    (count_exec j (log s) + pend s j <= resets j ops)%nat.
Proof. exact no_exec_without_reset. Qed.
Print Assumptions C08_no_exec_without_reset.

(* kind, requested instant and key of an existing job never change *)
Theorem C08_job_identity_stable :
  forall E, (forall j k t, exists v, prod E j k t = Ok v /\ t < v) ->
  forall fuel hs s o s' r j,
    Inv s -> step_op E fuel hs s o = (s', r) -> r <> NoFuel -> ~ (is_creation o /\ j = njobs s) ->
    jkind (jobs s' j) = jkind (jobs s j) /\ jexec_t (jobs s' j) = jexec_t (jobs s j) /\
    jkey (jobs s' j) = jkey (jobs s j).
Proof. exact job_identity_stable. Qed.
Print Assumptions C08_job_identity_stable.

(* a finished job (a one-shot job that has run, a cancelled job) never starts again *)
Theorem C08_finished_never_restarts :
  forall E, (forall j k t, exists v, prod E j k t = Ok v /\ t < v) ->
  forall fuel hs ops s s' rs j, Inv s -> jstatus (jobs s j) = Finished -> (j < njobs s)%nat ->
    run E fuel hs s ops = (s', rs) -> ~ In NoFuel rs ->
    jstatus (jobs s' j) = Finished /\ count_exec j (log s') = count_exec j (log s).
Proof. exact finished_never_restarts. Qed.
Print Assumptions C08_finished_never_restarts.
(* ---- the tie to the source by translation (job classes): coq/gen/GenJobs.v is regenerated from src/eascheduler/jobs/*.py
   on every run (tools/gen_jobs.py) and these theorems are re-checked against it (coq/theories/GenJobsEq.v).
   JobBase.execute() with the class dispatch (OneTimeJob: job_finish; CountdownJob: set_next_run(None); DateTimeJob: the
   trigger, the past test, set_next_run) is the model's exec_job, and the generated scheduler closed with the GENERATED
   execute ([knot2]) computes the model's core from every state the invariant lemmas speak about. *)
From EAS Require GenRt GenRtJobs GenSchedEq GenJobsEq.
Theorem C08_generated_jobs_recognised : EASGen.GenJobs.gen_jobs_status_v = EASGen.GenJobs.GenJobsOk.
Proof. exact GenJobsEq.gen_jobs_recognised. Qed.
Print Assumptions C08_generated_jobs_recognised.
Theorem C08_generated_execute_is_exec_open : forall E R j t s,
  jnext (jobs s j) = Some t -> jlinked (jobs s j) = true -> jstatus (jobs s j) <> Finished ->
  GenRtJobs.to_M (EASGen.GenJobs.g_execute E R j s) = GenRt.exec_open E (GenRtJobs.jr_remove_job R) j s.
Proof. exact GenJobsEq.gen_execute_is_exec_open. Qed.
Print Assumptions C08_generated_execute_is_exec_open.
Theorem C08_generated_execute_is_exec_job : forall E f X j t s s',
  WFq (j :: X) s -> ~ In j (queue s) -> jstatus (jobs s j) = Running -> enabled s = true -> Tl s ->
  jnext (jobs s j) = Some t -> exec_job E (S f) j t s = Some s' ->
  GenRtJobs.to_M (EASGen.GenJobs.g_execute E (GenJobsEq.jrec_of (GenJobsEq.knot2 E f)) j s) = Some (s', GenRt.Ret) \/
  exists s'', GenRtJobs.to_M (EASGen.GenJobs.g_execute E (GenJobsEq.jrec_of (GenJobsEq.knot2 E f)) j s)
                = Some (s'', GenRt.Exc GenRt.XUser) /\ s' = add_ev (EHandler (HJob j)) s''.
Proof. exact GenJobsEq.gen_execute_is_exec_job. Qed.
Print Assumptions C08_generated_execute_is_exec_job.
Theorem C08_generated_closed_system_is_model : forall E f, GenJobsEq.agrees2 E f.
Proof. exact GenJobsEq.gen_agrees2. Qed.
Print Assumptions C08_generated_closed_system_is_model.
Theorem C08_generated_wake_is_model : forall E fuel hs s s' w,
  Inv s -> timer s = Some w -> w <= now s -> step_op E fuel hs s OWake = (s', Done) ->
  GenJobsEq.gen2_run_jobs E fuel s = Some (s', GenRt.Ret).
Proof. exact GenJobsEq.gen2_wake_is_model. Qed.
Print Assumptions C08_generated_wake_is_model.
Theorem C08_generated_early_wake_is_model : forall E fuel hs s s' w,
  Inv s -> timer s = Some w -> step_op E fuel hs s OEarlyWake = (s', Done) ->
  GenJobsEq.gen2_run_jobs E fuel s = Some (s', GenRt.Ret).
Proof. exact GenJobsEq.gen2_early_wake_is_model. Qed.
Print Assumptions C08_generated_early_wake_is_model.
Theorem C08_generated_enable_is_model : forall E fuel hs s b s',
  Inv s -> step_op E fuel hs s (OEnable b) = (s', Done) -> GenJobsEq.gen2_set_enabled E fuel b s = Some (s', GenRt.Ret).
Proof. exact GenJobsEq.gen2_enable_is_model. Qed.
Print Assumptions C08_generated_enable_is_model.
(* CountdownJob.reset / set_countdown on every reachable state.  The file re-tests the new run time against the clock;
   the model does not, because a countdown is positive (SecsPos, exact_step_op): hence the hypothesis on jsecs. *)
Theorem C08_generated_reset_is_model : forall E fuel hs s j s' r,
  Inv s -> jkind (jobs s j) = KCountdown -> 0 <= jsecs (jobs s j) ->
  step_op E fuel hs s (OReset j) = (s', r) -> r <> NoFuel ->
  GenJobsEq.gen_reset E fuel j s = GenJobsEq.ret_of r s'.
Proof. exact GenJobsEq.gen_reset_is_model. Qed.
Print Assumptions C08_generated_reset_is_model.
Theorem C08_generated_set_countdown_is_model : forall E fuel hs s j secs s' r,
  jkind (jobs s j) = KCountdown ->
  step_op E fuel hs s (OSetCountdown j secs) = (s', r) ->
  GenJobsEq.gen_set_countdown E fuel j secs s = GenJobsEq.ret_of r s'.
Proof. exact GenJobsEq.gen_set_countdown_is_model. Qed.
Print Assumptions C08_generated_set_countdown_is_model.
(* JobBase.__lt__ is the comparison the model's bisect.insort uses *)
Theorem C08_generated_lt_is_job_lt : forall s a b, EASGen.GenJobs.g_JobBase_lt a b s = job_lt s a b.
Proof. exact GenJobsEq.gen_lt_is_job_lt. Qed.
Print Assumptions C08_generated_lt_is_job_lt.
(* the constructors of the one-shot and the countdown job, translated by tools/gen_init.py (gen/GenInit.v);
   CountdownJob.__init__ ends with a call of the GENERATED set_countdown on the fresh object *)
From EAS Require GenInitEq.
Theorem C08_generated_once_ctor : forall t key, EASGen.GenInit.gen_once_init t key = Sched.new_job Sched.KOnce t 0 key.
Proof. exact GenInitEq.gen_once_init_is_new_job. Qed.
Print Assumptions C08_generated_once_ctor.
Theorem C08_generated_countdown_ctor : forall E R j key secs s,
  Sched.jobs s j = EASGen.GenInit.gen_countdown_init_pre key ->
  EASGen.GenJobs.g_set_countdown E R j secs s = EASGen.GenJobs.g_CountdownJob_set_countdown E R j secs s /\
  (0 < secs -> EASGen.GenJobs.g_CountdownJob_set_countdown E R j secs s
               = Some (Sched.set_job j (Sched.new_job Sched.KCountdown 0 secs key) s, GenRtJobs.JRet)) /\
  (secs <= 0 -> EASGen.GenJobs.g_CountdownJob_set_countdown E R j secs s
               = Some (s, GenRtJobs.JExc (GenRtJobs.JErr Base.EValueError))).
Proof.
  intros E R j key secs s H. split; [exact (GenInitEq.gen_countdown_ctor_dispatch E R j key secs s H)|].
  split; intros Hs; [exact (GenInitEq.gen_countdown_ctor_ok E R j key secs s H Hs)
                    |exact (GenInitEq.gen_countdown_ctor_rejects E R j key secs s H Hs)].
Qed.
Print Assumptions C08_generated_countdown_ctor.
