(* C03 — Recurring jobs realise their trigger occurrence sequence end to end (statements only).
   The end-to-end statement is assembled from four theorems: (1) executing a recurring job announces exactly the
   trigger's answer for the execution instant, (2) that answer is strictly later (C04, for every trigger
   expression and whatever was queried before), (3) the scheduler starts a job in the wake-up in which its
   announced time is reached and (4) never before it.  PARTIAL: the closed statement "the executions are exactly
   the occurrences in (creation, now]" for time / interval / group triggers additionally needs C05's earliest-
   occurrence theorem for every trigger kind; it is decided by the virtual-time runs (days to months, DST
   changes) against the zoneinfo reference and the model chain. *)
From EAS Require Import Base Civil Time Filters Replace Producers ProdStrict Sched SchedInv SchedApi SchedProps SchedLog Compose.
From EASGen Require Import Generated.

Theorem C03_exec_reschedules_with_trigger_answer :
  forall E f j t s s' v,
    jkind (jobs s j) = KAt -> exec_job E (S f) j t s = Some s' ->
    prod E j (count_prod j (log (exec_pre E j t s))) (now s) = Ok v -> now s - past_tolerance_ns <= v ->
    jnext (jobs s' j) = Some v /\ jstatus (jobs s' j) = Running /\ In (EExec j (now s) t (opi s)) (log s').
Proof. exact exec_at_reschedules. Qed.
Print Assumptions C03_exec_reschedules_with_trigger_answer.

Theorem C03_trigger_answer_strictly_after_execution :
  forall P p st qs dt v st', wf_producer p -> get_next P p (query_states P p st qs) dt = (Ok v, st') -> dt < v.
Proof. exact trigger_answer_future. Qed.
Print Assumptions C03_trigger_answer_strictly_after_execution.

Theorem C03_started_in_the_wake_up_that_reaches_it :
  forall E fuel hs s s', Inv s -> step_op E fuel hs s OWake = (s', Done) -> enabled s' = true -> NoDue s'.
Proof. exact wake_runs_due. Qed.
Print Assumptions C03_started_in_the_wake_up_that_reaches_it.

Theorem C03_never_before_the_occurrence :
  forall E fuel hs t0 en ops s rs, run E fuel hs (init t0 en) ops = (s, rs) -> Forall not_early (log s).
Proof. exact never_early. Qed.
Print Assumptions C03_never_before_the_occurrence.
