(* C03 — Recurring jobs realise their trigger occurrence sequence end to end (statements only).
   The end-to-end statement is assembled from four theorems: (1) executing a recurring job announces exactly the
   trigger's answer for the execution instant, (2) that answer is strictly later (C04, for every trigger
   expression and whatever was queried before), (3) the scheduler starts a job in the wake-up in which its
   announced time is reached and (4) never before it.  PARTIAL: the closed statement "the executions are exactly
   the occurrences in (creation, now]" for time / interval / group triggers additionally needs C05's earliest-
   occurrence theorem for every trigger kind; it is decided by the virtual-time runs (days to months, DST
   changes) against the zoneinfo reference and the model chain. *)
From EAS Require Import Base Civil Time Filters Replace Producers ProdStrict Sched SchedInv SchedApi SchedProps SchedLog Compose.
From EASGen Require Import Generated.
From EAS Require Import ProdEarliest2 ProdGroup Compose2.

Theorem C03_exec_reschedules_with_trigger_answer :
  forall E f j t s s' v,
    jkind (jobs s j) = KAt -> exec_job E (S f) j t s = Some s' ->
    prod E j (count_prod j (log (exec_pre E j t s))) (now s) = Ok v -> now s - past_tolerance_ns <= v ->
    jnext (jobs s' j) = Some v /\ jstatus (jobs s' j) = Running /\ In (EExec j (now s) t (opi s)) (log s').
Proof. exact exec_at_reschedules. Qed.
Print Assumptions C03_exec_reschedules_with_trigger_answer.

Theorem C03_trigger_answer_strictly_after_execution :
  forall P p st qs dt v st', wf_producer p -> get_next P p (query_states P p st qs) dt = (Ok v, st') -> dt < v.
Proof. exact trigger_answer_future. Qed.
Print Assumptions C03_trigger_answer_strictly_after_execution.

Theorem C03_started_in_the_wake_up_that_reaches_it :
  forall E fuel hs s s', Inv s -> step_op E fuel hs s OWake = (s', Done) -> enabled s' = true -> NoDue s'.
Proof. exact wake_runs_due. Qed.
Print Assumptions C03_started_in_the_wake_up_that_reaches_it.

Theorem C03_never_before_the_occurrence :
  forall E fuel hs t0 en ops s rs, run E fuel hs (init t0 en) ops = (s, rs) -> Forall not_early (log s).
Proof. exact never_early. Qed.
Print Assumptions C03_never_before_the_occurrence.

(* Additions to props/C03.v — closed end-to-end statement for ONE undisturbed recurring job (Compose2.v).
   Add to the imports of props/C03.v:
     From EAS Require Import ProdEarliest2 ProdGroup Compose2.
   Vocabulary (Compose2.v): [execs j l] executions (instant, announced) of job j in log l, oldest first;
   [ideal q k t c ops] the reference loop of one recurring job over a history of OAdvance / OWake / OEarlyWake
   (None iff the trigger fails to answer with an instant at some execution or another operation occurs);
   [J s c k] job 0 Running, alone in the queue, jnext = timer = c, k queries made; [keeps_up P xs] every execution
   happens before the occurrence following the one it serves; [c03_conclusion] the conjunction spelled out in
   Compose2.v (all operations Done; J; executions = reference loop; strictly increasing instants, never early;
   next run after each execution = earliest occurrence after the execution instant; keeps_up -> the announced
   times followed by the pending next run [enumerates] the occurrence set after the creation instant). *)

Theorem C03_single_job_model_is_reference_loop :
  forall E, (forall k t v, prod E O k t = Ok v -> t < v) ->
  forall f hs t0 key ops a1 xs k' t' c',
    prod E O O t0 = Ok a1 ->
    ideal (prod E O) 1 t0 a1 ops = Some (xs, (k', t', c')) ->
    exists s, run E (S (S (S (S f)))) hs (init t0 true) (OAt key :: ops) = (s, repeat Done (S (length ops))) /\
              J s c' k' /\ now s = t' /\ execs O (log s) = xs.
Proof. exact single_job_exact. Qed.
Print Assumptions C03_single_job_model_is_reference_loop.

Theorem C03_reference_loop_links_executions :
  forall q ops k t c xs k' t' c',
    ideal q k t c ops = Some (xs, (k', t', c')) -> follows q k t c xs k' t' c'.
Proof. exact ideal_facts. Qed.
Print Assumptions C03_reference_loop_links_executions.

Theorem C03_same_answer_inside_a_gap :
  forall (q : nat -> Z -> result Z) P, (forall k t v, q k t = Ok v -> earliest_after P t v) ->
  forall k k2 a t v w, a <= t -> q k a = Ok v -> t < v -> q k2 t = Ok w -> w = v.
Proof. exact chain_consistent. Qed.
Print Assumptions C03_same_answer_inside_a_gap.

Theorem C03_single_job_keepup_enumerates :
  forall E P f hs t0 key ops a1 xs k' t' c',
    (forall k t v, prod E O k t = Ok v -> earliest_after P t v) ->
    prod E O O t0 = Ok a1 ->
    ideal (prod E O) 1 t0 a1 ops = Some (xs, (k', t', c')) ->
    c03_conclusion E P (S (S (S (S f)))) hs t0 key ops xs k' t' c'.
Proof. exact keepup_enumerates. Qed.
Print Assumptions C03_single_job_keepup_enumerates.

Theorem C03_single_job_at_time_trigger :
  forall E PE tr flt f hs t0 key ops a1 xs k' t' c',
    wf_tz_b (pz PE) = true -> wf_tr tr ->
    (forall k t, exists st, prod E O k t = fst (get_next PE (PTime tr flt) st t)) ->
    prod E O O t0 = Ok a1 ->
    ideal (prod E O) 1 t0 a1 ops = Some (xs, (k', t', c')) ->
    c03_conclusion E (occ_time (pz PE) tr flt) (S (S (S (S f)))) hs t0 key ops xs k' t' c'.
Proof. exact at_time_trigger_enumerates. Qed.
Print Assumptions C03_single_job_at_time_trigger.

Theorem C03_single_job_at_time_interval_group_trigger :
  forall E PE G p f hs t0 key ops a1 xs k' t' c',
    wf_tz_b (pz PE) = true -> consistent G -> tig p -> incl (leaves p) G ->
    (forall k t, exists st, cache_on_grid G st /\ prod E O k t = fst (get_next PE p st t)) ->
    prod E O O t0 = Ok a1 ->
    ideal (prod E O) 1 t0 a1 ops = Some (xs, (k', t', c')) ->
    c03_conclusion E (occ (pz PE) p) (S (S (S (S f)))) hs t0 key ops xs k' t' c'.
Proof. exact at_tig_trigger_enumerates. Qed.
Print Assumptions C03_single_job_at_time_interval_group_trigger.

(* the environment built from the producer model meets the hypothesis on the oracle, whatever the query instants *)
Theorem C03_producer_environment_ok :
  forall PE G p qs fe fc,
    wf_tz_b (pz PE) = true -> consistent G -> tig p -> incl (leaves p) G ->
    forall k t, exists st, cache_on_grid G st /\ prod (trigger_env PE p qs fe fc) O k t = fst (get_next PE p st t).
Proof. exact trigger_env_ok. Qed.
Print Assumptions C03_producer_environment_ok.

Theorem C03_keeps_up_check :
  forall (q : nat -> Z -> result Z) P xs,
    (forall k t v, q k t = Ok v -> earliest_after P t v) ->
    Forall (fun x => exists k v, q k (snd x) = Ok v /\ fst x < v) xs -> keeps_up P xs.
Proof. exact keeps_up_check. Qed.
Print Assumptions C03_keeps_up_check.

(* ---- a recurring job among other jobs (SchedProj6.v) ---- *)
From EAS Require Import Base Sched SchedInv SchedApi SchedProj SchedProj2 SchedProj3 SchedProj4 SchedProj5 SchedProj6 ProdEarliest2 Compose2.
From Coq Require Import Sorted.
(* ---- C03 ---- *)
Theorem C03_recurring_job_among_others_follows_reference_loop :
  forall E k, (forall q t v, prod E k q t = Ok v -> t < v) ->
  forall fuel hs t0 en key pre ops s rs a1 xs k' t' c',
    run E fuel hs (init t0 en) (pre ++ OAt key :: ops) = (s, rs) ->
    ~ In NoFuel rs -> ~ In (Raised EKeyError) rs ->
    hist_ok true (pre ++ OAt key :: ops) = true ->
    ncre pre = k -> forallb (fun o => negb (addresses k o)) pre = true -> enf en pre = true ->
    forallb (foreign k) ops = true ->
    prod E k 0 (clock t0 pre) = Ok a1 ->
    ideal (prod E k) 1 (clock t0 pre) a1 (filter quiet ops) = Some (xs, (k', t', c')) ->
    Compose2.execs k (log s) = xs /\
    jstatus (jobs s k) = Running /\ jnext (jobs s k) = Some c' /\ now s = t' /\ count_prod k (log s) = k'.
Proof. exact disturbed_job_exact. Qed.
Print Assumptions C03_recurring_job_among_others_follows_reference_loop.

Theorem C03_recurring_job_among_others_enumerates :
  forall E k P fuel hs t0 en key pre ops s rs a1 xs k' t' c',
    (forall q t v, prod E k q t = Ok v -> earliest_after P t v) ->
    run E fuel hs (init t0 en) (pre ++ OAt key :: ops) = (s, rs) ->
    ~ In NoFuel rs -> ~ In (Raised EKeyError) rs ->
    hist_ok true (pre ++ OAt key :: ops) = true ->
    ncre pre = k -> forallb (fun o => negb (addresses k o)) pre = true -> enf en pre = true ->
    forallb (foreign k) ops = true ->
    prod E k 0 (clock t0 pre) = Ok a1 ->
    ideal (prod E k) 1 (clock t0 pre) a1 (filter quiet ops) = Some (xs, (k', t', c')) ->
    Compose2.execs k (log s) = xs /\ jstatus (jobs s k) = Running /\ jnext (jobs s k) = Some c' /\ now s = t' /\
    StronglySorted Z.lt (map fst xs) /\
    Forall (fun x => clock t0 pre <= fst x <= t' /\ snd x <= fst x /\ fst x < c') xs /\
    Forall2 (fun x v => earliest_after P (fst x) v) xs (tl (map snd xs ++ [c'])) /\
    (keeps_up P xs -> enumerates P (clock t0 pre) (map Ok (map snd xs ++ [c']))).
Proof. exact disturbed_keepup_enumerates. Qed.
Print Assumptions C03_recurring_job_among_others_enumerates.

(* ---- the FULLY GENERATED stack (GenSystem*.v): a history machine in which every API operation is executed by generated code only (builder, store, job classes, controls, scheduler; in GenSystem2 also the producers) ---- *)


(* ---- THE WHOLE STACK, GENERATED, END TO END (theories/GenSystem2.v): the generated history machine of GenSystem.v
   (builder, job classes, scheduler: generated) run in the environment whose trigger of the recurring job is the
   producer expression p EXECUTED BY THE GENERATED PRODUCER CODE (GenSunEq.pknot_sun: every producer class generated),
   its q-th query starting from the producer state the generated code left after the queries at [firstn q qs].
   Hand-written between the pieces: see the heads of GenSystem.v and GenSystem2.v (event-loop firing rule, initial
   state, vocabulary of histories, argument conversion, threading of the producer state, zone table and astral as
   oracles). *)
From EAS Require SchedEqst GenRtSun GenSunEq GenSystem GenSystem2 SchedProj3 SchedProj4 SchedProj6.
(* any well-formed producer expression (sun, offset, earliest, latest, jitter, groups included) *)
Theorem C03_generated_system_follows_reference_loop :
  forall PE W n p E0, GenSunEq.world_ok W -> wf_producer p -> (GenSunEq.srank p <= n)%nat ->
  forall qs f hs t0 key ops a1 xs k' t' c',
    let E := GenSystem2.gen_trigger_env PE W n p E0 O qs in
    prod E O O t0 = Ok a1 ->
    ideal (prod E O) 1 t0 a1 ops = Some (xs, (k', t', c')) ->
    exists g, GenSystem.gen_run E (S (S (S (S f)))) hs (init t0 true) (OAt key :: ops)
                = (g, repeat GenSystem.GDone (S (length ops))) /\
              J g c' k' /\ now g = t' /\ Compose2.execs O (log g) = xs.
Proof. exact GenSystem2.gen_system_single_job_exact. Qed.
Print Assumptions C03_generated_system_follows_reference_loop.
(* time-of-day / interval-with-start / groups of those: the closed C03 statement *)
Theorem C03_generated_system_enumerates :
  forall PE W n p E0, GenSunEq.world_ok W -> wf_producer p -> (GenSunEq.srank p <= n)%nat ->
  forall G qs f hs t0 key ops a1 xs k' t' c',
    wf_tz_b (pz PE) = true -> consistent G -> tig p -> incl (leaves p) G ->
    let E := GenSystem2.gen_trigger_env PE W n p E0 O qs in
    prod E O O t0 = Ok a1 ->
    ideal (prod E O) 1 t0 a1 ops = Some (xs, (k', t', c')) ->
    exists g,
      GenSystem.gen_run E (S (S (S (S f)))) hs (init t0 true) (OAt key :: ops) = (g, repeat GenSystem.GDone (S (length ops))) /\
      J g c' k' /\ now g = t' /\ Compose2.execs O (log g) = xs /\
      StronglySorted Z.lt (map fst xs) /\
      Forall (fun x => t0 <= fst x <= t' /\ snd x <= fst x /\ fst x < c') xs /\
      Forall2 (fun x v => earliest_after (occ (pz PE) p) (fst x) v) xs (tl (map snd xs ++ [c'])) /\
      (keeps_up (occ (pz PE) p) xs -> enumerates (occ (pz PE) p) t0 (map Ok (map snd xs ++ [c']))).
Proof. exact GenSystem2.gen_system_enumerates. Qed.
Print Assumptions C03_generated_system_enumerates.
(* the recurring job with the generated trigger among k other jobs and typed operations on them *)
Theorem C03_generated_system_among_others :
  forall PE W n p E0, GenSunEq.world_ok W -> wf_producer p -> (GenSunEq.srank p <= n)%nat ->
  forall G k qs fuel hs t0 en key pre ops a1 xs k' t' c',
    wf_tz_b (pz PE) = true -> consistent G -> tig p -> incl (leaves p) G ->
    let E := GenSystem2.gen_trigger_env PE W n p E0 k qs in
    let h := pre ++ OAt key :: ops in
    GenSystem.ops_wt E fuel hs (init t0 en) h ->
    ~ In NoFuel (snd (run E fuel hs (init t0 en) h)) -> ~ In (Raised EKeyError) (snd (run E fuel hs (init t0 en) h)) ->
    SchedProj4.hist_ok true h = true ->
    SchedProj6.ncre pre = k -> forallb (fun o => negb (SchedProj3.addresses k o)) pre = true ->
    SchedProj6.enf en pre = true -> forallb (SchedProj6.foreign k) ops = true ->
    prod E k 0 (SchedProj6.clock t0 pre) = Ok a1 ->
    ideal (prod E k) 1 (SchedProj6.clock t0 pre) a1 (filter quiet ops) = Some (xs, (k', t', c')) ->
    let g := fst (GenSystem.gen_run E fuel hs (init t0 en) h) in
    snd (GenSystem.gen_run E fuel hs (init t0 en) h) = map GenSystem.oc_of (snd (run E fuel hs (init t0 en) h)) /\
    Compose2.execs k (log g) = xs /\ jstatus (jobs g k) = Running /\ jnext (jobs g k) = Some c' /\ now g = t' /\
    StronglySorted Z.lt (map fst xs) /\
    Forall (fun x => SchedProj6.clock t0 pre <= fst x <= t' /\ snd x <= fst x /\ fst x < c') xs /\
    Forall2 (fun x v => earliest_after (occ (pz PE) p) (fst x) v) xs (tl (map snd xs ++ [c'])) /\
    (keeps_up (occ (pz PE) p) xs -> enumerates (occ (pz PE) p) (SchedProj6.clock t0 pre) (map Ok (map snd xs ++ [c']))).
Proof. exact GenSystem2.gen_system_disturbed. Qed.
Print Assumptions C03_generated_system_among_others.
