(* C02 — No unauthorised and no duplicate execution (statements only). *)
From EAS Require Import Base Sched SchedInv SchedApi SchedProps SchedLog SchedOrder.
From Coq Require Import Sorted.

(* In every reachable state the queue - the only place jobs are started from - holds exactly the
   running jobs, each once (no duplicate entry can ever fire twice), ordered by next-run time.  A job
   that was cancelled, paused, stopped or has run as a one-shot is not RUNNING and therefore not queued. *)
Theorem C02_queue_is_exactly_the_running_jobs :
  forall s, Inv s ->
    NoDup (queue s) /\ StronglySorted (le_next s) (queue s) /\
    (forall j, In j (queue s) <-> jstatus (jobs s j) = Running).
Proof. exact queue_exact. Qed.
Print Assumptions C02_queue_is_exactly_the_running_jobs.

Theorem C02_invariant_reachable :
  forall E fuel hs t0 en ops s rs,
    run E fuel hs (init t0 en) ops = (s, rs) -> ~ In NoFuel rs -> Inv s.
Proof. intros E fuel hs t0 en ops s rs H. exact (run_inv E fuel hs ops _ _ _ (Inv_init t0 en) H). Qed.
Print Assumptions C02_invariant_reachable.

(* while the scheduler is disabled nothing is started, whatever operation is issued (creation, control
   operations, resets, wake-ups), until it is enabled again *)
Theorem C02_disabled_starts_nothing :
  forall E fuel hs s o s' r, Inv s -> enabled s = false -> o <> OEnable true ->
    step_op E fuel hs s o = (s', r) -> execs (log s') = execs (log s).
Proof. exact disabled_quiet. Qed.
Print Assumptions C02_disabled_starts_nothing.

(* at most once per announced next-run time: inside one wake-up no job is started twice, and every start was
   due (announced time <= now); afterwards the job is finished, paused, or re-announced strictly in the future
   (C04).  Assumes triggers answer in the future and do not raise inside execute() (known finding F5). *)
Theorem C02_no_job_twice_in_one_wake_up :
  forall E, (forall j k t, exists v, prod E j k t = Ok v /\ t < v) ->
  forall fuel hs s s', Inv s -> cx s = [] -> step_op E fuel hs s OWake = (s', Done) ->
    StronglySorted (fun x y => snd y <= snd x) (cx s') /\ NoDup (map fst (cx s')).
Proof. exact wake_order. Qed.
Print Assumptions C02_no_job_twice_in_one_wake_up.

Theorem C02_starts_were_due :
  forall E, (forall j k t, exists v, prod E j k t = Ok v /\ t < v) ->
  forall fuel hs s s' j a, Inv s -> cx s = [] -> step_op E fuel hs s OWake = (s', Done) ->
    In (j, a) (cx s') -> a <= now s'.
Proof. exact wake_starts_were_due. Qed.
Print Assumptions C02_starts_were_due.
