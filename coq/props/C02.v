(* C02 — No unauthorised and no duplicate execution (statements only). *)
From EAS Require Import Base Sched SchedInv SchedApi SchedProps SchedLog SchedOrder
                        SchedExact SchedExact2 SchedExact3 SchedExact4.
From Coq Require Import Sorted.

(* In every reachable state the queue - the only place jobs are started from - holds exactly the
   running jobs, each once (no duplicate entry can ever fire twice), ordered by next-run time.  A job
   that was cancelled, paused, stopped or has run as a one-shot is not RUNNING and therefore not queued. *)
Theorem C02_queue_is_exactly_the_running_jobs :
  forall s, Inv s ->
    NoDup (queue s) /\ StronglySorted (le_next s) (queue s) /\
    (forall j, In j (queue s) <-> jstatus (jobs s j) = Running).
Proof. exact queue_exact. Qed.
Print Assumptions C02_queue_is_exactly_the_running_jobs.

Theorem C02_invariant_reachable :
  forall E fuel hs t0 en ops s rs,
    run E fuel hs (init t0 en) ops = (s, rs) -> ~ In NoFuel rs -> Inv s.
Proof. intros E fuel hs t0 en ops s rs H. exact (run_inv E fuel hs ops _ _ _ (Inv_init t0 en) H). Qed.
Print Assumptions C02_invariant_reachable.

(* while the scheduler is disabled nothing is started, whatever operation is issued (creation, control
   operations, resets, wake-ups), until it is enabled again *)
Theorem C02_disabled_starts_nothing :
  forall E fuel hs s o s' r, Inv s -> enabled s = false -> o <> OEnable true ->
    step_op E fuel hs s o = (s', r) -> execs (log s') = execs (log s).
Proof. exact disabled_quiet. Qed.
Print Assumptions C02_disabled_starts_nothing.

(* at most once per announced next-run time: inside one wake-up no job is started twice, and every start was
   due (announced time <= now); afterwards the job is finished, paused, or re-announced strictly in the future
   (C04).  Assumes triggers answer in the future and do not raise inside execute() (known finding F5). *)
Theorem C02_no_job_twice_in_one_wake_up :
  forall E, (forall j k t, exists v, prod E j k t = Ok v /\ t < v) ->
  forall fuel hs s s', Inv s -> cx s = [] -> step_op E fuel hs s OWake = (s', Done) ->
    StronglySorted (fun x y => snd y <= snd x) (cx s') /\ NoDup (map fst (cx s')).
Proof. exact wake_order. Qed.
Print Assumptions C02_no_job_twice_in_one_wake_up.

Theorem C02_starts_were_due :
  forall E, (forall j k t, exists v, prod E j k t = Ok v /\ t < v) ->
  forall fuel hs s s' j a, Inv s -> cx s = [] -> step_op E fuel hs s OWake = (s', Done) ->
    In (j, a) (cx s') -> a <= now s'.
Proof. exact wake_starts_were_due. Qed.
Print Assumptions C02_starts_were_due.

(* ---- additions for props/C02.v -------------------------------------------------------------------
   change the import line to:
   From EAS Require Import Base Sched SchedInv SchedApi SchedProps SchedLog SchedOrder
                           SchedExact SchedExact2 SchedExact3 SchedExact4.                            *)

(* FRAME of the re-entrant core, every amount of fuel, no well-formedness needed: a call only appends to the log;
   a job it does not start keeps its record; every start is a start of a queued job (or of the argument job of
   add_job / exec_job) for the next-run time announced before the call, which was reached; a started job is not
   due afterwards; the queue only shrinks (plus the argument of add_job) *)
Theorem C02_core_frame :
  forall E, (forall j k t, exists v, prod E j k t = Ok v /\ t < v) -> forall f,
  (forall s s', set_timer E f s = Some s' -> CoreFrame NoA s s') /\
  (forall s s', run_jobs E f s = Some s' -> CoreFrame NoA s s') /\
  (forall s s', run_loop E f s = Some s' -> CoreFrame NoA s s') /\
  (forall j s s', add_job E f j s = Some s' -> CoreFrame (eq j) s s') /\
  (forall j s s', remove_job E f j s = Some s' -> CoreFrame NoA s s' /\
     (forall i t a o, In (EExec i t a o) (new_events s s') -> In i (remove_first j (queue s)))) /\
  (forall j t s s', jnext (jobs s j) = Some t -> t <= now s -> exec_job E f j t s = Some s' ->
     CoreFrame (eq j) s s').
Proof. exact core_frame. Qed.
Print Assumptions C02_core_frame.

(* a callable is started only while its job is RUNNING, for the next-run time announced before the operation,
   and only when it is reached - or the operation itself (re-)arms this very job *)
Theorem C02_exec_only_running :
  forall E, (forall j k t, exists v, prod E j k t = Ok v /\ t < v) ->
  forall fuel hs s o s' r, Inv s -> step_op E fuel hs s o = (s', r) -> r <> NoFuel ->
  forall j t a oi, In (EExec j t a oi) (new_events s s') ->
    t = now s /\ oi = opi s /\
    ((jstatus (jobs s j) = Running /\ In j (queue s) /\ jnext (jobs s j) = Some a /\ a <= now s) \/
     (o = OReset j /\ a = now s + jsecs (jobs s j) /\ a <= now s) \/ o = OResume j \/
     (j = njobs s /\ r = Done /\ ((exists key, o = OOnce a key) \/ (exists key, o = OAt key)))).
Proof. exact exec_only_running. Qed.
Print Assumptions C02_exec_only_running.

Theorem C02_starts_happen_now_and_not_early :
  forall E, (forall j k t, exists v, prod E j k t = Ok v /\ t < v) ->
  forall fuel hs s o s' r, Inv s -> step_op E fuel hs s o = (s', r) -> r <> NoFuel ->
  forall j t a oi, In (EExec j t a oi) (new_events s s') -> t = now s /\ oi = opi s /\ a <= t.
Proof. exact starts_were_due. Qed.
Print Assumptions C02_starts_happen_now_and_not_early.

(* at most once per announced next-run time: no operation (creation, control call, enable, wake-up) starts a
   job twice, also across the nested run_jobs calls *)
Theorem C02_no_job_twice_in_any_operation :
  forall E, (forall j k t, exists v, prod E j k t = Ok v /\ t < v) ->
  forall fuel hs s o s' r k, Inv s -> step_op E fuel hs s o = (s', r) -> r <> NoFuel ->
    (count_exec k (new_events s s') <= 1)%nat /\
    count_exec k (log s') = (count_exec k (new_events s s') + count_exec k (log s))%nat.
Proof. intros E P fuel hs s o s' r k. exact (step_op_once_count E P fuel hs s o s' r k). Qed.
Print Assumptions C02_no_job_twice_in_any_operation.

(* non-interference: an operation neither changes nor starts a job it is not addressed to, unless that job was
   RUNNING with a reached next-run time before the operation; and then the core changes it as execute() does *)
Theorem C02_untouched_or_due :
  forall E, (forall j k t, exists v, prod E j k t = Ok v /\ t < v) ->
  forall fuel hs s o s' r k, Inv s -> step_op E fuel hs s o = (s', r) -> r <> NoFuel -> ~ op_K s o k ->
  (~ started k (new_events s s') -> jobs s' k = jobs s k) /\
  (started k (new_events s s') ->
     jstatus (jobs s k) = Running /\ exists a, jnext (jobs s k) = Some a /\ a <= now s) /\
  jstep (jobs s k) (jobs s' k).
Proof. exact untouched_or_due. Qed.
Print Assumptions C02_untouched_or_due.

Theorem C02_others_untouched :
  forall E, (forall j k t, exists v, prod E j k t = Ok v /\ t < v) ->
  forall fuel hs s o s' r j k, Inv s -> op_addressee o = Some j -> k <> j ->
    step_op E fuel hs s o = (s', r) -> r <> NoFuel ->
    (jobs s' k = jobs s k /\ ~ started k (new_events s s')) \/
    (jstatus (jobs s k) = Running /\ exists a, jnext (jobs s k) = Some a /\ a <= now s).
Proof. exact others_untouched. Qed.
Print Assumptions C02_others_untouched.

(* the job an operation is addressed to is started by it only if the operation (re-)arms it *)
Theorem C02_target_started_only_if_armed :
  forall E, (forall j k t, exists v, prod E j k t = Ok v /\ t < v) ->
  forall fuel hs s o s' r j, Inv s -> step_op E fuel hs s o = (s', r) -> r <> NoFuel -> op_K s o j ->
    started j (new_events s s') -> exists a, op_A s o r j a.
Proof. exact target_started. Qed.
Print Assumptions C02_target_started_only_if_armed.

Theorem C02_not_running_not_started :
  forall E, (forall j k t, exists v, prod E j k t = Ok v /\ t < v) ->
  forall fuel hs s o s' r j, Inv s -> jstatus (jobs s j) <> Running ->
    step_op E fuel hs s o = (s', r) -> r <> NoFuel -> started j (new_events s s') ->
    o = OReset j \/ o = OResume j \/ (is_creation o /\ j = njobs s /\ r = Done).
Proof. exact not_running_not_started. Qed.
Print Assumptions C02_not_running_not_started.

(* once cancel() / pause() / stop() has returned the job is not running, the call itself did not start it ... *)
Theorem C02_quiet_after_cancel :
  forall E, (forall j k t, exists v, prod E j k t = Ok v /\ t < v) ->
  forall fuel hs s s' j, Inv s -> step_op E fuel hs s (OCancel j) = (s', Done) ->
    jstatus (jobs s' j) = Finished /\ ~ started j (new_events s s').
Proof. exact quiet_after_cancel. Qed.
Print Assumptions C02_quiet_after_cancel.

Theorem C02_quiet_after_pause :
  forall E, (forall j k t, exists v, prod E j k t = Ok v /\ t < v) ->
  forall fuel hs s s' j, Inv s -> step_op E fuel hs s (OPause j) = (s', Done) ->
    jstatus (jobs s' j) = Paused /\ jnext (jobs s' j) = None /\ ~ started j (new_events s s').
Proof. exact quiet_after_pause. Qed.
Print Assumptions C02_quiet_after_pause.

(* ... and the next operation starts it again only if it is its own reset() / resume() *)
Theorem C02_stopped_restarts_only_by_reset_resume :
  forall E, (forall j k t, exists v, prod E j k t = Ok v /\ t < v) ->
  forall fuel hs s o1 s1 o2 s2 r j, Inv s -> o1 = OCancel j \/ o1 = OPause j -> (j < njobs s)%nat ->
    step E fuel hs s o1 = (s1, Done) -> step E fuel hs s1 o2 = (s2, r) -> r <> NoFuel ->
    started j (new_events s1 s2) -> o2 = OReset j \/ o2 = OResume j.
Proof. exact stopped_restarts_only_by_reset_resume. Qed.
Print Assumptions C02_stopped_restarts_only_by_reset_resume.

(* FINISHED (cancelled, or a one-shot job that has run) is final: never started again, in every history *)
Theorem C02_finished_stays_finished :
  forall E, (forall j k t, exists v, prod E j k t = Ok v /\ t < v) ->
  forall fuel hs s o s' r j, Inv s -> jstatus (jobs s j) = Finished -> (j < njobs s)%nat ->
    step_op E fuel hs s o = (s', r) -> r <> NoFuel ->
    jstatus (jobs s' j) = Finished /\ ~ started j (new_events s s') /\ (j < njobs s')%nat.
Proof. exact finished_stays_finished. Qed.
Print Assumptions C02_finished_stays_finished.

Theorem C02_finished_never_restarts :
  forall E, (forall j k t, exists v, prod E j k t = Ok v /\ t < v) ->
  forall fuel hs ops s s' rs j, Inv s -> jstatus (jobs s j) = Finished -> (j < njobs s)%nat ->
    run E fuel hs s ops = (s', rs) -> ~ In NoFuel rs ->
    jstatus (jobs s' j) = Finished /\ count_exec j (log s') = count_exec j (log s).
Proof. exact finished_never_restarts. Qed.
Print Assumptions C02_finished_never_restarts.

(* a job whose creation call failed never executes: nothing was allocated, or the new job is finished and was not
   started (and by C02_finished_never_restarts never will be) *)
Theorem C02_failed_creation_never_runs :
  forall E, (forall j k t, exists v, prod E j k t = Ok v /\ t < v) ->
  forall fuel hs s o s' e, Inv s -> is_creation o -> step_op E fuel hs s o = (s', Raised e) ->
    s' = s \/ (njobs s' = S (njobs s) /\ jstatus (jobs s' (njobs s)) = Finished /\
               ~ started (njobs s) (new_events s s')).
Proof. exact failed_creation_never_runs. Qed.
Print Assumptions C02_failed_creation_never_runs.

(* ---- the tie to the source by translation: coq/gen/GenSched.v is regenerated from
   src/eascheduler/schedulers/async_scheduler.py on every run (tools/gen_sched.py); these theorems are re-checked
   against it.  For every fuel and every state: whenever the model of Sched.v returns a state that is not marked
   broken (always, from well-formed states: core_specs_all), the generated set_timer / run_jobs / its loop / add_job /
   remove_job return exactly that state, and job.execute() hands its exception to run_jobs. *)
From EAS Require GenRt GenSchedEq.
Theorem C02_generated_source_recognised : EASGen.GenSched.gen_sched_status_v = EASGen.GenSched.GenSchedOk.
Proof. exact GenSchedEq.gen_sched_recognised. Qed.
Print Assumptions C02_generated_source_recognised.
Theorem C02_generated_scheduler_is_model : forall E f, GenSchedEq.agrees E f.
Proof. exact GenSchedEq.gen_agrees. Qed.
Print Assumptions C02_generated_scheduler_is_model.
Theorem C02_generated_wake_is_model : forall E fuel hs s s' w,
  Inv s -> timer s = Some w -> w <= now s -> step_op E fuel hs s OWake = (s', Done) ->
  GenSchedEq.gen_run_jobs E fuel s = Some (s', GenRt.Ret).
Proof. exact GenSchedEq.gen_wake_is_model. Qed.
Print Assumptions C02_generated_wake_is_model.
Theorem C02_generated_enable_is_model : forall E fuel hs s b s',
  Inv s -> step_op E fuel hs s (OEnable b) = (s', Done) -> GenSchedEq.gen_set_enabled E fuel b s = Some (s', GenRt.Ret).
Proof. exact GenSchedEq.gen_enable_is_model. Qed.
Print Assumptions C02_generated_enable_is_model.

(* ---- two-trace form (SchedProj*.v): seen through the projection onto one job the scheduler is a single-job
   machine; control operations on another job are the identity on it, for histories in which the loop keeps up
   (every clock advance is followed by a wake-up before the next API operation).  Without that restriction the
   statement is false, in the model and in the implementation alike (C02_two_trace_unrestricted_refuted): removing
   the queue head makes _set_timer run the overdue jobs inside the API call. ---- *)
From EAS Require Import Base Sched SchedInv SchedApi SchedProj SchedProj2 SchedProj3 SchedProj4 SchedProj5 SchedProj6 ProdEarliest2 Compose2.
From Coq Require Import Sorted.
(* ---- C02 ---- *)
Theorem C02_core_runs_a_job_only_while_due :
  forall E k f, shapes E k f.
Proof. exact shapes_all. Qed.
Print Assumptions C02_core_runs_a_job_only_while_due.

Theorem C02_every_operation_seen_by_one_job :
  forall E fuel hs s o s' r,
    Inv s -> step_op E fuel hs s o = (s', r) -> r <> NoFuel -> key_ok hs s o ->
    (forall k, reach1 E k (direct E hs k (proj k s) o) (proj k s')) /\
    (is_adv o = false -> Calm s -> Calm s') /\
    (is_wake o = true -> Calm s').
Proof. exact step_op_view. Qed.
Print Assumptions C02_every_operation_seen_by_one_job.

Theorem C02_projection_is_single_job_machine :
  forall E fuel hs k s o s' r,
    Inv s -> step_op E fuel hs s o = (s', r) -> r <> NoFuel -> key_ok hs s o ->
    Calm s \/ is_wake o = true \/ is_adv o = true ->
    exists n, forall g, (n <= g)%nat -> proj k s' = step1 E g hs k (proj k s) o.
Proof. exact step_op_proj. Qed.
Print Assumptions C02_projection_is_single_job_machine.

Theorem C02_other_jobs_operations_are_identity :
  forall E g hs k j p o, addresses j o = true -> k <> j -> step1 E g hs k p o = p.
Proof. exact step1_other. Qed.
Print Assumptions C02_other_jobs_operations_are_identity.

Theorem C02_history_projection :
  forall E fuel hs k ops s s' rs calm,
    Inv s -> (calm = true -> Calm s) -> hist_ok calm ops = true ->
    run E fuel hs s ops = (s', rs) -> ~ In NoFuel rs -> ~ In (Raised EKeyError) rs ->
    exists n, forall g, (n <= g)%nat -> proj k s' = run1 E g hs k (proj k s) ops.
Proof. exact run_proj. Qed.
Print Assumptions C02_history_projection.

Theorem C02_history_projection_future_triggers :
  forall E, (forall j k t, exists v, prod E j k t = Ok v /\ t < v) ->
  forall fuel hs k ops s s' rs,
    Inv s -> Calm s -> hist_ok true ops = true ->
    run E fuel hs s ops = (s', rs) -> ~ In NoFuel rs -> ~ In (Raised EKeyError) rs ->
    proj k s' = run1 E 1 hs k (proj k s) ops.
Proof. exact run_proj_ok. Qed.
Print Assumptions C02_history_projection_future_triggers.

Theorem C02_two_trace_noninterference :
  forall E fuel1 fuel2 hs t0 en j k ops1 ops2 s1 rs1 s2 rs2,
    k <> j ->
    filter (fun o => negb (addresses j o)) ops1 = filter (fun o => negb (addresses j o)) ops2 ->
    hist_ok true ops1 = true -> hist_ok true ops2 = true ->
    run E fuel1 hs (init t0 en) ops1 = (s1, rs1) -> run E fuel2 hs (init t0 en) ops2 = (s2, rs2) ->
    ~ In NoFuel rs1 -> ~ In NoFuel rs2 -> ~ In (Raised EKeyError) rs1 -> ~ In (Raised EKeyError) rs2 ->
    proj k s1 = proj k s2.
Proof. exact two_trace_noninterference. Qed.
Print Assumptions C02_two_trace_noninterference.

Theorem C02_two_trace_same_executions :
  forall E fuel1 fuel2 hs t0 en j k ops1 ops2 s1 rs1 s2 rs2,
    k <> j ->
    filter (fun o => negb (addresses j o)) ops1 = filter (fun o => negb (addresses j o)) ops2 ->
    hist_ok true ops1 = true -> hist_ok true ops2 = true ->
    run E fuel1 hs (init t0 en) ops1 = (s1, rs1) -> run E fuel2 hs (init t0 en) ops2 = (s2, rs2) ->
    ~ In NoFuel rs1 -> ~ In NoFuel rs2 -> ~ In (Raised EKeyError) rs1 -> ~ In (Raised EKeyError) rs2 ->
    jobs s1 k = jobs s2 k /\ now s1 = now s2 /\ enabled s1 = enabled s2 /\ njobs s1 = njobs s2 /\
    klog k (log s1) = klog k (log s2) /\ kexecs k (log s1) = kexecs k (log s2) /\
    count_exec k (log s1) = count_exec k (log s2) /\ count_prod k (log s1) = count_prod k (log s2).
Proof. exact two_trace_executions. Qed.
Print Assumptions C02_two_trace_same_executions.

Theorem C02_two_trace_unrestricted_refuted :
  ~ (forall E fuel hs t0 en j k ops1 ops2 s1 rs1 s2 rs2,
       k <> j ->
       filter (fun o => negb (addresses j o)) ops1 = filter (fun o => negb (addresses j o)) ops2 ->
       run E fuel hs (init t0 en) ops1 = (s1, rs1) -> run E fuel hs (init t0 en) ops2 = (s2, rs2) ->
       ~ In NoFuel rs1 -> ~ In NoFuel rs2 ->
       count_exec k (log s1) = count_exec k (log s2)).
Proof. exact two_trace_unrestricted_refuted. Qed.
Print Assumptions C02_two_trace_unrestricted_refuted.


(* ---- the tie to the source by translation (builder, store, executors): coq/gen/GenBuilder.v is regenerated from
   src/eascheduler/{builder/jobs.py, job_stores/memory.py, job_control/*.py, executor/base.py} on every run
   (tools/gen_builder.py); these theorems are re-checked against it (coq/theories/GenBuilderEq.v).  The generated
   `_add_job` calls the GENERATED link_scheduler / job_finish (GenJobs.v), which call the GENERATED scheduler. ---- *)
From EAS Require GenRt GenRtJobs GenJobsEq GenRtBuilder SchedEqst GenBuilderEq.
Theorem C02_generated_builder_recognised :
  EASGen.GenBuilder.gen_builder_status_v = EASGen.GenBuilder.GenBuilderOk.
Proof. exact GenBuilderEq.gen_builder_recognised. Qed.
Print Assumptions C02_generated_builder_recognised.
(* JobBuilder._add_job: the store first (a refusal ends it before the job has seen the scheduler), then
   link_scheduler in the state the store left, on an exception job_finish and the exception re-raised *)
Theorem C02_generated_add_job_order : forall E fuel hs j s,
  GenBuilderEq.gen_add_job E fuel hs j s =
  match (if hs then EASGen.GenBuilder.g_InMemoryStore_add_job j s else Some (s, GenRtJobs.JRet)) with
  | None => None
  | Some (s0, GenRtJobs.JExc e) => Some (s0, GenRtJobs.JExc e)
  | Some (s0, GenRtJobs.JRet) =>
      GenBuilderEq.finish_on_error E fuel j (GenJobsEq.gen_link_scheduler E fuel j s0)
  end.
Proof. exact GenBuilderEq.gen_add_job_shape. Qed.
Print Assumptions C02_generated_add_job_order.
(* ... and it computes Sched.create on every state with the invariant, for every new job object: accepted / refused by
   the store (KeyError, nothing changes) / refused by link_scheduler (finished again, out of the store, re-raised);
   same outcome, same state up to how the job table was built (SchedEqst.eqst: all fields, the table pointwise) *)
Theorem C02_generated_add_job_is_create : forall E fuel hs b s s' r,
  SchedApi.Inv s -> GenBuilderEq.fresh_job b -> Sched.create E fuel hs b s = (s', r) -> r <> Sched.NoFuel ->
  GenBuilderEq.create_agrees hs b s s' r
    (GenBuilderEq.gen_add_job E fuel hs (Sched.njobs s) (GenRtBuilder.alloc_obj b s)).
Proof. exact GenBuilderEq.gen_add_job_is_create. Qed.
Print Assumptions C02_generated_add_job_is_create.
Theorem C02_generated_create_agrees_means : forall hs b s s' r m,
  GenBuilderEq.create_agrees hs b s s' r m <->
  if (hs && Sched.store_has (Sched.jkey b) (Sched.store s))%bool
  then m = Some (GenRtBuilder.alloc_obj b s, GenRtJobs.JExc (GenRtJobs.JErr Base.EKeyError)) /\ s' = s /\
       r = Sched.Raised Base.EKeyError
  else exists g, m = GenJobsEq.ret_of r g /\ SchedEqst.eqst g s'.
Proof. intros. reflexivity. Qed.
Print Assumptions C02_generated_create_agrees_means.
(* the three entry points (the argument conversion is a primitive: it yielded the model's value ...) *)
Theorem C02_generated_countdown_is_model : forall E fuel hs s secs key s' r,
  SchedApi.Inv s -> 0 < secs -> Sched.step_op E fuel hs s (Sched.OCountdown secs key) = (s', r) -> r <> Sched.NoFuel ->
  GenBuilderEq.create_agrees hs (Sched.new_job Sched.KCountdown 0 secs key) s s' r
    (GenBuilderEq.gen_countdown E fuel hs (GenRtBuilder.CVal secs) key s).
Proof. exact GenBuilderEq.gen_countdown_is_model. Qed.
Print Assumptions C02_generated_countdown_is_model.
Theorem C02_generated_once_is_model : forall E fuel hs s t key s' r,
  SchedApi.Inv s -> Sched.step_op E fuel hs s (Sched.OOnce t key) = (s', r) -> r <> Sched.NoFuel ->
  GenBuilderEq.create_agrees hs (Sched.new_job Sched.KOnce t 0 key) s s' r
    (GenBuilderEq.gen_once E fuel hs (GenRtBuilder.CVal t) key s).
Proof. exact GenBuilderEq.gen_once_is_model. Qed.
Print Assumptions C02_generated_once_is_model.
Theorem C02_generated_at_is_model : forall E fuel hs s key s' r,
  SchedApi.Inv s -> Sched.step_op E fuel hs s (Sched.OAt key) = (s', r) -> r <> Sched.NoFuel ->
  GenBuilderEq.create_agrees hs (Sched.new_job Sched.KAt 0 0 key) s s' r
    (GenBuilderEq.gen_at E fuel hs (GenRtBuilder.CVal tt) key s).
Proof. exact GenBuilderEq.gen_at_is_model. Qed.
Print Assumptions C02_generated_at_is_model.
(* ... or it raised: the entry point raises the same exception, no job object, nothing changes *)
Theorem C02_generated_entry_conv_raises : forall E fuel hs e key s,
  GenBuilderEq.gen_countdown E fuel hs (GenRtBuilder.CExc e) key s = Some (s, GenRtJobs.JExc (GenRtJobs.JErr e)) /\
  GenBuilderEq.gen_once E fuel hs (GenRtBuilder.CExc e) key s = Some (s, GenRtJobs.JExc (GenRtJobs.JErr e)) /\
  GenBuilderEq.gen_at E fuel hs (GenRtBuilder.CExc e) key s = Some (s, GenRtJobs.JExc (GenRtJobs.JErr e)).
Proof. exact GenBuilderEq.gen_entry_conv_raises. Qed.
Print Assumptions C02_generated_entry_conv_raises.
(* the states differ only in how the job table was built; the model's functions and the invariant respect that *)
Theorem C02_generated_eqst_is_congruence : forall E f, SchedEqst.core_eqst E f.
Proof. exact SchedEqst.core_eqst_all. Qed.
Print Assumptions C02_generated_eqst_is_congruence.
Theorem C02_generated_eqst_inv : forall a b, SchedEqst.eqst a b -> SchedApi.Inv a -> SchedApi.Inv b.
Proof. exact SchedEqst.Inv_eqst. Qed.
Print Assumptions C02_generated_eqst_inv.
(* SyncExecutor.execute is what the job classes' `self.executor.execute()` was taken to be: the callable is entered,
   an exception goes to process_exception, execute() returns *)
Theorem C02_generated_sync_execute : forall E j t s,
  Sched.jnext (Sched.jobs s j) = Some t ->
  EASGen.GenBuilder.g_SyncExecutor_execute E j s = Some (SchedInv.exec_pre E j t s, GenRtJobs.JRet) /\
  EASGen.GenBuilder.g_SyncExecutor_execute E j s = Some (GenRtJobs.run_executor E j s, GenRtJobs.JRet).
Proof.
  intros E j t s H. split; [exact (GenBuilderEq.gen_sync_execute_is_exec_pre E j t s H)|
                            exact (GenBuilderEq.gen_sync_execute_is_run_executor E j s)].
Qed.
Print Assumptions C02_generated_sync_execute.
(* AsyncExecutor._execute, one resumption of the wrapper = AsyncExec.wrap_beh; execute() submits the wrapper *)
Theorem C02_generated_async_execute : forall w b,
  (fst b, fst (EASGen.GenBuilder.g_AsyncExecutor_execute_step (AsyncExec.user_out w (snd b)))) = AsyncExec.wrap_beh w b /\
  snd (EASGen.GenBuilder.g_AsyncExecutor_execute_step (AsyncExec.user_out w (snd b))) =
    AsyncExec.handler_called (AsyncExec.user_out w (snd b)).
Proof. exact GenBuilderEq.gen_async_is_wrap_beh. Qed.
Print Assumptions C02_generated_async_execute.
Theorem C02_generated_async_submits_wrapper :
  EASGen.GenBuilder.g_AsyncExecutor_execute_submits = GenRtBuilder.CoWrapper.
Proof. exact GenBuilderEq.gen_async_submits_wrapper. Qed.
Print Assumptions C02_generated_async_submits_wrapper.
