(* C02 — No unauthorised and no duplicate execution (statements only). *)
From EAS Require Import Base Sched SchedInv SchedApi SchedProps SchedLog.
From Coq Require Import Sorted.

(* In every reachable state the queue - the only place jobs are started from - holds exactly the
   running jobs, each once (no duplicate entry can ever fire twice), ordered by next-run time.  A job
   that was cancelled, paused, stopped or has run as a one-shot is not RUNNING and therefore not queued. *)
Theorem C02_queue_is_exactly_the_running_jobs :
  forall s, Inv s ->
    NoDup (queue s) /\ StronglySorted (le_next s) (queue s) /\
    (forall j, In j (queue s) <-> jstatus (jobs s j) = Running).
Proof. exact queue_exact. Qed.
Print Assumptions C02_queue_is_exactly_the_running_jobs.

Theorem C02_invariant_reachable :
  forall E fuel hs t0 en ops s rs,
    run E fuel hs (init t0 en) ops = (s, rs) -> ~ In NoFuel rs -> Inv s.
Proof. intros E fuel hs t0 en ops s rs H. exact (run_inv E fuel hs ops _ _ _ (Inv_init t0 en) H). Qed.
Print Assumptions C02_invariant_reachable.

(* while the scheduler is disabled nothing is started, whatever operation is issued (creation, control
   operations, resets, wake-ups), until it is enabled again *)
Theorem C02_disabled_starts_nothing :
  forall E fuel hs s o s' r, Inv s -> enabled s = false -> o <> OEnable true ->
    step_op E fuel hs s o = (s', r) -> execs (log s') = execs (log s).
Proof. exact disabled_quiet. Qed.
Print Assumptions C02_disabled_starts_nothing.
