(* C06 — Time-of-day triggers honour the wall clock and the DST policy (statements only).
   l = day * DAY + time of day is the local date-time asked for; [candidates z l] are all instants whose
   local time is l. *)
From EAS Require Import Base Civil Time TimeFacts Replace ReplaceFacts.
From EASGen Require Import Generated.

(* for EVERY time-zone table: candidates are exactly the instants showing that wall-clock time *)
Theorem C06_candidates_spec : forall z l i, In i (candidates z l) <-> to_local z i = l.
Proof. exact candidates_spec. Qed.
Print Assumptions C06_candidates_spec.

(* the time exists once: that instant *)
Theorem C06_unique :
  forall z tr day i, candidates z (day * DAY + tr_tod tr) = [i] ->
    replace z tr day = ROne i /\ to_local z i = day * DAY + tr_tod tr.
Proof. exact replace_unique. Qed.
Print Assumptions C06_unique.

(* skipped: skip - no run; earlier / later - shifted back / forward (l - offset after / before the change);
   after - the search below *)
Theorem C06_skipped :
  forall z tr day, candidates z (day * DAY + tr_tod tr) = [] ->
    (forall i, to_local z i <> day * DAY + tr_tod tr) /\
    match tr_sk tr with
    | SkSkip => replace z tr day = RSkip
    | SkEarlier => forall ob oa, gap_of z (day * DAY + tr_tod tr) = Some (ob, oa) ->
                     replace z tr day = ROne (day * DAY + tr_tod tr - oa * NS)
    | SkLater => forall ob oa, gap_of z (day * DAY + tr_tod tr) = Some (ob, oa) ->
                     replace z tr day = ROne (day * DAY + tr_tod tr - ob * NS)
    | SkAfter => replace z tr day = find_after z day (tr_tod tr)
    end.
Proof. exact replace_skipped. Qed.
Print Assumptions C06_skipped.

(* earlier and later are exactly the size of the gap apart *)
Theorem C06_shift_is_gap :
  forall z tr day ob oa, gap_of z (day * DAY + tr_tod tr) = Some (ob, oa) ->
    (day * DAY + tr_tod tr - ob * NS) - (day * DAY + tr_tod tr - oa * NS) = (oa - ob) * NS /\ ob < oa.
Proof. exact skipped_shift_is_gap. Qed.
Print Assumptions C06_shift_is_gap.

(* after: the first whole minute after the skipped time that is not skipped (seconds dropped), built on
   the date that minute belongs to *)
Theorem C06_after_first_valid_minute :
  forall z day tod i, find_after z day tod = ROne i ->
    let base := day * DAY + (tod / MINUTE) * MINUTE in
    exists k, 1 <= k <= after_search_minutes /\ candidates z (base + k * MINUTE) = [i] /\
              forall j, 1 <= j < k -> candidates z (base + j * MINUTE) = [].
Proof. exact find_after_spec. Qed.
Print Assumptions C06_after_first_valid_minute.

(* repeated: skip - no run; earlier / later - first / last repetition; twice - both; both show the
   configured wall-clock time and the first is strictly before the last *)
Theorem C06_repeated :
  forall z tr day i1 i2 rest, candidates z (day * DAY + tr_tod tr) = i1 :: i2 :: rest ->
    let last := last_z i1 (i2 :: rest) in
    to_local z i1 = day * DAY + tr_tod tr /\ to_local z last = day * DAY + tr_tod tr /\ i1 < last /\
    match tr_rp tr with
    | RpSkip => replace z tr day = RSkip
    | RpEarlier => replace z tr day = ROne i1
    | RpLater => replace z tr day = ROne last
    | RpTwice => replace z tr day = RTwo i1 last
    end.
Proof. exact replace_repeated. Qed.
Print Assumptions C06_repeated.
