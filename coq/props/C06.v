(* C06 — Time-of-day triggers honour the wall clock and the DST policy (statements only).
   l = day * DAY + time of day is the local date-time asked for; [candidates z l] are all instants whose
   local time is l. *)
From EAS Require Import Base Civil Time TimeFacts Replace ReplaceFacts.
From EASGen Require Import Generated.
From EAS Require Import TimeOrder Filters Producers ProdEarliest ProdEarliest2.

(* for EVERY time-zone table: candidates are exactly the instants showing that wall-clock time *)
Theorem C06_candidates_spec : forall z l i, In i (candidates z l) <-> to_local z i = l.
Proof. exact candidates_spec. Qed.
Print Assumptions C06_candidates_spec.

(* the time exists once: that instant *)
Theorem C06_unique :
  forall z tr day i, candidates z (day * DAY + tr_tod tr) = [i] ->
    replace z tr day = ROne i /\ to_local z i = day * DAY + tr_tod tr.
Proof. exact replace_unique. Qed.
Print Assumptions C06_unique.

(* skipped: skip - no run; earlier / later - shifted back / forward (l - offset after / before the change);
   after - the search below *)
Theorem C06_skipped :
  forall z tr day, candidates z (day * DAY + tr_tod tr) = [] ->
    (forall i, to_local z i <> day * DAY + tr_tod tr) /\
    match tr_sk tr with
    | SkSkip => replace z tr day = RSkip
    | SkEarlier => forall ob oa, gap_of z (day * DAY + tr_tod tr) = Some (ob, oa) ->
                     replace z tr day = ROne (day * DAY + tr_tod tr - oa * NS)
    | SkLater => forall ob oa, gap_of z (day * DAY + tr_tod tr) = Some (ob, oa) ->
                     replace z tr day = ROne (day * DAY + tr_tod tr - ob * NS)
    | SkAfter => replace z tr day = find_after z day (tr_tod tr)
    end.
Proof. exact replace_skipped. Qed.
Print Assumptions C06_skipped.

(* earlier and later are exactly the size of the gap apart *)
Theorem C06_shift_is_gap :
  forall z tr day ob oa, gap_of z (day * DAY + tr_tod tr) = Some (ob, oa) ->
    (day * DAY + tr_tod tr - ob * NS) - (day * DAY + tr_tod tr - oa * NS) = (oa - ob) * NS /\ ob < oa.
Proof. exact skipped_shift_is_gap. Qed.
Print Assumptions C06_shift_is_gap.

(* after: the first whole minute after the skipped time that is not skipped (seconds dropped), built on
   the date that minute belongs to *)
Theorem C06_after_first_valid_minute :
  forall z day tod i, find_after z day tod = ROne i ->
    let base := day * DAY + (tod / MINUTE) * MINUTE in
    exists k, 1 <= k <= after_search_minutes /\ candidates z (base + k * MINUTE) = [i] /\
              forall j, 1 <= j < k -> candidates z (base + j * MINUTE) = [].
Proof. exact find_after_spec. Qed.
Print Assumptions C06_after_first_valid_minute.

(* repeated: skip - no run; earlier / later - first / last repetition; twice - both; both show the
   configured wall-clock time and the first is strictly before the last *)
Theorem C06_repeated :
  forall z tr day i1 i2 rest, candidates z (day * DAY + tr_tod tr) = i1 :: i2 :: rest ->
    let last := last_z i1 (i2 :: rest) in
    to_local z i1 = day * DAY + tr_tod tr /\ to_local z last = day * DAY + tr_tod tr /\ i1 < last /\
    match tr_rp tr with
    | RpSkip => replace z tr day = RSkip
    | RpEarlier => replace z tr day = ROne i1
    | RpLater => replace z tr day = ROne last
    | RpTwice => replace z tr day = RTwo i1 last
    end.
Proof. exact replace_repeated. Qed.
Print Assumptions C06_repeated.

(* ---- additions to props/C06.v; needs in the header:
   From EAS Require Import TimeOrder Filters Producers ProdEarliest ProdEarliest2.  ---- *)

(* order facts of the local clock, EVERY table *)
Theorem C06_offset_range : forall z i, off_lo z <= offset_at z i <= off_hi z.
Proof. exact offset_range. Qed.
Print Assumptions C06_offset_range.

Theorem C06_local_order : forall z a b, to_local z a + spread z * NS < to_local z b -> a < b.
Proof. exact local_order. Qed.
Print Assumptions C06_local_order.

Theorem C06_local_mono_weak : forall z a b, a <= b -> to_local z a <= to_local z b + spread z * NS.
Proof. exact local_mono_weak. Qed.
Print Assumptions C06_local_mono_weak.

(* where a run of a local day lies, EVERY table: it shows the configured wall-clock time of that day, or the
   time is skipped and the run is the configured time resolved with the offset after / before the change
   (earlier / later), or the time is skipped and the run shows the k-th whole minute after the configured
   minute, k <= 121 (after) *)
Theorem C06_day_results_cases :
  forall z tr day u, In u (day_results z tr day) ->
    to_local z u = day * DAY + tr_tod tr \/
    (candidates z (day * DAY + tr_tod tr) = [] /\
     exists ob oa, gap_of z (day * DAY + tr_tod tr) = Some (ob, oa) /\
       ((tr_sk tr = SkEarlier /\ u = day * DAY + tr_tod tr - oa * NS) \/
        (tr_sk tr = SkLater /\ u = day * DAY + tr_tod tr - ob * NS))) \/
    (candidates z (day * DAY + tr_tod tr) = [] /\ tr_sk tr = SkAfter /\
     exists k, 1 <= k <= after_search_minutes /\
       to_local z u = day * DAY + tr_tod tr / MINUTE * MINUTE + k * MINUTE).
Proof. exact day_results_cases. Qed.
Print Assumptions C06_day_results_cases.

Theorem C06_day_results_local :
  forall z tr day u, In u (day_results z tr day) ->
    - (spread z * NS) <= to_local z u - (day * DAY + tr_tod tr) <= day_dev z.
Proof. exact day_results_local. Qed.
Print Assumptions C06_day_results_local.

Theorem C06_exact_result_day :
  forall z tr day u, wf_tr tr -> to_local z u = day * DAY + tr_tod tr ->
    local_day (to_local z u) = day /\ local_tod (to_local z u) = tr_tod tr.
Proof. exact exact_result_day. Qed.
Print Assumptions C06_exact_result_day.

(* an instant is the run of at most one local day, the runs of a day are listed in increasing order *)
Theorem C06_day_results_disjoint :
  forall z tr d d' u, spread z <= 4 * 3600 ->
    In u (day_results z tr d) -> In u (day_results z tr d') -> d = d'.
Proof. exact day_results_disjoint. Qed.
Print Assumptions C06_day_results_disjoint.

Theorem C06_day_results_sorted : forall z tr day, strictly_ascending (day_results z tr day).
Proof. exact day_results_sorted. Qed.
Print Assumptions C06_day_results_sorted.

(* ONCE PER DAY: the answer of an unfiltered time-of-day trigger is the least element after dt of the union
   over ALL local days of the day's runs (0, 1 or 2 as the policy table says) *)
Theorem C06_once_per_day :
  forall z tr dt v, wf_tz_b z = true -> wf_tr tr ->
    next_time z tr None dt = Ok v -> earliest_after (occ_day z tr) dt v.
Proof. exact once_per_day. Qed.
Print Assumptions C06_once_per_day.

Theorem C06_once_per_day_no_omission :
  forall z tr dt v, wf_tz_b z = true -> wf_tr tr -> next_time z tr None dt = Ok v ->
    forall day u, In u (day_results z tr day) -> ~ (dt < u < v).
Proof. exact once_per_day_no_omission. Qed.
Print Assumptions C06_once_per_day_no_omission.

(* the chain a recurring job follows enumerates that union: increasing, nothing omitted, nothing repeated *)
Theorem C06_once_per_day_chain :
  forall E tr, wf_tz_b (pz E) = true -> wf_tr tr ->
    forall n st dt, enumerates (occ_day (pz E) tr) dt (chain E (PTime tr None) st dt n).
Proof. exact once_per_day_chain. Qed.
Print Assumptions C06_once_per_day_chain.

Theorem C06_enumerates_sorted :
  forall (P : Z -> Prop) l prev, enumerates P prev l ->
    Sorted.StronglySorted Z.lt (prev :: oks l) /\ forall u, In u (oks l) -> P u.
Proof. exact enumerates_sorted. Qed.
Print Assumptions C06_enumerates_sorted.

Theorem C06_enumerates_complete :
  forall (P : Z -> Prop) l prev u, enumerates P prev l ->
    P u -> prev < u -> u <= last_z prev (oks l) -> In u (oks l).
Proof. exact enumerates_complete. Qed.
Print Assumptions C06_enumerates_complete.

(* ---- the tie to the source by translation (tools/gen_prod.py, coq/gen/GenProd.v, GenProdEq.v): the generated
   TimeProducer.get_next, TimeReplacer.replace and find_time_after_dst_switch compute the model's next_time / replace /
   find_after ---- *)
From EAS Require GenRtProd GenProdEq.
Theorem C06_generated_source_recognised : EASGen.GenProd.gen_prod_status_v = EASGen.GenProd.GenProdOk.
Proof. exact GenProdEq.gen_prod_recognised. Qed.
Print Assumptions C06_generated_source_recognised.
Theorem C06_generated_time_is_model : forall E R fuel tr f dt st,
  (forall tr day s, GenRtProd.r_replace R tr day s = Some (s, GenRtProd.of_rres (replace (pz E) tr day))) ->
  GenProdEq.allow_ok E R f ->
  EASGen.GenProd.g_time_get_next E R fuel tr f dt st = GenRtProd.lift (get_next E (PTime tr f) st dt).
Proof. exact GenProdEq.gen_time_get_next_eq. Qed.
Print Assumptions C06_generated_time_is_model.
Theorem C06_generated_replace : forall E R fuel tr day s,
  (forall d t s, GenRtProd.r_find_after R d t s = Some (s, GenRtProd.of_rres (find_after (pz E) d t))) ->
  EASGen.GenProd.g_replace E R fuel (tr_tod tr) (tr_sk tr) (tr_rp tr) day s = Some (s, GenRtProd.of_rres (replace (pz E) tr day)).
Proof. exact GenProdEq.gen_replace_eq. Qed.
Print Assumptions C06_generated_replace.
Theorem C06_generated_find_after : forall E R fuel day tod s,
  GenProdEq.coarse_pm (EASGen.GenProd.g_find_after E R fuel day tod s) = Some (s, GenRtProd.of_rres (find_after (pz E) day tod)).
Proof. exact GenProdEq.gen_find_after_eq. Qed.
Print Assumptions C06_generated_find_after.
