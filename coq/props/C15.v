(* C15 — Triggers and filters are pure values; builders have no side effects (statements only).
   Builder.v is the builder DSL as a pure program over an object list; that the real TriggerObject / FilterObject
   behave like these values is what the correspondence compares after EVERY public API call for EVERY object. *)
From EAS Require Import Base Civil Time Filters Replace Producers ProdStrict ProdEarliest Builder BuilderFacts SunFacts ProdPure.

(* deriving new triggers / filters (offset, earliest, latest, jitter, only_on / only_at, group, any, all, not_)
   never changes an object that existed before, whatever is called afterwards *)
Theorem C15_builder_noninterference :
  forall ops more, firstn (length ops) (run_prog (ops ++ more)) = run_prog ops.
Proof. exact builder_noninterference. Qed.
Print Assumptions C15_builder_noninterference.

Theorem C15_object_stable :
  forall ops more i x, nth_error (run_prog ops) i = Some x -> nth_error (run_prog (ops ++ more)) i = Some x.
Proof. exact builder_object_stable. Qed.
Print Assumptions C15_object_stable.

Theorem C15_only_on_leaves_receiver :
  forall ops i f p, get_trig (run_prog ops) i = Some p -> get_trig (run_prog (ops ++ [BOnlyOn i f])) i = Some p.
Proof. exact only_on_leaves_receiver. Qed.
Print Assumptions C15_only_on_leaves_receiver.

(* the answer of an interval trigger does not depend on its cached grid point: repeating a query, or asking
   other instants in between, gives the same answer *)
Theorem C15_interval_query_independent :
  forall z fuel c c' iv f dt g g', 0 < iv -> on_grid c iv c' ->
    next_interval z fuel c iv f dt = Ok g -> next_interval z fuel c' iv f dt = Ok g' -> g = g'.
Proof. exact interval_query_independent. Qed.
Print Assumptions C15_interval_query_independent.

Theorem C15_time_query_stateless :
  forall E tr f st st2 dt, fst (get_next E (PTime tr f) st dt) = fst (get_next E (PTime tr f) st2 dt).
Proof. exact time_query_stateless. Qed.
Print Assumptions C15_time_query_stateless.

(* the process-wide sun cache never changes an answer: any two coherent caches (e.g. the empty one and the one
   left behind by arbitrary earlier queries of arbitrary producers) give the same answer *)
Theorem C15_sun_query_independent :
  forall E key f st1 st2 dt, cache_coherent E st1 -> cache_coherent E st2 ->
    fst (get_next E (PSun key f) st1 dt) = fst (get_next E (PSun key f) st2 dt).
Proof. exact sun_query_independent. Qed.
Print Assumptions C15_sun_query_independent.

(* ---- additions to props/C15.v; add `ProdPure` to the `From EAS Require Import ...` line of the header ---- *)

(* C15 (a), whole expressions.  good_state E p st: sun cache coherent; the cell of an interval with start, if present,
   is on the grid of the start; the cell of a start-less interval is present (anchored by a first query).
   wfp E p: intervals positive; where jitter occurs the random source is fixed (draw ignores its index). *)

(* the invariant is kept by every query *)
Theorem C15_good_state_preserved :
  forall E p st dt, wfp E p -> lconsistent (ileaves p) -> good_state E p st -> good_state E p (snd (get_next E p st dt)).
Proof. exact good_state_preserved. Qed.
Print Assumptions C15_good_state_preserved.

(* the answer is the same from any two good states that agree on the grids of the start-less intervals *)
Theorem C15_query_state_independent :
  forall E p st1 st2 dt, wfp E p -> lconsistent (ileaves p) -> same_grids E p st1 st2 ->
    fst (get_next E p st1 dt) = fst (get_next E p st2 dt).
Proof. exact query_state_independent. Qed.
Print Assumptions C15_query_state_independent.

Theorem C15_jitter_free_query_state_independent :
  forall E p st1 st2 dt, wf_producer p -> jitter_free p -> lconsistent (ileaves p) -> same_grids E p st1 st2 ->
    fst (get_next E p st1 dt) = fst (get_next E p st2 dt).
Proof. exact jitter_free_query_state_independent. Qed.
Print Assumptions C15_jitter_free_query_state_independent.

Theorem C15_fixed_draw_query_state_independent :
  forall E p st1 st2 dt, wf_producer p -> draw_fixed E -> lconsistent (ileaves p) -> same_grids E p st1 st2 ->
    fst (get_next E p st1 dt) = fst (get_next E p st2 dt).
Proof. exact fixed_draw_query_state_independent. Qed.
Print Assumptions C15_fixed_draw_query_state_independent.

(* repeating a query *)
Theorem C15_repeat_query_same :
  forall E p st dt r st', wfp E p -> lconsistent (ileaves p) -> good_state E p st ->
    get_next E p st dt = (r, st') -> fst (get_next E p st' dt) = r.
Proof. exact repeat_query_same. Qed.
Print Assumptions C15_repeat_query_same.

(* any queries in between: other instants, other expressions over the same cells and sun cache *)
Theorem C15_interleaved_queries_same :
  forall E G p qs st dt, lconsistent G -> wfp E p -> incl (ileaves p) G ->
    (forall q x, In (q, x) qs -> wfp E q /\ incl (ileaves q) G) ->
    good E G (anchor_of st) st ->
    fst (get_next E p (run_queries E qs st) dt) = fst (get_next E p st dt).
Proof. exact interleaved_queries_same. Qed.
Print Assumptions C15_interleaved_queries_same.

Theorem C15_other_instants_same :
  forall E p dts st dt, wfp E p -> lconsistent (ileaves p) -> good_state E p st ->
    fst (get_next E p (ask_all E p dts st) dt) = fst (get_next E p st dt).
Proof. exact other_instants_same. Qed.
Print Assumptions C15_other_instants_same.

(* a copy (same expression, cells holding the current values) answers like the original, however both are
   queried afterwards *)
Theorem C15_copy_same :
  forall E p st stc dts dts' dt, wfp E p -> lconsistent (ileaves p) -> good_state E p st ->
    icache stc = icache st -> cache_coherent E stc ->
    fst (get_next E p (ask_all E p dts st) dt) = fst (get_next E p (ask_all E p dts' stc) dt).
Proof. exact copy_same. Qed.
Print Assumptions C15_copy_same.

(* all intervals with start: after ANY history the answer is the answer of the initial state *)
Theorem C15_query_independent_of_history :
  forall E G p qs dt, lconsistent G -> all_started G -> wfp E p -> incl (ileaves p) G ->
    (forall q x, In (q, x) qs -> wfp E q /\ incl (ileaves q) G) ->
    fst (get_next E p (run_queries E qs pstate0) dt) = fst (get_next E p pstate0 dt).
Proof. exact query_independent_of_history. Qed.
Print Assumptions C15_query_independent_of_history.

(* a start-less interval is defined from its first query on: the first query that answers establishes the invariant *)
Theorem C15_first_query_anchors :
  forall E p st dt v st', wfp E p -> lconsistent (ileaves p) -> pre_good E (ileaves p) st ->
    get_next E p st dt = (Ok v, st') -> good_state E p st'.
Proof. exact first_query_anchors. Qed.
Print Assumptions C15_first_query_anchors.

Theorem C15_answers_fixed_after_first_query :
  forall E p dt0 v0 st0 dts dt, wfp E p -> lconsistent (ileaves p) -> get_next E p pstate0 dt0 = (Ok v0, st0) ->
    fst (get_next E p (ask_all E p dts st0) dt) = fst (get_next E p st0 dt).
Proof. exact answers_fixed_after_first_query. Qed.
Print Assumptions C15_answers_fixed_after_first_query.

(* the anchoring hypothesis is needed: before its first query a start-less interval has no grid *)
Theorem C15_unanchored_refuted :
  fst (get_next ex_envP ex_p pstate0 (ex_dt0 + 7000 * NS)) <> fst (get_next ex_envP ex_p ex_st0 (ex_dt0 + 7000 * NS)).
Proof. exact unanchored_refuted. Qed.
Print Assumptions C15_unanchored_refuted.


(* ---- the tie to the source by translation: coq/gen/GenTrig.v is regenerated from src/eascheduler/builder/{triggers,
   filters,helper}.py, producers/*.py (`__init__`, `copy`, `_copy_filter`, `add_filter`) and helpers/time_replace.py by
   tools/gen_trig.py on every run; GenTrigEq.v proves, over a HEAP of objects with identity (GenRtTrig.v), that every
   generated builder call computes Builder.eval_bop on an object graph it owns.  rep_prod h a p F: the cell a of the heap
   h represents the producer value p, F = the addresses of its object graph (its footprint); frame h h': every cell of h
   is unchanged in h'; disjoint footprints = no shared object; NoDup = a tree. ---- *)
From EAS Require GenRtTrig GenTrigEq.
Theorem C15_generated_source_recognised : EASGen.GenTrig.gen_trig_status_v = EASGen.GenTrig.GenTrigOk.
Proof. exact GenTrigEq.gen_trig_recognised. Qed.
Print Assumptions C15_generated_source_recognised.

(* a whole builder program run through the generated TriggerBuilder / TriggerObject / FilterBuilder API yields objects that
   represent exactly Builder.run_prog (a raising call where the model says OErr), and all footprints together have no
   duplicate: every object is a tree and no two objects share a cell *)
Theorem C15_generated_builder_is_model : forall ops n, (GenTrigEq.os_depth (run_prog ops) <= n)%nat ->
  exists h refs Fs, GenTrigEq.gen_run n ops = Some (h, refs) /\ GenTrigEq.rep_objs h refs (run_prog ops) Fs /\ NoDup Fs.
Proof. exact GenTrigEq.gen_run_is_model. Qed.
Print Assumptions C15_generated_builder_is_model.

(* builder_noninterference / builder_object_stable for the generated code: whatever is called afterwards, every heap
   cell that existed is unchanged, the user still holds the same objects and they represent what they represented *)
Theorem C15_generated_builder_noninterference : forall n ops more,
  (GenTrigEq.os_depth (run_prog (ops ++ more)) <= n)%nat ->
  exists h refs Fs h' refs',
    GenTrigEq.gen_run n ops = Some (h, refs) /\ GenTrigEq.gen_run n (ops ++ more) = Some (h', refs') /\
    GenTrigEq.frame h h' /\ firstn (GenTrigEq.len refs) refs' = refs /\
    GenTrigEq.rep_objs h refs (run_prog ops) Fs /\ GenTrigEq.rep_objs h' refs (run_prog ops) Fs /\
    run_prog ops = firstn (GenTrigEq.len ops) (run_prog (ops ++ more)).
Proof. exact GenTrigEq.gen_builder_noninterference. Qed.
Print Assumptions C15_generated_builder_noninterference.

(* only_on / only_at leave the receiver as it was (the repaired defect F7) *)
Theorem C15_generated_only_on_leaves_receiver : forall n ops i f p,
  (GenTrigEq.os_depth (run_prog (ops ++ [BOnlyOn i f])) <= n)%nat -> get_trig (run_prog ops) i = Some p ->
  exists h refs h' refs' F,
    GenTrigEq.gen_run n ops = Some (h, refs) /\ GenTrigEq.gen_run n (ops ++ [BOnlyOn i f]) = Some (h', refs') /\
    GenTrigEq.frame h h' /\ GenTrigEq.nthv refs' i = GenTrigEq.nthv refs i /\
    GenTrigEq.rep_obj h (GenTrigEq.nthv refs i) (OTrig p) F /\ GenTrigEq.rep_obj h' (GenTrigEq.nthv refs' i) (OTrig p) F.
Proof. exact GenTrigEq.gen_only_on_leaves_receiver. Qed.
Print Assumptions C15_generated_only_on_leaves_receiver.

(* one builder call: all old cells unchanged; the result represents Builder.eval_bop and lies in new cells only *)
Theorem C15_generated_call_is_model : forall n h refs os Fs o,
  GenTrigEq.rep_objs h refs os Fs -> (GenTrigEq.os_depth os <= n)%nat ->
  GenTrigEq.runs (GenTrigEq.gen_bop (GenTrigEq.tknot n) refs o) h (GenTrigEq.step_post h (eval_bop os o)).
Proof. exact GenTrigEq.gen_bop_spec. Qed.
Print Assumptions C15_generated_call_is_model.

(* the generated `copy` of every producer class: structurally equal, shares no cell with the original, a tree, the
   original untouched;  a cell represents at most one value *)
Theorem C15_generated_copy_producer : forall n h a p F, GenTrigEq.rep_prod h a p F -> (GenTrigEq.pdepth p <= n)%nat ->
  exists h' a' F', GenTrigEq.call_copy n a h = Some (h', GenRtTrig.TRet (GenRtTrig.VRef a')) /\
    GenTrigEq.frame h h' /\ GenTrigEq.rep_prod h' a' p F' /\ GenTrigEq.rep_prod h' a p F /\ GenTrigEq.disjoint F F' /\ NoDup F'.
Proof. exact GenTrigEq.gen_copy_producer. Qed.
Print Assumptions C15_generated_copy_producer.

Theorem C15_generated_copy_filter : forall n h a f F, GenTrigEq.rep_filt h a f F -> (GenTrigEq.fdepth f <= n)%nat ->
  exists h' a' F', GenTrigEq.call_copy n a h = Some (h', GenRtTrig.TRet (GenRtTrig.VRef a')) /\
    GenTrigEq.frame h h' /\ GenTrigEq.rep_filt h' a' f F' /\ GenTrigEq.rep_filt h' a f F /\ GenTrigEq.disjoint F F' /\ NoDup F'.
Proof. exact GenTrigEq.gen_copy_filter. Qed.
Print Assumptions C15_generated_copy_filter.

Theorem C15_generated_representation_unique : forall h a p F, GenTrigEq.rep_prod h a p F ->
  forall p' F', GenTrigEq.rep_prod h a p' F' -> p = p' /\ F = F'.
Proof. exact GenTrigEq.rep_prod_det. Qed.
Print Assumptions C15_generated_representation_unique.

(* what JobBuilder.at stores is `_get_producer(trigger)`: two jobs built from one trigger object get two copies that
   share nothing with each other nor with the trigger object *)
Theorem C15_generated_jobs_get_disjoint_copies : forall n h v p F,
  GenTrigEq.rep_obj h v (OTrig p) F -> (GenTrigEq.pdepth p <= n)%nat ->
  exists h1 a1 F1 h2 a2 F2,
    EASGen.GenTrig.g__get_producer (GenTrigEq.tknot n) v h = Some (h1, GenRtTrig.TRet (GenRtTrig.VRef a1)) /\
    EASGen.GenTrig.g__get_producer (GenTrigEq.tknot n) v h1 = Some (h2, GenRtTrig.TRet (GenRtTrig.VRef a2)) /\
    GenTrigEq.rep_prod h2 a1 p F1 /\ GenTrigEq.rep_prod h2 a2 p F2 /\ GenTrigEq.rep_obj h2 v (OTrig p) F /\
    GenTrigEq.disjoint F F1 /\ GenTrigEq.disjoint F F2 /\ GenTrigEq.disjoint F1 F2.
Proof. exact GenTrigEq.gen_get_producer_twice. Qed.
Print Assumptions C15_generated_jobs_get_disjoint_copies.
