(* C15 — Triggers and filters are pure values; builders have no side effects (statements only).
   Builder.v is the builder DSL as a pure program over an object list; that the real TriggerObject / FilterObject
   behave like these values is what the correspondence compares after EVERY public API call for EVERY object. *)
From EAS Require Import Base Civil Time Filters Replace Producers ProdStrict ProdEarliest Builder BuilderFacts SunFacts.

(* deriving new triggers / filters (offset, earliest, latest, jitter, only_on / only_at, group, any, all, not_)
   never changes an object that existed before, whatever is called afterwards *)
Theorem C15_builder_noninterference :
  forall ops more, firstn (length ops) (run_prog (ops ++ more)) = run_prog ops.
Proof. exact builder_noninterference. Qed.
Print Assumptions C15_builder_noninterference.

Theorem C15_object_stable :
  forall ops more i x, nth_error (run_prog ops) i = Some x -> nth_error (run_prog (ops ++ more)) i = Some x.
Proof. exact builder_object_stable. Qed.
Print Assumptions C15_object_stable.

Theorem C15_only_on_leaves_receiver :
  forall ops i f p, get_trig (run_prog ops) i = Some p -> get_trig (run_prog (ops ++ [BOnlyOn i f])) i = Some p.
Proof. exact only_on_leaves_receiver. Qed.
Print Assumptions C15_only_on_leaves_receiver.

(* the answer of an interval trigger does not depend on its cached grid point: repeating a query, or asking
   other instants in between, gives the same answer *)
Theorem C15_interval_query_independent :
  forall z fuel c c' iv f dt g g', 0 < iv -> on_grid c iv c' ->
    next_interval z fuel c iv f dt = Ok g -> next_interval z fuel c' iv f dt = Ok g' -> g = g'.
Proof. exact interval_query_independent. Qed.
Print Assumptions C15_interval_query_independent.

Theorem C15_time_query_stateless :
  forall E tr f st st2 dt, fst (get_next E (PTime tr f) st dt) = fst (get_next E (PTime tr f) st2 dt).
Proof. exact time_query_stateless. Qed.
Print Assumptions C15_time_query_stateless.

(* the process-wide sun cache never changes an answer: any two coherent caches (e.g. the empty one and the one
   left behind by arbitrary earlier queries of arbitrary producers) give the same answer *)
Theorem C15_sun_query_independent :
  forall E key f st1 st2 dt, cache_coherent E st1 -> cache_coherent E st2 ->
    fst (get_next E (PSun key f) st1 dt) = fst (get_next E (PSun key f) st2 dt).
Proof. exact sun_query_independent. Qed.
Print Assumptions C15_sun_query_independent.
