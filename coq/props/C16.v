(* C16 — Computing the next occurrence always terminates (statements only). *)
From EAS Require Import Base Civil Time Filters Replace Producers ProdStrict ProdEarliest ProdTerm ProdGroup ProdCost.
From EASGen Require Import Generated.
From Coq Require Import String.
Open Scope string_scope.

(* the loop / call skeleton extracted from /repo's CURRENT source is the one the model mirrors: every loop is
   bounded by not_infinite_loop(), a literal range or a finite tuple, except the sites listed below *)
Theorem C16_loops_bounded : gen_loops = expected_loops /\ gen_calls = expected_calls /\ gen_status_v = GenOk.
Proof. exact loops_bounded. Qed.
Print Assumptions C16_loops_bounded.

Theorem C16_only_interval_loops_are_unbounded :
  unbounded_sites = ["producers/prod_interval.py:IntervalProducer.get_next";
                     "producers/prod_operation.py:find_time_after_dst_switch"].
Proof. exact only_interval_loops_are_unbounded. Qed.
Print Assumptions C16_only_interval_loops_are_unbounded.

Theorem C16_generated_bounds : loop_bound = 99999%positive /\ after_search_minutes = 121 /\ sun_tries = 366.
Proof. exact generated_bounds. Qed.
Print Assumptions C16_generated_bounds.

(* a bounded loop that runs out answers InfiniteLoopDetectedError *)
Theorem C16_exhausted_loop_is_error : forall r : Z * pstate, fst (finish_loop (inl r)) = Raise EInfiniteLoop.
Proof. exact exhausted_loop_is_error. Qed.
Print Assumptions C16_exhausted_loop_is_error.

(* the interval trigger ends as soon as an admissible grid point exists within the fuel *)
Theorem C16_interval_terminates :
  forall z fuel c iv f dt, 0 < iv ->
    (exists k, (k < Pos.to_nat fuel)%nat /\
               allow_opt z f (interval_first (interval_back c iv dt) iv dt + Z.of_nat k * iv) = true) ->
    exists g, next_interval z fuel c iv f dt = Ok g.
Proof. exact interval_terminates. Qed.
Print Assumptions C16_interval_terminates.

(* known finding F9: with a never-accepting filter it does not end, whatever the fuel *)
Theorem C16_interval_unsat_refuted :
  exists f, forall z fuel c iv dt, next_interval z fuel c iv (Some f) dt = OutOfFuel.
Proof. exact interval_unsat_refuted. Qed.
Print Assumptions C16_interval_unsat_refuted.

(* ---- additions to props/C16.v; add `ProdGroup ProdCost` to the `From EAS Require Import ...` line of the header ---- *)

(* the instrumented evaluator (every loop round counted, nested loops included) computes what get_next computes *)
Theorem C16_get_next_cost_fst : forall E p st dt, fst (get_next_cost E p st dt) = get_next E p st dt.
Proof. exact get_next_cost_fst. Qed.
Print Assumptions C16_get_next_cost_fst.

(* a bounded loop runs its body at most p times: count <= p * (B + 1) when the nested work of a round is <= B *)
Theorem C16_iter_until_count :
  forall (St Rt : Type) p (f : St -> (St + Rt) * N) s (B : N),
    (forall s, (snd (f s) <= B)%N) -> (loop_cost p f s <= N.pos p * (B + 1))%N.
Proof. exact @iter_until_count. Qed.
Print Assumptions C16_iter_until_count.

(* work bound: for every expression, state, reference instant, table, oracle: the number of loop rounds of a query
   is at most bound E p, a closed form in the expression and the interval fuel:
   time-of-day 99 999; interval: fuel; offset/earliest/latest/jitter: 99 999 * (1 + bound inner);
   group: 99 999 * (1 + sum of the members); sun: 99 999 * (1 + 367) *)
Theorem C16_cost_bound : forall E p st dt, (cost E p st dt <= bound E p)%N.
Proof. exact cost_bound. Qed.
Print Assumptions C16_cost_bound.

Theorem C16_bound_constants : LB = 99999%N /\ SUN_DAYS = 367%N.
Proof. exact bound_constants. Qed.
Print Assumptions C16_bound_constants.

Theorem C16_bound_depends_on_fuel_only :
  forall E E', interval_fuel E = interval_fuel E' -> forall p, bound E p = bound E' p.
Proof. exact bound_depends_on_fuel_only. Qed.
Print Assumptions C16_bound_depends_on_fuel_only.

(* F9 seen through the counter: a never-accepting filter makes the interval trigger spend its whole budget *)
Theorem C16_interval_unsat_cost :
  forall E id start iv st dt,
    cost E (PInterval id start iv (Some (FDay []))) st dt = bound E (PInterval id start iv (Some (FDay []))).
Proof. exact interval_unsat_cost. Qed.
Print Assumptions C16_interval_unsat_cost.
