(* C16 — Computing the next occurrence always terminates (statements only). *)
From EAS Require Import Base Civil Time Filters Replace Producers ProdStrict ProdEarliest ProdTerm ProdGroup ProdCost.
From EASGen Require Import Generated.
From Coq Require Import String.
Open Scope string_scope.

(* the loop / call skeleton extracted from /repo's CURRENT source is the one the model mirrors: every loop is
   bounded by not_infinite_loop(), a literal range or a finite tuple, except the sites listed below *)
Theorem C16_loops_bounded : gen_loops = expected_loops /\ gen_calls = expected_calls /\ gen_status_v = GenOk.
Proof. exact loops_bounded. Qed.
Print Assumptions C16_loops_bounded.

Theorem C16_only_interval_loops_are_unbounded :
  unbounded_sites = ["producers/prod_interval.py:IntervalProducer.get_next";
                     "producers/prod_operation.py:find_time_after_dst_switch"].
Proof. exact only_interval_loops_are_unbounded. Qed.
Print Assumptions C16_only_interval_loops_are_unbounded.

Theorem C16_generated_bounds : loop_bound = 99999%positive /\ after_search_minutes = 121 /\ sun_tries = 366.
Proof. exact generated_bounds. Qed.
Print Assumptions C16_generated_bounds.

(* a bounded loop that runs out answers InfiniteLoopDetectedError *)
Theorem C16_exhausted_loop_is_error : forall r : Z * pstate, fst (finish_loop (inl r)) = Raise EInfiniteLoop.
Proof. exact exhausted_loop_is_error. Qed.
Print Assumptions C16_exhausted_loop_is_error.

(* the interval trigger ends as soon as an admissible grid point exists within the fuel *)
Theorem C16_interval_terminates :
  forall z fuel c iv f dt, 0 < iv ->
    (exists k, (k < Pos.to_nat fuel)%nat /\
               allow_opt z f (interval_first (interval_back c iv dt) iv dt + Z.of_nat k * iv) = true) ->
    exists g, next_interval z fuel c iv f dt = Ok g.
Proof. exact interval_terminates. Qed.
Print Assumptions C16_interval_terminates.

(* known finding F9: with a never-accepting filter it does not end, whatever the fuel *)
Theorem C16_interval_unsat_refuted :
  exists f, forall z fuel c iv dt, next_interval z fuel c iv (Some f) dt = OutOfFuel.
Proof. exact interval_unsat_refuted. Qed.
Print Assumptions C16_interval_unsat_refuted.

(* ---- additions to props/C16.v; add `ProdGroup ProdCost` to the `From EAS Require Import ...` line of the header ---- *)

(* the instrumented evaluator (every loop round counted, nested loops included) computes what get_next computes *)
Theorem C16_get_next_cost_fst : forall E p st dt, fst (get_next_cost E p st dt) = get_next E p st dt.
Proof. exact get_next_cost_fst. Qed.
Print Assumptions C16_get_next_cost_fst.

(* a bounded loop runs its body at most p times: count <= p * (B + 1) when the nested work of a round is <= B *)
Theorem C16_iter_until_count :
  forall (St Rt : Type) p (f : St -> (St + Rt) * N) s (B : N),
    (forall s, (snd (f s) <= B)%N) -> (loop_cost p f s <= N.pos p * (B + 1))%N.
Proof. exact @iter_until_count. Qed.
Print Assumptions C16_iter_until_count.

(* work bound: for every expression, state, reference instant, table, oracle: the number of loop rounds of a query
   is at most bound E p, a closed form in the expression and the interval fuel:
   time-of-day 99 999; interval: fuel; offset/earliest/latest/jitter: 99 999 * (1 + bound inner);
   group: 99 999 * (1 + sum of the members); sun: 99 999 * (1 + 367) *)
Theorem C16_cost_bound : forall E p st dt, (cost E p st dt <= bound E p)%N.
Proof. exact cost_bound. Qed.
Print Assumptions C16_cost_bound.

Theorem C16_bound_constants : LB = 99999%N /\ SUN_DAYS = 367%N.
Proof. exact bound_constants. Qed.
Print Assumptions C16_bound_constants.

Theorem C16_bound_depends_on_fuel_only :
  forall E E', interval_fuel E = interval_fuel E' -> forall p, bound E p = bound E' p.
Proof. exact bound_depends_on_fuel_only. Qed.
Print Assumptions C16_bound_depends_on_fuel_only.

(* F9 seen through the counter: a never-accepting filter makes the interval trigger spend its whole budget *)
Theorem C16_interval_unsat_cost :
  forall E id start iv st dt,
    cost E (PInterval id start iv (Some (FDay []))) st dt = bound E (PInterval id start iv (Some (FDay []))).
Proof. exact interval_unsat_cost. Qed.
Print Assumptions C16_interval_unsat_cost.

(* ---- the tie to the source by translation: coq/gen/GenProd.v is regenerated from src/eascheduler/producers/*.py and
   helpers/time_replace.py on every run (tools/gen_prod.py); these theorems are re-checked against it.  [pknot E n] is
   the generated code closed by dispatch on the class of the object; [lift] reads a model answer as an outcome of the
   generated code (value + producer state / exception / out of fuel). *)
From EAS Require GenRtProd GenProdEq.
Theorem C16_generated_source_recognised : EASGen.GenProd.gen_prod_status_v = EASGen.GenProd.GenProdOk.
Proof. exact GenProdEq.gen_prod_recognised. Qed.
Print Assumptions C16_generated_source_recognised.
(* every translated method other than IntervalProducer.get_next contains no `while`: [pknot] runs them with
   [no_fuel], and they compute the model, whose loops are bounded by loop_bound / after_search_minutes; the generated
   code is out of fuel exactly when the model is *)
Theorem C16_generated_producers_are_model : forall E n p, wf_producer p -> (GenProdEq.rank p <= n)%nat ->
  forall dt st, GenRtProd.r_get_next (GenProdEq.pknot E n) p dt st = GenRtProd.lift (get_next E p st dt).
Proof. exact GenProdEq.gen_get_next_is_model. Qed.
Print Assumptions C16_generated_producers_are_model.
Theorem C16_generated_out_of_fuel_iff : forall E n p dt st, wf_producer p -> (GenProdEq.rank p <= n)%nat ->
  (GenRtProd.r_get_next (GenProdEq.pknot E n) p dt st = None <-> exists s, get_next E p st dt = (OutOfFuel, s)).
Proof. exact GenProdEq.gen_out_of_fuel_iff. Qed.
Print Assumptions C16_generated_out_of_fuel_iff.
(* the two `while` loops of IntervalProducer.get_next as generated: the walk back and the walk to the first grid
   point after dt end after back_steps / fwd_steps rounds; the search ends with a value as soon as an admissible
   grid point exists within the budget *)
Theorem C16_generated_interval_terminates : forall E R fuel id start iv f dt st,
  0 < iv -> GenProdEq.allow_ok E R f ->
  let c := GenProdEq.start_point id start dt st in
  (GenProdEq.back_steps c iv dt < fuel 1%nat)%nat ->
  fuel 2%nat = (GenProdEq.fwd_steps (interval_back c iv dt) iv dt + Pos.to_nat (interval_fuel E))%nat ->
  (exists k, (k < Pos.to_nat (interval_fuel E))%nat /\
             allow_opt (pz E) f (interval_first (interval_back c iv dt) iv dt + Z.of_nat k * iv) = true) ->
  exists g st', EASGen.GenProd.g_interval_get_next E R fuel id start iv f dt st = Some (st', GenRtProd.PRet g).
Proof. exact GenProdEq.gen_interval_terminates. Qed.
Print Assumptions C16_generated_interval_terminates.
(* more fuel never changes an answer; less fuel is never a value *)
Theorem C16_generated_interval_complete : forall E R fuel id start iv f dt st g st',
  0 < iv -> GenProdEq.allow_ok E R f ->
  get_next E (PInterval id start iv f) st dt = (Ok g, st') ->
  let c := GenProdEq.start_point id start dt st in
  (GenProdEq.back_steps c iv dt < fuel 1%nat)%nat ->
  (GenProdEq.fwd_steps (interval_back c iv dt) iv dt + Pos.to_nat (interval_fuel E) <= fuel 2%nat)%nat ->
  EASGen.GenProd.g_interval_get_next E R fuel id start iv f dt st = Some (st', GenRtProd.PRet g).
Proof. exact GenProdEq.gen_interval_complete. Qed.
Print Assumptions C16_generated_interval_complete.
Theorem C16_generated_interval_sound : forall E R fuel id start iv f dt st g st',
  0 < iv -> GenProdEq.allow_ok E R f ->
  EASGen.GenProd.g_interval_get_next E R fuel id start iv f dt st = Some (st', GenRtProd.PRet g) ->
  exists P, get_next (GenProdEq.with_interval_fuel E P) (PInterval id start iv f) st dt = (Ok g, st').
Proof. exact GenProdEq.gen_interval_sound. Qed.
Print Assumptions C16_generated_interval_sound.
(* find_time_after_dst_switch and TimeReplacer.replace as generated *)
Theorem C16_generated_find_after : forall E R fuel day tod s,
  GenProdEq.coarse_pm (EASGen.GenProd.g_find_after E R fuel day tod s) = Some (s, GenRtProd.of_rres (find_after (pz E) day tod)).
Proof. exact GenProdEq.gen_find_after_eq. Qed.
Print Assumptions C16_generated_find_after.
Theorem C16_generated_replace : forall E R fuel tr day s,
  (forall d t s, GenRtProd.r_find_after R d t s = Some (s, GenRtProd.of_rres (find_after (pz E) d t))) ->
  EASGen.GenProd.g_replace E R fuel (tr_tod tr) (tr_sk tr) (tr_rp tr) day s = Some (s, GenRtProd.of_rres (replace (pz E) tr day)).
Proof. exact GenProdEq.gen_replace_eq. Qed.
Print Assumptions C16_generated_replace.
