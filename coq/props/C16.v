(* C16 — Computing the next occurrence always terminates (statements only). *)
From EAS Require Import Base Civil Time Filters Replace Producers ProdStrict ProdEarliest ProdTerm.
From EASGen Require Import Generated.
From Coq Require Import String.
Open Scope string_scope.

(* the loop / call skeleton extracted from /repo's CURRENT source is the one the model mirrors: every loop is
   bounded by not_infinite_loop(), a literal range or a finite tuple, except the sites listed below *)
Theorem C16_loops_bounded : gen_loops = expected_loops /\ gen_calls = expected_calls /\ gen_status_v = GenOk.
Proof. exact loops_bounded. Qed.
Print Assumptions C16_loops_bounded.

Theorem C16_only_interval_loops_are_unbounded :
  unbounded_sites = ["producers/prod_interval.py:IntervalProducer.get_next";
                     "producers/prod_operation.py:find_time_after_dst_switch"].
Proof. exact only_interval_loops_are_unbounded. Qed.
Print Assumptions C16_only_interval_loops_are_unbounded.

Theorem C16_generated_bounds : loop_bound = 99999%positive /\ after_search_minutes = 121 /\ sun_tries = 366.
Proof. exact generated_bounds. Qed.
Print Assumptions C16_generated_bounds.

(* a bounded loop that runs out answers InfiniteLoopDetectedError *)
Theorem C16_exhausted_loop_is_error : forall r : Z * pstate, fst (finish_loop (inl r)) = Raise EInfiniteLoop.
Proof. exact exhausted_loop_is_error. Qed.
Print Assumptions C16_exhausted_loop_is_error.

(* the interval trigger ends as soon as an admissible grid point exists within the fuel *)
Theorem C16_interval_terminates :
  forall z fuel c iv f dt, 0 < iv ->
    (exists k, (k < Pos.to_nat fuel)%nat /\
               allow_opt z f (interval_first (interval_back c iv dt) iv dt + Z.of_nat k * iv) = true) ->
    exists g, next_interval z fuel c iv f dt = Ok g.
Proof. exact interval_terminates. Qed.
Print Assumptions C16_interval_terminates.

(* known finding F9: with a never-accepting filter it does not end, whatever the fuel *)
Theorem C16_interval_unsat_refuted :
  exists f, forall z fuel c iv dt, next_interval z fuel c iv (Some f) dt = OutOfFuel.
Proof. exact interval_unsat_refuted. Qed.
Print Assumptions C16_interval_unsat_refuted.
