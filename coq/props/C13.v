(* C13 — Offset, earliest, latest and jitter mean what they say (statements only).
   [inner_answer E q dt n]: n is an answer of the underlying trigger q to a reference instant >= dt. *)
From EAS Require Import Base Civil Time Filters Replace Producers ProdStrict ProdOps.

Theorem C13_offset_exact :
  forall E q off f st dt v st', wf_producer q -> get_next E (POffset q off f) st dt = (Ok v, st') ->
    exists n, inner_answer E q dt n /\ v = n + off /\ dt < v /\ allow_opt (pz E) f v = true.
Proof. exact offset_exact. Qed.
Print Assumptions C13_offset_exact.

(* earliest: the occurrence unchanged when it is not before the bound, otherwise the bound; the bound is the
   instant the DST policy selects on the occurrence's local day (clamp_target); policy skip: unchanged *)
Theorem C13_earliest_clamp :
  forall E q tr f st dt v st', wf_producer q -> get_next E (PEarliest q tr f) st dt = (Ok v, st') ->
    exists n, inner_answer E q dt n /\ apply_earliest (pz E) tr n dt = Ok v /\ n <= v /\ dt < v /\
              allow_opt (pz E) f v = true.
Proof. exact earliest_clamp. Qed.
Print Assumptions C13_earliest_clamp.

Theorem C13_apply_earliest_is_max :
  forall E tr n dt v, apply_earliest (pz E) tr n dt = Ok v ->
    match clamp_target (pz E) tr n dt with
    | Ok None => v = n | Ok (Some e) => v = Z.max n e | _ => False end.
Proof. exact apply_earliest_spec. Qed.
Print Assumptions C13_apply_earliest_is_max.

Theorem C13_latest_clamp :
  forall E q tr f st dt v st', wf_producer q -> get_next E (PLatest q tr f) st dt = (Ok v, st') ->
    exists n, inner_answer E q dt n /\ apply_latest (pz E) tr n dt = Ok v /\ v <= n /\ dt < v /\
              allow_opt (pz E) f v = true.
Proof. exact latest_clamp. Qed.
Print Assumptions C13_latest_clamp.

Theorem C13_apply_latest_is_min :
  forall E tr n dt v, apply_latest (pz E) tr n dt = Ok v ->
    match clamp_target (pz E) tr n dt with
    | Ok None => v = n | Ok (Some e) => v = Z.min n e | _ => False end.
Proof. exact apply_latest_spec. Qed.
Print Assumptions C13_apply_latest_is_min.

(* the bound of earliest / latest is built on the LOCAL day of the occurrence, with the configured policy *)
Theorem C13_bound_on_local_day :
  forall E tr n dt, clamp_target (pz E) tr n dt =
    match replace (pz E) tr (local_day (to_local (pz E) n)) with
    | RSkip => Ok None | RExn e => Raise e | ROne e => Ok (Some e)
    | RTwo a b => Ok (Some (if a <=? dt then b else a)) end.
Proof. exact clamp_target_spec. Qed.
Print Assumptions C13_bound_on_local_day.

(* jitter: within [low, high] of an occurrence whenever that window lies after the reference instant
   (random.uniform assumed to answer within the bounds it is given) *)
Theorem C13_jitter_window :
  forall E q lo hi f st dt v st', wf_producer q -> draws_in_range E -> lo < hi ->
    get_next E (PJitter q lo hi f) st dt = (Ok v, st') ->
    exists n, inner_answer E q dt n /\ dt < v /\ allow_opt (pz E) f v = true /\
              ((0 <= lo \/ dt < n + lo) -> n + lo <= v <= n + hi) /\ (lo < 0 -> n + lo <= v).
Proof. exact jitter_window. Qed.
Print Assumptions C13_jitter_window.
