(* C13 — Offset, earliest, latest and jitter mean what they say (statements only).
   [inner_answer E q dt n]: n is an answer of the underlying trigger q to a reference instant >= dt. *)
From EAS Require Import Base Civil Time TimeOrder Filters Replace Producers ProdStrict ProdEarliest ProdEarliest2 ProdOps ProdOps2.
From EASGen Require Import Generated.

Theorem C13_offset_exact :
  forall E q off f st dt v st', wf_producer q -> get_next E (POffset q off f) st dt = (Ok v, st') ->
    exists n, inner_answer E q dt n /\ v = n + off /\ dt < v /\ allow_opt (pz E) f v = true.
Proof. exact offset_exact. Qed.
Print Assumptions C13_offset_exact.

(* earliest: the occurrence unchanged when it is not before the bound, otherwise the bound; the bound is the
   instant the DST policy selects on the occurrence's local day (clamp_target); policy skip: unchanged *)
Theorem C13_earliest_clamp :
  forall E q tr f st dt v st', wf_producer q -> get_next E (PEarliest q tr f) st dt = (Ok v, st') ->
    exists n, inner_answer E q dt n /\ apply_earliest (pz E) tr n dt = Ok v /\ n <= v /\ dt < v /\
              allow_opt (pz E) f v = true.
Proof. exact earliest_clamp. Qed.
Print Assumptions C13_earliest_clamp.

Theorem C13_apply_earliest_is_max :
  forall E tr n dt v, apply_earliest (pz E) tr n dt = Ok v ->
    match clamp_target (pz E) tr n dt with
    | Ok None => v = n | Ok (Some e) => v = Z.max n e | _ => False end.
Proof. exact apply_earliest_spec. Qed.
Print Assumptions C13_apply_earliest_is_max.

Theorem C13_latest_clamp :
  forall E q tr f st dt v st', wf_producer q -> get_next E (PLatest q tr f) st dt = (Ok v, st') ->
    exists n, inner_answer E q dt n /\ apply_latest (pz E) tr n dt = Ok v /\ v <= n /\ dt < v /\
              allow_opt (pz E) f v = true.
Proof. exact latest_clamp. Qed.
Print Assumptions C13_latest_clamp.

Theorem C13_apply_latest_is_min :
  forall E tr n dt v, apply_latest (pz E) tr n dt = Ok v ->
    match clamp_target (pz E) tr n dt with
    | Ok None => v = n | Ok (Some e) => v = Z.min n e | _ => False end.
Proof. exact apply_latest_spec. Qed.
Print Assumptions C13_apply_latest_is_min.

(* the bound of earliest / latest is built on the LOCAL day of the occurrence, with the configured policy *)
Theorem C13_bound_on_local_day :
  forall E tr n dt, clamp_target (pz E) tr n dt =
    match replace (pz E) tr (local_day (to_local (pz E) n)) with
    | RSkip => Ok None | RExn e => Raise e | ROne e => Ok (Some e)
    | RTwo a b => Ok (Some (if a <=? dt then b else a)) end.
Proof. exact clamp_target_spec. Qed.
Print Assumptions C13_bound_on_local_day.

(* jitter: within [low, high] of an occurrence whenever that window lies after the reference instant
   (random.uniform assumed to answer within the bounds it is given) *)
Theorem C13_jitter_window :
  forall E q lo hi f st dt v st', wf_producer q -> draws_in_range E -> lo < hi ->
    get_next E (PJitter q lo hi f) st dt = (Ok v, st') ->
    exists n, inner_answer E q dt n /\ dt < v /\ allow_opt (pz E) f v = true /\
              ((0 <= lo \/ dt < n + lo) -> n + lo <= v <= n + hi) /\ (lo < 0 -> n + lo <= v).
Proof. exact jitter_window. Qed.
Print Assumptions C13_jitter_window.
(* ---- additions from ProdOps2.v (add ProdEarliest ProdEarliest2 ProdOps2 TimeOrder to the Require line) ---- *)

(* earliest: bound's wall-clock time exists exactly once on the occurrence's local day: result = max, the bound
   lies on the SAME local day, and - no UTC-offset change between bound instant and occurrence - the occurrence is
   unchanged iff its local time of day is not before the bound, otherwise the bound's instant *)
Theorem C13_earliest_unchanged_within_bound :
  forall z tr n dt e, wf_tr tr -> candidates z (local_day (to_local z n) * DAY + tr_tod tr) = [e] ->
    apply_earliest z tr n dt = Ok (Z.max n e) /\
    local_day (to_local z e) = local_day (to_local z n) /\ local_tod (to_local z e) = tr_tod tr /\
    (offset_at z e = offset_at z n ->
       (tr_tod tr <= local_tod (to_local z n) -> apply_earliest z tr n dt = Ok n) /\
       (local_tod (to_local z n) < tr_tod tr -> apply_earliest z tr n dt = Ok e)).
Proof. exact earliest_unchanged_within_bound. Qed.
Print Assumptions C13_earliest_unchanged_within_bound.

Theorem C13_latest_unchanged_within_bound :
  forall z tr n dt e, wf_tr tr -> candidates z (local_day (to_local z n) * DAY + tr_tod tr) = [e] ->
    apply_latest z tr n dt = Ok (Z.min n e) /\
    local_day (to_local z e) = local_day (to_local z n) /\ local_tod (to_local z e) = tr_tod tr /\
    (offset_at z e = offset_at z n ->
       (local_tod (to_local z n) <= tr_tod tr -> apply_latest z tr n dt = Ok n) /\
       (tr_tod tr < local_tod (to_local z n) -> apply_latest z tr n dt = Ok e)).
Proof. exact latest_unchanged_within_bound. Qed.
Print Assumptions C13_latest_unchanged_within_bound.

(* every table, no offset hypothesis: same decision when the two times of day are more than the spread apart;
   [bound_shown]: the selected bound instant shows the bound's time on the occurrence's day (exists once or repeated) *)
Theorem C13_earliest_beyond_spread :
  forall z tr n dt e, clamp_target z tr n dt = Ok (Some e) -> bound_shown z tr n e ->
    (tr_tod tr + spread z * NS < local_tod (to_local z n) -> apply_earliest z tr n dt = Ok n) /\
    (local_tod (to_local z n) + spread z * NS < tr_tod tr -> apply_earliest z tr n dt = Ok e).
Proof. exact earliest_beyond_spread. Qed.
Print Assumptions C13_earliest_beyond_spread.

Theorem C13_latest_beyond_spread :
  forall z tr n dt e, clamp_target z tr n dt = Ok (Some e) -> bound_shown z tr n e ->
    (local_tod (to_local z n) + spread z * NS < tr_tod tr -> apply_latest z tr n dt = Ok n) /\
    (tr_tod tr + spread z * NS < local_tod (to_local z n) -> apply_latest z tr n dt = Ok e).
Proof. exact latest_beyond_spread. Qed.
Print Assumptions C13_latest_beyond_spread.

(* zones without transitions: the clause of the property text with no side condition at all *)
Theorem C13_earliest_fixed_zone :
  forall z tr n dt, tz_trans z = [] ->
    apply_earliest z tr n dt =
    Ok (if tr_tod tr <=? local_tod (to_local z n) then n
        else local_day (to_local z n) * DAY + tr_tod tr - tz_init z * NS).
Proof. exact earliest_fixed_zone. Qed.
Print Assumptions C13_earliest_fixed_zone.

Theorem C13_latest_fixed_zone :
  forall z tr n dt, tz_trans z = [] ->
    apply_latest z tr n dt =
    Ok (if local_tod (to_local z n) <=? tr_tod tr then n
        else local_day (to_local z n) * DAY + tr_tod tr - tz_init z * NS).
Proof. exact latest_fixed_zone. Qed.
Print Assumptions C13_latest_fixed_zone.

(* never to another day *)
Theorem C13_clamp_same_day :
  forall z tr n e, wf_tr tr -> bound_shown z tr n e ->
    local_day (to_local z e) = local_day (to_local z n) /\ local_tod (to_local z e) = tr_tod tr.
Proof. exact clamp_same_day. Qed.
Print Assumptions C13_clamp_same_day.

Theorem C13_bound_shown_unless_skipped :
  forall z tr n dt e, clamp_target z tr n dt = Ok (Some e) ->
    candidates z (local_day (to_local z n) * DAY + tr_tod tr) <> [] -> bound_shown z tr n e.
Proof. exact clamp_target_shown. Qed.
Print Assumptions C13_bound_shown_unless_skipped.

(* every policy incl. the substitutes for a skipped bound (earlier / later / after) *)
Theorem C13_clamp_same_day_any_policy :
  forall z tr n dt e, clamp_target z tr n dt = Ok (Some e) ->
    spread z * NS <= tr_tod tr -> tr_tod tr + day_dev z < DAY ->
    local_day (to_local z e) = local_day (to_local z n).
Proof. exact clamp_same_day_any_policy. Qed.
Print Assumptions C13_clamp_same_day_any_policy.

(* never beyond the bound; the result is the occurrence or the bound instant *)
Theorem C13_never_beyond_bound :
  forall z tr n dt e, clamp_target z tr n dt = Ok (Some e) ->
    (forall v, apply_earliest z tr n dt = Ok v -> e <= v /\ (v = n \/ v = e)) /\
    (forall v, apply_latest z tr n dt = Ok v -> v <= e /\ (v = n \/ v = e)).
Proof. exact never_beyond_bound. Qed.
Print Assumptions C13_never_beyond_bound.

(* jitter, negative lower bound: both branches exactly (completes C13_jitter_window) *)
Theorem C13_jitter_shift_forward_window :
  forall E q lo hi f st dt v st', wf_producer q -> draws_in_range E -> lo < hi -> lo < 0 ->
    get_next E (PJitter q lo hi f) st dt = (Ok v, st') ->
    exists n, inner_answer E q dt n /\ dt < v /\ allow_opt (pz E) f v = true /\
      (dt < n + lo -> n + lo <= v <= n + hi) /\
      (n + lo <= dt -> let diff := dt - n - lo + jitter_eps_ns in n + lo + diff <= v <= n + hi + diff).
Proof. exact jitter_shift_forward_window. Qed.
Print Assumptions C13_jitter_shift_forward_window.

(* offset: from the firing n1 + off the next firing is n2 + off for the occurrence n2 FOLLOWING n1, provided no
   occurrence lies in (n1, n1 + off] (vacuous for off < 0); q is any trigger whose answers are least occurrences *)
Theorem C13_offset_next_complete :
  forall E q (P : Z -> Prop),
    (forall st x n st', get_next E q st x = (Ok n, st') -> earliest_after P x n) ->
    forall off st n1 v st', (forall u, P u -> n1 < u -> n1 + off < u) ->
      get_next E (POffset q off None) st (n1 + off) = (Ok v, st') -> earliest_after P n1 (v - off).
Proof. exact offset_next_complete. Qed.
Print Assumptions C13_offset_next_complete.

(* ---- the tie to the source by translation: coq/gen/GenProd.v is regenerated from src/eascheduler/producers/*.py and
   helpers/time_replace.py on every run (tools/gen_prod.py); these theorems are re-checked against it.  [pknot E n] is
   the generated code closed by dispatch on the class of the object; [lift] reads a model answer as an outcome of the
   generated code (value + producer state / exception / out of fuel). *)
From EAS Require GenRtProd GenProdEq.
Theorem C13_generated_source_recognised : EASGen.GenProd.gen_prod_status_v = EASGen.GenProd.GenProdOk.
Proof. exact GenProdEq.gen_prod_recognised. Qed.
Print Assumptions C13_generated_source_recognised.
(* the four apply_operation bodies as generated *)
Theorem C13_generated_offset_apply : forall E R fuel off n dt s,
  EASGen.GenProd.g_offset_apply E R fuel off n dt s = GenRtProd.lift (Ok (n + off), s).
Proof. exact GenProdEq.gen_offset_apply_eq. Qed.
Print Assumptions C13_generated_offset_apply.
Theorem C13_generated_earliest_apply : forall E R fuel,
  (forall tr day s, GenRtProd.r_replace R tr day s = Some (s, GenRtProd.of_rres (replace (pz E) tr day))) ->
  forall tr n dt s, EASGen.GenProd.g_earliest_apply E R fuel tr n dt s = GenRtProd.lift (apply_earliest (pz E) tr n dt, s).
Proof. exact GenProdEq.gen_earliest_apply_eq. Qed.
Print Assumptions C13_generated_earliest_apply.
Theorem C13_generated_latest_apply : forall E R fuel,
  (forall tr day s, GenRtProd.r_replace R tr day s = Some (s, GenRtProd.of_rres (replace (pz E) tr day))) ->
  forall tr n dt s, EASGen.GenProd.g_latest_apply E R fuel tr n dt s = GenRtProd.lift (apply_latest (pz E) tr n dt, s).
Proof. exact GenProdEq.gen_latest_apply_eq. Qed.
Print Assumptions C13_generated_latest_apply.
(* jitter: the bounds of the model, one draw, the draw counter advanced *)
Theorem C13_generated_jitter_apply : forall E R fuel lo hi n dt s,
  EASGen.GenProd.g_jitter_apply E R fuel lo hi n dt s =
  GenRtProd.lift (let '(a, b) := jitter_bounds lo hi n dt in
                  (Ok (n + draw E (ndraws s) a b), with_ndraws (S (ndraws s)) s)).
Proof. exact GenProdEq.gen_jitter_apply_eq. Qed.
Print Assumptions C13_generated_jitter_apply.
(* the loop of the base class around them: the whole expression *)
Theorem C13_generated_producers_are_model : forall E n p, wf_producer p -> (GenProdEq.rank p <= n)%nat ->
  forall dt st, GenRtProd.r_get_next (GenProdEq.pknot E n) p dt st = GenRtProd.lift (get_next E p st dt).
Proof. exact GenProdEq.gen_get_next_is_model. Qed.
Print Assumptions C13_generated_producers_are_model.
Theorem C13_generated_offset_exact : forall E n q off f st dt v st',
  wf_producer q -> (GenProdEq.rank (POffset q off f) <= n)%nat ->
  GenRtProd.r_get_next (GenProdEq.pknot E n) (POffset q off f) dt st = Some (st', GenRtProd.PRet v) ->
  exists m, inner_answer E q dt m /\ v = m + off /\ dt < v /\ allow_opt (pz E) f v = true.
Proof. exact GenProdEq.gen_offset_exact. Qed.
Print Assumptions C13_generated_offset_exact.
Theorem C13_generated_earliest_clamp : forall E n q tr f st dt v st',
  wf_producer q -> (GenProdEq.rank (PEarliest q tr f) <= n)%nat ->
  GenRtProd.r_get_next (GenProdEq.pknot E n) (PEarliest q tr f) dt st = Some (st', GenRtProd.PRet v) ->
  exists m, inner_answer E q dt m /\ apply_earliest (pz E) tr m dt = Ok v /\ m <= v /\ dt < v /\
            allow_opt (pz E) f v = true.
Proof. exact GenProdEq.gen_earliest_clamp. Qed.
Print Assumptions C13_generated_earliest_clamp.
