(* C12 — Parallel task managers respect their bound and keep tasks alive (statements only).
   See props/C11.v for [run], [Inv] and the coverage of states inside running bodies. *)
From EAS Require Import Base TaskMgr TaskMgrFacts.
Open Scope nat_scope.

Theorem C12_invariant_reachable : forall m evs, Inv m (run m evs).
Proof. exact run_inv. Qed.
Print Assumptions C12_invariant_reachable.

Theorem C12_invariant_inside_bodies :
  forall m s c r b,
    Inv m s -> ready s = HStep c :: r -> takes_beh s c = true ->
    exists s1 w, run_step m (set_ready s r) c b = end_step (submits m s1 (fst b)) c w (snd b) /\
                 ph s1 c = Running /\
                 forall pre post, fst b = pre ++ post -> Inv m (submits m s1 pre) /\ ph (submits m s1 pre) c = Running.
Proof. exact mid_body_inv. Qed.
Print Assumptions C12_invariant_inside_bodies.

(* never more than [parallel] tracked tasks *)
Theorem C12_par_bound : forall n p evs, length (tracked (run (MParLim n p) evs)) <= n.
Proof. exact par_bound. Qed.
Print Assumptions C12_par_bound.

Theorem C12_par_bound_any_state : forall n p s, Inv (MParLim n p) s -> length (tracked s) <= n.
Proof. exact par_bound_inv. Qed.
Print Assumptions C12_par_bound_any_state.

(* at the limit: skip closes the new coroutine unstarted; cancel_first / cancel_last cancel the oldest /
   newest tracked task before the new one is created and tracked *)
Theorem C12_par_victim :
  forall n p s c k,
    1 <= n -> Inv (MParLim n p) s -> ph s c = Unknown ->
    let s' := submit (MParLim n p) s c k in
    if length (tracked s) <? n then
      tracked s' = tracked s ++ [c] /\ closed s' = closed s /\ mcanc s' = mcanc s /\
      started s' = started s ++ [c] /\ ph s' c = Created /\ ready s' = ready s ++ [HStep c]
    else
      match p with
      | PSkip =>
          tracked s' = tracked s /\ closed s' = closed s ++ [c] /\ mcanc s' = mcanc s /\
          started s' = started s /\ ph s' c = Closed /\ ready s' = ready s /\
          (forall x, x <> c -> ph s' x = ph s x) /\ mc s' = mc s
      | PCancelFirst =>
          exists v t, tracked s = v :: t /\
            tracked s' = t ++ [c] /\ mcanc s' = mcanc s ++ [v] /\ closed s' = closed s /\
            started s' = started s ++ [c] /\ ph s' c = Created /\
            ready s' = ready (task_cancel s v) ++ [HStep c] /\
            (forall x, x <> c -> ph s' x = ph (task_cancel s v) x) /\ mc s' = mc (task_cancel s v)
      | PCancelLast =>
          exists v t, tracked s = t ++ [v] /\
            tracked s' = t ++ [c] /\ mcanc s' = mcanc s ++ [v] /\ closed s' = closed s /\
            started s' = started s ++ [c] /\ ph s' c = Created /\
            ready s' = ready (task_cancel s v) ++ [HStep c] /\
            (forall x, x <> c -> ph s' x = ph (task_cancel s v) x) /\ mc s' = mc (task_cancel s v)
      end.
Proof. exact par_victim. Qed.
Print Assumptions C12_par_victim.

Theorem C12_task_cancel_effect :
  forall s v,
    match ph s v with
    | Parked => ph (task_cancel s v) v = Waking WCanc /\ ready (task_cancel s v) = ready s ++ [HStep v]
    | Created | Running | Waking _ =>
        mc (task_cancel s v) v = true /\ ph (task_cancel s v) = ph s /\ ready (task_cancel s v) = ready s
    | _ => task_cancel s v = s
    end.
Proof. exact task_cancel_effect. Qed.
Print Assumptions C12_task_cancel_effect.

(* a finished task frees its slot (when its done-callbacks run); what is alive and was not cancelled by
   the manager is tracked *)
Theorem C12_par_release :
  forall m evs, is_par m = true ->
    (forall c, In c (tracked (run m evs)) -> is_live (ph (run m evs) c) = true) /\
    (forall c, is_live (ph (run m evs) c) = true -> In c (tracked (run m evs)) \/ In c (mcanc (run m evs))) /\
    NoDup (tracked (run m evs)) /\
    (forall c r bs, ready (run m evs) = HDone c :: r ->
       ~ In c (tracked (run m (evs ++ [Run bs]))) /\ (exists d, ph (run m (evs ++ [Run bs])) c = Processed d) /\
       length (tracked (run m (evs ++ [Run bs]))) <= length (tracked (run m evs))).
Proof. exact par_release. Qed.
Print Assumptions C12_par_release.

(* the unbounded manager starts every coroutine, keeps every task in its set until the task's
   done-callbacks have run and forgets it afterwards *)
Theorem C12_unbounded_keeps :
  forall evs,
    (forall c, In c (map fst (subk (run MPar evs))) -> In c (started (run MPar evs))) /\
    closed (run MPar evs) = [] /\ mcanc (run MPar evs) = [] /\
    (forall c, In c (tracked (run MPar evs)) <-> is_live (ph (run MPar evs) c) = true) /\
    (forall c d, ph (run MPar evs) c = Processed d -> ~ In c (tracked (run MPar evs))).
Proof. exact unbounded_keeps. Qed.
Print Assumptions C12_unbounded_keeps.

Theorem C12_unbounded_starts :
  forall s c k, ph s c = Unknown ->
    let s' := submit MPar s c k in
    tracked s' = tracked s ++ [c] /\ started s' = started s ++ [c] /\ ph s' c = Created /\
    ready s' = ready s ++ [HStep c].
Proof. exact unbounded_starts. Qed.
Print Assumptions C12_unbounded_starts.

Theorem C12_par_conservation : forall m evs, is_par m = true -> conservation_stmt (run m evs).
Proof. exact par_conservation. Qed.
Print Assumptions C12_par_conservation.

(* ---- the tie to the source by translation (see props/C11.v): coq/gen/GenTaskMgr.v is regenerated from
   src/eascheduler/task_managers/*.py on every run; these theorems are re-checked against it. *)
From EAS Require GenRtTaskMgr GenTaskMgrEq.
Import GenRtTaskMgr GenTaskMgrEq.
Theorem C12_generated_source_recognised : EASGen.GenTaskMgr.gen_taskmgr_status_v = EASGen.GenTaskMgr.GenTaskMgrOk.
Proof. exact gen_taskmgr_recognised. Qed.
Print Assumptions C12_generated_source_recognised.

(* create_task of ParallelTaskManager / LimitingParallelTaskManager computes the model's submission step (skip /
   cancel_first / cancel_last included), returns the new task unless the coroutine was skipped, and registers
   tasks.discard / _remove_task on exactly that task; on every state of the invariant *)
Theorem C12_generated_create_task_is_submit :
  forall m s r c k n, is_par m = true -> Inv m s -> cfg_ok m -> ph s c = Unknown ->
    gen_create_task m c k n (mkrt s r) =
    (mkrt (submit m s c k) (addreg r (submit_rv m s c k) (cb_of m)), Ret (submit_rv m s c k)) /\
    started (submit m s c k) = started s ++ olist (submit_rv m s c k).
Proof.
  exact (fun m s r c k n _ Hi Hc Hu =>
    conj (gen_create_task_is_submit m s r c k n Hi Hc Hu)
         (eq_trans (f_equal started (submit_unknown m s c k Hu)) (submit_started m s c k Hc))).
Qed.
Print Assumptions C12_generated_create_task_is_submit.

(* the limiting manager needs only that __init__ accepted the bound: every state *)
Theorem C12_generated_limiting_create_task_every_state :
  forall lim p c k s r, (lim <? 1) = false ->
    EASGen.GenTaskMgr.LimitingParallelTaskManager.create_task lim p c k (mkrt s r) =
    (mkrt (submit_parlim lim p s c k) (addreg r (submit_rv (MParLim lim p) s c k) CbRemoveTask),
     Ret (submit_rv (MParLim lim p) s c k)).
Proof. exact parlim_create_task. Qed.
Print Assumptions C12_generated_limiting_create_task_every_state.

Theorem C12_generated_create_task_at_submit_event :
  forall m evs r c k n, cfg_ok m -> ph (run m evs) c = Unknown ->
    ms (fst (gen_create_task m c k n (mkrt (set_flag (run m evs) false) r))) = step m (run m evs) (Submit c k).
Proof. exact gen_create_task_reachable. Qed.
Print Assumptions C12_generated_create_task_at_submit_event.

(* tasks.discard / _remove_task as done-callbacks compute what the model runs at an HDone handle; on EVERY state *)
Theorem C12_generated_done_callback_is_model :
  forall m s r c, is_par m = true ->
    gen_run_cb m (cb_of m) c (mkrt s r) = (mkrt (untrack s c) r, Ret tt).
Proof.
  exact (fun m s r c =>
    match m return is_par m = true -> gen_run_cb m (cb_of m) c (mkrt s r) = _ with
    | MPar => fun _ => par_run_cb c s r
    | MParLim l p => fun _ => parlim_run_cb l p c s r
    | MSeq | MSeqLim _ _ | MSeqDedup => fun H => match Bool.diff_false_true H with end
    end).
Qed.
Print Assumptions C12_generated_done_callback_is_model.

Theorem C12_generated_hdone_is_model :
  forall m s r c d, ph s c = Done d ->
    ms (fst (gen_run_cb m (cb_of m) c (mkrt (set_ph s (upd (ph s) c (Processed d))) r))) = run_done m s c.
Proof. exact gen_run_done_is_model. Qed.
Print Assumptions C12_generated_hdone_is_model.

Theorem C12_generated_callbacks_registered :
  forall m, RegOk m (mkrt init []) /\
    (forall s c k n, RegOk m s -> Inv m (ms s) -> cfg_ok m -> ph (ms s) c = Unknown ->
       RegOk m (fst (gen_create_task m c k n s))) /\
    (forall s c, RegOk m s -> RegOk m (fst (gen_run_cb m (cb_of m) c s))).
Proof. exact (fun m => conj (regs_ok_init m) (conj (regs_ok_create_task m) (regs_ok_run_cb m))). Qed.
Print Assumptions C12_generated_callbacks_registered.

(* ---- the fully generated asynchronous stack (GenAsyncSystem.v): generated managers on TaskMgr.v's event loop, generated executor on top ---- *)

(* ---- the capstone of the tie (theories/GenAsyncSystem.v, see props/C11.v): the event machine [gen_tm_run] built from
   the generated manager classes on TaskMgr.v's event loop computes TaskMgr.run on every event list. *)
From EAS Require GenAsyncSystem.
Import GenAsyncSystem.
Theorem C12_generated_machine_is_model :
  forall nm m evs, cfg_ok m ->
    gms (gen_tm_run nm m evs) = run m evs /\ regs_ok m (gen_tm_run nm m evs) /\ gexc (gen_tm_run nm m evs) = [].
Proof. exact gen_tm_run_is_model. Qed.
Print Assumptions C12_generated_machine_is_model.

Theorem C12_generated_machine_par_bound :
  forall nm n p evs, cfg_ok (MParLim n p) -> length (tracked (gen_tm_state nm (MParLim n p) evs)) <= n.
Proof. exact gen_tm_par_bound. Qed.
Print Assumptions C12_generated_machine_par_bound.

Theorem C12_generated_machine_par_victim :
  forall nm n p evs c k,
    cfg_ok (MParLim n p) -> ph (gen_tm_state nm (MParLim n p) evs) c = Unknown ->
    let s := set_flag (gen_tm_state nm (MParLim n p) evs) false in
    let s' := gen_tm_state nm (MParLim n p) (evs ++ [Submit c k]) in
    if length (tracked s) <? n then
      tracked s' = tracked s ++ [c] /\ closed s' = closed s /\ mcanc s' = mcanc s /\
      started s' = started s ++ [c] /\ ph s' c = Created /\ ready s' = ready s ++ [HStep c]
    else
      match p with
      | PSkip =>
          tracked s' = tracked s /\ closed s' = closed s ++ [c] /\ mcanc s' = mcanc s /\
          started s' = started s /\ ph s' c = Closed /\ ready s' = ready s /\
          (forall x, x <> c -> ph s' x = ph s x) /\ mc s' = mc s
      | PCancelFirst =>
          exists v t, tracked s = v :: t /\
            tracked s' = t ++ [c] /\ mcanc s' = mcanc s ++ [v] /\ closed s' = closed s /\
            started s' = started s ++ [c] /\ ph s' c = Created /\
            ready s' = ready (task_cancel s v) ++ [HStep c] /\
            (forall x, x <> c -> ph s' x = ph (task_cancel s v) x) /\ mc s' = mc (task_cancel s v)
      | PCancelLast =>
          exists v t, tracked s = t ++ [v] /\
            tracked s' = t ++ [c] /\ mcanc s' = mcanc s ++ [v] /\ closed s' = closed s /\
            started s' = started s ++ [c] /\ ph s' c = Created /\
            ready s' = ready (task_cancel s v) ++ [HStep c] /\
            (forall x, x <> c -> ph s' x = ph (task_cancel s v) x) /\ mc s' = mc (task_cancel s v)
      end.
Proof. exact gen_tm_par_victim. Qed.
Print Assumptions C12_generated_machine_par_victim.

Theorem C12_generated_machine_par_release :
  forall nm m evs, cfg_ok m -> is_par m = true ->
    (forall c, In c (tracked (gen_tm_state nm m evs)) -> is_live (ph (gen_tm_state nm m evs) c) = true) /\
    (forall c, is_live (ph (gen_tm_state nm m evs) c) = true ->
       In c (tracked (gen_tm_state nm m evs)) \/ In c (mcanc (gen_tm_state nm m evs))) /\
    NoDup (tracked (gen_tm_state nm m evs)) /\
    (forall c r bs, ready (gen_tm_state nm m evs) = HDone c :: r ->
       cbs_for c (regs (rt (gen_tm_run nm m evs))) = [cb_of m] /\
       ~ In c (tracked (gen_tm_state nm m (evs ++ [Run bs]))) /\
       (exists d, ph (gen_tm_state nm m (evs ++ [Run bs])) c = Processed d) /\
       length (tracked (gen_tm_state nm m (evs ++ [Run bs]))) <= length (tracked (gen_tm_state nm m evs))).
Proof. exact gen_tm_par_release. Qed.
Print Assumptions C12_generated_machine_par_release.

Theorem C12_generated_machine_unbounded_keeps :
  forall nm evs,
    (forall c, In c (map fst (subk (gen_tm_state nm MPar evs))) -> In c (started (gen_tm_state nm MPar evs))) /\
    closed (gen_tm_state nm MPar evs) = [] /\ mcanc (gen_tm_state nm MPar evs) = [] /\
    (forall c, In c (tracked (gen_tm_state nm MPar evs)) <-> is_live (ph (gen_tm_state nm MPar evs) c) = true) /\
    (forall c d, ph (gen_tm_state nm MPar evs) c = Processed d -> ~ In c (tracked (gen_tm_state nm MPar evs))).
Proof. exact gen_tm_unbounded_keeps. Qed.
Print Assumptions C12_generated_machine_unbounded_keeps.

Theorem C12_generated_machine_conservation :
  forall nm m evs, cfg_ok m -> conservation_stmt (gen_tm_state nm m evs).
Proof. exact gen_tm_conservation. Qed.
Print Assumptions C12_generated_machine_conservation.
