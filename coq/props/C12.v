(* C12 — Parallel task managers respect their bound and keep tasks alive (statements only).
   See props/C11.v for [run], [Inv] and the coverage of states inside running bodies. *)
From EAS Require Import Base TaskMgr TaskMgrFacts.
Open Scope nat_scope.

Theorem C12_invariant_reachable : forall m evs, Inv m (run m evs).
Proof. exact run_inv. Qed.
Print Assumptions C12_invariant_reachable.

Theorem C12_invariant_inside_bodies :
  forall m s c r b,
    Inv m s -> ready s = HStep c :: r -> takes_beh s c = true ->
    exists s1 w, run_step m (set_ready s r) c b = end_step (submits m s1 (fst b)) c w (snd b) /\
                 ph s1 c = Running /\
                 forall pre post, fst b = pre ++ post -> Inv m (submits m s1 pre) /\ ph (submits m s1 pre) c = Running.
Proof. exact mid_body_inv. Qed.
Print Assumptions C12_invariant_inside_bodies.

(* never more than [parallel] tracked tasks *)
Theorem C12_par_bound : forall n p evs, length (tracked (run (MParLim n p) evs)) <= n.
Proof. exact par_bound. Qed.
Print Assumptions C12_par_bound.

Theorem C12_par_bound_any_state : forall n p s, Inv (MParLim n p) s -> length (tracked s) <= n.
Proof. exact par_bound_inv. Qed.
Print Assumptions C12_par_bound_any_state.

(* at the limit: skip closes the new coroutine unstarted; cancel_first / cancel_last cancel the oldest /
   newest tracked task before the new one is created and tracked *)
Theorem C12_par_victim :
  forall n p s c k,
    1 <= n -> Inv (MParLim n p) s -> ph s c = Unknown ->
    let s' := submit (MParLim n p) s c k in
    if length (tracked s) <? n then
      tracked s' = tracked s ++ [c] /\ closed s' = closed s /\ mcanc s' = mcanc s /\
      started s' = started s ++ [c] /\ ph s' c = Created /\ ready s' = ready s ++ [HStep c]
    else
      match p with
      | PSkip =>
          tracked s' = tracked s /\ closed s' = closed s ++ [c] /\ mcanc s' = mcanc s /\
          started s' = started s /\ ph s' c = Closed /\ ready s' = ready s /\
          (forall x, x <> c -> ph s' x = ph s x) /\ mc s' = mc s
      | PCancelFirst =>
          exists v t, tracked s = v :: t /\
            tracked s' = t ++ [c] /\ mcanc s' = mcanc s ++ [v] /\ closed s' = closed s /\
            started s' = started s ++ [c] /\ ph s' c = Created /\
            ready s' = ready (task_cancel s v) ++ [HStep c] /\
            (forall x, x <> c -> ph s' x = ph (task_cancel s v) x) /\ mc s' = mc (task_cancel s v)
      | PCancelLast =>
          exists v t, tracked s = t ++ [v] /\
            tracked s' = t ++ [c] /\ mcanc s' = mcanc s ++ [v] /\ closed s' = closed s /\
            started s' = started s ++ [c] /\ ph s' c = Created /\
            ready s' = ready (task_cancel s v) ++ [HStep c] /\
            (forall x, x <> c -> ph s' x = ph (task_cancel s v) x) /\ mc s' = mc (task_cancel s v)
      end.
Proof. exact par_victim. Qed.
Print Assumptions C12_par_victim.

Theorem C12_task_cancel_effect :
  forall s v,
    match ph s v with
    | Parked => ph (task_cancel s v) v = Waking WCanc /\ ready (task_cancel s v) = ready s ++ [HStep v]
    | Created | Running | Waking _ =>
        mc (task_cancel s v) v = true /\ ph (task_cancel s v) = ph s /\ ready (task_cancel s v) = ready s
    | _ => task_cancel s v = s
    end.
Proof. exact task_cancel_effect. Qed.
Print Assumptions C12_task_cancel_effect.

(* a finished task frees its slot (when its done-callbacks run); what is alive and was not cancelled by
   the manager is tracked *)
Theorem C12_par_release :
  forall m evs, is_par m = true ->
    (forall c, In c (tracked (run m evs)) -> is_live (ph (run m evs) c) = true) /\
    (forall c, is_live (ph (run m evs) c) = true -> In c (tracked (run m evs)) \/ In c (mcanc (run m evs))) /\
    NoDup (tracked (run m evs)) /\
    (forall c r bs, ready (run m evs) = HDone c :: r ->
       ~ In c (tracked (run m (evs ++ [Run bs]))) /\ (exists d, ph (run m (evs ++ [Run bs])) c = Processed d) /\
       length (tracked (run m (evs ++ [Run bs]))) <= length (tracked (run m evs))).
Proof. exact par_release. Qed.
Print Assumptions C12_par_release.

(* the unbounded manager starts every coroutine, keeps every task in its set until the task's
   done-callbacks have run and forgets it afterwards *)
Theorem C12_unbounded_keeps :
  forall evs,
    (forall c, In c (map fst (subk (run MPar evs))) -> In c (started (run MPar evs))) /\
    closed (run MPar evs) = [] /\ mcanc (run MPar evs) = [] /\
    (forall c, In c (tracked (run MPar evs)) <-> is_live (ph (run MPar evs) c) = true) /\
    (forall c d, ph (run MPar evs) c = Processed d -> ~ In c (tracked (run MPar evs))).
Proof. exact unbounded_keeps. Qed.
Print Assumptions C12_unbounded_keeps.

Theorem C12_unbounded_starts :
  forall s c k, ph s c = Unknown ->
    let s' := submit MPar s c k in
    tracked s' = tracked s ++ [c] /\ started s' = started s ++ [c] /\ ph s' c = Created /\
    ready s' = ready s ++ [HStep c].
Proof. exact unbounded_starts. Qed.
Print Assumptions C12_unbounded_starts.

Theorem C12_par_conservation : forall m evs, is_par m = true -> conservation_stmt (run m evs).
Proof. exact par_conservation. Qed.
Print Assumptions C12_par_conservation.
