(* C17 — Filters implement their algebra and their range syntax.
   Only statements and one-line proofs live here; the lemmas are in theories/FiltersFacts.v,
   theories/ParseFacts.v and theories/CivilFacts.v.  (Related clauses are bundled into one
   conjunction per theorem: every Print Assumptions walks the whole proof.) *)
From Coq Require Import Sorted.
From EAS Require Import Base Civil CivilFacts Filters FiltersFacts Parse ParseFacts.

(* ---- the algebra ---------------------------------------------------------------------------- *)
(* the executable filter (written after prod_filter.py) accepts a local date-time exactly when the
   declarative meaning holds; C17_sem_meaning spells the meaning out constructor by constructor *)
Theorem C17_allow_sem : forall f x, allow f x = true <-> sem f x.
Proof. exact allow_sem. Qed.
Print Assumptions C17_allow_sem.

(* any(...) accepts exactly when at least one member accepts, all(...) when every member accepts,
   not_ inverts; any() of nothing rejects, all() of nothing accepts *)
Theorem C17_algebra :
  (forall fs x, allow (FAny fs) x = true <-> exists g, In g fs /\ allow g x = true) /\
  (forall fs x, allow (FAll fs) x = true <-> forall g, In g fs -> allow g x = true) /\
  (forall f x, allow (FNot f) x = negb (allow f x)) /\
  (forall x, allow (FAny []) x = false) /\
  (forall x, allow (FAll []) x = true).
Proof. exact filter_algebra. Qed.
Print Assumptions C17_algebra.

(* the time filter accepts exactly lower <= local time < upper; a missing bound does not constrain *)
Theorem C17_time :
  forall lo hi x, allow (FTime lo hi) x = true <->
    (forall l, lo = Some l -> l <= local_tod x) /\ (forall h, hi = Some h -> local_tod x < h).
Proof. exact allow_time. Qed.
Print Assumptions C17_time.

(* weekday, day-of-month and month filters: membership of the field of the LOCAL date *)
Theorem C17_sem_meaning :
  (forall fs x, sem (FAny fs) x <-> exists g, In g fs /\ sem g x) /\
  (forall fs x, sem (FAll fs) x <-> forall g, In g fs -> sem g x) /\
  (forall f x, sem (FNot f) x <-> ~ sem f x) /\
  (forall lo hi x, sem (FTime lo hi) x <->
     (forall l, lo = Some l -> l <= local_tod x) /\ (forall h, hi = Some h -> local_tod x < h)) /\
  (forall s x, sem (FWeekday s) x <-> In (weekday_of_day (local_day x)) s) /\
  (forall s x, sem (FDay s) x <-> In (dom_of_day (local_day x)) s) /\
  (forall s x, sem (FMonth s) x <-> In (month_of_day (local_day x)) s).
Proof. exact sem_meaning. Qed.
Print Assumptions C17_sem_meaning.

(* all filters look at the local reading (instant + utc offset) only *)
Theorem C17_local_only :
  forall f i1 o1 i2 o2, to_local_off i1 o1 = to_local_off i2 o2 ->
    allow f (to_local_off i1 o1) = allow f (to_local_off i2 o2).
Proof. exact allow_local_only. Qed.
Print Assumptions C17_local_only.

(* the calendar behind the three set filters, for EVERY day number: ranges, the weekly period, the
   round trip through days_from_civil, and: day 0 is Thursday 1970-01-01 and consecutive day numbers
   are consecutive Gregorian dates *)
Theorem C17_calendar :
  (forall n, 1 <= weekday_of_day n <= 7) /\
  (forall n, weekday_of_day (n + 7) = weekday_of_day n) /\
  weekday_of_day 0 = 4 /\
  (forall n, 1 <= month_of_day n <= 12) /\
  (forall n, 1 <= dom_of_day n <= days_in_month (year_of_day n) (month_of_day n) /\ dom_of_day n <= 31) /\
  (forall n, days_from_civil (year_of_day n) (month_of_day n) (dom_of_day n) = n) /\
  civil_from_days 0 = (1970, 1, 1) /\
  (forall n, civil_from_days (n + 1) = next_date (civil_from_days n)).
Proof. exact calendar_facts. Qed.
Print Assumptions C17_calendar.

(* ---- the range syntax ------------------------------------------------------------------------- *)
(* a-b denotes [a..b], {a} when a = b, and the wrap-around [a..max] u [1..b] when a > b *)
Theorem C17_wrapped_range_spec :
  forall a b mx x, In x (wrapped_range a b mx) <->
    (a <= b /\ a <= x <= b) \/ (b < a /\ (a <= x <= mx \/ 1 <= x <= b)).
Proof. exact wrapped_range_spec. Qed.
Print Assumptions C17_wrapped_range_spec.

(* every string of the grammar  list := item (',' item)* ; item := atom | atom '-' atom ;
   atom := ws* (digits | name) ws*  is accepted and read as the set it denotes *)
Theorem C17_parse_sound :
  forall lk mn mx t, tree_ok lk mn mx t = true -> parse_str_options lk mn mx (print t) = Ok (denote lk mx t).
Proof. exact parse_sound. Qed.
Print Assumptions C17_parse_sound.

(* what [denote] is: the strictly increasing list of the members of the items *)
Theorem C17_denote :
  (forall lk mx t x, In x (denote lk mx t) <-> exists it, In it t /\ In x (item_den lk mx it)) /\
  (forall lk mx t, StronglySorted Z.lt (denote lk mx t)) /\
  (forall lk mx a, item_den lk mx (ISingle a) = [atom_val lk a]) /\
  (forall lk mx a b x, In x (item_den lk mx (IRange a b)) <->
     let va := atom_val lk a in let vb := atom_val lk b in
     (va <= vb /\ va <= x <= vb) \/ (vb < va /\ (va <= x <= mx \/ 1 <= x <= vb))).
Proof. exact denote_facts. Qed.
Print Assumptions C17_denote.

(* nestings of lists / ints / strings, through helper.get_<domain> and through FilterBuilder.<domain> *)
Theorem C17_parse_values_sound :
  forall d vs, vtree_ok (dom_lookup d) (dom_min d) (dom_max d) (TList vs) = true ->
    get_values d (map vprint vs) = Ok (vdenote (dom_lookup d) (dom_max d) (TList vs)) /\
    builder_values d (map vprint vs) = Ok (vdenote (dom_lookup d) (dom_max d) (TList vs)).
Proof. exact get_values_sound. Qed.
Print Assumptions C17_parse_values_sound.

Theorem C17_vdenote_members :
  forall lk mx vs x, In x (vdenote lk mx (TList vs)) <-> exists v, In v vs /\ In x (vflat lk mx v).
Proof. exact vdenote_In. Qed.
Print Assumptions C17_vdenote_members.

(* the recursion of _parse_str_options on comma parts never goes deeper than 2, for every string *)
Theorem C17_parse_recursion_depth :
  forall fuel lk mn mx v, (2 <= fuel)%nat ->
    parse_opts fuel lk mn mx v = parse_str_options lk mn mx v /\ parse_str_options lk mn mx v <> OutOfFuel.
Proof. exact parse_opts_fuel. Qed.
Print Assumptions C17_parse_recursion_depth.

(* ---- anything else is rejected ------------------------------------------------------------------ *)
(* an atom that is an out-of-range number, an unknown name, a name whose number is out of range, a
   superscript-digit string or empty is rejected with ValueError *)
Theorem C17_reject_atoms :
  (forall lk mn mx s, isdigit (strip s) = true -> ~ (mn <= digits_val (strip s) <= mx) ->
     parse_single_str lk mn mx s = Raise EValueError) /\
  (forall lk mn mx s, isdigit (strip s) = false -> (forall tbl, lk = Some tbl -> lookup_name tbl (strip s) = None) ->
     parse_single_str lk mn mx s = Raise EValueError) /\
  (forall tbl mn mx s n, isdigit (strip s) = false -> lookup_name tbl (strip s) = Some n -> ~ (mn <= n <= mx) ->
     parse_single_str (Some tbl) mn mx s = Raise EValueError) /\
  (forall lk mn mx s, isdigit (strip s) = true -> forallb is_ascii_digit (strip s) = false ->
     parse_single_str lk mn mx s = Raise EValueError) /\
  (forall lk mn mx s, all_space s = true -> (forall tbl, lk = Some tbl -> assoc [] tbl = None) ->
     parse_single_str lk mn mx s = Raise EValueError).
Proof. exact reject_atoms. Qed.
Print Assumptions C17_reject_atoms.

(* a failing atom fails its item, a failing item fails the comma list, a failing value fails the
   call at any nesting depth; no values, an empty list and an out-of-range int are rejected *)
Theorem C17_reject_propagates :
  (forall lk mn mx v, zmemb COMMA v = false ->
     (if zmemb DASH v
      then exists a b, split_first DASH v = Some (a, b) /\
             (parse_single_str lk mn mx a = Raise EValueError \/ parse_single_str lk mn mx b = Raise EValueError)
      else parse_single_str lk mn mx v = Raise EValueError) ->
     parse_str_options lk mn mx v = Raise EValueError) /\
  (forall lk mn mx v part e, zmemb COMMA v = true -> In part (split_on COMMA v) ->
     parse_item lk mn mx part = Raise e -> exists e', parse_str_options lk mn mx v = Raise e') /\
  (forall lk mn mx vs v e, In v vs -> parse_val lk mn mx v = Raise e -> exists e', parse_values lk mn mx vs = Raise e') /\
  (forall lk mn mx, parse_values lk mn mx [] = Raise EValueError) /\
  (forall lk mn mx, parse_val lk mn mx (VList []) = Raise EValueError) /\
  (forall lk mn mx n, ~ (mn <= n <= mx) -> parse_val lk mn mx (VInt n) = Raise EValueError).
Proof. exact reject_propagates. Qed.
Print Assumptions C17_reject_propagates.

(* ---- the names --------------------------------------------------------------------------------- *)
(* every English and German full name and abbreviation maps to its number, and nothing else is in
   the tables *)
Theorem C17_name_tables :
  ((forall nm n, In (nm, n) english_german_days -> assoc nm day_names = Some n) /\
   (forall nm n, In (nm, n) day_names -> assoc nm english_german_days = Some n /\ 1 <= n <= 7)) /\
  ((forall nm n, In (nm, n) english_german_months -> assoc nm month_names = Some n) /\
   (forall nm n, In (nm, n) month_names -> assoc nm english_german_months = Some n /\ 1 <= n <= 12)).
Proof. exact name_tables. Qed.
Print Assumptions C17_name_tables.

(* in every casing: a name whose lower-casing is a table key meets the side conditions of
   C17_parse_sound ([name_ok]) and denotes the key's number *)
Theorem C17_spelling_any_case :
  (forall nm key n, lower nm = key -> assoc key day_names = Some n ->
     name_ok (Some day_names) 1 7 nm = true /\ lookup_name day_names nm = Some n /\ 1 <= n <= 7) /\
  (forall nm key n, lower nm = key -> assoc key month_names = Some n ->
     name_ok (Some month_names) 1 12 nm = true /\ lookup_name month_names nm = Some n /\ 1 <= n <= 12).
Proof. exact spelling_any_case. Qed.
Print Assumptions C17_spelling_any_case.
