(* C17 — Filters implement their algebra and their range syntax.
   Only statements and one-line proofs live here; the lemmas are in theories/FiltersFacts.v,
   theories/ParseFacts.v and theories/CivilFacts.v.  (Related clauses are bundled into one
   conjunction per theorem: every Print Assumptions walks the whole proof.) *)
From Coq Require Import Sorted.
From EAS Require Import Base Civil CivilFacts Filters FiltersFacts Parse ParseFacts.

(* ---- the algebra ---------------------------------------------------------------------------- *)
(* the executable filter (written after prod_filter.py) accepts a local date-time exactly when the
   declarative meaning holds; C17_sem_meaning spells the meaning out constructor by constructor *)
Theorem C17_allow_sem : forall f x, allow f x = true <-> sem f x.
Proof. exact allow_sem. Qed.
Print Assumptions C17_allow_sem.

(* any(...) accepts exactly when at least one member accepts, all(...) when every member accepts,
   not_ inverts; any() of nothing rejects, all() of nothing accepts *)
Theorem C17_algebra :
  (forall fs x, allow (FAny fs) x = true <-> exists g, In g fs /\ allow g x = true) /\
  (forall fs x, allow (FAll fs) x = true <-> forall g, In g fs -> allow g x = true) /\
  (forall f x, allow (FNot f) x = negb (allow f x)) /\
  (forall x, allow (FAny []) x = false) /\
  (forall x, allow (FAll []) x = true).
Proof. exact filter_algebra. Qed.
Print Assumptions C17_algebra.

(* the time filter accepts exactly lower <= local time < upper; a missing bound does not constrain *)
Theorem C17_time :
  forall lo hi x, allow (FTime lo hi) x = true <->
    (forall l, lo = Some l -> l <= local_tod x) /\ (forall h, hi = Some h -> local_tod x < h).
Proof. exact allow_time. Qed.
Print Assumptions C17_time.

(* weekday, day-of-month and month filters: membership of the field of the LOCAL date *)
Theorem C17_sem_meaning :
  (forall fs x, sem (FAny fs) x <-> exists g, In g fs /\ sem g x) /\
  (forall fs x, sem (FAll fs) x <-> forall g, In g fs -> sem g x) /\
  (forall f x, sem (FNot f) x <-> ~ sem f x) /\
  (forall lo hi x, sem (FTime lo hi) x <->
     (forall l, lo = Some l -> l <= local_tod x) /\ (forall h, hi = Some h -> local_tod x < h)) /\
  (forall s x, sem (FWeekday s) x <-> In (weekday_of_day (local_day x)) s) /\
  (forall s x, sem (FDay s) x <-> In (dom_of_day (local_day x)) s) /\
  (forall s x, sem (FMonth s) x <-> In (month_of_day (local_day x)) s).
Proof. exact sem_meaning. Qed.
Print Assumptions C17_sem_meaning.

(* all filters look at the local reading (instant + utc offset) only *)
Theorem C17_local_only :
  forall f i1 o1 i2 o2, to_local_off i1 o1 = to_local_off i2 o2 ->
    allow f (to_local_off i1 o1) = allow f (to_local_off i2 o2).
Proof. exact allow_local_only. Qed.
Print Assumptions C17_local_only.

(* the calendar behind the three set filters, for EVERY day number: ranges, the weekly period, the
   round trip through days_from_civil, and: day 0 is Thursday 1970-01-01 and consecutive day numbers
   are consecutive Gregorian dates *)
Theorem C17_calendar :
  (forall n, 1 <= weekday_of_day n <= 7) /\
  (forall n, weekday_of_day (n + 7) = weekday_of_day n) /\
  weekday_of_day 0 = 4 /\
  (forall n, 1 <= month_of_day n <= 12) /\
  (forall n, 1 <= dom_of_day n <= days_in_month (year_of_day n) (month_of_day n) /\ dom_of_day n <= 31) /\
  (forall n, days_from_civil (year_of_day n) (month_of_day n) (dom_of_day n) = n) /\
  civil_from_days 0 = (1970, 1, 1) /\
  (forall n, civil_from_days (n + 1) = next_date (civil_from_days n)).
Proof. exact calendar_facts. Qed.
Print Assumptions C17_calendar.

(* ---- the range syntax ------------------------------------------------------------------------- *)
(* a-b denotes [a..b], {a} when a = b, and the wrap-around [a..max] u [1..b] when a > b *)
Theorem C17_wrapped_range_spec :
  forall a b mx x, In x (wrapped_range a b mx) <->
    (a <= b /\ a <= x <= b) \/ (b < a /\ (a <= x <= mx \/ 1 <= x <= b)).
Proof. exact wrapped_range_spec. Qed.
Print Assumptions C17_wrapped_range_spec.

(* every string of the grammar  list := item (',' item)* ; item := atom | atom '-' atom ;
   atom := ws* (digits | name) ws*  is accepted and read as the set it denotes *)
Theorem C17_parse_sound :
  forall lk mn mx t, tree_ok lk mn mx t = true -> parse_str_options lk mn mx (print t) = Ok (denote lk mx t).
Proof. exact parse_sound. Qed.
Print Assumptions C17_parse_sound.

(* what [denote] is: the strictly increasing list of the members of the items *)
Theorem C17_denote :
  (forall lk mx t x, In x (denote lk mx t) <-> exists it, In it t /\ In x (item_den lk mx it)) /\
  (forall lk mx t, StronglySorted Z.lt (denote lk mx t)) /\
  (forall lk mx a, item_den lk mx (ISingle a) = [atom_val lk a]) /\
  (forall lk mx a b x, In x (item_den lk mx (IRange a b)) <->
     let va := atom_val lk a in let vb := atom_val lk b in
     (va <= vb /\ va <= x <= vb) \/ (vb < va /\ (va <= x <= mx \/ 1 <= x <= vb))).
Proof. exact denote_facts. Qed.
Print Assumptions C17_denote.

(* nestings of lists / ints / strings, through helper.get_<domain> and through FilterBuilder.<domain> *)
Theorem C17_parse_values_sound :
  forall d vs, vtree_ok (dom_lookup d) (dom_min d) (dom_max d) (TList vs) = true ->
    get_values d (map vprint vs) = Ok (vdenote (dom_lookup d) (dom_max d) (TList vs)) /\
    builder_values d (map vprint vs) = Ok (vdenote (dom_lookup d) (dom_max d) (TList vs)).
Proof. exact get_values_sound. Qed.
Print Assumptions C17_parse_values_sound.

Theorem C17_vdenote_members :
  forall lk mx vs x, In x (vdenote lk mx (TList vs)) <-> exists v, In v vs /\ In x (vflat lk mx v).
Proof. exact vdenote_In. Qed.
Print Assumptions C17_vdenote_members.

(* the recursion of _parse_str_options on comma parts never goes deeper than 2, for every string *)
Theorem C17_parse_recursion_depth :
  forall fuel lk mn mx v, (2 <= fuel)%nat ->
    parse_opts fuel lk mn mx v = parse_str_options lk mn mx v /\ parse_str_options lk mn mx v <> OutOfFuel.
Proof. exact parse_opts_fuel. Qed.
Print Assumptions C17_parse_recursion_depth.

(* ---- anything else is rejected ------------------------------------------------------------------ *)
(* an atom that is an out-of-range number, an unknown name, a name whose number is out of range, a
   superscript-digit string or empty is rejected with ValueError *)
Theorem C17_reject_atoms :
  (forall lk mn mx s, isdigit (strip s) = true -> ~ (mn <= digits_val (strip s) <= mx) ->
     parse_single_str lk mn mx s = Raise EValueError) /\
  (forall lk mn mx s, isdigit (strip s) = false -> (forall tbl, lk = Some tbl -> lookup_name tbl (strip s) = None) ->
     parse_single_str lk mn mx s = Raise EValueError) /\
  (forall tbl mn mx s n, isdigit (strip s) = false -> lookup_name tbl (strip s) = Some n -> ~ (mn <= n <= mx) ->
     parse_single_str (Some tbl) mn mx s = Raise EValueError) /\
  (forall lk mn mx s, isdigit (strip s) = true -> forallb is_ascii_digit (strip s) = false ->
     parse_single_str lk mn mx s = Raise EValueError) /\
  (forall lk mn mx s, all_space s = true -> (forall tbl, lk = Some tbl -> assoc [] tbl = None) ->
     parse_single_str lk mn mx s = Raise EValueError).
Proof. exact reject_atoms. Qed.
Print Assumptions C17_reject_atoms.

(* a failing atom fails its item, a failing item fails the comma list, a failing value fails the
   call at any nesting depth; no values, an empty list and an out-of-range int are rejected *)
Theorem C17_reject_propagates :
  (forall lk mn mx v, zmemb COMMA v = false ->
     (if zmemb DASH v
      then exists a b, split_first DASH v = Some (a, b) /\
             (parse_single_str lk mn mx a = Raise EValueError \/ parse_single_str lk mn mx b = Raise EValueError)
      else parse_single_str lk mn mx v = Raise EValueError) ->
     parse_str_options lk mn mx v = Raise EValueError) /\
  (forall lk mn mx v part e, zmemb COMMA v = true -> In part (split_on COMMA v) ->
     parse_item lk mn mx part = Raise e -> exists e', parse_str_options lk mn mx v = Raise e') /\
  (forall lk mn mx vs v e, In v vs -> parse_val lk mn mx v = Raise e -> exists e', parse_values lk mn mx vs = Raise e') /\
  (forall lk mn mx, parse_values lk mn mx [] = Raise EValueError) /\
  (forall lk mn mx, parse_val lk mn mx (VList []) = Raise EValueError) /\
  (forall lk mn mx n, ~ (mn <= n <= mx) -> parse_val lk mn mx (VInt n) = Raise EValueError).
Proof. exact reject_propagates. Qed.
Print Assumptions C17_reject_propagates.

(* ---- the names --------------------------------------------------------------------------------- *)
(* every English and German full name and abbreviation maps to its number, and nothing else is in
   the tables *)
Theorem C17_name_tables :
  ((forall nm n, In (nm, n) english_german_days -> assoc nm day_names = Some n) /\
   (forall nm n, In (nm, n) day_names -> assoc nm english_german_days = Some n /\ 1 <= n <= 7)) /\
  ((forall nm n, In (nm, n) english_german_months -> assoc nm month_names = Some n) /\
   (forall nm n, In (nm, n) month_names -> assoc nm english_german_months = Some n /\ 1 <= n <= 12)).
Proof. exact name_tables. Qed.
Print Assumptions C17_name_tables.

(* in every casing: a name whose lower-casing is a table key meets the side conditions of
   C17_parse_sound ([name_ok]) and denotes the key's number *)
Theorem C17_spelling_any_case :
  (forall nm key n, lower nm = key -> assoc key day_names = Some n ->
     name_ok (Some day_names) 1 7 nm = true /\ lookup_name day_names nm = Some n /\ 1 <= n <= 7) /\
  (forall nm key n, lower nm = key -> assoc key month_names = Some n ->
     name_ok (Some month_names) 1 12 nm = true /\ lookup_name month_names nm = Some n /\ 1 <= n <= 12).
Proof. exact spelling_any_case. Qed.
Print Assumptions C17_spelling_any_case.

(* ---- the tie by translation: builder/helper.py's argument parser and const.py's name tables ---- *)
From EAS Require Import GenRtParse GenParseEq.
From EASGen Require Import GenParse.
(* ---- to be appended to props/C17.v; add to its imports:
        From EAS Require Import GenRtParse GenParseEq.
        From EASGen Require Import GenParse.                                                      ---- *)

(* ---- the second tie: the parser and the name tables as the source files say them TODAY --------------------- *)
(* tools/gen_parse.py translates _wrapped_range, _parse_single_value, _parse_str_options, _parse_values, get_weekdays,
   get_days, get_months (builder/helper.py) and get_day_nr, get_month_nr, __create_names with its closures and the module
   level (const.py) statement by statement into gen/GenParse.v; the file was recognised *)
Theorem C17_generated_recognised : gen_parse_status_v = GenParseOk.
Proof. exact gen_parse_recognised. Qed.
Print Assumptions C17_generated_recognised.

(* the name tables COMPUTED by the translated __create_names from the literals of const.py are the model's tables (same
   entries, same order), and the translated get_day_nr / get_month_nr are lower + strip + dict.get or ValueError *)
Theorem C17_generated_tables :
  gen_names = Ok (day_names, month_names) /\ gen_day_names = day_names /\ gen_month_names = month_names /\
  (forall tbl s, g_get_day_nr tbl s = match lookup_name tbl s with Some n => Ok n | None => Raise EValueError end) /\
  (forall tbl s, g_get_month_nr tbl s = match lookup_name tbl s with Some n => Ok n | None => Raise EValueError end).
Proof.
  exact (conj gen_names_are_model (conj gen_day_names_is_model (conj gen_month_names_is_model
        (conj gen_get_day_nr_is_lookup gen_get_month_nr_is_lookup)))).
Qed.
Print Assumptions C17_generated_tables.

(* the generated parser computes what Parse.v computes, for every input of the model's argument type: value set or
   rejection.  [lookup_agrees g lk]: the lookup function handed to the generated code answers what the model's table
   answers.  Fuel: one unit per call of a recursive function; with too little fuel the answer is OutOfFuel, never a value *)
Theorem C17_generated_parser_is_model :
  (forall a b mx, g_wrapped_range a b mx = Ok (wrapped_range a b mx)) /\
  (forall g mn mx k, g_parse_single_value (VInt k) g mn mx = parse_single_int mn mx k) /\
  (forall g lk mn mx s, lookup_agrees g lk -> g_parse_single_value (VStr s) g mn mx = parse_single_str lk mn mx s) /\
  (forall g lk mn mx, lookup_agrees g lk ->
     forall n v, r_parse_str_options (pknot n) v g mn mx = parse_opts n lk mn mx v) /\
  (forall g lk mn mx, lookup_agrees g lk ->
     forall n v, g_parse_str_options (pknot (S n)) v g mn mx = parse_str_options lk mn mx v) /\
  (forall g lk mn mx, lookup_agrees g lk ->
     forall n l, (ldepth l + 2 <= n)%nat -> g_parse_values (pknot n) l g mn mx = parse_values lk mn mx l) /\
  (forall g lk mn mx, lookup_agrees g lk ->
     forall n l, r_parse_values (pknot n) l g mn mx = OutOfFuel \/
                 r_parse_values (pknot n) l g mn mx = parse_values lk mn mx l).
Proof. exact gen_parser_is_model. Qed.
Print Assumptions C17_generated_parser_is_model.

(* the three entry points with their lookups and ranges (1-7 with the day names, 1-31 without names, 1-12 with the
   month names) are the model's get_weekdays / get_days / get_months *)
Theorem C17_generated_entry_points :
  (forall d, lookup_agrees (gen_lookup d) (dom_lookup d)) /\
  (forall n args, (ldepth args + 3 <= n)%nat -> g_get_weekdays (pknot n) args = get_weekdays args) /\
  (forall n args, (ldepth args + 3 <= n)%nat -> g_get_days (pknot n) args = get_days args) /\
  (forall n args, (ldepth args + 3 <= n)%nat -> g_get_months (pknot n) args = get_months args) /\
  (forall d n args, gen_get d n args = OutOfFuel \/ gen_get d n args = get_values d args).
Proof. exact gen_entry_points. Qed.
Print Assumptions C17_generated_entry_points.

(* ... hence the theorems above hold for the generated code: ranges incl. wrap-around, *)
Theorem C17_generated_wrapped_range_spec :
  forall a b mx, exists r, g_wrapped_range a b mx = Ok r /\
    forall x, In x r <-> (a <= b /\ a <= x <= b) \/ (b < a /\ (a <= x <= mx \/ 1 <= x <= b)).
Proof. exact gen_wrapped_range_spec. Qed.
Print Assumptions C17_generated_wrapped_range_spec.

(* every string of the grammar is read as the set it denotes, through every nesting, *)
Theorem C17_generated_parse_sound :
  (forall d n t, tree_ok (dom_lookup d) (dom_min d) (dom_max d) t = true ->
     gen_str_options d n (print t) = Ok (denote (dom_lookup d) (dom_max d) t)) /\
  (forall d n vs, vtree_ok (dom_lookup d) (dom_min d) (dom_max d) (TList vs) = true ->
     (ldepth (map vprint vs) + 4 <= n)%nat ->
     gen_get d n (map vprint vs) = Ok (vdenote (dom_lookup d) (dom_max d) (TList vs)) /\
     gen_get d n [VList (map vprint vs)] = Ok (vdenote (dom_lookup d) (dom_max d) (TList vs))).
Proof. exact (conj gen_parse_sound gen_get_sound). Qed.
Print Assumptions C17_generated_parse_sound.

(* anything else is rejected, *)
Theorem C17_generated_reject_atoms : forall d,
  let lk := dom_lookup d in let mn := dom_min d in let mx := dom_max d in
  let single := fun s => g_parse_single_value (VStr s) (gen_lookup d) mn mx in
  (forall s, isdigit (strip s) = true -> ~ (mn <= digits_val (strip s) <= mx) -> single s = Raise EValueError) /\
  (forall s, isdigit (strip s) = false -> (forall tbl, lk = Some tbl -> lookup_name tbl (strip s) = None) ->
     single s = Raise EValueError) /\
  (forall tbl s k, lk = Some tbl -> isdigit (strip s) = false -> lookup_name tbl (strip s) = Some k -> ~ (mn <= k <= mx) ->
     single s = Raise EValueError) /\
  (forall s, isdigit (strip s) = true -> forallb is_ascii_digit (strip s) = false -> single s = Raise EValueError) /\
  (forall s, all_space s = true -> (forall tbl, lk = Some tbl -> assoc [] tbl = None) -> single s = Raise EValueError).
Proof. exact gen_reject_atoms. Qed.
Print Assumptions C17_generated_reject_atoms.

Theorem C17_generated_reject_propagates : forall d,
  let lk := dom_lookup d in let mn := dom_min d in let mx := dom_max d in
  (forall n v, zmemb COMMA v = false ->
     (if zmemb DASH v
      then exists a b, split_first DASH v = Some (a, b) /\
             (parse_single_str lk mn mx a = Raise EValueError \/ parse_single_str lk mn mx b = Raise EValueError)
      else parse_single_str lk mn mx v = Raise EValueError) ->
     gen_str_options d n v = Raise EValueError) /\
  (forall n v part e, zmemb COMMA v = true -> In part (split_on COMMA v) -> parse_item lk mn mx part = Raise e ->
     exists e', gen_str_options d n v = Raise e') /\
  (forall n vs v e, (ldepth vs + 3 <= n)%nat -> In v vs -> parse_val lk mn mx v = Raise e ->
     exists e', gen_get d n vs = Raise e') /\
  (forall n, (3 <= n)%nat -> gen_get d n [] = Raise EValueError) /\
  (forall n, (4 <= n)%nat -> gen_get d n [VList []] = Raise EValueError) /\
  (forall n k, (3 <= n)%nat -> ~ (mn <= k <= mx) -> gen_get d n [VInt k] = Raise EValueError).
Proof. exact gen_reject_propagates. Qed.
Print Assumptions C17_generated_reject_propagates.

(* and the names: English and German, full or abbreviated, in every casing, and nothing else *)
Theorem C17_generated_name_tables :
  ((forall nm n, In (nm, n) english_german_days -> assoc nm gen_day_names = Some n) /\
   (forall nm n, In (nm, n) gen_day_names -> assoc nm english_german_days = Some n /\ 1 <= n <= 7)) /\
  ((forall nm n, In (nm, n) english_german_months -> assoc nm gen_month_names = Some n) /\
   (forall nm n, In (nm, n) gen_month_names -> assoc nm english_german_months = Some n /\ 1 <= n <= 12)).
Proof. exact gen_name_tables. Qed.
Print Assumptions C17_generated_name_tables.

Theorem C17_generated_spelling_any_case :
  (forall nm key n, lower nm = key -> assoc key gen_day_names = Some n ->
     name_ok (dom_lookup DWeekdays) 1 7 nm = true /\ g_get_day_nr gen_day_names nm = Ok n /\ 1 <= n <= 7) /\
  (forall nm key n, lower nm = key -> assoc key gen_month_names = Some n ->
     name_ok (dom_lookup DMonths) 1 12 nm = true /\ g_get_month_nr gen_month_names nm = Ok n /\ 1 <= n <= 12).
Proof. exact gen_spelling_any_case. Qed.
Print Assumptions C17_generated_spelling_any_case.
