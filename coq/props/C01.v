(* C01 — Due jobs are executed on time and never early.
   Only statements and one-line proofs live here; the lemmas are in theories/Sched*.v. *)
From EAS Require Import Base Sched SchedInv SchedApi SchedProps SchedLog SchedFuel.

(* Every reachable state (any history of creations, control operations, clock advances, wake-ups and
   early wake-ups, any triggers, any failing user code) satisfies the scheduler invariant: the queue
   holds exactly the running jobs, once each, sorted by next-run time, and the one loop timer is armed
   for the head exactly when the scheduler is enabled. *)
Theorem C01_invariant_reachable :
  forall E fuel hs t0 en ops s rs,
    run E fuel hs (init t0 en) ops = (s, rs) -> ~ In NoFuel rs -> Inv s.
Proof. intros E fuel hs t0 en ops s rs H. exact (run_inv E fuel hs ops _ _ _ (Inv_init t0 en) H). Qed.
Print Assumptions C01_invariant_reachable.

(* the timer is armed for the head of the queue *)
Theorem C01_timer_armed_for_head :
  forall s, Inv s ->
    match queue s with
    | [] => timer s = None
    | h :: _ => if enabled s then timer s = jnext (jobs s h) /\ jnext (jobs s h) <> None else timer s = None
    end.
Proof. exact timer_armed_for_head. Qed.
Print Assumptions C01_timer_armed_for_head.

(* on time: after the wake-up in which the loop clock has reached a job's next-run time, no running
   job of an enabled scheduler is still due *)
Theorem C01_on_time_after_wake :
  forall E fuel hs s s', Inv s -> step_op E fuel hs s OWake = (s', Done) -> enabled s' = true -> NoDue s'.
Proof. exact wake_runs_due. Qed.
Print Assumptions C01_on_time_after_wake.

(* re-enabling a disabled scheduler immediately runs everything that became due in the meantime *)
Theorem C01_enable_runs_due :
  forall E fuel hs s s', Inv s -> enabled s = false -> step_op E fuel hs s (OEnable true) = (s', Done) ->
    NoDue s' /\ enabled s' = true.
Proof. exact enable_runs_due. Qed.
Print Assumptions C01_enable_runs_due.

(* never early: in every history every start of a callable happens at or after the next-run time the
   job had announced *)
Theorem C01_never_early :
  forall E fuel hs t0 en ops s rs,
    run E fuel hs (init t0 en) ops = (s, rs) -> Forall not_early (log s).
Proof. exact never_early. Qed.
Print Assumptions C01_never_early.

(* a timer that fires before its time (clock resolution) is harmless *)
Theorem C01_early_wake_harmless :
  forall E fuel hs s s' w, Inv s -> timer s = Some w -> now s < w ->
    step_op E (S (S (S fuel))) hs s OEarlyWake = (s', Done) -> s' = s.
Proof. exact early_wake_harmless. Qed.
Print Assumptions C01_early_wake_harmless.


(* FUEL.  The model bounds the recursion of the re-entrant core with a fuel argument; the theorems above are
   conditional on "no NoFuel outcome".  The following remove the caveat. *)

(* more fuel never changes a result: each of the six core functions that answers with fuel f answers the same with
   every f' >= f *)
Theorem C01_fuel_mono : forall E f,
  (forall f' s s', (f <= f')%nat -> set_timer E f s = Some s' -> set_timer E f' s = Some s') /\
  (forall f' s s', (f <= f')%nat -> run_jobs E f s = Some s' -> run_jobs E f' s = Some s') /\
  (forall f' s s', (f <= f')%nat -> run_loop E f s = Some s' -> run_loop E f' s = Some s') /\
  (forall f' j s s', (f <= f')%nat -> add_job E f j s = Some s' -> add_job E f' j s = Some s') /\
  (forall f' j s s', (f <= f')%nat -> remove_job E f j s = Some s' -> remove_job E f' j s = Some s') /\
  (forall f' j t s s', (f <= f')%nat -> exec_job E f j t s = Some s' -> exec_job E f' j t s = Some s').
Proof. exact fuel_mono. Qed.
Print Assumptions C01_fuel_mono.

(* when triggers answer strictly in the future (C04), fuel linear in the number of DUE jobs suffices for the core
   from every well-formed state; Example core_bounds_tight (SchedFuel.v) shows the first three bounds are exact *)
Theorem C01_core_fuel_sufficient :
  forall E, (forall j k t, exists v, prod E j k t = Ok v /\ t < v) ->
  forall X s, WFq X s ->
    (exists s', run_loop E (due s + 3) s = Some s') /\
    (exists s', run_jobs E (due s + 4) s = Some s') /\
    (exists s', set_timer E (due s + 5) s = Some s') /\
    (forall j, exists s', remove_job E (due s + 6) j s = Some s') /\
    (forall j, ~ In j (queue s) -> exists s', add_job E (due s + 7) j s = Some s').
Proof. exact core_total. Qed.
Print Assumptions C01_core_fuel_sufficient.

(* every API operation and every wake-up, from every state satisfying the invariant, completes with
   (number of jobs ever created) + 7 units of fuel *)
Theorem C01_step_total :
  forall E, (forall j k t, exists v, prod E j k t = Ok v /\ t < v) ->
  forall fuel hs s o, Inv s -> (njobs s + 7 <= fuel)%nat ->
    exists s' r, step_op E fuel hs s o = (s', r) /\ r <> NoFuel.
Proof. exact step_total. Qed.
Print Assumptions C01_step_total.

(* every history: with |ops| + 7 units of fuel or more no outcome is NoFuel and the final state satisfies the
   invariant - C01_invariant_reachable without its premise *)
Theorem C01_run_total :
  forall E, (forall j k t, exists v, prod E j k t = Ok v /\ t < v) ->
  forall hs t0 en ops fuel, (length ops + 7 <= fuel)%nat ->
    let (s, rs) := run E fuel hs (init t0 en) ops in Inv s /\ ~ In NoFuel rs.
Proof. exact run_total_init. Qed.
Print Assumptions C01_run_total.

Theorem C01_run_exists_fuel :
  forall E, (forall j k t, exists v, prod E j k t = Ok v /\ t < v) ->
  forall hs t0 en ops, exists fuel, let (s, rs) := run E fuel hs (init t0 en) ops in Inv s /\ ~ In NoFuel rs.
Proof. exact run_exists_fuel. Qed.
Print Assumptions C01_run_exists_fuel.

(* the fuel is an artefact of the encoding: a history that completes gives exactly the same state and outcomes
   with every larger fuel (any environment), hence all sufficient fuels agree *)
Theorem C01_run_fuel_mono :
  forall E f f' hs ops s s' rs, (f <= f')%nat ->
    run E f hs s ops = (s', rs) -> ~ In NoFuel rs -> run E f' hs s ops = (s', rs).
Proof. exact run_mono. Qed.
Print Assumptions C01_run_fuel_mono.

Theorem C01_run_fuel_irrelevant :
  forall E hs t0 en ops f f',
    (forall j k t, exists v, prod E j k t = Ok v /\ t < v) ->
    (length ops + 7 <= f)%nat -> (length ops + 7 <= f')%nat ->
    run E f hs (init t0 en) ops = run E f' hs (init t0 en) ops.
Proof. exact run_fuel_irrelevant. Qed.
Print Assumptions C01_run_fuel_irrelevant.


(* ---- the tie to the source by translation: coq/gen/GenSched.v is regenerated from
   src/eascheduler/schedulers/async_scheduler.py on every run (tools/gen_sched.py); these theorems are re-checked
   against it.  For every fuel and every state: whenever the model of Sched.v returns a state that is not marked
   broken (always, from well-formed states: core_specs_all), the generated set_timer / run_jobs / its loop / add_job /
   remove_job return exactly that state, and job.execute() hands its exception to run_jobs. *)
From EAS Require GenRt GenSchedEq.
Theorem C01_generated_source_recognised : EASGen.GenSched.gen_sched_status_v = EASGen.GenSched.GenSchedOk.
Proof. exact GenSchedEq.gen_sched_recognised. Qed.
Print Assumptions C01_generated_source_recognised.
Theorem C01_generated_scheduler_is_model : forall E f, GenSchedEq.agrees E f.
Proof. exact GenSchedEq.gen_agrees. Qed.
Print Assumptions C01_generated_scheduler_is_model.
Theorem C01_generated_wake_is_model : forall E fuel hs s s' w,
  Inv s -> timer s = Some w -> w <= now s -> step_op E fuel hs s OWake = (s', Done) ->
  GenSchedEq.gen_run_jobs E fuel s = Some (s', GenRt.Ret).
Proof. exact GenSchedEq.gen_wake_is_model. Qed.
Print Assumptions C01_generated_wake_is_model.
Theorem C01_generated_enable_is_model : forall E fuel hs s b s',
  Inv s -> step_op E fuel hs s (OEnable b) = (s', Done) -> GenSchedEq.gen_set_enabled E fuel b s = Some (s', GenRt.Ret).
Proof. exact GenSchedEq.gen_enable_is_model. Qed.
Print Assumptions C01_generated_enable_is_model.

(* ---- the FULLY GENERATED stack (GenSystem*.v): a history machine in which every API operation is executed by generated code only (builder, store, job classes, controls, scheduler; in GenSystem2 also the producers) ---- *)


(* ---- THE WHOLE STACK, GENERATED (theories/GenSystem.v): [gen_run] executes the histories of [Sched.run] with
   generated code only - JobBuilder.once/countdown/at -> _add_job -> store / link_scheduler -> scheduler; the control
   methods -> job methods -> scheduler; set_enabled; run_jobs with the generated job.execute(); the callback
   handlers.  Hand-written between the pieces: the vocabulary of histories, the initial state, the clock, the event
   loop's firing rule for the armed timer, argument conversion, which control class an entry point hands out, and
   dropping the unreferenced object after a duplicate id (list at the head of GenSystem.v).  For every environment,
   fuel, store flag and TYPED history (each control operation on the kind of job whose control class offers it;
   cancel / pause / stop address an existing job), as long as the model does not run out of fuel, the generated
   machine yields the model's outcomes and the model's state up to SchedEqst.eqst (every field equal, the job tables
   equal at every index).  The C01 theorems follow for the generated machine. *)
From EAS Require SchedEqst GenRtJobs GenSystem.
Theorem C01_generated_system_is_model : forall E fuel hs t0 en ops s rs,
  GenSystem.ops_wt E fuel hs (init t0 en) ops -> run E fuel hs (init t0 en) ops = (s, rs) -> ~ In NoFuel rs ->
  exists g, GenSystem.gen_run E fuel hs (init t0 en) ops = (g, map GenSystem.oc_of rs) /\ SchedEqst.eqst g s.
Proof. exact GenSystem.gen_run_is_model. Qed.
Print Assumptions C01_generated_system_is_model.
(* when triggers answer in the future, [length ops + 7] units of fuel suffice and the side condition disappears *)
Theorem C01_generated_system_total : forall E fuel hs t0 en ops,
  (forall j k t, exists v, prod E j k t = Ok v /\ t < v) -> (length ops + 7 <= fuel)%nat ->
  GenSystem.ops_wt E fuel hs (init t0 en) ops ->
  SchedEqst.eqst (fst (GenSystem.gen_run E fuel hs (init t0 en) ops)) (fst (run E fuel hs (init t0 en) ops)) /\
  snd (GenSystem.gen_run E fuel hs (init t0 en) ops) = map GenSystem.oc_of (snd (run E fuel hs (init t0 en) ops)) /\
  ~ In GenSystem.GNoFuel (snd (GenSystem.gen_run E fuel hs (init t0 en) ops)).
Proof. exact GenSystem.gen_run_total. Qed.
Print Assumptions C01_generated_system_total.
Theorem C01_generated_system_invariant : forall E fuel hs t0 en ops g,
  GenSystem.GReach E fuel hs t0 en ops g ->
  Inv g /\
  match queue g with
  | [] => timer g = None
  | h :: _ => if enabled g then timer g = jnext (jobs g h) /\ jnext (jobs g h) <> None else timer g = None
  end.
Proof. exact GenSystem.gen_reach_inv. Qed.
Print Assumptions C01_generated_system_invariant.
Theorem C01_generated_system_never_early : forall E fuel hs t0 en ops g,
  GenSystem.GReach E fuel hs t0 en ops g -> Forall not_early (log g).
Proof. exact GenSystem.gen_never_early. Qed.
Print Assumptions C01_generated_system_never_early.
Theorem C01_generated_system_on_time_after_wake : forall E fuel hs t0 en ops g g',
  GenSystem.GReach E fuel hs t0 en ops g -> GenSystem.fuel_ok E fuel hs g OWake ->
  GenSystem.gen_step_op E fuel hs g OWake = (g', GenSystem.GDone) -> enabled g' = true -> NoDue g'.
Proof. exact GenSystem.gen_wake_runs_due. Qed.
Print Assumptions C01_generated_system_on_time_after_wake.
(* the other properties anchored in the scheduler / job / builder files, for the generated machine *)
Theorem C02_generated_system_disabled_quiet : forall E fuel hs t0 en ops g o g' gr,
  GenSystem.GReach E fuel hs t0 en ops g -> GenSystem.op_wt g o -> GenSystem.fuel_ok E fuel hs g o ->
  enabled g = false -> o <> OEnable true -> GenSystem.gen_step_op E fuel hs g o = (g', gr) ->
  SchedProps.execs (log g') = SchedProps.execs (log g).
Proof. exact GenSystem.gen_disabled_quiet. Qed.
Print Assumptions C02_generated_system_disabled_quiet.
Theorem C02_generated_system_queue_exact : forall E fuel hs t0 en ops g,
  GenSystem.GReach E fuel hs t0 en ops g ->
  NoDup (queue g) /\ Sorted.StronglySorted (SchedInv.le_next g) (queue g) /\
  (forall j, In j (queue g) <-> jstatus (jobs g j) = Running).
Proof. exact GenSystem.gen_queue_exact. Qed.
Print Assumptions C02_generated_system_queue_exact.
Theorem C09_generated_system_wake_order : forall E fuel hs t0 en ops g g',
  (forall j k t, exists v, prod E j k t = Ok v /\ t < v) ->
  GenSystem.GReach E fuel hs t0 en ops g -> GenSystem.fuel_ok E fuel hs g OWake ->
  GenSystem.gen_step_op E fuel hs g OWake = (g', GenSystem.GDone) ->
  Sorted.StronglySorted (fun x y : nat * Z => snd y <= snd x) (SchedOrder.cx g') /\ NoDup (map fst (SchedOrder.cx g')).
Proof. exact GenSystem.gen_wake_order. Qed.
Print Assumptions C09_generated_system_wake_order.
Theorem C10_generated_system_failures_isolated : forall E fuel hs t0 en ops,
  GenSystem.ops_wt E fuel hs (init t0 en) ops -> ~ In NoFuel (snd (run E fuel hs (init t0 en) ops)) ->
  SchedEqst.eqst (fst (GenSystem.gen_run (SchedIso.quiet_env E) fuel hs (init t0 en) ops))
                 (SchedIso.er (fst (GenSystem.gen_run E fuel hs (init t0 en) ops))) /\
  snd (GenSystem.gen_run (SchedIso.quiet_env E) fuel hs (init t0 en) ops) = snd (GenSystem.gen_run E fuel hs (init t0 en) ops).
Proof. exact GenSystem.gen_failures_isolated. Qed.
Print Assumptions C10_generated_system_failures_isolated.
Theorem C10_generated_system_handled_exactly_once : forall E fuel hs t0 en ops g,
  GenSystem.GReach E fuel hs t0 en ops g -> SchedHandled.once E (log g).
Proof. exact GenSystem.gen_handled_exactly_once. Qed.
Print Assumptions C10_generated_system_handled_exactly_once.
Theorem C07_generated_system_status_next_agree : forall E fuel hs t0 en ops g j,
  GenSystem.GReach E fuel hs t0 en ops g ->
  (jstatus (jobs g j) = Running <-> jnext (jobs g j) <> None) /\
  (jstatus (jobs g j) <> Running -> jnext (jobs g j) = None).
Proof. exact GenSystem.gen_status_next_agree. Qed.
Print Assumptions C07_generated_system_status_next_agree.
Theorem C07_generated_system_finished_terminal : forall E fuel hs t0 en ops g j o,
  GenSystem.GReach E fuel hs t0 en ops g -> jstatus (jobs g j) = Finished -> SchedProps.control_op_on j o ->
  GenSystem.op_wt g o ->
  exists e g', GenSystem.gen_step_op E fuel hs g o = (g', GenSystem.GRaised (GenRtJobs.JErr e)) /\ SchedEqst.eqst g' g.
Proof. exact GenSystem.gen_finished_terminal. Qed.
Print Assumptions C07_generated_system_finished_terminal.
Theorem C08_generated_system_once_start_exact : forall E fuel hs t0 en ops g o g' gr j t a oi,
  (forall j k t, exists v, prod E j k t = Ok v /\ t < v) ->
  GenSystem.GReach E fuel hs t0 en ops g -> GenSystem.op_wt g o -> GenSystem.fuel_ok E fuel hs g o ->
  GenSystem.gen_step_op E fuel hs g o = (g', gr) ->
  In (EExec j t a oi) (SchedExact.new_events g g') -> jkind (jobs g' j) = KOnce ->
  a = jexec_t (jobs g' j) /\ a <= t /\ t = now g /\ jstatus (jobs g' j) = Finished /\ jnext (jobs g' j) = None.
Proof. exact GenSystem.gen_once_start_exact. Qed.
Print Assumptions C08_generated_system_once_start_exact.
Theorem C08_generated_system_countdown_start_exact : forall E fuel hs t0 en ops g o g' gr j t a oi,
  (forall j k t, exists v, prod E j k t = Ok v /\ t < v) ->
  GenSystem.GReach E fuel hs t0 en ops g -> GenSystem.op_wt g o -> GenSystem.fuel_ok E fuel hs g o ->
  GenSystem.gen_step_op E fuel hs g o = (g', gr) ->
  In (EExec j t a oi) (SchedExact.new_events g g') -> jkind (jobs g' j) = KCountdown ->
  jstatus (jobs g j) = Running /\ jnext (jobs g j) = Some a /\ a <= t /\ t = now g /\
  jstatus (jobs g' j) = Paused /\ jnext (jobs g' j) = None /\ jkind (jobs g j) = KCountdown.
Proof. exact GenSystem.gen_countdown_start_exact. Qed.
Print Assumptions C08_generated_system_countdown_start_exact.
(* the whole-stack tie started from the GENERATED constructors (tools/gen_init.py, gen/GenInit.v) *)
From EAS Require GenInitEq.
Theorem C01_generated_system_from_generated_init : forall E fuel hs t0 en ops s rs,
  GenSystem.ops_wt E fuel hs (EASGen.GenInit.gen_init t0 en) ops ->
  Sched.run E fuel hs (EASGen.GenInit.gen_init t0 en) ops = (s, rs) -> ~ In Sched.NoFuel rs ->
  exists g, GenSystem.gen_run E fuel hs (EASGen.GenInit.gen_init t0 en) ops = (g, map GenSystem.oc_of rs) /\
            SchedEqst.eqst g s.
Proof. exact GenInitEq.gen_system_from_generated_init. Qed.
Print Assumptions C01_generated_system_from_generated_init.
