(* C01 — Due jobs are executed on time and never early.
   Only statements and one-line proofs live here; the lemmas are in theories/Sched*.v. *)
From EAS Require Import Base Sched SchedInv SchedApi SchedProps SchedLog.

(* Every reachable state (any history of creations, control operations, clock advances, wake-ups and
   early wake-ups, any triggers, any failing user code) satisfies the scheduler invariant: the queue
   holds exactly the running jobs, once each, sorted by next-run time, and the one loop timer is armed
   for the head exactly when the scheduler is enabled. *)
Theorem C01_invariant_reachable :
  forall E fuel hs t0 en ops s rs,
    run E fuel hs (init t0 en) ops = (s, rs) -> ~ In NoFuel rs -> Inv s.
Proof. intros E fuel hs t0 en ops s rs H. exact (run_inv E fuel hs ops _ _ _ (Inv_init t0 en) H). Qed.
Print Assumptions C01_invariant_reachable.

(* the timer is armed for the head of the queue *)
Theorem C01_timer_armed_for_head :
  forall s, Inv s ->
    match queue s with
    | [] => timer s = None
    | h :: _ => if enabled s then timer s = jnext (jobs s h) /\ jnext (jobs s h) <> None else timer s = None
    end.
Proof. exact timer_armed_for_head. Qed.
Print Assumptions C01_timer_armed_for_head.

(* on time: after the wake-up in which the loop clock has reached a job's next-run time, no running
   job of an enabled scheduler is still due *)
Theorem C01_on_time_after_wake :
  forall E fuel hs s s', Inv s -> step_op E fuel hs s OWake = (s', Done) -> enabled s' = true -> NoDue s'.
Proof. exact wake_runs_due. Qed.
Print Assumptions C01_on_time_after_wake.

(* re-enabling a disabled scheduler immediately runs everything that became due in the meantime *)
Theorem C01_enable_runs_due :
  forall E fuel hs s s', Inv s -> enabled s = false -> step_op E fuel hs s (OEnable true) = (s', Done) ->
    NoDue s' /\ enabled s' = true.
Proof. exact enable_runs_due. Qed.
Print Assumptions C01_enable_runs_due.

(* never early: in every history every start of a callable happens at or after the next-run time the
   job had announced *)
Theorem C01_never_early :
  forall E fuel hs t0 en ops s rs,
    run E fuel hs (init t0 en) ops = (s, rs) -> Forall not_early (log s).
Proof. exact never_early. Qed.
Print Assumptions C01_never_early.

(* a timer that fires before its time (clock resolution) is harmless *)
Theorem C01_early_wake_harmless :
  forall E fuel hs s s' w, Inv s -> timer s = Some w -> now s < w ->
    step_op E (S (S (S fuel))) hs s OEarlyWake = (s', Done) -> s' = s.
Proof. exact early_wake_harmless. Qed.
Print Assumptions C01_early_wake_harmless.
