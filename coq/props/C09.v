(* C09 — Due jobs run in chronological order (statements only). *)
From EAS Require Import Base Sched SchedInv SchedApi SchedProps.
From Coq Require Import Sorted.

(* the queue from whose head jobs are started is sorted by next-run time in every reachable state and
   contains no paused job and no job without run time *)
Theorem C09_queue_sorted :
  forall s, Inv s ->
    NoDup (queue s) /\ StronglySorted (le_next s) (queue s) /\
    (forall j, In j (queue s) <-> jstatus (jobs s j) = Running).
Proof. exact queue_exact. Qed.
Print Assumptions C09_queue_sorted.

Theorem C09_invariant_reachable :
  forall E fuel hs t0 en ops s rs,
    run E fuel hs (init t0 en) ops = (s, rs) -> ~ In NoFuel rs -> Inv s.
Proof. intros E fuel hs t0 en ops s rs H. exact (run_inv E fuel hs ops _ _ _ (Inv_init t0 en) H). Qed.
Print Assumptions C09_invariant_reachable.
