(* C09 — Due jobs run in chronological order (statements only). *)
From EAS Require Import Base Sched SchedInv SchedApi SchedProps SchedOrder SchedFresh.
From Coq Require Import Sorted.

(* the queue from whose head jobs are started is sorted by next-run time in every reachable state and
   contains no paused job and no job without run time *)
Theorem C09_queue_sorted :
  forall s, Inv s ->
    NoDup (queue s) /\ StronglySorted (le_next s) (queue s) /\
    (forall j, In j (queue s) <-> jstatus (jobs s j) = Running).
Proof. exact queue_exact. Qed.
Print Assumptions C09_queue_sorted.

Theorem C09_invariant_reachable :
  forall E fuel hs t0 en ops s rs,
    run E fuel hs (init t0 en) ops = (s, rs) -> ~ In NoFuel rs -> Inv s.
Proof. intros E fuel hs t0 en ops s rs H. exact (run_inv E fuel hs ops _ _ _ (Inv_init t0 en) H). Qed.
Print Assumptions C09_invariant_reachable.

(* In the wake-up in which several jobs are due (the loop was blocked, the timer fired late) the callables
   are started in non-decreasing order of their announced next-run times - also across the nested run_jobs
   calls - and no job twice.  [cx s] lists (job, announced) of the starts of the current operation, newest
   first; [cx s = []] holds at the beginning of an operation.  Triggers are assumed to answer strictly in the
   future (that is C04) and not to raise inside execute() (the known finding F5). *)
Theorem C09_wake_order :
  forall E, (forall j k t, exists v, prod E j k t = Ok v /\ t < v) ->
  forall fuel hs s s', Inv s -> cx s = [] -> step_op E fuel hs s OWake = (s', Done) ->
    StronglySorted (fun x y => snd y <= snd x) (cx s') /\ NoDup (map fst (cx s')).
Proof. exact wake_order. Qed.
Print Assumptions C09_wake_order.

(* the same when a disabled scheduler is re-enabled with several overdue jobs *)
Theorem C09_enable_order :
  forall E, (forall j k t, exists v, prod E j k t = Ok v /\ t < v) ->
  forall fuel hs s s', Inv s -> cx s = [] -> enabled s = false ->
    step_op E fuel hs s (OEnable true) = (s', Done) ->
    StronglySorted (fun x y => snd y <= snd x) (cx s') /\ NoDup (map fst (cx s')).
Proof. exact enable_order. Qed.
Print Assumptions C09_enable_order.

(* ... and therefore in EVERY reachable state: whatever history of creations, control operations, clock
   advances and wake-ups came before ([cx s = []] is proved for every operation boundary: reachable_cx_fresh) *)
Theorem C09_wake_order_in_every_history :
  forall E, (forall j k t, exists v, prod E j k t = Ok v /\ t < v) ->
  forall fuel hs t0 en ops s rs s',
    run E fuel hs (init t0 en) ops = (s, rs) -> ~ In NoFuel rs ->
    step_op E fuel hs s OWake = (s', Done) ->
    StronglySorted (fun x y => snd y <= snd x) (cx s') /\ NoDup (map fst (cx s')).
Proof. exact wake_order_reachable. Qed.
Print Assumptions C09_wake_order_in_every_history.

Theorem C09_enable_order_in_every_history :
  forall E, (forall j k t, exists v, prod E j k t = Ok v /\ t < v) ->
  forall fuel hs t0 en ops s rs s',
    run E fuel hs (init t0 en) ops = (s, rs) -> ~ In NoFuel rs -> enabled s = false ->
    step_op E fuel hs s (OEnable true) = (s', Done) ->
    StronglySorted (fun x y => snd y <= snd x) (cx s') /\ NoDup (map fst (cx s')).
Proof. exact enable_order_reachable. Qed.
Print Assumptions C09_enable_order_in_every_history.

(* ---- the tie to the source by translation: coq/gen/GenSched.v is regenerated from
   src/eascheduler/schedulers/async_scheduler.py on every run (tools/gen_sched.py); these theorems are re-checked
   against it.  For every fuel and every state: whenever the model of Sched.v returns a state that is not marked
   broken (always, from well-formed states: core_specs_all), the generated set_timer / run_jobs / its loop / add_job /
   remove_job return exactly that state, and job.execute() hands its exception to run_jobs. *)
From EAS Require GenRt GenSchedEq.
Theorem C09_generated_source_recognised : EASGen.GenSched.gen_sched_status_v = EASGen.GenSched.GenSchedOk.
Proof. exact GenSchedEq.gen_sched_recognised. Qed.
Print Assumptions C09_generated_source_recognised.
Theorem C09_generated_scheduler_is_model : forall E f, GenSchedEq.agrees E f.
Proof. exact GenSchedEq.gen_agrees. Qed.
Print Assumptions C09_generated_scheduler_is_model.
Theorem C09_generated_wake_is_model : forall E fuel hs s s' w,
  Inv s -> timer s = Some w -> w <= now s -> step_op E fuel hs s OWake = (s', Done) ->
  GenSchedEq.gen_run_jobs E fuel s = Some (s', GenRt.Ret).
Proof. exact GenSchedEq.gen_wake_is_model. Qed.
Print Assumptions C09_generated_wake_is_model.
Theorem C09_generated_enable_is_model : forall E fuel hs s b s',
  Inv s -> step_op E fuel hs s (OEnable b) = (s', Done) -> GenSchedEq.gen_set_enabled E fuel b s = Some (s', GenRt.Ret).
Proof. exact GenSchedEq.gen_enable_is_model. Qed.
Print Assumptions C09_generated_enable_is_model.

(* JobBase.__lt__ as generated from jobs/base.py (tools/gen_jobs.py) is the order the model's queue is sorted by *)
From EAS Require GenJobsEq.
Theorem C09_generated_lt_is_job_lt : forall s a b, EASGen.GenJobs.g_JobBase_lt a b s = job_lt s a b.
Proof. exact GenJobsEq.gen_lt_is_job_lt. Qed.
Print Assumptions C09_generated_lt_is_job_lt.
