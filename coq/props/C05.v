(* C05 — Earliest admissible occurrence: no missed run, filters honoured (statements only). *)
From EAS Require Import Base Civil Time TimeFacts Filters Replace Producers ProdStrict ProdEarliest.
From EAS Require Import TimeOrder ProdEarliest2 ProdGroup.
From EAS Require Import ProdComplete ProdComplete2 ProdComplete3.
From EASGen Require Import Generated.

(* interval: the answer is the EARLIEST point of the grid (through the cached point / start) that lies after
   the reference instant and that the filter accepts on the system-local date and time; a rejected point is
   never returned, an admissible one never skipped.  Every table, every filter, every fuel. *)
Theorem C05_interval_earliest :
  forall z fuel c iv f dt g, 0 < iv -> next_interval z fuel c iv f dt = Ok g ->
    dt < g /\ on_grid c iv g /\ allow_opt z f g = true /\
    forall u, dt < u < g -> on_grid c iv u -> allow_opt z f u = false.
Proof. exact interval_earliest. Qed.
Print Assumptions C05_interval_earliest.

(* the cache only ever moves along the grid, so it never changes the occurrence set *)
Theorem C05_interval_grid_stable :
  forall c iv g u, 0 < iv -> on_grid c iv g -> (on_grid g iv u <-> on_grid c iv u).
Proof. exact on_grid_trans. Qed.
Print Assumptions C05_interval_grid_stable.

(* time of day (PARTIAL: earliest among the local days in walking order; that the walk order is the
   chronological order needs the monotonicity of local days under a well-formed table, which is checked by
   the correspondence and the zoneinfo oracle, not yet proved): the answer is an occurrence of a local day
   >= (local day of dt) - 1 selected by the DST policy, it is after dt and accepted by the filter evaluated
   on its local date-time, and no occurrence of an earlier day of the walk was admissible. *)
Theorem C05_time_walk_earliest_partial :
  forall z tr f dt v, next_time z tr f dt = Ok v ->
    exists day, local_day (to_local z dt) - 1 <= day /\
      In v (day_results z tr day) /\ admissible z f dt v /\
      forall d, local_day (to_local z dt) - 1 <= d < day -> forall u, In u (day_results z tr d) -> ~ admissible z f dt u.
Proof. exact time_walk_earliest. Qed.
Print Assumptions C05_time_walk_earliest_partial.

(* in any case nothing at or before the reference instant is returned *)
Theorem C05_strictly_future :
  forall E p st dt v st', wf_producer p -> get_next E p st dt = (Ok v, st') -> dt < v.
Proof. exact next_strictly_future. Qed.
Print Assumptions C05_strictly_future.

(* ---- additions to props/C05.v; needs in the header:
   From EAS Require Import TimeOrder ProdEarliest2 ProdGroup.   (after the existing imports) ---- *)

(* time of day, FULL (replaces C05_time_walk_earliest_partial): for a table whose offsets differ by at most 4 h
   and a time of day in [0, 24 h): the answer is the earliest instant after dt that is an occurrence of SOME
   local day (as the DST policy selects it) and that the filter accepts on its local date-time. *)
Theorem C05_time_earliest :
  forall z tr f dt v, wf_tz_b z = true -> wf_tr tr ->
    next_time z tr f dt = Ok v -> earliest_after (occ_time z tr f) dt v.
Proof. exact time_earliest. Qed.
Print Assumptions C05_time_earliest.

(* the two facts behind it: results of different local days are in chronological order, and the walk starts
   early enough (one local day before dt; F14) *)
Theorem C05_day_results_order :
  forall z tr d d' u u', spread z <= 4 * 3600 ->
    In u (day_results z tr d) -> In u' (day_results z tr d') -> d < d' -> u < u'.
Proof. exact day_results_order. Qed.
Print Assumptions C05_day_results_order.

Theorem C05_day_results_walk_start :
  forall z tr d u dt, spread z <= 4 * 3600 -> tr_tod tr < DAY ->
    In u (day_results z tr d) -> dt < u -> local_day (to_local z dt) - 1 <= d.
Proof. exact day_results_walk_start. Qed.
Print Assumptions C05_day_results_walk_start.

(* group: the member loop of the model as a top-level function (convertible with get_next's PGroup case) *)
Theorem C05_get_next_group :
  forall E ps f st dt,
    get_next E (PGroup ps f) st dt = finish_loop (iter_until loop_bound (group_round E ps f dt) (dt, st)).
Proof. exact get_next_group. Qed.
Print Assumptions C05_get_next_group.

(* group, generic: members that answer with the earliest element of their (state-independent) occurrence set,
   from every state satisfying an invariant they preserve, make a group that does the same for the union of
   the members' sets cut down by the group filter *)
Theorem C05_group_member_ok :
  forall E (Inv : pstate -> Prop) (P : producer -> Z -> Prop) ps f,
    (forall q, In q ps -> member_ok E Inv (P q) q) ->
    member_ok E Inv (fun u => union_occ P ps u /\ allow_opt (pz E) f u = true) (PGroup ps f).
Proof. exact group_member_ok. Qed.
Print Assumptions C05_group_member_ok.

(* group, stateless member specifications *)
Theorem C05_group_earliest :
  forall E (P : producer -> Z -> Prop) ps f st dt v st',
    (forall q, In q ps -> forall s x n s', get_next E q s x = (Ok n, s') -> earliest_after (P q) x n) ->
    get_next E (PGroup ps f) st dt = (Ok v, st') ->
    earliest_after (fun u => (exists q, In q ps /\ P q u) /\ allow_opt (pz E) f u = true) dt v.
Proof. exact group_earliest. Qed.
Print Assumptions C05_group_earliest.

(* time-of-day triggers, interval triggers with a start, groups of such to any depth, member and group
   filters: the answer is the earliest element after dt of the expression's occurrence set [occ] *)
Theorem C05_tig_earliest :
  forall E G, wf_tz_b (pz E) = true -> consistent G ->
  forall p st dt v st', tig p -> incl (leaves p) G -> cache_on_grid G st ->
    get_next E p st dt = (Ok v, st') -> earliest_after (occ (pz E) p) dt v /\ cache_on_grid G st'.
Proof. exact tig_earliest. Qed.
Print Assumptions C05_tig_earliest.

Theorem C05_group_earliest_tig :
  forall E ps f dt v st',
    wf_tz_b (pz E) = true -> tig (PGroup ps f) -> consistent (leaves (PGroup ps f)) ->
    get_next E (PGroup ps f) pstate0 dt = (Ok v, st') ->
    earliest_after (fun u => (exists q, In q ps /\ occ (pz E) q u) /\ allow_opt (pz E) f u = true) dt v.
Proof. exact group_earliest_tig. Qed.
Print Assumptions C05_group_earliest_tig.

(* and a chain of answers lists the occurrence set in increasing order without omission or repetition *)
Theorem C05_tig_chain_enumerates :
  forall E G, wf_tz_b (pz E) = true -> consistent G ->
  forall p, tig p -> incl (leaves p) G ->
  forall n st dt, cache_on_grid G st -> enumerates (occ (pz E) p) dt (chain E p st dt n).
Proof. exact tig_chain_enumerates. Qed.
Print Assumptions C05_tig_chain_enumerates.

(* ---- the tie to the source by translation: coq/gen/GenProd.v is regenerated from src/eascheduler/producers/*.py and
   helpers/time_replace.py on every run (tools/gen_prod.py); these theorems are re-checked against it.  [pknot E n] is
   the generated code closed by dispatch on the class of the object; [lift] reads a model answer as an outcome of the
   generated code (value + producer state / exception / out of fuel). *)
From EAS Require GenRtProd GenProdEq.
Theorem C05_generated_source_recognised : EASGen.GenProd.gen_prod_status_v = EASGen.GenProd.GenProdOk.
Proof. exact GenProdEq.gen_prod_recognised. Qed.
Print Assumptions C05_generated_source_recognised.
(* the generated code answers v (leaving state st') exactly when the model does: every C05 statement about
   get_next's answers (time of day, interval, group, nested) is a statement about the generated code *)
Theorem C05_generated_answer_iff : forall E n p dt st st' v, wf_producer p -> (GenProdEq.rank p <= n)%nat ->
  (GenRtProd.r_get_next (GenProdEq.pknot E n) p dt st = Some (st', GenRtProd.PRet v) <-> get_next E p st dt = (Ok v, st')).
Proof. exact GenProdEq.gen_answer_iff. Qed.
Print Assumptions C05_generated_answer_iff.
(* IntervalProducer.get_next as generated, with ANY fuel for its two `while` loops and any callee computing the
   filter: an answer is the earliest admissible point after dt of the grid through the cell / start, and the cell
   holds it afterwards *)
Theorem C05_generated_interval_earliest : forall E R fuel id start iv f dt st g st',
  0 < iv -> GenProdEq.allow_ok E R f ->
  EASGen.GenProd.g_interval_get_next E R fuel id start iv f dt st = Some (st', GenRtProd.PRet g) ->
  let c := GenProdEq.start_point id start dt st in
  dt < g /\ on_grid c iv g /\ allow_opt (pz E) f g = true /\
  (forall u, dt < u < g -> on_grid c iv u -> allow_opt (pz E) f u = false) /\
  GenRtProd.cell_get id start st' = Some g.
Proof. exact GenProdEq.gen_interval_earliest. Qed.
Print Assumptions C05_generated_interval_earliest.
(* the two `while` loops are the closed forms of the model: exact equation for the fuel the walks need *)
Theorem C05_generated_interval_is_model : forall E R fuel id start iv f dt st,
  0 < iv -> GenProdEq.allow_ok E R f ->
  let c := GenProdEq.start_point id start dt st in
  (GenProdEq.back_steps c iv dt < fuel 1%nat)%nat ->
  fuel 2%nat = (GenProdEq.fwd_steps (interval_back c iv dt) iv dt + Pos.to_nat (interval_fuel E))%nat ->
  EASGen.GenProd.g_interval_get_next E R fuel id start iv f dt st = GenRtProd.lift (get_next E (PInterval id start iv f) st dt).
Proof. exact GenProdEq.gen_interval_get_next_eq. Qed.
Print Assumptions C05_generated_interval_is_model.
(* GroupProducer.get_next and TimeProducer.get_next as generated, for any callees that compute the model *)
Theorem C05_generated_group_is_model : forall E R fuel ps f dt st,
  (forall q, In q ps -> forall x s, GenRtProd.r_get_next R q x s = GenRtProd.lift (get_next E q s x)) ->
  GenProdEq.allow_ok E R f ->
  EASGen.GenProd.g_group_get_next E R fuel ps f dt st = GenRtProd.lift (get_next E (PGroup ps f) st dt).
Proof. exact GenProdEq.gen_group_get_next_eq. Qed.
Print Assumptions C05_generated_group_is_model.
Theorem C05_generated_time_is_model : forall E R fuel tr f dt st,
  (forall tr day s, GenRtProd.r_replace R tr day s = Some (s, GenRtProd.of_rres (replace (pz E) tr day))) ->
  GenProdEq.allow_ok E R f ->
  EASGen.GenProd.g_time_get_next E R fuel tr f dt st = GenRtProd.lift (get_next E (PTime tr f) st dt).
Proof. exact GenProdEq.gen_time_get_next_eq. Qed.
Print Assumptions C05_generated_time_is_model.

(* ---- completeness (ProdComplete*.v): when the search gives up, and three refuted forms ---- *)

(* ---- COMPLETENESS additions to props/C05.v; needs in the header:
   From EAS Require Import ProdComplete ProdComplete2 ProdComplete3.   (after the existing imports) ---- *)

(* time of day: the answer of TimeProducer.get_next, exactly.  The walk visits the 99 999 local days
   walk_start = (local day of dt) - 1 .. walk_start + 99 998; it answers Ok with the first admissible occurrence of
   the first such day that has one, or raises the error of [replace] met before, or InfiniteLoopDetectedError when
   every day of the horizon is quiet. *)
Theorem C05_time_walk_cases :
  forall z tr f dt,
  (exists day v, in_horizon z dt day /\ (forall x, walk_start z dt <= x < day -> quiet z tr f dt x) /\
                 first_adm z f dt (day_results z tr day) v /\ next_time z tr f dt = Ok v) \/
  (exists day e, in_horizon z dt day /\ (forall x, walk_start z dt <= x < day -> quiet z tr f dt x) /\
                 replace z tr day = RExn e /\ next_time z tr f dt = Raise e) \/
  ((forall x, in_horizon z dt x -> quiet z tr f dt x) /\ next_time z tr f dt = Raise EInfiniteLoop).
Proof. exact time_walk_cases. Qed.
Print Assumptions C05_time_walk_cases.

(* COMPLETENESS, time of day: an admissible occurrence on a day of the horizon is not given up on *)
Theorem C05_time_complete :
  forall z tr f dt d u,
    wf_tz_b z = true -> wf_tr tr ->
    in_horizon z dt d -> In u (day_results z tr d) -> dt < u -> allow_opt z f u = true ->
    (forall d' e, walk_start z dt <= d' < d -> replace z tr d' <> RExn e) ->
    exists v, next_time z tr f dt = Ok v /\ earliest_after (occ_time z tr f) dt v /\ v <= u.
Proof. exact time_complete_earliest. Qed.
Print Assumptions C05_time_complete.

Theorem C05_time_infinite_loop_iff :
  forall z tr f dt,
    next_time z tr f dt = Raise EInfiniteLoop <-> forall x, in_horizon z dt x -> quiet z tr f dt x.
Proof. exact time_infinite_loop_iff. Qed.
Print Assumptions C05_time_infinite_loop_iff.

(* the horizon is exact: an admissible occurrence on the day after it is missed *)
Theorem C05_time_horizon_tight_refuted :
  ~ (forall z tr f dt d u,
       walk_start z dt <= d <= walk_start z dt + LBZ -> In u (day_results z tr d) -> dt < u ->
       allow_opt z f u = true -> no_exn z tr -> exists v, next_time z tr f dt = Ok v).
Proof. exact time_horizon_tight_refuted. Qed.
Print Assumptions C05_time_horizon_tight_refuted.

(* the hypothesis on [replace] cannot be dropped: policy 'after' with a gap longer than 121 minutes raises
   ValueError out of get_next although later days have the occurrence (candidate finding, replayed) *)
Theorem C05_time_complete_without_no_exn_refuted :
  ~ (forall z tr f dt d u,
       wf_tz_b z = true -> wf_tr tr -> in_horizon z dt d -> In u (day_results z tr d) -> dt < u ->
       allow_opt z f u = true -> exists v, next_time z tr f dt = Ok v).
Proof. exact time_complete_without_no_exn_refuted. Qed.
Print Assumptions C05_time_complete_without_no_exn_refuted.

(* when [replace] cannot raise *)
Theorem C05_replace_no_exn :
  forall z tr, tz_ascending z = true -> tr_sk tr <> SkAfter -> no_exn z tr.
Proof. exact replace_no_exn. Qed.
Print Assumptions C05_replace_no_exn.

(* no filter: never starves unless the policy is 'skip'; found not later than two local days ahead *)
Theorem C05_time_nofilter_never_starves :
  forall z tr dt,
    wf_tz_b z = true -> wf_tr tr -> tr_sk tr <> SkSkip -> tr_rp tr <> RpSkip -> no_exn z tr ->
    exists v, next_time z tr None dt = Ok v /\ earliest_after (occ_day z tr) dt v /\
              forall u, In u (day_results z tr (local_day (to_local z dt) + 2)) -> v <= u.
Proof. exact time_nofilter_never_starves. Qed.
Print Assumptions C05_time_nofilter_never_starves.

Theorem C05_time_nofilter_never_starves_el :
  forall z tr dt,
    wf_tz_b z = true -> wf_tr tr -> tr_sk tr = SkEarlier \/ tr_sk tr = SkLater -> tr_rp tr <> RpSkip ->
    exists v, next_time z tr None dt = Ok v /\ earliest_after (occ_day z tr) dt v.
Proof. exact time_nofilter_never_starves_el. Qed.
Print Assumptions C05_time_nofilter_never_starves_el.

(* which policy / table combinations can starve an unfiltered trigger *)
Theorem C05_time_nofilter_starves_only_if :
  forall z tr dt,
    wf_tz_b z = true -> wf_tr tr -> next_time z tr None dt = Raise EInfiniteLoop ->
    forall d, local_day (to_local z dt) + 2 <= d < walk_start z dt + LBZ -> replace z tr d = RSkip.
Proof. exact time_nofilter_starves_only_if. Qed.
Print Assumptions C05_time_nofilter_starves_only_if.

(* COMPLETENESS, interval: fuel n = the budget of the (in the code unbounded) filter search *)
Theorem C05_interval_complete :
  forall z fuel c iv f dt u,
    0 < iv -> on_grid c iv u -> dt < u -> u < ifirst c iv dt + Z.pos fuel * iv -> allow_opt z f u = true ->
    exists g, next_interval z fuel c iv f dt = Ok g /\ g <= u /\
              dt < g /\ on_grid c iv g /\ allow_opt z f g = true /\
              forall w, dt < w < g -> on_grid c iv w -> allow_opt z f w = false.
Proof. exact interval_complete. Qed.
Print Assumptions C05_interval_complete.

Theorem C05_interval_out_of_fuel_iff :
  forall z fuel c iv f dt,
    next_interval z fuel c iv f dt = OutOfFuel <->
    forall k, 0 <= k < Z.pos fuel -> allow_opt z f (ifirst c iv dt + k * iv) = false.
Proof. exact interval_out_of_fuel_iff. Qed.
Print Assumptions C05_interval_out_of_fuel_iff.

Theorem C05_interval_complete_get_next :
  forall E id start iv f st dt u,
    0 < iv -> on_grid (icell id start st dt) iv u ->
    dt < u <= dt + Z.pos (interval_fuel E) * iv -> allow_opt (pz E) f u = true ->
    exists g, get_next E (PInterval id start iv f) st dt = (Ok g, with_icache (iset id g (icache st)) st) /\ g <= u.
Proof. exact interval_complete_get_next. Qed.
Print Assumptions C05_interval_complete_get_next.

(* COMPLETENESS, group: generic members *)
Theorem C05_group_complete :
  forall E (Inv : pstate -> Prop) (P : producer -> Z -> Prop) ps f dt u (L : list Z),
    (forall q, In q ps -> member_ok E Inv (P q) q) ->
    (forall q, In q ps -> forall x, dt <= x < u -> live_at E Inv q x) ->
    union_occ P ps u -> allow_opt (pz E) f u = true -> dt < u ->
    (forall w, union_occ P ps w -> dt < w <= u -> In w L) -> Z.of_nat (length L) <= LBZ ->
    forall st, Inv st ->
    exists v st', get_next E (PGroup ps f) st dt = (Ok v, st') /\ Inv st' /\ v <= u /\
      earliest_after (fun w => union_occ P ps w /\ allow_opt (pz E) f w = true) dt v.
Proof. exact group_complete. Qed.
Print Assumptions C05_group_complete.

(* groups of time-of-day / interval / group members *)
Theorem C05_group_complete_tig :
  forall E G ps f st dt u,
    wf_tz_b (pz E) = true -> consistent G ->
    tig (PGroup ps f) -> incl (leaves (PGroup ps f)) G -> cache_on_grid G st ->
    (forall q, In q ps -> forall x, dt <= x < u -> live_at E (cache_on_grid G) q x) ->
    occ (pz E) (PGroup ps f) u -> dt < u ->
    Z.of_nat (length (cover (pz E) dt u (PGroup ps f))) <= LBZ ->
    exists v st', get_next E (PGroup ps f) st dt = (Ok v, st') /\ cache_on_grid G st' /\ v <= u /\
      earliest_after (occ (pz E) (PGroup ps f)) dt v.
Proof. exact group_complete_tig. Qed.
Print Assumptions C05_group_complete_tig.

Theorem C05_cover_spec :
  forall z dt u, spread z <= 4 * 3600 ->
  forall p, tig p -> forall w, occ z p w -> dt < w <= u -> In w (cover z dt u p).
Proof. exact cover_spec. Qed.
Print Assumptions C05_cover_spec.

(* the two side conditions cannot be dropped (candidate findings, replayed on the implementation) *)
Theorem C05_group_complete_without_count_refuted :
  ~ (forall E ps f dt u,
       wf_tz_b (pz E) = true -> tig (PGroup ps f) -> consistent (leaves (PGroup ps f)) ->
       (forall q, In q ps -> forall x, dt <= x < u -> live_at E (cache_on_grid (leaves (PGroup ps f))) q x) ->
       occ (pz E) (PGroup ps f) u -> dt < u ->
       exists v st', get_next E (PGroup ps f) pstate0 dt = (Ok v, st')).
Proof. exact group_complete_without_count_refuted. Qed.
Print Assumptions C05_group_complete_without_count_refuted.

Theorem C05_group_complete_without_live_members_refuted :
  ~ (forall E ps f dt u,
       wf_tz_b (pz E) = true -> tig (PGroup ps f) -> consistent (leaves (PGroup ps f)) ->
       occ (pz E) (PGroup ps f) u -> dt < u ->
       Z.of_nat (length (cover (pz E) dt u (PGroup ps f))) <= LBZ ->
       exists v st', get_next E (PGroup ps f) pstate0 dt = (Ok v, st')).
Proof. exact group_complete_without_live_members_refuted. Qed.
Print Assumptions C05_group_complete_without_live_members_refuted.

(* chains: a time-of-day trigger followed from its own answers never starves *)
Theorem C05_time_chain_never_starves :
  forall E tr f dt,
    no_exn (pz E) tr -> (forall x, dt <= x -> window_ok (pz E) tr f x) ->
    forall n st, all_ok (chain E (PTime tr f) st dt n) /\ length (chain E (PTime tr f) st dt n) = n.
Proof. exact time_chain_never_starves. Qed.
Print Assumptions C05_time_chain_never_starves.

(* PARTIAL (syntactic condition only for reference instants not before the last transition of the table; full
   statement: the same for every dt when the table has fewer transitions than accepted days in each window):
   a date-only filter that accepts a day in every run of W <= 99 996 days *)
Theorem C05_time_chain_never_starves_dates_partial :
  forall E T tr g W dt,
    wf_tz_b (pz E) = true -> wf_tr tr -> no_exn (pz E) tr -> calm_from (pz E) T = true -> T <= dt ->
    day_only g -> day_window g W -> W + 3 <= LBZ ->
    forall n st, all_ok (chain E (PTime tr (Some g)) st dt n) /\ length (chain E (PTime tr (Some g)) st dt n) = n.
Proof. exact time_chain_never_starves_dates. Qed.
Print Assumptions C05_time_chain_never_starves_dates_partial.

Theorem C05_weekday_window :
  forall s wd, In wd s -> 1 <= wd <= 7 -> day_window (FWeekday s) 7.
Proof. exact weekday_window. Qed.
Print Assumptions C05_weekday_window.
