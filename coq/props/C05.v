(* C05 — Earliest admissible occurrence: no missed run, filters honoured (statements only). *)
From EAS Require Import Base Civil Time TimeFacts Filters Replace Producers ProdStrict ProdEarliest.
From EAS Require Import TimeOrder ProdEarliest2 ProdGroup.
From EASGen Require Import Generated.

(* interval: the answer is the EARLIEST point of the grid (through the cached point / start) that lies after
   the reference instant and that the filter accepts on the system-local date and time; a rejected point is
   never returned, an admissible one never skipped.  Every table, every filter, every fuel. *)
Theorem C05_interval_earliest :
  forall z fuel c iv f dt g, 0 < iv -> next_interval z fuel c iv f dt = Ok g ->
    dt < g /\ on_grid c iv g /\ allow_opt z f g = true /\
    forall u, dt < u < g -> on_grid c iv u -> allow_opt z f u = false.
Proof. exact interval_earliest. Qed.
Print Assumptions C05_interval_earliest.

(* the cache only ever moves along the grid, so it never changes the occurrence set *)
Theorem C05_interval_grid_stable :
  forall c iv g u, 0 < iv -> on_grid c iv g -> (on_grid g iv u <-> on_grid c iv u).
Proof. exact on_grid_trans. Qed.
Print Assumptions C05_interval_grid_stable.

(* time of day (PARTIAL: earliest among the local days in walking order; that the walk order is the
   chronological order needs the monotonicity of local days under a well-formed table, which is checked by
   the correspondence and the zoneinfo oracle, not yet proved): the answer is an occurrence of a local day
   >= (local day of dt) - 1 selected by the DST policy, it is after dt and accepted by the filter evaluated
   on its local date-time, and no occurrence of an earlier day of the walk was admissible. *)
Theorem C05_time_walk_earliest_partial :
  forall z tr f dt v, next_time z tr f dt = Ok v ->
    exists day, local_day (to_local z dt) - 1 <= day /\
      In v (day_results z tr day) /\ admissible z f dt v /\
      forall d, local_day (to_local z dt) - 1 <= d < day -> forall u, In u (day_results z tr d) -> ~ admissible z f dt u.
Proof. exact time_walk_earliest. Qed.
Print Assumptions C05_time_walk_earliest_partial.

(* in any case nothing at or before the reference instant is returned *)
Theorem C05_strictly_future :
  forall E p st dt v st', wf_producer p -> get_next E p st dt = (Ok v, st') -> dt < v.
Proof. exact next_strictly_future. Qed.
Print Assumptions C05_strictly_future.

(* ---- additions to props/C05.v; needs in the header:
   From EAS Require Import TimeOrder ProdEarliest2 ProdGroup.   (after the existing imports) ---- *)

(* time of day, FULL (replaces C05_time_walk_earliest_partial): for a table whose offsets differ by at most 4 h
   and a time of day in [0, 24 h): the answer is the earliest instant after dt that is an occurrence of SOME
   local day (as the DST policy selects it) and that the filter accepts on its local date-time. *)
Theorem C05_time_earliest :
  forall z tr f dt v, wf_tz_b z = true -> wf_tr tr ->
    next_time z tr f dt = Ok v -> earliest_after (occ_time z tr f) dt v.
Proof. exact time_earliest. Qed.
Print Assumptions C05_time_earliest.

(* the two facts behind it: results of different local days are in chronological order, and the walk starts
   early enough (one local day before dt; F14) *)
Theorem C05_day_results_order :
  forall z tr d d' u u', spread z <= 4 * 3600 ->
    In u (day_results z tr d) -> In u' (day_results z tr d') -> d < d' -> u < u'.
Proof. exact day_results_order. Qed.
Print Assumptions C05_day_results_order.

Theorem C05_day_results_walk_start :
  forall z tr d u dt, spread z <= 4 * 3600 -> tr_tod tr < DAY ->
    In u (day_results z tr d) -> dt < u -> local_day (to_local z dt) - 1 <= d.
Proof. exact day_results_walk_start. Qed.
Print Assumptions C05_day_results_walk_start.

(* group: the member loop of the model as a top-level function (convertible with get_next's PGroup case) *)
Theorem C05_get_next_group :
  forall E ps f st dt,
    get_next E (PGroup ps f) st dt = finish_loop (iter_until loop_bound (group_round E ps f dt) (dt, st)).
Proof. exact get_next_group. Qed.
Print Assumptions C05_get_next_group.

(* group, generic: members that answer with the earliest element of their (state-independent) occurrence set,
   from every state satisfying an invariant they preserve, make a group that does the same for the union of
   the members' sets cut down by the group filter *)
Theorem C05_group_member_ok :
  forall E (Inv : pstate -> Prop) (P : producer -> Z -> Prop) ps f,
    (forall q, In q ps -> member_ok E Inv (P q) q) ->
    member_ok E Inv (fun u => union_occ P ps u /\ allow_opt (pz E) f u = true) (PGroup ps f).
Proof. exact group_member_ok. Qed.
Print Assumptions C05_group_member_ok.

(* group, stateless member specifications *)
Theorem C05_group_earliest :
  forall E (P : producer -> Z -> Prop) ps f st dt v st',
    (forall q, In q ps -> forall s x n s', get_next E q s x = (Ok n, s') -> earliest_after (P q) x n) ->
    get_next E (PGroup ps f) st dt = (Ok v, st') ->
    earliest_after (fun u => (exists q, In q ps /\ P q u) /\ allow_opt (pz E) f u = true) dt v.
Proof. exact group_earliest. Qed.
Print Assumptions C05_group_earliest.

(* time-of-day triggers, interval triggers with a start, groups of such to any depth, member and group
   filters: the answer is the earliest element after dt of the expression's occurrence set [occ] *)
Theorem C05_tig_earliest :
  forall E G, wf_tz_b (pz E) = true -> consistent G ->
  forall p st dt v st', tig p -> incl (leaves p) G -> cache_on_grid G st ->
    get_next E p st dt = (Ok v, st') -> earliest_after (occ (pz E) p) dt v /\ cache_on_grid G st'.
Proof. exact tig_earliest. Qed.
Print Assumptions C05_tig_earliest.

Theorem C05_group_earliest_tig :
  forall E ps f dt v st',
    wf_tz_b (pz E) = true -> tig (PGroup ps f) -> consistent (leaves (PGroup ps f)) ->
    get_next E (PGroup ps f) pstate0 dt = (Ok v, st') ->
    earliest_after (fun u => (exists q, In q ps /\ occ (pz E) q u) /\ allow_opt (pz E) f u = true) dt v.
Proof. exact group_earliest_tig. Qed.
Print Assumptions C05_group_earliest_tig.

(* and a chain of answers lists the occurrence set in increasing order without omission or repetition *)
Theorem C05_tig_chain_enumerates :
  forall E G, wf_tz_b (pz E) = true -> consistent G ->
  forall p, tig p -> incl (leaves p) G ->
  forall n st dt, cache_on_grid G st -> enumerates (occ (pz E) p) dt (chain E p st dt n).
Proof. exact tig_chain_enumerates. Qed.
Print Assumptions C05_tig_chain_enumerates.
