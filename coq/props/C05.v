(* C05 — Earliest admissible occurrence: no missed run, filters honoured (statements only). *)
From EAS Require Import Base Civil Time TimeFacts Filters Replace Producers ProdStrict ProdEarliest.

(* interval: the answer is the EARLIEST point of the grid (through the cached point / start) that lies after
   the reference instant and that the filter accepts on the system-local date and time; a rejected point is
   never returned, an admissible one never skipped.  Every table, every filter, every fuel. *)
Theorem C05_interval_earliest :
  forall z fuel c iv f dt g, 0 < iv -> next_interval z fuel c iv f dt = Ok g ->
    dt < g /\ on_grid c iv g /\ allow_opt z f g = true /\
    forall u, dt < u < g -> on_grid c iv u -> allow_opt z f u = false.
Proof. exact interval_earliest. Qed.
Print Assumptions C05_interval_earliest.

(* the cache only ever moves along the grid, so it never changes the occurrence set *)
Theorem C05_interval_grid_stable :
  forall c iv g u, 0 < iv -> on_grid c iv g -> (on_grid g iv u <-> on_grid c iv u).
Proof. exact on_grid_trans. Qed.
Print Assumptions C05_interval_grid_stable.

(* time of day (PARTIAL: earliest among the local days in walking order; that the walk order is the
   chronological order needs the monotonicity of local days under a well-formed table, which is checked by
   the correspondence and the zoneinfo oracle, not yet proved): the answer is an occurrence of a local day
   >= (local day of dt) - 1 selected by the DST policy, it is after dt and accepted by the filter evaluated
   on its local date-time, and no occurrence of an earlier day of the walk was admissible. *)
Theorem C05_time_walk_earliest_partial :
  forall z tr f dt v, next_time z tr f dt = Ok v ->
    exists day, local_day (to_local z dt) - 1 <= day /\
      In v (day_results z tr day) /\ admissible z f dt v /\
      forall d, local_day (to_local z dt) - 1 <= d < day -> forall u, In u (day_results z tr d) -> ~ admissible z f dt u.
Proof. exact time_walk_earliest. Qed.
Print Assumptions C05_time_walk_earliest_partial.

(* in any case nothing at or before the reference instant is returned *)
Theorem C05_strictly_future :
  forall E p st dt v st', wf_producer p -> get_next E p st dt = (Ok v, st') -> dt < v.
Proof. exact next_strictly_future. Qed.
Print Assumptions C05_strictly_future.
