(* C18 — Sun triggers fire at the real solar event, once per solar day.
   Only statements and one-line proofs live here; the lemmas are in theories/SunFacts.v.
   The theorems are about the selection logic of prod_sun.py over an event oracle
   [sun_ev : key -> UTC day -> option instant] (astral's per-date answers, None = ValueError) and the
   process-wide cache; that astral's instants are the astronomical events is tested, not proved. *)
From EAS Require Import Base BaseFacts Civil Time Filters Replace Producers ProdStrict SunFacts GenRtProd GenRtSun GenProdEq GenSunEq.
From EASGen Require Import Generated GenProd GenSun.

(* every answer is an event of the oracle rounded up to the full second, strictly after the reference
   instant, accepted by the filter; the cache stays coherent *)
Theorem C18_next_is_event :
  forall E key f st dt v st',
    cache_coherent E st ->
    get_next E (PSun key f) st dt = (Ok v, st') ->
    dt < v /\
    allow_opt (pz E) f v = true /\
    (exists d e, sun_ev E key d = Some e /\ v = round_up_sec e) /\
    v mod NS = 0 /\
    cache_coherent E st'.
Proof. exact sun_next_is_event. Qed.
Print Assumptions C18_next_is_event.

(* rounding up to the full second: the answer is the event or less than a second later, and an event on
   a full second is not moved *)
Theorem C18_rounding :
  (forall v, v <= round_up_sec v < v + NS) /\
  (forall v, (round_up_sec v) mod NS = 0) /\
  (forall v, v mod NS = 0 -> round_up_sec v = v).
Proof. exact round_up_sec_facts. Qed.
Print Assumptions C18_rounding.

(* polar day / night: dates without an event are skipped; the answer comes from the first date on or
   after the reference date that has one (within 366 further dates), otherwise ValueError *)
Theorem C18_polar_skip :
  forall E key st dt loc,
    location E = Some loc -> cache_coherent E st ->
    (exists j e, 0 <= j <= sun_tries /\ sun_ev E key (utc_day dt + j) = Some e /\
                 (forall i, 0 <= i < j -> sun_ev E key (utc_day dt + i) = None) /\
                 fst (next_sun_raw E key st dt) = Ok (round_up_sec e))
    \/ ((forall i, 0 <= i <= sun_tries -> sun_ev E key (utc_day dt + i) = None) /\
        fst (next_sun_raw E key st dt) = Raise EValueError).
Proof. exact sun_polar_skip. Qed.
Print Assumptions C18_polar_skip.

(* the only errors: no location configured, no event within the search window, loop bound *)
Theorem C18_errors :
  forall E key f st dt x st',
    cache_coherent E st ->
    get_next E (PSun key f) st dt = (Raise x, st') ->
    (x = ELocationNotSet /\ location E = None) \/ x = EValueError \/ x = EInfiniteLoop.
Proof. exact sun_next_errors. Qed.
Print Assumptions C18_errors.

(* the cache never changes an answer: coherence is preserved and any two coherent caches (e.g. the
   empty one) give the same answer *)
Theorem C18_cache_coherent_preserved :
  forall E key f st dt,
    cache_coherent E st ->
    cache_coherent E (snd (next_sun_raw E key st dt)) /\ cache_coherent E (snd (get_next E (PSun key f) st dt)).
Proof. exact sun_cache_coherent_preserved. Qed.
Print Assumptions C18_cache_coherent_preserved.

Theorem C18_query_independent :
  forall E key f st1 st2 dt,
    cache_coherent E st1 -> cache_coherent E st2 ->
    fst (get_next E (PSun key f) st1 dt) = fst (get_next E (PSun key f) st2 dt).
Proof. exact sun_query_independent. Qed.
Print Assumptions C18_query_independent.

(* one event per UTC day on that day: from a reference instant of day d the answer is the event of day
   d if still ahead, else that of day d+1 *)
Theorem C18_chain_regular :
  forall E key evf lo hi st dt,
    utc_regular (sun_ev E key) evf lo hi -> location E <> None -> cache_coherent E st ->
    lo <= utc_day dt -> utc_day dt + 1 <= hi ->
    fst (get_next E (PSun key None) st dt) =
      Ok (if dt <? round_up_sec (evf (utc_day dt)) then round_up_sec (evf (utc_day dt))
          else round_up_sec (evf (utc_day dt + 1))) /\
    cache_coherent E (snd (get_next E (PSun key None) st dt)).
Proof. exact sun_chain_regular. Qed.
Print Assumptions C18_chain_regular.

(* ... so the chain of a recurring job visits the event of every UTC day of the range exactly once, in
   order *)
Theorem C18_chain_visits_all :
  forall E key evf lo hi,
    utc_regular (sun_ev E key) evf lo hi -> location E <> None ->
    forall n st dt, cache_coherent E st -> lo <= utc_day dt -> utc_day dt + Z.of_nat n <= hi ->
      chain E (PSun key None) st dt n =
        map (fun k => Ok (round_up_sec (evf ((if dt <? round_up_sec (evf (utc_day dt)) then utc_day dt
                                             else utc_day dt + 1) + Z.of_nat k))))
            (seq 0 n).
Proof. exact sun_chain_visits_all. Qed.
Print Assumptions C18_chain_visits_all.

(* the same when astral's answer for date d lies on date d+1 (elevation trigger, western longitudes) *)
Theorem C18_chain_regular_shifted :
  forall E key evf lo hi,
    utc_regular_shift (sun_ev E key) evf 1 lo hi -> location E <> None ->
    forall n st dt, cache_coherent E st -> lo <= utc_day dt -> utc_day dt + Z.of_nat n <= hi + 1 ->
      chain E (PSun key None) st dt n = map (fun k => Ok (round_up_sec (evf (utc_day dt + Z.of_nat k)))) (seq 0 n).
Proof. exact sun_chain_regular_shifted. Qed.
Print Assumptions C18_chain_regular_shifted.

(* the spacing of successive firings is the spacing of the oracle's events up to the rounding *)
Theorem C18_chain_gap :
  forall a b lo hi, lo <= b - a <= hi -> lo - NS < round_up_sec b - round_up_sec a < hi + NS.
Proof. exact sun_chain_gap. Qed.
Print Assumptions C18_chain_gap.

(* KNOWN FINDING F11 (recorded, not repaired): with astral's real answers the per-UTC-date lookup makes
   a chain skip a sunset (Chicago, 47.9 h between firings), fire twice for one sunrise (Dhaka, 30 s
   between firings) and give up with InfiniteLoopDetectedError (Fiji noon) *)
Theorem C18_irregular_refuted :
  exists (E : penv) (key : nat) (evf : Z -> Z) (dt v1 v2 : Z),
    cache_coherent E pstate0 /\
    utc_regular (sun_ev E key) evf 20344 20348 /\
    fst (get_next E (PSun key None) pstate0 dt) = Ok v1 /\
    fst (get_next E (PSun key None) (snd (get_next E (PSun key None) pstate0 dt)) v1) = Ok v2 /\
    v2 - v1 > HOURS 47 /\
    24 * 3600 * NS + 1800 * NS < v2 - v1.
Proof. exact sun_irregular_refuted. Qed.
Print Assumptions C18_irregular_refuted.

Theorem C18_irregular_repeat_refuted :
  exists (E : penv) (key : nat) (dt v1 v2 : Z),
    cache_coherent E pstate0 /\
    fst (get_next E (PSun key None) pstate0 dt) = Ok v1 /\
    fst (get_next E (PSun key None) (snd (get_next E (PSun key None) pstate0 dt)) v1) = Ok v2 /\
    v2 - v1 = 30 * NS.
Proof. exact sun_irregular_repeat_refuted. Qed.
Print Assumptions C18_irregular_repeat_refuted.

Theorem C18_irregular_loop_refuted :
  exists (E : penv) (key : nat) (dt : Z),
    cache_coherent E pstate0 /\
    (exists e, sun_ev E key (utc_day dt) = Some e /\ e < dt) /\
    fst (get_next E (PSun key None) pstate0 dt) = Raise EInfiniteLoop.
Proof. exact sun_irregular_loop_refuted. Qed.
Print Assumptions C18_irregular_loop_refuted.

(* FURTHER FINDING F16 (reported; the elevation trigger only: astral.time_at_elevation answers for UTC date d with
   an instant of date d+1 at western longitudes): an event still ahead on the reference instant's own UTC day
   is passed over, and with a filter every other date is never asked for *)
Theorem C18_shifted_skips_pending :
  forall E key evf lo hi st dt,
    utc_regular_shift (sun_ev E key) evf 1 lo hi -> location E <> None -> cache_coherent E st ->
    lo <= utc_day dt - 1 -> utc_day dt <= hi ->
    dt < round_up_sec (evf (utc_day dt - 1)) ->
    fst (get_next E (PSun key None) st dt) = Ok (round_up_sec (evf (utc_day dt))) /\
    dt < round_up_sec (evf (utc_day dt - 1)) < round_up_sec (evf (utc_day dt)).
Proof. exact sun_shifted_skips_pending. Qed.
Print Assumptions C18_shifted_skips_pending.

Theorem C18_following_date_refuted :
  exists (E : penv) (key : nat) (f : filt) (dt v d e : Z),
    cache_coherent E pstate0 /\
    utc_regular_shift (sun_ev E key) (table_fun chicago_elev_setting_2025) 1 20255 20264 /\
    fst (get_next E (PSun key (Some f)) pstate0 dt) = Ok v /\
    sun_ev E key d = Some e /\
    dt < round_up_sec e < v /\
    allow_opt (pz E) (Some f) (round_up_sec e) = true /\
    v - round_up_sec e > 6 * DAY.
Proof. exact sun_following_date_refuted. Qed.
Print Assumptions C18_following_date_refuted.


(* THE TIE (second tie, prod_sun.py): the generated SunProducer._get_next_sun is the model's next_sun_raw - value,
   SUN_CACHE contents and order, exception - in every world that reads the model's numbers faithfully *)
Theorem C18_generated_get_next_sun :
  forall E R W fuel, world_ok W -> forall key dt st,
    g_sun_get_next_sun E R W fuel (astral_call E key) (fun _ => ckey (w_sun W key)) dt st =
    lift (next_sun_raw E key st dt).
Proof. exact gen_get_next_sun_eq. Qed.
Print Assumptions C18_generated_get_next_sun.

(* every producer class generated, sun producers included (also inside groups and operations) *)
Theorem C18_generated_get_next_is_model :
  forall E W, world_ok W -> forall n p, wf_producer p -> (srank p <= n)%nat ->
    forall dt st, r_get_next (pknot_sun E W n) p dt st = lift (get_next E p st dt).
Proof. exact gen_get_next_is_model_sun. Qed.
Print Assumptions C18_generated_get_next_is_model.

Theorem C18_generated_cache_keys :
  (forall c el d az, g_sun_cache_key c = [VClass c] /\ g_elev_cache_key c el d = [VClass c; VFloat el; VDir d] /\
                     g_az_cache_key c az = [VClass c; VFloat az]) /\
  (forall o1 o2, ckey o1 = ckey o2 -> o1 = o2) /\
  (forall W k1 d1 l1 k2 d2 l2, world_ok W -> key_format W k1 d1 l1 = key_format W k2 d2 l2 -> (k1, d1, l1) = (k2, d2, l2)).
Proof. split; [exact gen_cache_keys|split; [exact gen_cache_key_injective|exact world_ok_injective]]. Qed.
Print Assumptions C18_generated_cache_keys.

Theorem C18_generated_world_exists : world_ok world0 /\ world_ok ex_world.
Proof. split; [exact world0_ok|exact ex_world_ok]. Qed.
Print Assumptions C18_generated_world_exists.

Theorem C18_generated_next_is_event :
  forall E W n key f st dt v st', world_ok W -> (S (orank f) <= n)%nat ->
    cache_coherent E st ->
    gen_sun E W n key f st dt = Some (st', PRet v) ->
    dt < v /\ allow_opt (pz E) f v = true /\
    (exists d e, sun_ev E key d = Some e /\ v = round_up_sec e) /\
    v mod NS = 0 /\ cache_coherent E st'.
Proof. exact gen_sun_next_is_event. Qed.
Print Assumptions C18_generated_next_is_event.

Theorem C18_generated_errors :
  forall E W n key f st dt x st', world_ok W -> (S (orank f) <= n)%nat ->
    cache_coherent E st ->
    gen_sun E W n key f st dt = Some (st', PExc x) ->
    (x = XErr ELocationNotSet /\ location E = None) \/ x = XErr EValueError \/ x = XErr EInfiniteLoop.
Proof. exact gen_sun_next_errors. Qed.
Print Assumptions C18_generated_errors.

Theorem C18_generated_never_stuck :
  forall E W n key f st dt, world_ok W -> (S (orank f) <= n)%nat -> gen_sun E W n key f st dt <> None.
Proof. exact gen_sun_never_stuck. Qed.
Print Assumptions C18_generated_never_stuck.

Theorem C18_generated_rounding :
  forall v, let r := if negb (py_subsecond v =? 0) then py_floor_second v + 1 * NS else v in
    v <= r < v + NS /\ r mod NS = 0 /\ (v mod NS = 0 -> r = v).
Proof. exact gen_sun_rounding. Qed.
Print Assumptions C18_generated_rounding.

Theorem C18_generated_polar_skip :
  forall E W key st dt loc, world_ok W ->
    location E = Some loc -> cache_coherent E st ->
    (exists j e st', 0 <= j <= 366 /\ sun_ev E key (utc_day dt + j) = Some e /\
                 (forall i, 0 <= i < j -> sun_ev E key (utc_day dt + i) = None) /\
                 gen_sun_raw E W key st dt = Some (st', PRet (round_up_sec e)))
    \/ ((forall i, 0 <= i <= 366 -> sun_ev E key (utc_day dt + i) = None) /\
        exists st', gen_sun_raw E W key st dt = Some (st', PExc (XErr EValueError))).
Proof. exact gen_sun_polar_skip. Qed.
Print Assumptions C18_generated_polar_skip.

Theorem C18_generated_location_not_set :
  forall E W key st dt, world_ok W ->
    location E = None -> gen_sun_raw E W key st dt = Some (st, PExc (XErr ELocationNotSet)).
Proof. exact gen_sun_location_not_set. Qed.
Print Assumptions C18_generated_location_not_set.

Theorem C18_generated_query_independent :
  forall E W n key f st1 st2 dt, world_ok W -> (S (orank f) <= n)%nat ->
    cache_coherent E st1 -> cache_coherent E st2 ->
    pm_value (gen_sun E W n key f st1 dt) = pm_value (gen_sun E W n key f st2 dt).
Proof. exact gen_sun_query_independent. Qed.
Print Assumptions C18_generated_query_independent.

Theorem C18_generated_cache_coherent_preserved :
  forall E W n key f st dt, world_ok W -> (S (orank f) <= n)%nat ->
    cache_coherent E st ->
    (forall st' r, gen_sun_raw E W key st dt = Some (st', r) -> cache_coherent E st') /\
    (forall st' r, gen_sun E W n key f st dt = Some (st', r) -> cache_coherent E st').
Proof. exact gen_sun_cache_coherent_preserved. Qed.
Print Assumptions C18_generated_cache_coherent_preserved.

Theorem C18_generated_cache_bounded :
  forall E W key st dt st' r, world_ok W ->
    (length (scache st) <= 64)%nat ->
    gen_sun_raw E W key st dt = Some (st', r) -> (length (scache st') <= 64)%nat.
Proof. exact gen_sun_cache_bounded. Qed.
Print Assumptions C18_generated_cache_bounded.

Theorem C18_generated_chain_regular :
  forall E W n key evf lo hi st dt, world_ok W -> (1 <= n)%nat ->
    utc_regular (sun_ev E key) evf lo hi -> location E <> None -> cache_coherent E st ->
    lo <= utc_day dt -> utc_day dt + 1 <= hi ->
    exists st', cache_coherent E st' /\
      gen_sun E W n key None st dt =
        Some (st', PRet (if dt <? round_up_sec (evf (utc_day dt)) then round_up_sec (evf (utc_day dt))
                         else round_up_sec (evf (utc_day dt + 1)))).
Proof. exact gen_sun_chain_regular. Qed.
Print Assumptions C18_generated_chain_regular.

Theorem C18_generated_chain_visits_all :
  forall E W n key evf lo hi, world_ok W -> (1 <= n)%nat ->
    utc_regular (sun_ev E key) evf lo hi -> location E <> None ->
    forall k st dt, cache_coherent E st -> lo <= utc_day dt -> utc_day dt + Z.of_nat k <= hi ->
      gchain E W n key None st dt k =
        map (fun j => Ok (round_up_sec (evf ((if dt <? round_up_sec (evf (utc_day dt)) then utc_day dt
                                             else utc_day dt + 1) + Z.of_nat j))))
            (seq 0 k).
Proof. exact gen_sun_chain_visits_all. Qed.
Print Assumptions C18_generated_chain_visits_all.

Theorem C18_generated_chain_regular_shifted :
  forall E W n key evf lo hi, world_ok W -> (1 <= n)%nat ->
    utc_regular_shift (sun_ev E key) evf 1 lo hi -> location E <> None ->
    forall k st dt, cache_coherent E st -> lo <= utc_day dt -> utc_day dt + Z.of_nat k <= hi + 1 ->
      gchain E W n key None st dt k = map (fun j => Ok (round_up_sec (evf (utc_day dt + Z.of_nat j)))) (seq 0 k).
Proof. exact gen_sun_chain_regular_shifted. Qed.
Print Assumptions C18_generated_chain_regular_shifted.

Theorem C18_generated_shifted_skips_pending :
  forall E W n key evf lo hi st dt, world_ok W -> (1 <= n)%nat ->
    utc_regular_shift (sun_ev E key) evf 1 lo hi -> location E <> None -> cache_coherent E st ->
    lo <= utc_day dt - 1 -> utc_day dt <= hi ->
    dt < round_up_sec (evf (utc_day dt - 1)) ->
    pm_value (gen_sun E W n key None st dt) = Some (PRet (round_up_sec (evf (utc_day dt)))) /\
    dt < round_up_sec (evf (utc_day dt - 1)) < round_up_sec (evf (utc_day dt)).
Proof. exact gen_sun_shifted_skips_pending. Qed.
Print Assumptions C18_generated_shifted_skips_pending.

(* KNOWN FINDING F11 on the generated code *)
Theorem C18_generated_irregular_refuted :
  exists (E : penv) (W : sunworld) (key : nat) (evf : Z -> Z) (dt v1 v2 : Z),
    world_ok W /\ cache_coherent E pstate0 /\
    utc_regular (sun_ev E key) evf 20344 20348 /\
    gchain E W 1 key None pstate0 dt 2 = [Ok v1; Ok v2] /\
    v2 - v1 > HOURS 47 /\
    24 * 3600 * NS + 1800 * NS < v2 - v1.
Proof. exact gen_sun_irregular_refuted. Qed.
Print Assumptions C18_generated_irregular_refuted.

Theorem C18_generated_irregular_repeat_refuted :
  exists (E : penv) (W : sunworld) (key : nat) (dt v1 v2 : Z),
    world_ok W /\ cache_coherent E pstate0 /\
    gchain E W 1 key None pstate0 dt 2 = [Ok v1; Ok v2] /\
    v2 - v1 = 30 * NS.
Proof. exact gen_sun_irregular_repeat_refuted. Qed.
Print Assumptions C18_generated_irregular_repeat_refuted.

Theorem C18_generated_irregular_loop_refuted :
  exists (E : penv) (W : sunworld) (key : nat) (dt : Z),
    world_ok W /\ cache_coherent E pstate0 /\
    (exists e, sun_ev E key (utc_day dt) = Some e /\ e < dt) /\
    pm_value (gen_sun E W 1 key None pstate0 dt) = Some (PExc (XErr EInfiniteLoop)).
Proof. exact gen_sun_irregular_loop_refuted. Qed.
Print Assumptions C18_generated_irregular_loop_refuted.

(* FINDING F16 on the generated code *)
Theorem C18_generated_following_date_refuted :
  exists (E : penv) (W : sunworld) (n : nat) (key : nat) (f : filt) (dt v d e : Z),
    world_ok W /\ cache_coherent E pstate0 /\
    utc_regular_shift (sun_ev E key) (table_fun chicago_elev_setting_2025) 1 20255 20264 /\
    pm_value (gen_sun E W n key (Some f) pstate0 dt) = Some (PRet v) /\
    sun_ev E key d = Some e /\
    dt < round_up_sec e < v /\
    allow_opt (pz E) (Some f) (round_up_sec e) = true /\
    v - round_up_sec e > 6 * DAY.
Proof. exact gen_sun_following_date_refuted. Qed.
Print Assumptions C18_generated_following_date_refuted.

(* set_location *)
Theorem C18_generated_set_location :
  forall W a b c g,
    g_set_location W a b c g =
      if set_location_args_ok a b c then
        match w_mk_observer W a b c with
        | PRet o => (Some o, PRet tt)
        | PExc e => (g, PExc e)
        end
      else (g, PExc (XErr ETypeError)).
Proof. exact gen_set_location_spec. Qed.
Print Assumptions C18_generated_set_location.
