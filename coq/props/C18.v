(* C18 — Sun triggers fire at the real solar event, once per solar day.
   Only statements and one-line proofs live here; the lemmas are in theories/SunFacts.v.
   The theorems are about the selection logic of prod_sun.py over an event oracle
   [sun_ev : key -> UTC day -> option instant] (astral's per-date answers, None = ValueError) and the
   process-wide cache; that astral's instants are the astronomical events is tested, not proved. *)
From EAS Require Import Base BaseFacts Civil Time Filters Replace Producers SunFacts.
From EASGen Require Import Generated.

(* every answer is an event of the oracle rounded up to the full second, strictly after the reference
   instant, accepted by the filter; the cache stays coherent *)
Theorem C18_next_is_event :
  forall E key f st dt v st',
    cache_coherent E st ->
    get_next E (PSun key f) st dt = (Ok v, st') ->
    dt < v /\
    allow_opt (pz E) f v = true /\
    (exists d e, sun_ev E key d = Some e /\ v = round_up_sec e) /\
    v mod NS = 0 /\
    cache_coherent E st'.
Proof. exact sun_next_is_event. Qed.
Print Assumptions C18_next_is_event.

(* rounding up to the full second: the answer is the event or less than a second later, and an event on
   a full second is not moved *)
Theorem C18_rounding :
  (forall v, v <= round_up_sec v < v + NS) /\
  (forall v, (round_up_sec v) mod NS = 0) /\
  (forall v, v mod NS = 0 -> round_up_sec v = v).
Proof. exact round_up_sec_facts. Qed.
Print Assumptions C18_rounding.

(* polar day / night: dates without an event are skipped; the answer comes from the first date on or
   after the reference date that has one (within 366 further dates), otherwise ValueError *)
Theorem C18_polar_skip :
  forall E key st dt loc,
    location E = Some loc -> cache_coherent E st ->
    (exists j e, 0 <= j <= sun_tries /\ sun_ev E key (utc_day dt + j) = Some e /\
                 (forall i, 0 <= i < j -> sun_ev E key (utc_day dt + i) = None) /\
                 fst (next_sun_raw E key st dt) = Ok (round_up_sec e))
    \/ ((forall i, 0 <= i <= sun_tries -> sun_ev E key (utc_day dt + i) = None) /\
        fst (next_sun_raw E key st dt) = Raise EValueError).
Proof. exact sun_polar_skip. Qed.
Print Assumptions C18_polar_skip.

(* the only errors: no location configured, no event within the search window, loop bound *)
Theorem C18_errors :
  forall E key f st dt x st',
    cache_coherent E st ->
    get_next E (PSun key f) st dt = (Raise x, st') ->
    (x = ELocationNotSet /\ location E = None) \/ x = EValueError \/ x = EInfiniteLoop.
Proof. exact sun_next_errors. Qed.
Print Assumptions C18_errors.

(* the cache never changes an answer: coherence is preserved and any two coherent caches (e.g. the
   empty one) give the same answer *)
Theorem C18_cache_coherent_preserved :
  forall E key f st dt,
    cache_coherent E st ->
    cache_coherent E (snd (next_sun_raw E key st dt)) /\ cache_coherent E (snd (get_next E (PSun key f) st dt)).
Proof. exact sun_cache_coherent_preserved. Qed.
Print Assumptions C18_cache_coherent_preserved.

Theorem C18_query_independent :
  forall E key f st1 st2 dt,
    cache_coherent E st1 -> cache_coherent E st2 ->
    fst (get_next E (PSun key f) st1 dt) = fst (get_next E (PSun key f) st2 dt).
Proof. exact sun_query_independent. Qed.
Print Assumptions C18_query_independent.

(* one event per UTC day on that day: from a reference instant of day d the answer is the event of day
   d if still ahead, else that of day d+1 *)
Theorem C18_chain_regular :
  forall E key evf lo hi st dt,
    utc_regular (sun_ev E key) evf lo hi -> location E <> None -> cache_coherent E st ->
    lo <= utc_day dt -> utc_day dt + 1 <= hi ->
    fst (get_next E (PSun key None) st dt) =
      Ok (if dt <? round_up_sec (evf (utc_day dt)) then round_up_sec (evf (utc_day dt))
          else round_up_sec (evf (utc_day dt + 1))) /\
    cache_coherent E (snd (get_next E (PSun key None) st dt)).
Proof. exact sun_chain_regular. Qed.
Print Assumptions C18_chain_regular.

(* ... so the chain of a recurring job visits the event of every UTC day of the range exactly once, in
   order *)
Theorem C18_chain_visits_all :
  forall E key evf lo hi,
    utc_regular (sun_ev E key) evf lo hi -> location E <> None ->
    forall n st dt, cache_coherent E st -> lo <= utc_day dt -> utc_day dt + Z.of_nat n <= hi ->
      chain E (PSun key None) st dt n =
        map (fun k => Ok (round_up_sec (evf ((if dt <? round_up_sec (evf (utc_day dt)) then utc_day dt
                                             else utc_day dt + 1) + Z.of_nat k))))
            (seq 0 n).
Proof. exact sun_chain_visits_all. Qed.
Print Assumptions C18_chain_visits_all.

(* the same when astral's answer for date d lies on date d+1 (elevation trigger, western longitudes) *)
Theorem C18_chain_regular_shifted :
  forall E key evf lo hi,
    utc_regular_shift (sun_ev E key) evf 1 lo hi -> location E <> None ->
    forall n st dt, cache_coherent E st -> lo <= utc_day dt -> utc_day dt + Z.of_nat n <= hi + 1 ->
      chain E (PSun key None) st dt n = map (fun k => Ok (round_up_sec (evf (utc_day dt + Z.of_nat k)))) (seq 0 n).
Proof. exact sun_chain_regular_shifted. Qed.
Print Assumptions C18_chain_regular_shifted.

(* the spacing of successive firings is the spacing of the oracle's events up to the rounding *)
Theorem C18_chain_gap :
  forall a b lo hi, lo <= b - a <= hi -> lo - NS < round_up_sec b - round_up_sec a < hi + NS.
Proof. exact sun_chain_gap. Qed.
Print Assumptions C18_chain_gap.

(* KNOWN FINDING F11 (recorded, not repaired): with astral's real answers the per-UTC-date lookup makes
   a chain skip a sunset (Chicago, 47.9 h between firings), fire twice for one sunrise (Dhaka, 30 s
   between firings) and give up with InfiniteLoopDetectedError (Fiji noon) *)
Theorem C18_irregular_refuted :
  exists (E : penv) (key : nat) (evf : Z -> Z) (dt v1 v2 : Z),
    cache_coherent E pstate0 /\
    utc_regular (sun_ev E key) evf 20344 20348 /\
    fst (get_next E (PSun key None) pstate0 dt) = Ok v1 /\
    fst (get_next E (PSun key None) (snd (get_next E (PSun key None) pstate0 dt)) v1) = Ok v2 /\
    v2 - v1 > HOURS 47 /\
    24 * 3600 * NS + 1800 * NS < v2 - v1.
Proof. exact sun_irregular_refuted. Qed.
Print Assumptions C18_irregular_refuted.

Theorem C18_irregular_repeat_refuted :
  exists (E : penv) (key : nat) (dt v1 v2 : Z),
    cache_coherent E pstate0 /\
    fst (get_next E (PSun key None) pstate0 dt) = Ok v1 /\
    fst (get_next E (PSun key None) (snd (get_next E (PSun key None) pstate0 dt)) v1) = Ok v2 /\
    v2 - v1 = 30 * NS.
Proof. exact sun_irregular_repeat_refuted. Qed.
Print Assumptions C18_irregular_repeat_refuted.

Theorem C18_irregular_loop_refuted :
  exists (E : penv) (key : nat) (dt : Z),
    cache_coherent E pstate0 /\
    (exists e, sun_ev E key (utc_day dt) = Some e /\ e < dt) /\
    fst (get_next E (PSun key None) pstate0 dt) = Raise EInfiniteLoop.
Proof. exact sun_irregular_loop_refuted. Qed.
Print Assumptions C18_irregular_loop_refuted.

(* FURTHER FINDING F15 (reported; the elevation trigger only: astral.time_at_elevation answers for UTC date d with
   an instant of date d+1 at western longitudes): an event still ahead on the reference instant's own UTC day
   is passed over, and with a filter every other date is never asked for *)
Theorem C18_shifted_skips_pending :
  forall E key evf lo hi st dt,
    utc_regular_shift (sun_ev E key) evf 1 lo hi -> location E <> None -> cache_coherent E st ->
    lo <= utc_day dt - 1 -> utc_day dt <= hi ->
    dt < round_up_sec (evf (utc_day dt - 1)) ->
    fst (get_next E (PSun key None) st dt) = Ok (round_up_sec (evf (utc_day dt))) /\
    dt < round_up_sec (evf (utc_day dt - 1)) < round_up_sec (evf (utc_day dt)).
Proof. exact sun_shifted_skips_pending. Qed.
Print Assumptions C18_shifted_skips_pending.

Theorem C18_following_date_refuted :
  exists (E : penv) (key : nat) (f : filt) (dt v d e : Z),
    cache_coherent E pstate0 /\
    utc_regular_shift (sun_ev E key) (table_fun chicago_elev_setting_2025) 1 20255 20264 /\
    fst (get_next E (PSun key (Some f)) pstate0 dt) = Ok v /\
    sun_ev E key d = Some e /\
    dt < round_up_sec e < v /\
    allow_opt (pz E) (Some f) (round_up_sec e) = true /\
    v - round_up_sec e > 6 * DAY.
Proof. exact sun_following_date_refuted. Qed.
Print Assumptions C18_following_date_refuted.
