(* C19 — Every accepted way to say "when" resolves to the instant it denotes. *)
From EAS Require Import Base Civil Time GetInstant GetInstantFacts.
From EASGen Require Import Generated.

(* None means now *)
Theorem C19_none_is_now : forall z now, get_instant z now ANone = Ok now.
Proof. exact none_is_now. Qed.
Print Assumptions C19_none_is_now.

(* numbers, timedeltas and ISO-8601 durations mean now plus that duration *)
Theorem C19_duration_is_now_plus : forall z now d,
  get_instant z now (ANum d) = Ok (now + d) /\
  get_instant z now (ADelta d) = Ok (now + d) /\
  get_instant z now (AIsoDuration d) = Ok (now + d).
Proof. exact duration_is_now_plus. Qed.
Print Assumptions C19_duration_is_now_plus.

(* aware datetimes, SystemDateTime and Instant denote themselves *)
Theorem C19_identity_rows : forall z now i,
  get_instant z now (AAware i) = Ok i /\
  get_instant z now (ASystem i) = Ok i /\
  get_instant z now (AInstant i) = Ok i.
Proof. exact identity_rows. Qed.
Print Assumptions C19_identity_rows.

(* naive datetimes are system-local (the earliest instant showing the local time) *)
Theorem C19_naive_is_system_local : forall z now l r,
  get_instant z now (ANaive l) = Ok r ->
  (exists i, to_local z i = l) ->
  to_local z r = l /\ forall i, to_local z i = l -> r <= i.
Proof. exact naive_is_system_local. Qed.
Print Assumptions C19_naive_is_system_local.

Theorem C19_naive_skipped_shifted : forall z now l r,
  get_instant z now (ANaive l) = Ok r ->
  (forall i, to_local z i <> l) ->
  exists ob oa, gap_of z l = Some (ob, oa) /\ r = l - ob * NS.
Proof. exact naive_skipped_shifted. Qed.
Print Assumptions C19_naive_skipped_shifted.

(* a time of day: today's occurrence if it is not before now, otherwise tomorrow's (every table) *)
Theorem C19_time_of_day_today_or_tomorrow : forall z now tod r,
  0 <= tod < DAY ->
  get_instant z now (ATime tod) = Ok r ->
  let today := local_day (to_local z now) in
  local_tod (to_local z r) = tod /\
  ( (candidates z (mk_local today tod) = [r] /\ now <= r /\ local_day (to_local z r) = today)
    \/
    (exists c, candidates z (mk_local today tod) = [c] /\ c < now /\
               candidates z (mk_local (today + 1) tod) = [r] /\ local_day (to_local z r) = today + 1) ).
Proof. exact time_of_day_today_or_tomorrow. Qed.
Print Assumptions C19_time_of_day_today_or_tomorrow.

(* ... which is the NEXT instant at which the wall clock shows that time, also across clock changes *)
Theorem C19_time_of_day_next : forall z now tod r,
  wf_tz_b z = true ->
  dates_forward_b z (reach_lo now) (reach_hi now) = true ->
  0 <= tod < DAY ->
  get_instant z now (ATime tod) = Ok r ->
  now <= r <= reach_hi now /\
  local_tod (to_local z r) = tod /\
  (forall i, now <= i -> local_tod (to_local z i) = tod -> r <= i).
Proof. exact time_of_day_next_b. Qed.
Print Assumptions C19_time_of_day_next.

(* when a time of day is refused (SkippedTime / RepeatedTime) *)
Theorem C19_time_of_day_refused : forall z now tod,
  let today := local_day (to_local z now) in
  (exists e, get_instant z now (ATime tod) = Raise e) <->
  ( (forall c, candidates z (mk_local today tod) <> [c]) \/
    (exists c, candidates z (mk_local today tod) = [c] /\ c < now /\
               forall r, candidates z (mk_local (today + 1) tod) <> [r]) ).
Proof. exact time_of_day_refused. Qed.
Print Assumptions C19_time_of_day_refused.

(* non-positive countdowns and intervals are rejected *)
Theorem C19_pos_required : forall z now a d,
  get_timedelta a = Ok d -> d <= 0 ->
  get_pos_timedelta_secs a = Raise EValueError /\
  countdown a = Raise EValueError /\
  interval z now ANone a = Raise EValueError /\
  (forall start s, get_instant z now start = Ok s -> interval z now start a = Raise EValueError).
Proof. exact pos_required. Qed.
Print Assumptions C19_pos_required.

Theorem C19_accepted_is_positive : forall z now,
  (forall a d, countdown a = Ok d -> 0 < d) /\
  (forall start iv s d, interval z now start iv = Ok (s, d) -> 0 < d).
Proof. exact accepted_is_positive. Qed.
Print Assumptions C19_accepted_is_positive.

(* one-shot instants more than 100 ms in the past are rejected, and only those *)
Theorem C19_past_tolerance : forall now i,
  past_tolerance_ns = 100000000 /\
  (once_accepts now i = true <-> now - 100000000 <= i).
Proof. exact past_tolerance. Qed.
Print Assumptions C19_past_tolerance.

Theorem C19_past_rejected : forall z now a,
  past_tolerance_ns = 100000000 /\
  (once z now a = Raise EPast <-> exists i, get_instant z now a = Ok i /\ i < now - 100000000) /\
  (forall i, once z now a = Ok i <-> get_instant z now a = Ok i /\ now - 100000000 <= i) /\
  (forall e, e <> EPast -> (once z now a = Raise e <-> get_instant z now a = Raise e)).
Proof. exact past_rejected. Qed.
Print Assumptions C19_past_rejected.

(* non-vacuity: Berlin on the eve of the clock change *)
Theorem C19_berlin_eve_of_dst :
  let now := 1743246000 * NS in
  to_local berlin now = mk_local 20176 (12 * HOUR) /\
  get_instant berlin now (ATime (8 * HOUR)) = Ok (1743314400 * NS) /\
  to_local berlin (1743314400 * NS) = mk_local 20177 (8 * HOUR) /\
  1743314400 * NS - now = 19 * HOUR.
Proof. exact berlin_eve_of_dst. Qed.
Print Assumptions C19_berlin_eve_of_dst.


(* ------------------------------------------------------------------------------------------------------------
   The tie to the file as it is today: coq/gen/GenInstant.v is written by tools/gen_instant.py from builder/helper.py
   on every run (get_timedelta, get_pos_timedelta_secs, get_time, get_instant; statement by statement, fail closed);
   GenInstantEq.v proves that it computes the model above on the reading [read v] of the Python value v. *)
From EAS Require Import GenRtDst GenRtInstant GenInstantEq.
From EASGen Require Import GenInstant.

Theorem C19_generated_recognised : gen_instant_status_v = GenInstantOk.
Proof. exact gen_instant_recognised. Qed.
Print Assumptions C19_generated_recognised.

Theorem C19_generated_get_timedelta : forall W v, res_of (g_get_timedelta W v) = get_timedelta (read_dur v).
Proof. exact gen_get_timedelta. Qed.
Print Assumptions C19_generated_get_timedelta.

Theorem C19_generated_get_pos_timedelta_secs : forall W v,
  res_of (g_get_pos_timedelta_secs W v) = get_pos_timedelta_secs (read_dur v).
Proof. exact gen_get_pos_timedelta_secs. Qed.
Print Assumptions C19_generated_get_pos_timedelta_secs.

Theorem C19_generated_get_instant : forall W v,
  pv_wf v -> g_get_instant W v <> OStuck ->
  res_of (g_get_instant W v) = get_instant (w_tz W) (w_now W) (read v).
Proof. exact gen_get_instant. Qed.
Print Assumptions C19_generated_get_instant.

Theorem C19_generated_time_of_day_next : forall W v tod r,
  wf_tz_b (w_tz W) = true ->
  dates_forward_b (w_tz W) (reach_lo (w_now W)) (reach_hi (w_now W)) = true ->
  0 <= tod < DAY -> pv_wf v -> read v = ATime tod ->
  g_get_instant W v = ORet r ->
  w_now W <= r <= reach_hi (w_now W) /\
  local_tod (to_local (w_tz W) r) = tod /\
  (forall i, w_now W <= i -> local_tod (to_local (w_tz W) i) = tod -> r <= i).
Proof. exact gen_time_of_day_next. Qed.
Print Assumptions C19_generated_time_of_day_next.

Theorem C19_generated_berlin_eve_of_dst :
  g_get_instant {| w_tz := berlin; w_now := 1743246000 * NS |} (VStr None (Some (8 * HOUR))) = ORet (1743314400 * NS).
Proof. exact gen_berlin_eve_of_dst. Qed.
Print Assumptions C19_generated_berlin_eve_of_dst.
