(* C04 — The next occurrence of any trigger is strictly in the future (statements only). *)
From EAS Require Import Base Civil Time Filters Replace Producers ProdStrict.

(* For EVERY trigger expression (time of day, interval, group, any nesting of offset / earliest / latest /
   jitter, sun events, with or without filters), every time-zone table, every reference instant, every draw
   stream, every sun oracle and every content of the caches: a computed next occurrence is strictly later
   than the reference instant.  (wf_producer: intervals are positive, which the builder enforces.) *)
Theorem C04_next_strictly_future :
  forall E p st dt v st', wf_producer p -> get_next E p st dt = (Ok v, st') -> dt < v.
Proof. exact next_strictly_future. Qed.
Print Assumptions C04_next_strictly_future.

(* hence the firings of a recurring job strictly increase: it is never rescheduled for the instant it just
   ran at or for the past *)
Theorem C04_chain_increasing :
  forall E p, wf_producer p -> forall n st dt,
  (fix incr (prev : Z) (l : list (result Z)) : Prop :=
     match l with
     | [] => True
     | Ok v :: t => prev < v /\ incr v t
     | _ :: t => True
     end) dt (chain E p st dt n).
Proof. exact chain_increasing. Qed.
Print Assumptions C04_chain_increasing.
