(* C04 — The next occurrence of any trigger is strictly in the future (statements only). *)
From EAS Require Import Base Civil Time Filters Replace Producers ProdStrict.

(* For EVERY trigger expression (time of day, interval, group, any nesting of offset / earliest / latest /
   jitter, sun events, with or without filters), every time-zone table, every reference instant, every draw
   stream, every sun oracle and every content of the caches: a computed next occurrence is strictly later
   than the reference instant.  (wf_producer: intervals are positive, which the builder enforces.) *)
Theorem C04_next_strictly_future :
  forall E p st dt v st', wf_producer p -> get_next E p st dt = (Ok v, st') -> dt < v.
Proof. exact next_strictly_future. Qed.
Print Assumptions C04_next_strictly_future.

(* hence the firings of a recurring job strictly increase: it is never rescheduled for the instant it just
   ran at or for the past *)
Theorem C04_chain_increasing :
  forall E p, wf_producer p -> forall n st dt,
  (fix incr (prev : Z) (l : list (result Z)) : Prop :=
     match l with
     | [] => True
     | Ok v :: t => prev < v /\ incr v t
     | _ :: t => True
     end) dt (chain E p st dt n).
Proof. exact chain_increasing. Qed.
Print Assumptions C04_chain_increasing.

(* ---- the tie to the source by translation: coq/gen/GenProd.v is regenerated from src/eascheduler/producers/*.py and
   helpers/time_replace.py on every run (tools/gen_prod.py); these theorems are re-checked against it.  [pknot E n] is
   the generated code closed by dispatch on the class of the object; [lift] reads a model answer as an outcome of the
   generated code (value + producer state / exception / out of fuel). *)
From EAS Require GenRtProd GenProdEq.
Theorem C04_generated_source_recognised : EASGen.GenProd.gen_prod_status_v = EASGen.GenProd.GenProdOk.
Proof. exact GenProdEq.gen_prod_recognised. Qed.
Print Assumptions C04_generated_source_recognised.
(* for every well-formed trigger expression, state and instant the generated producers compute the model *)
Theorem C04_generated_producers_are_model : forall E n p, wf_producer p -> (GenProdEq.rank p <= n)%nat ->
  forall dt st, GenRtProd.r_get_next (GenProdEq.pknot E n) p dt st = GenRtProd.lift (get_next E p st dt).
Proof. exact GenProdEq.gen_get_next_is_model. Qed.
Print Assumptions C04_generated_producers_are_model.
(* C04 read off the generated code: whatever it answers is strictly after the reference instant *)
Theorem C04_generated_next_strictly_future : forall E n p dt st st' v, wf_producer p -> (GenProdEq.rank p <= n)%nat ->
  GenRtProd.r_get_next (GenProdEq.pknot E n) p dt st = Some (st', GenRtProd.PRet v) -> dt < v.
Proof. exact GenProdEq.gen_next_strictly_future. Qed.
Print Assumptions C04_generated_next_strictly_future.
