(* C20 — A time of day accepted without DST policy is safe for the whole year.

   Model: theories/Dst.v (helpers/dst_param.py over an explicit time-zone table and a current year, the
   module globals TIME_FORWARD / TIME_BACKWARD as explicit state).  [reachable z year g]: g is the state of
   the globals after any sequence of check_dst_handling calls in a fresh interpreter.  [accepted z year tod]:
   some call check_dst_handling(tod, None, None) in a reachable state returns normally.  [candidates z l]
   (Time.v): all instants whose local time is l in the table z - one element = neither skipped nor repeated.
   The model's _setup asks its calendar questions on the table cut to [year-1, year+2) (Dst.window); the
   theorems below compare its outcome with the FULL table, so they do not rely on that cut.

   Bound of the sweep.  C20_accept_sound / C20_accept_sound_one_policy hold for EVERY table z and year with
   [dst_sweep z year = true] ([dst_sweep_each]), an executable check on interval endpoints that contains the
   decidable well-formedness [wf_dst z] (transitions at least two days apart, offsets inside +-24 h, every
   single clock change at most two hours).  The check run generates (scratch, not committed) one Coq file
   per zone with the zone's table extracted from `whenever` under TZ=<zone> (2018-2040) and proves by VM
   evaluation
       Zones_sweep : Forall (fun z => forallb (dst_sweep_each z) [2020; ...; 2037] = true) zones
   and from it, with C20_sweep_lift,
       Zones_sound : forall z year, In z zones -> In year years -> forall tod, 0 <= tod < DAY ->
                     accepted z year tod -> forall day, in_year year day -> exists i, candidates z (day*DAY+tod) = [i]
   where zones = the tables of ALL zones of this sandbox's tzdata (/usr/share/zoneinfo without posix/ and
   right/) with [wf_dst] (thorough tier; 16 diverse zones in the quick tier), years = 2020 .. 2037.  Zones
   with [wf_dst = false] are listed in the evidence together with a checked lemma [wf_dst the_tz = false].
   The statement therefore holds for that finite set of (zone, year) and for all times of day (nanosecond
   resolution) and all days of the year - not for tzdata versions or years outside the sweep.          *)
From EAS Require Import Base Civil Time Replace Dst DstFacts.

Theorem C20_both_given_verbatim : forall z year g t f b,
  check_dst_handling z year g t (Some f) (Some b) = (g, Ok (f, b)).
Proof. exact both_given_verbatim. Qed.
Print Assumptions C20_both_given_verbatim.

Theorem C20_accept_sound : forall z year,
  dst_sweep z year = true ->
  forall tod, 0 <= tod < DAY -> accepted z year tod ->
  forall day, in_year year day -> exists i, candidates z (day * DAY + tod) = [i].
Proof. exact accept_sound_by_sweep. Qed.
Print Assumptions C20_accept_sound.

Theorem C20_accept_sound_one_policy : forall z year,
  dst_sweep_each z year = true ->
  forall tod, 0 <= tod < DAY ->
  (accepted_fwd_given z year tod ->
     forall day, in_year year day -> (length (candidates z (day * DAY + tod)) <= 1)%nat) /\
  (accepted_bwd_given z year tod ->
     forall day, in_year year day -> candidates z (day * DAY + tod) <> []).
Proof. exact accept_sound_each. Qed.
Print Assumptions C20_accept_sound_one_policy.

Theorem C20_affected_rejected : forall z year,
  dst_sweep z year = true ->
  forall tod day, 0 <= tod < DAY -> in_year year day ->
  (forall i, candidates z (day * DAY + tod) <> [i]) ->
  forall g, reachable z year g -> forall g' r, check_dst_handling z year g tod None None <> (g', Ok r).
Proof. exact affected_rejected. Qed.
Print Assumptions C20_affected_rejected.

Theorem C20_reject_is_value_error : forall z year g t f b g' e,
  reachable z year g -> check_dst_handling z year g t f b = (g', Raise e) -> e = EValueError.
Proof. exact reject_is_value_error. Qed.
Print Assumptions C20_reject_is_value_error.

Theorem C20_accept_defaults : forall z year g tod g' r,
  reachable z year g -> check_dst_handling z year g tod None None = (g', Ok r) -> r = (SkAfter, RpEarlier).
Proof. exact accept_defaults. Qed.
Print Assumptions C20_accept_defaults.

(* the link between the table and [candidates]: for every well-formed table a local time that is not shown
   by exactly one instant lies in an affected interval of its kind *)
Theorem C20_skipped_is_affected : forall z year day tod,
  wf_dst z = true -> 0 <= tod < DAY -> in_year year day ->
  candidates z (day * DAY + tod) = [] ->
  exists lo hi, In (true, lo, hi) (affected z year) /\ lo <= tod < hi.
Proof. exact skipped_is_affected. Qed.
Print Assumptions C20_skipped_is_affected.

Theorem C20_repeated_is_affected : forall z year day tod a b r,
  wf_dst z = true -> 0 <= tod < DAY -> in_year year day ->
  candidates z (day * DAY + tod) = a :: b :: r ->
  exists lo hi, In (false, lo, hi) (affected z year) /\ lo <= tod < hi.
Proof. exact repeated_is_affected. Qed.
Print Assumptions C20_repeated_is_affected.

Theorem C20_sweep_lift : forall zones years,
  Forall (fun z => forallb (dst_sweep_each z) years = true) zones ->
  forall z year, In z zones -> In year years ->
  forall tod, 0 <= tod < DAY -> accepted z year tod ->
  forall day, in_year year day -> exists i, candidates z (day * DAY + tod) = [i].
Proof. exact sweep_lift. Qed.
Print Assumptions C20_sweep_lift.

Theorem C20_example_berlin_2025 : dst_sweep_each ex_berlin 2025 = true.
Proof. exact berlin_sweep. Qed.
Print Assumptions C20_example_berlin_2025.


(* ------------------------------------------------------------------------------------------------------------
   The tie to the file as it is today: coq/gen/GenDst.v is written by tools/gen_dst.py from helpers/dst_param.py on
   every run (statement by statement, fail closed), GenDstEq.v proves that it computes the model above.  [wworld z
   year now]: the generated code consults the table cut [window z year] (as the model does) and a clock [now];
   [clock_in z year now]: SystemDateTime.now().year = year on that table (from the full table: clock_in_full);
   [gen_reachable W g]: g are the module globals after any sequence of calls of the GENERATED check_dst_handling. *)
From EAS Require Import GenRtDst GenDstEq.
From EASGen Require Import GenDst.

Theorem C20_generated_recognised : gen_dst_status_v = GenDstOk.
Proof. exact gen_dst_recognised. Qed.
Print Assumptions C20_generated_recognised.

Theorem C20_generated_find_time : forall W rv,
  match date_items (w_tz W) (wyear W) (hour_seq rv) (month_seq rv) with
  | None => g_find_time W rv = OStuck
  | Some _ => exists r, find_time (w_tz W) (wyear W) rv = Ok r /\ g_find_time W rv = ORet (ft_conv r)
  end.
Proof. exact gen_find_time_spec. Qed.
Print Assumptions C20_generated_find_time.

Theorem C20_generated_setup_is_model : forall z year now g,
  clock_in z year now -> g_setup (wworld z year now) g <> OStuck ->
  setup z year g = setup_conv (g_setup (wworld z year now) g).
Proof. exact gen_setup_is_model. Qed.
Print Assumptions C20_generated_setup_is_model.

Theorem C20_generated_check_is_model : forall z year now g t f b,
  clock_in z year now -> g_check_dst_handling (wworld z year now) g t f b <> OStuck ->
  check_dst_handling z year g t f b = check_conv (g_check_dst_handling (wworld z year now) g t f b).
Proof. exact gen_check_is_model. Qed.
Print Assumptions C20_generated_check_is_model.

Theorem C20_generated_check_any_table : forall W g t f b,
  g_check_dst_handling W g t f b <> OStuck ->
  check_on (wft W) g t f b = check_conv (g_check_dst_handling W g t f b).
Proof. exact gen_check_agrees. Qed.
Print Assumptions C20_generated_check_any_table.

Theorem C20_generated_both_given_verbatim : forall W g t f b,
  g_check_dst_handling W g t (Some f) (Some b) = ORet (g, (Some f, Some b)).
Proof. exact gen_both_given_verbatim. Qed.
Print Assumptions C20_generated_both_given_verbatim.

Theorem C20_generated_accept_sound : forall z year now,
  clock_in z year now -> dst_sweep z year = true ->
  forall g tod g' r, 0 <= tod < DAY -> gen_reachable (wworld z year now) g ->
  g_check_dst_handling (wworld z year now) g tod None None = ORet (g', r) ->
  forall day, in_year year day -> exists i, candidates z (day * DAY + tod) = [i].
Proof. exact gen_accept_sound. Qed.
Print Assumptions C20_generated_accept_sound.

Theorem C20_generated_accept_sound_one_policy : forall z year now,
  clock_in z year now -> dst_sweep_each z year = true ->
  forall g tod g' r, 0 <= tod < DAY -> gen_reachable (wworld z year now) g ->
  (forall sf, g_check_dst_handling (wworld z year now) g tod (Some sf) None = ORet (g', r) ->
     forall day, in_year year day -> (List.length (candidates z (day * DAY + tod)) <= 1)%nat) /\
  (forall sb, g_check_dst_handling (wworld z year now) g tod None (Some sb) = ORet (g', r) ->
     forall day, in_year year day -> candidates z (day * DAY + tod) <> []).
Proof. exact gen_accept_sound_one_policy. Qed.
Print Assumptions C20_generated_accept_sound_one_policy.

Theorem C20_generated_affected_rejected : forall z year now,
  clock_in z year now -> dst_sweep z year = true ->
  forall tod day, 0 <= tod < DAY -> in_year year day ->
  (forall i, candidates z (day * DAY + tod) <> [i]) ->
  forall g, gen_reachable (wworld z year now) g ->
  forall g' r, g_check_dst_handling (wworld z year now) g tod None None <> ORet (g', r).
Proof. exact gen_affected_rejected. Qed.
Print Assumptions C20_generated_affected_rejected.

Theorem C20_generated_accept_defaults : forall z year now g tod g' r,
  clock_in z year now -> gen_reachable (wworld z year now) g ->
  g_check_dst_handling (wworld z year now) g tod None None = ORet (g', r) -> r = (Some SkAfter, Some RpEarlier).
Proof. exact gen_accept_defaults. Qed.
Print Assumptions C20_generated_accept_defaults.

Theorem C20_generated_reject_is_value_error : forall z year now g t f b g' e,
  clock_in z year now -> gen_reachable (wworld z year now) g ->
  g_check_dst_handling (wworld z year now) g t f b = OExc (g', e) -> e = XValue.
Proof. exact gen_reject_is_value_error. Qed.
Print Assumptions C20_generated_reject_is_value_error.

Theorem C20_generated_clock_from_full_table : forall z year now,
  spaced_list (tz_trans z) = true ->
  days_from_civil (year - 1) 1 1 * DAY <= now < days_from_civil (year + 2) 1 1 * DAY ->
  local_year (to_local z now) = year -> clock_in z year now.
Proof. exact clock_in_full. Qed.
Print Assumptions C20_generated_clock_from_full_table.

Theorem C20_generated_example_berlin_2025 :
  clock_in ex_berlin 2025 ex_now /\
  g_setup (wworld ex_berlin 2025 ex_now) g_globals0
  = ORet ({| g_fwd := Some (RDate (2 * HOUR) (3 * HOUR - 1)); g_bwd := Some (RDate (2 * HOUR) (3 * HOUR - 1)) |}, tt).
Proof. exact (conj berlin_clock berlin_gen_setup). Qed.
Print Assumptions C20_generated_example_berlin_2025.
