(* C14 — At most one firing per occurrence of the underlying trigger (statements only). *)
From EAS Require Import Base Civil Time Filters Replace Producers ProdStrict ProdOps.

(* offset, any sign: two consecutive firings of the chain belong to strictly increasing occurrences *)
Theorem C14_offset_chain_injective :
  forall E q off f st1 d0 v1 st2 v2 st3, wf_producer q ->
    get_next E (POffset q off f) st1 d0 = (Ok v1, st2) ->
    get_next E (POffset q off f) st2 v1 = (Ok v2, st3) ->
    exists n1 n2, inner_answer E q d0 n1 /\ inner_answer E q v1 n2 /\ v1 = n1 + off /\ v2 = n2 + off /\ n1 < n2.
Proof. exact offset_chain_injective. Qed.
Print Assumptions C14_offset_chain_injective.

(* jitter with a non-negative lower bound *)
Theorem C14_jitter_nonneg_chain_injective :
  forall E q lo hi f st1 d0 v1 st2 v2 st3, wf_producer q -> draws_in_range E -> 0 <= lo -> lo < hi ->
    get_next E (PJitter q lo hi f) st1 d0 = (Ok v1, st2) ->
    get_next E (PJitter q lo hi f) st2 v1 = (Ok v2, st3) ->
    exists n1 n2, inner_answer E q d0 n1 /\ inner_answer E q v1 n2 /\
                  n1 + lo <= v1 <= n1 + hi /\ n2 + lo <= v2 <= n2 + hi /\ n1 < n2.
Proof. exact jitter_nonneg_chain_injective. Qed.
Print Assumptions C14_jitter_nonneg_chain_injective.
