(* C14 — At most one firing per occurrence of the underlying trigger (statements only). *)
From EAS Require Import Base Civil Time TimeOrder Filters Replace Producers ProdStrict ProdEarliest ProdEarliest2 ProdOps ProdOps2.
From EASGen Require Import Generated.

(* offset, any sign: two consecutive firings of the chain belong to strictly increasing occurrences *)
Theorem C14_offset_chain_injective :
  forall E q off f st1 d0 v1 st2 v2 st3, wf_producer q ->
    get_next E (POffset q off f) st1 d0 = (Ok v1, st2) ->
    get_next E (POffset q off f) st2 v1 = (Ok v2, st3) ->
    exists n1 n2, inner_answer E q d0 n1 /\ inner_answer E q v1 n2 /\ v1 = n1 + off /\ v2 = n2 + off /\ n1 < n2.
Proof. exact offset_chain_injective. Qed.
Print Assumptions C14_offset_chain_injective.

(* jitter with a non-negative lower bound *)
Theorem C14_jitter_nonneg_chain_injective :
  forall E q lo hi f st1 d0 v1 st2 v2 st3, wf_producer q -> draws_in_range E -> 0 <= lo -> lo < hi ->
    get_next E (PJitter q lo hi f) st1 d0 = (Ok v1, st2) ->
    get_next E (PJitter q lo hi f) st2 v1 = (Ok v2, st3) ->
    exists n1 n2, inner_answer E q d0 n1 /\ inner_answer E q v1 n2 /\
                  n1 + lo <= v1 <= n1 + hi /\ n2 + lo <= v2 <= n2 + hi /\ n1 < n2.
Proof. exact jitter_nonneg_chain_injective. Qed.
Print Assumptions C14_jitter_nonneg_chain_injective.
(* ---- additions from ProdOps2.v (add ProdEarliest ProdEarliest2 ProdOps2 to the Require line) ---- *)

(* offset chains are COMPLETE and repetition-free: the chain enumerates the shifted occurrences of the underlying
   trigger (every element is the earliest shifted occurrence after its predecessor: ProdEarliest2.enumerates,
   enumerates_complete / enumerates_sorted).  Hyp. 1: offset smaller than the distance between consecutive
   occurrences; hyp. 2: no occurrence in (d - off, d] at the start; both vacuous for off < 0 *)
Theorem C14_offset_chain_complete :
  forall E q (P : Z -> Prop),
    (forall st x n st', get_next E q st x = (Ok n, st') -> earliest_after P x n) ->
    forall off, (forall n u, P n -> P u -> n < u -> n + off < u) ->
    forall k st d, (forall u, P u -> d - off < u -> d < u) ->
      enumerates (shifted P off) d (chain E (POffset q off None) st d k).
Proof. exact offset_chain_complete. Qed.
Print Assumptions C14_offset_chain_complete.

Theorem C14_offset_chain_complete_neg :
  forall E q (P : Z -> Prop),
    (forall st x n st', get_next E q st x = (Ok n, st') -> earliest_after P x n) ->
    forall off, off < 0 -> forall k st d, enumerates (shifted P off) d (chain E (POffset q off None) st d k).
Proof. exact offset_chain_complete_neg. Qed.
Print Assumptions C14_offset_chain_complete_neg.

(* instance: time-of-day trigger, any DST policy, any filter, any table with spread <= 4 h *)
Theorem C14_offset_time_chain_complete :
  forall E tr f off, wf_tz_b (pz E) = true -> wf_tr tr ->
    (forall n u, occ_time (pz E) tr f n -> occ_time (pz E) tr f u -> n < u -> n + off < u) ->
    forall k st d, (forall u, occ_time (pz E) tr f u -> d - off < u -> d < u) ->
      enumerates (fun v => occ_time (pz E) tr f (v - off)) d (chain E (POffset (PTime tr f) off None) st d k).
Proof. exact offset_time_chain_complete. Qed.
Print Assumptions C14_offset_time_chain_complete.

Theorem C14_offset_time_chain_complete_neg :
  forall E tr f off, wf_tz_b (pz E) = true -> wf_tr tr -> off < 0 ->
    forall k st d,
      enumerates (fun v => occ_time (pz E) tr f (v - off)) d (chain E (POffset (PTime tr f) off None) st d k).
Proof. exact offset_time_chain_complete_neg. Qed.
Print Assumptions C14_offset_time_chain_complete_neg.

(* total version: daily trigger, zone without transitions, any offset of less than a day, either sign: the next
   firing EXISTS and is the firing of the following day *)
Theorem C14_daily_offset_every_day :
  forall E tr off st y, tz_trans (pz E) = [] -> wf_tr tr -> - DAY < off < DAY ->
    let n1 := daily_nx E tr y in
    get_next E (POffset (PTime tr None) off None) st (n1 + off) = (Ok (n1 + DAY + off), st).
Proof. exact daily_offset_every_day. Qed.
Print Assumptions C14_daily_offset_every_day.

(* why the restriction to offsets narrower than the period: an occurrence n2 in (n1, n1 + off] is skipped *)
Theorem C14_offset_wide_skips :
  forall E q (P : Z -> Prop),
    (forall st x n st', get_next E q st x = (Ok n, st') -> earliest_after P x n) ->
    forall off st n1 n2 v st', n1 < n2 -> n2 <= n1 + off ->
      get_next E (POffset q off None) st (n1 + off) = (Ok v, st') -> n2 + off < v.
Proof. exact offset_wide_skips. Qed.
Print Assumptions C14_offset_wide_skips.

(* F6 (known finding): jitter with a negative lower bound - the injectivity statement without 0 <= lo is false *)
Theorem C14_jitter_negative_refuted :
  ~ (forall E q lo hi f st1 d0 v1 st2 v2 st3,
       wf_producer q -> draws_in_range E -> lo < hi ->
       get_next E (PJitter q lo hi f) st1 d0 = (Ok v1, st2) ->
       get_next E (PJitter q lo hi f) st2 v1 = (Ok v2, st3) ->
       exists n1 n2, inner_answer E q d0 n1 /\ inner_answer E q v1 n2 /\
                     n1 + lo <= v1 <= n1 + hi /\ n2 + lo <= v2 /\ n1 < n2).
Proof. exact jitter_negative_refuted. Qed.
Print Assumptions C14_jitter_negative_refuted.

(* the witness: daily 12:00, zone without transitions, jitter(-60 s, 60 s), draws within the requested bounds;
   chain from midnight: 11:59:16 then 12:00:56.0001, both within 60 s of the same occurrence b = 12:00, which is
   the only answer of the underlying trigger that either firing can be attributed to *)
Theorem C14_jitter_negative_witness :
  let q := PTime noon None in let lo := - 60 * SEC in let hi := 60 * SEC in let b := noon0 in
  tz_trans (pz envJ) = [] /\ wf_tz_b (pz envJ) = true /\ wf_tr noon /\ draws_in_range envJ /\
  lo < 0 < hi /\ hi - lo < DAY /\
  chain envJ (PJitter q lo hi None) pstate0 0 2 = [Ok fire1; Ok fire2] /\
  get_next envJ (PJitter q lo hi None) pstate0 0 = (Ok fire1, stJ 1) /\
  get_next envJ (PJitter q lo hi None) (stJ 1) fire1 = (Ok fire2, stJ 2) /\
  get_next envJ q pstate0 0 = (Ok b, pstate0) /\ get_next envJ q (stJ 1) fire1 = (Ok b, stJ 1) /\
  b + lo <= fire1 < b /\ b < fire2 <= b + hi /\
  (forall n, inner_answer envJ q 0 n -> n + lo <= fire1 <= n + hi -> n = b) /\
  (forall n, inner_answer envJ q fire1 n -> n + lo <= fire2 -> n = b).
Proof. exact jitter_negative_refuted_concrete. Qed.
Print Assumptions C14_jitter_negative_witness.

(* ---- the tie to the source by translation: coq/gen/GenProd.v is regenerated from src/eascheduler/producers/*.py and
   helpers/time_replace.py on every run (tools/gen_prod.py); these theorems are re-checked against it.  [pknot E n] is
   the generated code closed by dispatch on the class of the object; [lift] reads a model answer as an outcome of the
   generated code (value + producer state / exception / out of fuel). *)
From EAS Require GenRtProd GenProdEq.
Theorem C14_generated_source_recognised : EASGen.GenProd.gen_prod_status_v = EASGen.GenProd.GenProdOk.
Proof. exact GenProdEq.gen_prod_recognised. Qed.
Print Assumptions C14_generated_source_recognised.
Theorem C14_generated_answer_iff : forall E n p dt st st' v, wf_producer p -> (GenProdEq.rank p <= n)%nat ->
  (GenRtProd.r_get_next (GenProdEq.pknot E n) p dt st = Some (st', GenRtProd.PRet v) <-> get_next E p st dt = (Ok v, st')).
Proof. exact GenProdEq.gen_answer_iff. Qed.
Print Assumptions C14_generated_answer_iff.
(* two consecutive answers of the generated offset trigger belong to strictly increasing occurrences *)
Theorem C14_generated_offset_chain_injective : forall E n q off f st1 d0 v1 st2 v2 st3,
  wf_producer q -> (GenProdEq.rank (POffset q off f) <= n)%nat ->
  GenRtProd.r_get_next (GenProdEq.pknot E n) (POffset q off f) d0 st1 = Some (st2, GenRtProd.PRet v1) ->
  GenRtProd.r_get_next (GenProdEq.pknot E n) (POffset q off f) v1 st2 = Some (st3, GenRtProd.PRet v2) ->
  exists n1 n2, inner_answer E q d0 n1 /\ inner_answer E q v1 n2 /\ v1 = n1 + off /\ v2 = n2 + off /\ n1 < n2.
Proof. exact GenProdEq.gen_offset_chain_injective. Qed.
Print Assumptions C14_generated_offset_chain_injective.
