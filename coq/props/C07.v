(* C07 — Job status, callbacks and job store stay consistent (statements only). *)
From EAS Require Import Base Sched SchedInv SchedApi SchedProps.

(* status and next-run time agree in every reachable state: running exactly when a next-run time is
   reported; created / paused / finished exactly when none is *)
Theorem C07_status_next_agree :
  forall s j, Inv s ->
    (jstatus (jobs s j) = Running <-> jnext (jobs s j) <> None) /\
    (jstatus (jobs s j) <> Running -> jnext (jobs s j) = None).
Proof. exact status_next_agree. Qed.
Print Assumptions C07_status_next_agree.

(* finished is terminal: cancel, pause/stop, resume, reset and set_countdown on a finished job raise
   and leave the whole state - every job, the queue, the timer, the store, the log - unchanged *)
Theorem C07_finished_terminal :
  forall E fuel hs s j o, Inv s -> jstatus (jobs s j) = Finished -> control_op_on j o ->
    exists e, step_op E fuel hs s o = (s, Raised e).
Proof. exact finished_terminal. Qed.
Print Assumptions C07_finished_terminal.

Theorem C07_invariant_reachable :
  forall E fuel hs t0 en ops s rs,
    run E fuel hs (init t0 en) ops = (s, rs) -> ~ In NoFuel rs -> Inv s.
Proof. intros E fuel hs t0 en ops s rs H. exact (run_inv E fuel hs ops _ _ _ (Inv_init t0 en) H). Qed.
Print Assumptions C07_invariant_reachable.
