(* C07 — Job status, callbacks and job store stay consistent (statements only). *)
From EAS Require Import Base Sched SchedInv SchedApi SchedProps.

(* status and next-run time agree in every reachable state: running exactly when a next-run time is
   reported; created / paused / finished exactly when none is *)
Theorem C07_status_next_agree :
  forall s j, Inv s ->
    (jstatus (jobs s j) = Running <-> jnext (jobs s j) <> None) /\
    (jstatus (jobs s j) <> Running -> jnext (jobs s j) = None).
Proof. exact status_next_agree. Qed.
Print Assumptions C07_status_next_agree.

(* finished is terminal: cancel, pause/stop, resume, reset and set_countdown on a finished job raise
   and leave the whole state - every job, the queue, the timer, the store, the log - unchanged *)
Theorem C07_finished_terminal :
  forall E fuel hs s j o, Inv s -> jstatus (jobs s j) = Finished -> control_op_on j o ->
    exists e, step_op E fuel hs s o = (s, Raised e).
Proof. exact finished_terminal. Qed.
Print Assumptions C07_finished_terminal.

Theorem C07_invariant_reachable :
  forall E fuel hs t0 en ops s rs,
    run E fuel hs (init t0 en) ops = (s, rs) -> ~ In NoFuel rs -> Inv s.
Proof. intros E fuel hs t0 en ops s rs H. exact (run_inv E fuel hs ops _ _ _ (Inv_init t0 en) H). Qed.
Print Assumptions C07_invariant_reachable.


(* ------------------------------------------------------------------------------------------- *)
(* job store (SchedStore.v) *)
From EAS Require Import SchedTrace SchedStore SchedCallbacks.

(* in every reachable state (any history, with or without a job store) the store holds exactly the jobs that were
   registered with it and have not finished, and no id twice *)
Theorem C07_store_exact :
  forall E fuel hs t0 en ops s rs,
    run E fuel hs (init t0 en) ops = (s, rs) -> ~ In NoFuel rs -> StoreOK s.
Proof. exact store_exact. Qed.
Print Assumptions C07_store_exact.

(* with a job store: exactly the jobs created so far that have not finished *)
Theorem C07_store_contents :
  forall E fuel t0 en ops s rs,
    run E fuel true (init t0 en) ops = (s, rs) -> ~ In NoFuel rs ->
    NoDup (map fst (store s)) /\
    forall key j, In (key, j) (store s) <->
      ((j < njobs s)%nat /\ jkey (jobs s j) = key /\ jstatus (jobs s j) <> Finished).
Proof. exact store_contents. Qed.
Print Assumptions C07_store_contents.

(* the invariant is kept by the six re-entrant core functions for every amount of fuel ... *)
Theorem C07_store_core :
  forall E fuel,
  (forall X s s', WFq X s -> StoreInv s -> set_timer E fuel s = Some s' -> StoreInv s') /\
  (forall X s s', WFq X s -> enabled s = true -> StoreInv s -> run_jobs E fuel s = Some s' -> StoreInv s') /\
  (forall X s s', WFq X s -> enabled s = true -> Tl s -> StoreInv s -> run_loop E fuel s = Some s' -> StoreInv s') /\
  (forall X j s s', WFq (j :: X) s -> ~ In j (queue s) -> ~ In j X -> StoreInv s ->
     add_job E fuel j s = Some s' -> StoreInv s') /\
  (forall X j s s', WFq (j :: X) (set_queue (remove_first j (queue s)) s) -> StoreInv s ->
     remove_job E fuel j s = Some s' -> StoreInv s') /\
  (forall X j t s s', WFq (j :: X) s -> ~ In j (queue s) -> jstatus (jobs s j) = Running -> enabled s = true -> Tl s ->
     StoreInv s -> exec_job E fuel j t s = Some s' -> StoreInv s').
Proof. exact store_core_specs. Qed.
Print Assumptions C07_store_core.

(* ... and by every API operation *)
Theorem C07_store_step :
  forall E fuel hs s o s' r,
    Inv s -> StoreInv s -> step_op E fuel hs s o = (s', r) -> r <> NoFuel -> StoreInv s'.
Proof. exact step_op_store. Qed.
Print Assumptions C07_store_step.

(* a duplicate id is rejected with KeyError and nothing changes *)
Theorem C07_duplicate_key_rejected :
  forall E fuel b s,
    store_has (jkey b) (store s) = true -> create E fuel true b s = (s, Raised EKeyError).
Proof. exact duplicate_key_rejected. Qed.
Print Assumptions C07_duplicate_key_rejected.

Theorem C07_duplicate_key_rejected_ops :
  forall E fuel s key,
    store_has key (store s) = true ->
    (forall t, step_op E fuel true s (OOnce t key) = (s, Raised EKeyError)) /\
    (forall secs, 0 < secs -> step_op E fuel true s (OCountdown secs key) = (s, Raised EKeyError)) /\
    step_op E fuel true s (OAt key) = (s, Raised EKeyError).
Proof. exact duplicate_key_rejected_ops. Qed.
Print Assumptions C07_duplicate_key_rejected_ops.

(* "the id is taken" = a job registered with the store that has not finished carries it *)
Theorem C07_store_has_live :
  forall s key, StoreOK s ->
    (store_has key (store s) = true <->
     exists j, (j < njobs s)%nat /\ jstored (jobs s j) = true /\ jkey (jobs s j) = key /\ jstatus (jobs s j) <> Finished).
Proof. exact store_has_live. Qed.
Print Assumptions C07_store_has_live.

Theorem C07_finished_not_stored :
  forall s j key, StoreOK s -> jstatus (jobs s j) = Finished -> ~ In (key, j) (store s).
Proof. exact finished_not_stored. Qed.
Print Assumptions C07_finished_not_stored.

Theorem C07_store_keys_unique :
  forall s key j1 j2, StoreOK s -> In (key, j1) (store s) -> In (key, j2) (store s) -> j1 = j2.
Proof. exact store_keys_unique. Qed.
Print Assumptions C07_store_keys_unique.

(* ------------------------------------------------------------------------------------------- *)
(* callbacks (SchedCallbacks.v) *)

(* set_next_run: the log grows by [cb_events] - for every registered on_update callback, in registration order, one
   event carrying the NEW status and next-run time, followed by a handler event iff that invocation raises; the
   callback events are exactly [map mk (jcbu ..)]; and the state each callback runs in already shows the new pair *)
Theorem C07_set_next_run_callbacks :
  forall E j nx s,
  let stt := match nx with None => Paused | Some _ => Running end in
  let mk := fun cb => ECbUpd j cb stt nx in
  let s1 := set_job j (with_status_next (jobs s j) stt nx) s in
  log (set_next_run E j nx s) = rev (cb_events E mk (jcbu (jobs s j)) (log s)) ++ log s /\
  filter is_cbev (cb_events E mk (jcbu (jobs s j)) (log s)) = map mk (jcbu (jobs s j)) /\
  (forall c1 c2, jcbu (jobs s j) = c1 ++ c2 ->
     let sm := run_cbs E mk c1 s1 in
     set_next_run E j nx s = run_cbs E mk c2 sm /\ jstatus (jobs sm j) = stt /\ jnext (jobs sm j) = nx) /\
  jstatus (jobs (set_next_run E j nx s) j) = stt /\ jnext (jobs (set_next_run E j nx s) j) = nx.
Proof. exact set_next_run_callbacks. Qed.
Print Assumptions C07_set_next_run_callbacks.

(* the event list written out (no callback is registered twice: C07_cb_lists_nodup) *)
Theorem C07_set_next_run_events :
  forall E j nx s, NoDup (jcbu (jobs s j)) ->
  let stt := match nx with None => Paused | Some _ => Running end in
  log (set_next_run E j nx s) =
  rev (flat_map (fun cb => ECbUpd j cb stt nx ::
                   (if fail_cb E cb (count_cb cb (log s)) then [EHandler (HCb cb)] else []))
         (jcbu (jobs s j))) ++ log s.
Proof. exact set_next_run_events. Qed.
Print Assumptions C07_set_next_run_events.

Theorem C07_finish_callbacks_once :
  forall E j s,
  let mk := fun cb => ECbFin j cb in
  let b := jobs s j in
  let s1 := set_job j (with_linked (with_status_next b Finished None) false) s in
  let s2 := if jstored b then set_store (store_remove (jkey b) (store s1)) s1 else s1 in
  log (finish_job E j s) = rev (cb_events E mk (jcbf b) (log s)) ++ log s /\
  filter is_cbev (cb_events E mk (jcbf b) (log s)) = map mk (jcbf b) /\
  (forall c1 c2, jcbf b = c1 ++ c2 ->
     let sm := run_cbs E mk c1 s2 in
     finish_job E j s = run_cbs E mk c2 sm /\ jstatus (jobs sm j) = Finished /\ jnext (jobs sm j) = None /\
     jlinked (jobs sm j) = false /\ store sm = store (finish_job E j s)) /\
  jstatus (jobs (finish_job E j s) j) = Finished.
Proof. exact finish_callbacks_once. Qed.
Print Assumptions C07_finish_callbacks_once.

Theorem C07_finish_job_events :
  forall E j s, NoDup (jcbf (jobs s j)) ->
  log (finish_job E j s) =
  rev (flat_map (fun cb => ECbFin j cb :: (if fail_cb E cb (count_cb cb (log s)) then [EHandler (HCb cb)] else []))
         (jcbf (jobs s j))) ++ log s.
Proof. exact finish_job_events. Qed.
Print Assumptions C07_finish_job_events.

Theorem C07_cb_lists_nodup :
  forall E fuel hs t0 en ops s rs,
    run E fuel hs (init t0 en) ops = (s, rs) -> ~ In NoFuel rs ->
    forall j, NoDup (jcbu (jobs s j)) /\ NoDup (jcbf (jobs s j)).
Proof. exact cb_lists_nodup. Qed.
Print Assumptions C07_cb_lists_nodup.

(* one operation: a finished job stays finished and gets no further on_finished event; a job that finishes in the
   operation gets one event per callback registered at that moment; nobody else gets any *)
Theorem C07_fin_events_step :
  forall E fuel hs s o s' r,
    Inv s -> Fresh s -> op_scoped s o -> step E fuel hs s o = (s', r) -> r <> NoFuel ->
    FinStep s s' /\ Fresh s'.
Proof. exact fin_events_step. Qed.
Print Assumptions C07_fin_events_step.

(* every history that addresses existing jobs only: at most one on_finished event per job and callback, none
   while the job is not finished *)
Theorem C07_finished_once :
  forall E fuel hs t0 en ops s rs,
    run E fuel hs (init t0 en) ops = (s, rs) -> ~ In NoFuel rs -> scoped E fuel hs (init t0 en) ops ->
    forall j cb,
      (count_fin j cb (log s) <= 1)%nat /\
      (jstatus (jobs s j) <> Finished -> ~ In (ECbFin j cb) (log s)).
Proof. exact finished_once. Qed.
Print Assumptions C07_finished_once.

(* ... and exactly one iff the callback was registered when the job finished *)
Theorem C07_finished_once_exact :
  forall E fuel hs t0 en ops1 o ops2 s1 rs1 s2 r s3 rs3 j cb,
    run E fuel hs (init t0 en) ops1 = (s1, rs1) -> step E fuel hs s1 o = (s2, r) -> run E fuel hs s2 ops2 = (s3, rs3) ->
    ~ In NoFuel rs1 -> r <> NoFuel -> ~ In NoFuel rs3 ->
    scoped E fuel hs (init t0 en) ops1 -> op_scoped s1 o -> scoped E fuel hs s2 ops2 ->
    jstatus (jobs s1 j) <> Finished -> jstatus (jobs s2 j) = Finished ->
    jstatus (jobs s3 j) = Finished /\
    count_fin j cb (log s3) = if memb cb (jcbf (jobs s1 j)) then 1%nat else 0%nat.
Proof. exact finished_once_exact. Qed.
Print Assumptions C07_finished_once_exact.

(* finished is never left *)
Theorem C07_finished_forever :
  forall E fuel hs ops s s' rs j,
    Hist s -> scoped E fuel hs s ops -> run E fuel hs s ops = (s', rs) -> ~ In NoFuel rs ->
    jstatus (jobs s j) = Finished -> jstatus (jobs s' j) = Finished.
Proof. exact finished_forever. Qed.
Print Assumptions C07_finished_forever.

Theorem C07_reachable_hist :
  forall E fuel hs t0 en ops s rs,
    run E fuel hs (init t0 en) ops = (s, rs) -> ~ In NoFuel rs -> scoped E fuel hs (init t0 en) ops -> Hist s.
Proof. exact reachable_hist. Qed.
Print Assumptions C07_reachable_hist.

(* controls of the same job compare equal: a control is the job index in this model *)
Theorem C07_control_eq : forall j1 j2 : nat, Nat.eqb j1 j2 = true <-> j1 = j2.
Proof. exact control_eq. Qed.
Print Assumptions C07_control_eq.

(* AsyncScheduler.remove_all() = the history "cancel every queued job, from the back of the queue to the front"
   (tied to the implementation by the twin-scheduler scenario of harness/sched_async.py): from every reachable
   state it empties the queue, disarms the timer, finishes exactly the queued jobs, executes nothing. *)
From EAS Require Import SchedRemoveAll.
Theorem C07_remove_all_spec :
  forall E f hs s, Inv s ->
  let '(s', rs) := remove_all E (S (S f)) hs s in
  Inv s' /\ queue s' = [] /\ timer s' = None /\
  Forall (fun r => r = Done) rs /\
  (forall j, In j (queue s) -> jstatus (jobs s' j) = Finished /\ jnext (jobs s' j) = None /\ jlinked (jobs s' j) = false) /\
  (forall j, ~ In j (queue s) -> jobs s' j = jobs s j) /\
  count_all_exec (log s') = count_all_exec (log s) /\
  now s' = now s /\ enabled s' = enabled s /\ njobs s' = njobs s.
Proof. exact remove_all_spec. Qed.
Print Assumptions C07_remove_all_spec.
(* ---- the tie to the source by translation (job classes): coq/gen/GenJobs.v is regenerated from src/eascheduler/jobs/
   {base,job_onetime,job_countdown,job_datetime,event_handler}.py on every run (tools/gen_jobs.py); these theorems are
   re-checked against it (coq/theories/GenJobsEq.v).  The job methods call into the GENERATED scheduler (GenSched.v)
   closed with the GENERATED execute ([GenJobsEq.knot2]). *)
From EAS Require Import SchedTrace.
From EAS Require GenRt GenRtJobs GenJobsEq.
Theorem C07_generated_jobs_recognised : EASGen.GenJobs.gen_jobs_status_v = EASGen.GenJobs.GenJobsOk.
Proof. exact GenJobsEq.gen_jobs_recognised. Qed.
Print Assumptions C07_generated_jobs_recognised.
(* JobBase.set_next_run: the past test, then the model's state change and on_update callbacks *)
Theorem C07_generated_set_next_run : forall E R j nx s,
  EASGen.GenJobs.g_set_next_run E R j nx s =
  match nx with
  | Some v => if too_old s v then Some (s, GenRtJobs.JExc (GenRtJobs.JErr EPast))
              else Some (set_next_run E j (Some v) s, GenRtJobs.JRet)
  | None => Some (set_next_run E j None s, GenRtJobs.JRet)
  end.
Proof. exact GenJobsEq.gen_set_next_run_is_model. Qed.
Print Assumptions C07_generated_set_next_run.
(* JobCallbackHandler.run is Sched.run_cbs: every callback once, in order, each guarded separately *)
Theorem C07_generated_callbacks_upd : forall E j cbs s,
  EASGen.GenJobs.g_JobCallbackHandler_run E CbUpd j (map GenRtJobs.CbUser cbs) s =
  Some (run_cbs E (fun cb => ECbUpd j cb (jstatus (jobs s j)) (jnext (jobs s j))) cbs s, GenRtJobs.JRet).
Proof. exact GenJobsEq.gen_callbacks_run_is_run_cbs_upd. Qed.
Print Assumptions C07_generated_callbacks_upd.
Theorem C07_generated_callbacks_fin : forall E j cbs s,
  EASGen.GenJobs.g_JobCallbackHandler_run E CbFin j (map GenRtJobs.CbUser cbs) s =
  Some (run_cbs E (fun cb => ECbFin j cb) cbs s, GenRtJobs.JRet).
Proof. exact GenJobsEq.gen_callbacks_run_is_run_cbs_fin. Qed.
Print Assumptions C07_generated_callbacks_fin.
(* the whole on_finished handler of a job: the store forgets the job first, then the user's callbacks *)
Theorem C07_generated_on_finished : forall E j s,
  EASGen.GenJobs.g_JobCallbackHandler_run E CbFin j (GenRtJobs.callbacks CbFin (jobs s j)) s =
  Some (run_cbs E (fun cb => ECbFin j cb) (jcbf (jobs s j))
          (if jstored (jobs s j) then set_store (store_remove (jkey (jobs s j)) (store s)) s else s), GenRtJobs.JRet).
Proof. exact GenJobsEq.gen_on_finished_run. Qed.
Print Assumptions C07_generated_on_finished.
(* cancel / pause / resume on every reachable state: same outcome (Done <-> returned, Raised e <-> raised e), same state *)
Theorem C07_generated_cancel_is_model : forall E fuel hs s j s' r,
  Inv s -> GenJobsEq.LiveLinked s -> (j < njobs s)%nat ->
  step_op E fuel hs s (OCancel j) = (s', r) -> r <> NoFuel ->
  GenJobsEq.gen_job_finish E fuel j s = GenJobsEq.ret_of r s'.
Proof. exact GenJobsEq.gen_cancel_is_model. Qed.
Print Assumptions C07_generated_cancel_is_model.
Theorem C07_generated_pause_is_model : forall E fuel hs s j s' r,
  Inv s -> GenJobsEq.LiveLinked s -> (j < njobs s)%nat -> jkind (jobs s j) <> KOnce ->
  step_op E fuel hs s (OPause j) = (s', r) -> r <> NoFuel ->
  GenJobsEq.gen_job_pause E fuel j s = GenJobsEq.ret_of r s'.
Proof. exact GenJobsEq.gen_pause_is_model. Qed.
Print Assumptions C07_generated_pause_is_model.
Theorem C07_generated_resume_is_model : forall E fuel hs s j s' r,
  Inv s -> jkind (jobs s j) = KAt ->
  step_op E fuel hs s (OResume j) = (s', r) -> r <> NoFuel ->
  GenJobsEq.gen_job_resume E fuel j s = GenJobsEq.ret_of r s'.
Proof. exact GenJobsEq.gen_resume_is_model. Qed.
Print Assumptions C07_generated_resume_is_model.
(* where the model is coarser than the file: the classes that do not support pause / resume *)
Theorem C07_generated_pause_once : forall E fuel j s,
  jkind (jobs s j) = KOnce -> GenJobsEq.gen_job_pause E fuel j s = Some (s, GenRtJobs.JExc GenRtJobs.JNotImplemented).
Proof. exact GenJobsEq.gen_pause_once. Qed.
Print Assumptions C07_generated_pause_once.
Theorem C07_generated_resume_not_datetime : forall E fuel j s,
  jkind (jobs s j) <> KAt -> GenJobsEq.gen_job_resume E fuel j s = Some (s, GenRtJobs.JExc GenRtJobs.JNotImplemented).
Proof. exact GenJobsEq.gen_resume_not_datetime. Qed.
Print Assumptions C07_generated_resume_not_datetime.
(* the hypothesis LiveLinked ("a job that exists and is not finished - in particular a paused one - is linked") holds
   in every reachable state *)
Theorem C07_generated_live_linked_reachable : forall E fuel hs t0 en ops s rs,
  run E fuel hs (init t0 en) ops = (s, rs) -> ~ In NoFuel rs -> GenJobsEq.LiveLinked s /\ Inv s.
Proof. exact GenJobsEq.LiveLinked_reachable. Qed.
Print Assumptions C07_generated_live_linked_reachable.
(* register / remove of a callback *)
Theorem C07_generated_register_is_model : forall E fuel hs s j w cb s' r,
  step_op E fuel hs s (ORegister j w cb) = (s', r) ->
  EASGen.GenJobs.g_JobCallbackHandler_register w j (GenRtJobs.CbUser cb) s = GenJobsEq.ret_of r s'.
Proof. exact GenJobsEq.gen_register_is_model. Qed.
Print Assumptions C07_generated_register_is_model.
Theorem C07_generated_unregister_is_model : forall E fuel hs s j w cb s' r,
  memb cb (GenJobsEq.cbs_of w (jobs s j)) = true ->
  step_op E fuel hs s (OUnregister j w cb) = (s', r) ->
  EASGen.GenJobs.g_JobCallbackHandler_remove w j (GenRtJobs.CbUser cb) s = GenJobsEq.ret_of r s'.
Proof. exact GenJobsEq.gen_unregister_is_model. Qed.
Print Assumptions C07_generated_unregister_is_model.
(* link_scheduler + update_first of the job's class = the `first` / add_job part of JobBuilder._add in the model;
   the hypotheses hold at every creation *)
Theorem C07_generated_link_is_create_first : forall E fuel j s,
  let s1 := set_job j (with_linked (jobs s j) true) s in
  jlinked (jobs s j) = false -> Inv s1 -> ~ In j (queue s1) ->
  match create_first E j (jobs s1 j) s1 with
  | (s2, Done) => forall s3, add_job E fuel j s2 = Some s3 ->
                    GenJobsEq.gen_link_scheduler E fuel j s = Some (s3, GenRtJobs.JRet)
  | (s2, Raised e) => GenJobsEq.gen_link_scheduler E fuel j s = Some (s2, GenRtJobs.JExc (GenRtJobs.JErr e))
  | (s2, NoFuel) => GenJobsEq.gen_link_scheduler E fuel j s = None
  end.
Proof. exact GenJobsEq.gen_link_is_create_first. Qed.
Print Assumptions C07_generated_link_is_create_first.
Theorem C07_generated_link_hyps_at_creation : forall hs b s,
  Inv s -> jstatus b = Created -> jnext b = None -> jlinked b = false ->
  let j := njobs s in
  let s0 := GenJobsEq.alloc0 hs b s in
  let s1 := set_job j (with_linked (jobs s0 j) true) s0 in
  jlinked (jobs s0 j) = false /\ Inv s1 /\ ~ In j (queue s1).
Proof. exact GenJobsEq.link_hyps_at_creation. Qed.
Print Assumptions C07_generated_link_hyps_at_creation.

(* ---- the tie to the source by translation (job store, control classes): coq/gen/GenBuilder.v is regenerated from
   src/eascheduler/{job_stores/memory.py, job_control/*.py, builder/jobs.py, executor/base.py} on every run
   (tools/gen_builder.py); these theorems are re-checked against it (coq/theories/GenBuilderEq.v). ---- *)
From EAS Require GenRtBuilder SchedEqst GenBuilderEq.
Theorem C07_generated_builder_recognised :
  EASGen.GenBuilder.gen_builder_status_v = EASGen.GenBuilder.GenBuilderOk.
Proof. exact GenBuilderEq.gen_builder_recognised. Qed.
Print Assumptions C07_generated_builder_recognised.
(* InMemoryStore.add_job: a duplicate id raises KeyError and nothing changes; otherwise the id is added and
   `_job_finished` registered on the job's on_finished handler *)
Theorem C07_generated_store_add_job : forall j s,
  Sched.jstored (Sched.jobs s j) = false ->
  EASGen.GenBuilder.g_InMemoryStore_add_job j s =
  if Sched.store_has (Sched.jkey (Sched.jobs s j)) (Sched.store s)
  then Some (s, GenRtJobs.JExc (GenRtJobs.JErr Base.EKeyError))
  else Some (Sched.set_job j (Sched.with_stored (Sched.jobs s j) true)
               (Sched.set_store ((Sched.jkey (Sched.jobs s j), j) :: Sched.store s) s), GenRtJobs.JRet).
Proof. exact GenBuilderEq.gen_store_add_job. Qed.
Print Assumptions C07_generated_store_add_job.
(* InMemoryStore._job_finished is the callback the job classes' on_finished handler was taken to call ... *)
Theorem C07_generated_store_job_finished : forall E j s,
  EASGen.GenBuilder.g_InMemoryStore_job_finished j s =
  if Sched.store_has (Sched.jkey (Sched.jobs s j)) (Sched.store s)
  then GenRtJobs.call_cb E Sched.CbFin j GenRtJobs.CbStore s
  else Some (s, GenRtJobs.JExc (GenRtJobs.JErr Base.EKeyError)).
Proof. exact GenBuilderEq.gen_store_job_finished. Qed.
Print Assumptions C07_generated_store_job_finished.
(* ... and whenever job_finish of a live stored job runs it from a state with the (reachable) invariants, the id is
   present: it never raises KeyError *)
Theorem C07_generated_store_cb_at_finish : forall E fuel j s s1,
  SchedApi.Inv s -> SchedStore.StoreInv s -> (j < Sched.njobs s)%nat -> Sched.jstored (Sched.jobs s j) = true ->
  Sched.jstatus (Sched.jobs s j) <> Sched.Finished -> Sched.remove_job E fuel j s = Some s1 ->
  EASGen.GenBuilder.g_InMemoryStore_job_finished j (GenBuilderEq.finishing j s1) =
  GenRtJobs.call_cb E Sched.CbFin j GenRtJobs.CbStore (GenBuilderEq.finishing j s1).
Proof. exact GenBuilderEq.gen_store_cb_at_finish. Qed.
Print Assumptions C07_generated_store_cb_at_finish.
(* it removes exactly the entry of that job and touches nothing else *)
Theorem C07_generated_store_cb_removes_exactly : forall j s s',
  SchedStore.StoreOK s -> In (Sched.jkey (Sched.jobs s j), j) (Sched.store s) ->
  EASGen.GenBuilder.g_InMemoryStore_job_finished j s = Some (s', GenRtJobs.JRet) ->
  (forall k i, In (k, i) (Sched.store s') <-> In (k, i) (Sched.store s) /\ i <> j) /\
  Sched.now s' = Sched.now s /\ Sched.enabled s' = Sched.enabled s /\ Sched.timer s' = Sched.timer s /\
  Sched.queue s' = Sched.queue s /\ Sched.jobs s' = Sched.jobs s /\ Sched.njobs s' = Sched.njobs s /\
  Sched.log s' = Sched.log s /\ Sched.opi s' = Sched.opi s /\ Sched.broken s' = Sched.broken s.
Proof. exact GenBuilderEq.gen_store_cb_removes_exactly. Qed.
Print Assumptions C07_generated_store_cb_removes_exactly.
(* the lookups: store.get(id) is the live stored job that carries the id; `in`, [], pop in terms of it *)
Theorem C07_generated_store_get : forall s key j,
  SchedStore.StoreOK s ->
  (EASGen.GenBuilder.g_InMemoryStore_get key s = Some j <->
   (j < Sched.njobs s)%nat /\ Sched.jstored (Sched.jobs s j) = true /\ Sched.jkey (Sched.jobs s j) = key /\
   Sched.jstatus (Sched.jobs s j) <> Sched.Finished).
Proof. exact GenBuilderEq.gen_store_get. Qed.
Print Assumptions C07_generated_store_get.
Theorem C07_generated_store_lookups : forall s key,
  EASGen.GenBuilder.g_InMemoryStore_contains key s =
    match EASGen.GenBuilder.g_InMemoryStore_get key s with Some _ => true | None => false end /\
  EASGen.GenBuilder.g_InMemoryStore_getitem key s =
    match EASGen.GenBuilder.g_InMemoryStore_get key s with
    | Some j => GenRtBuilder.CVal j | None => GenRtBuilder.CExc Base.EKeyError end /\
  EASGen.GenBuilder.g_InMemoryStore_pop key s =
    match EASGen.GenBuilder.g_InMemoryStore_get key s with
    | Some j => (Sched.set_store (Sched.store_remove key (Sched.store s)) s, GenRtBuilder.CVal j)
    | None => (s, GenRtBuilder.CExc Base.EKeyError) end /\
  EASGen.GenBuilder.g_InMemoryStore_len s = List.length (Sched.store s).
Proof.
  intros s key. split; [exact (GenBuilderEq.gen_store_contains s key)|].
  split; [exact (GenBuilderEq.gen_store_getitem s key)|].
  split; [exact (GenBuilderEq.gen_store_pop s key)|exact (GenBuilderEq.gen_store_len s)].
Qed.
Print Assumptions C07_generated_store_lookups.
(* the control classes: which job method each control method calls, and nothing else *)
Theorem C07_generated_control_calls : forall E fuel j secs s,
  GenBuilderEq.gen_ctl_cancel E fuel j s = GenJobsEq.gen_job_finish E fuel j s /\
  GenBuilderEq.gen_ctl_pause E fuel j s = GenJobsEq.gen_job_pause E fuel j s /\
  GenBuilderEq.gen_ctl_resume E fuel j s = GenJobsEq.gen_job_resume E fuel j s /\
  GenBuilderEq.gen_ctl_stop E fuel j s = GenJobsEq.gen_job_pause E fuel j s /\
  GenBuilderEq.gen_ctl_reset E fuel j s = GenJobsEq.gen_reset E fuel j s /\
  GenBuilderEq.gen_ctl_set_countdown E fuel j secs s = GenJobsEq.gen_set_countdown E fuel j secs s.
Proof. exact GenBuilderEq.gen_ctl_calls. Qed.
Print Assumptions C07_generated_control_calls.
(* ... so on every reachable state they are the model's operations: same outcome, same state *)
Theorem C07_generated_control_cancel : forall E fuel hs s j s' r,
  SchedApi.Inv s -> GenJobsEq.LiveLinked s -> (j < Sched.njobs s)%nat ->
  Sched.step_op E fuel hs s (Sched.OCancel j) = (s', r) -> r <> Sched.NoFuel ->
  GenBuilderEq.gen_ctl_cancel E fuel j s = GenJobsEq.ret_of r s'.
Proof. exact GenBuilderEq.gen_ctl_cancel_is_model. Qed.
Print Assumptions C07_generated_control_cancel.
Theorem C07_generated_control_pause : forall E fuel hs s j s' r,
  SchedApi.Inv s -> GenJobsEq.LiveLinked s -> (j < Sched.njobs s)%nat -> Sched.jkind (Sched.jobs s j) = Sched.KAt ->
  Sched.step_op E fuel hs s (Sched.OPause j) = (s', r) -> r <> Sched.NoFuel ->
  GenBuilderEq.gen_ctl_pause E fuel j s = GenJobsEq.ret_of r s'.
Proof. exact GenBuilderEq.gen_ctl_pause_is_model. Qed.
Print Assumptions C07_generated_control_pause.
Theorem C07_generated_control_stop : forall E fuel hs s j s' r,
  SchedApi.Inv s -> GenJobsEq.LiveLinked s -> (j < Sched.njobs s)%nat ->
  Sched.jkind (Sched.jobs s j) = Sched.KCountdown ->
  Sched.step_op E fuel hs s (Sched.OPause j) = (s', r) -> r <> Sched.NoFuel ->
  GenBuilderEq.gen_ctl_stop E fuel j s = GenJobsEq.ret_of r s'.
Proof. exact GenBuilderEq.gen_ctl_stop_is_model. Qed.
Print Assumptions C07_generated_control_stop.
Theorem C07_generated_control_resume : forall E fuel hs s j s' r,
  SchedApi.Inv s -> Sched.jkind (Sched.jobs s j) = Sched.KAt ->
  Sched.step_op E fuel hs s (Sched.OResume j) = (s', r) -> r <> Sched.NoFuel ->
  GenBuilderEq.gen_ctl_resume E fuel j s = GenJobsEq.ret_of r s'.
Proof. exact GenBuilderEq.gen_ctl_resume_is_model. Qed.
Print Assumptions C07_generated_control_resume.
Theorem C07_generated_control_reset : forall E fuel hs s j s' r,
  SchedApi.Inv s -> Sched.jkind (Sched.jobs s j) = Sched.KCountdown -> 0 <= Sched.jsecs (Sched.jobs s j) ->
  Sched.step_op E fuel hs s (Sched.OReset j) = (s', r) -> r <> Sched.NoFuel ->
  GenBuilderEq.gen_ctl_reset E fuel j s = GenJobsEq.ret_of r s'.
Proof. exact GenBuilderEq.gen_ctl_reset_is_model. Qed.
Print Assumptions C07_generated_control_reset.
Theorem C07_generated_control_set_countdown : forall E fuel hs s j secs s' r,
  Sched.jkind (Sched.jobs s j) = Sched.KCountdown ->
  Sched.step_op E fuel hs s (Sched.OSetCountdown j secs) = (s', r) ->
  GenBuilderEq.gen_ctl_set_countdown E fuel j secs s = GenJobsEq.ret_of r s'.
Proof. exact GenBuilderEq.gen_ctl_set_countdown_is_model. Qed.
Print Assumptions C07_generated_control_set_countdown.
(* `==`, status, id, next_run_datetime *)
Theorem C07_generated_control_eq : forall a o, EASGen.GenBuilder.g_BaseControl_eq a o = true <-> o = Some a.
Proof. exact GenBuilderEq.gen_ctl_eq. Qed.
Print Assumptions C07_generated_control_eq.
Theorem C07_generated_control_properties : forall tz j s,
  EASGen.GenBuilder.g_BaseControl_status j s = Sched.jstatus (Sched.jobs s j) /\
  EASGen.GenBuilder.g_BaseControl_id j s = Sched.jkey (Sched.jobs s j) /\
  EASGen.GenBuilder.g_BaseControl_next_run_datetime tz j s = option_map tz (Sched.jnext (Sched.jobs s j)).
Proof. exact GenBuilderEq.gen_ctl_properties. Qed.
Print Assumptions C07_generated_control_properties.
Theorem C07_generated_control_status_next : forall tz j s,
  SchedApi.Inv s ->
  (EASGen.GenBuilder.g_BaseControl_status j s = Sched.Running <->
   EASGen.GenBuilder.g_BaseControl_next_run_datetime tz j s <> None).
Proof. exact GenBuilderEq.gen_ctl_status_next. Qed.
Print Assumptions C07_generated_control_status_next.
(* the hypotheses of the theorems above hold in every reachable state *)
Theorem C07_generated_builder_hyps_reachable : forall E fuel hs t0 en ops s rs,
  Sched.run E fuel hs (Sched.init t0 en) ops = (s, rs) -> ~ In Sched.NoFuel rs ->
  SchedApi.Inv s /\ GenJobsEq.LiveLinked s /\ SchedStore.StoreInv s.
Proof. exact GenBuilderEq.gen_builder_hyps_reachable. Qed.
Print Assumptions C07_generated_builder_hyps_reachable.
(* the constructors, translated by tools/gen_init.py (gen/GenInit.v): the initial state of every history and the
   fresh job records are what AsyncScheduler / InMemoryStore / JobBase / JobCallbackHandler .__init__ say today *)
From EAS Require GenInitEq.
Theorem C07_generated_init_is_model : forall t0 en, EASGen.GenInit.gen_init t0 en = Sched.init t0 en.
Proof. exact GenInitEq.gen_init_is_init. Qed.
Print Assumptions C07_generated_init_is_model.
Theorem C07_generated_fresh_job_records : forall t key,
  EASGen.GenInit.gen_once_init t key = Sched.new_job Sched.KOnce t 0 key /\
  EASGen.GenInit.gen_at_init key = Sched.new_job Sched.KAt 0 0 key /\
  EASGen.GenInit.gen_handler_init = [].
Proof. intros t key. exact (conj (GenInitEq.gen_once_init_is_new_job t key)
  (conj (GenInitEq.gen_at_init_is_new_job key) GenInitEq.gen_handler_init_empty)). Qed.
Print Assumptions C07_generated_fresh_job_records.
(* ---- AsyncScheduler.remove_all by translation: coq/gen/GenRemoveAll.v is regenerated from
   src/eascheduler/schedulers/async_scheduler.py on every run (tools/gen_removeall.py); the loop calls the generated
   job_finish of GenJobs.v with the generated scheduler; re-checked in coq/theories/GenRemoveAllEq.v. ---- *)
From EAS Require SchedRemoveAll GenRemoveAllEq.
Theorem C07_generated_remove_all_recognised :
  EASGen.GenRemoveAll.gen_removeall_status_v = EASGen.GenRemoveAll.GenRemoveAllOk.
Proof. exact GenRemoveAllEq.gen_removeall_recognised. Qed.
Print Assumptions C07_generated_remove_all_recognised.
(* on every state with Inv: the generated method returns normally with the state of the model's derived history
   map OCancel (rev (queue s)), up to the operation counter (one call here, one operation per job there) *)
Theorem C07_generated_remove_all_is_model : forall E f hs s,
  Inv s ->
  let '(s', rs) := SchedRemoveAll.remove_all E (S (S f)) hs s in
  exists g, GenRemoveAllEq.gen_remove_all E (S (S f)) s = Some (g, GenRtJobs.JRet) /\
            SchedEqst.eqst (set_opi (opi s') g) s' /\ opi g = opi s /\ Forall (fun r => r = Done) rs.
Proof. exact GenRemoveAllEq.gen_remove_all_is_model. Qed.
Print Assumptions C07_generated_remove_all_is_model.
Theorem C07_generated_remove_all_is_model_fuel : forall E fuel hs s s' rs,
  Inv s -> (2 <= fuel)%nat -> SchedRemoveAll.remove_all E fuel hs s = (s', rs) ->
  exists g, GenRemoveAllEq.gen_remove_all E fuel s = Some (g, GenRtJobs.JRet) /\
            SchedEqst.eqst (set_opi (opi s') g) s' /\ opi g = opi s /\ ~ In NoFuel rs.
Proof. exact GenRemoveAllEq.gen_remove_all_is_model_fuel. Qed.
Print Assumptions C07_generated_remove_all_is_model_fuel.
(* remove_all_spec for the generated code: nothing is executed, the queue is empty, the timer disarmed, exactly the
   queued jobs are finished *)
Theorem C07_generated_remove_all_spec : forall E f s,
  Inv s ->
  exists g, GenRemoveAllEq.gen_remove_all E (S (S f)) s = Some (g, GenRtJobs.JRet) /\
    Inv g /\ queue g = [] /\ timer g = None /\
    (forall j, In j (queue s) ->
       jstatus (jobs g j) = Finished /\ jnext (jobs g j) = None /\ jlinked (jobs g j) = false) /\
    (forall j, ~ In j (queue s) -> jobs g j = jobs s j) /\
    SchedRemoveAll.count_all_exec (log g) = SchedRemoveAll.count_all_exec (log s) /\
    now g = now s /\ enabled g = enabled s /\ njobs g = njobs s /\
    store g = store (fst (SchedRemoveAll.remove_all E (S (S f)) true s)) /\ opi g = opi s.
Proof. exact GenRemoveAllEq.gen_remove_all_spec. Qed.
Print Assumptions C07_generated_remove_all_spec.
(* the exception path of the loop, for every state: the first job_finish that raises ends the method with that
   exception, the rest of the snapshot is not visited *)
Theorem C07_generated_remove_all_raises : forall E R l1 j l2 s s1 s2 e,
  rev (queue s) = l1 ++ j :: l2 ->
  EASGen.GenRemoveAll.g_remove_all_loop E R l1 s = Some (s1, GenRtJobs.JRet) ->
  EASGen.GenJobs.g_job_finish E R j s1 = Some (s2, GenRtJobs.JExc e) ->
  EASGen.GenRemoveAll.g_remove_all E R s = Some (s2, GenRtJobs.JExc e).
Proof. exact GenRemoveAllEq.gen_remove_all_raises. Qed.
Print Assumptions C07_generated_remove_all_raises.
