(* C10 — Failures in user code stay isolated (statements only). *)
From EAS Require Import Base Sched SchedInv SchedApi SchedProps SchedLog SchedIso SchedFuel SchedHandled.

(* The invariant - hence the armed timer and the schedule of every job - holds in every reachable state
   for EVERY environment: whichever callables, callbacks and triggers raise at whichever invocation. *)
Theorem C10_invariant_under_any_failures :
  forall E fuel hs t0 en ops s rs,
    run E fuel hs (init t0 en) ops = (s, rs) -> ~ In NoFuel rs -> Inv s.
Proof. intros E fuel hs t0 en ops s rs H. exact (run_inv E fuel hs ops _ _ _ (Inv_init t0 en) H). Qed.
Print Assumptions C10_invariant_under_any_failures.

Theorem C10_never_early_under_any_failures :
  forall E fuel hs t0 en ops s rs,
    run E fuel hs (init t0 en) ops = (s, rs) -> Forall not_early (log s).
Proof. exact never_early. Qed.
Print Assumptions C10_never_early_under_any_failures.

(* ISOLATION: for every history, running with an environment in which any callables and callbacks raise at any
   of their invocations, and then erasing the corresponding exception-handler events from the log, gives
   EXACTLY the final state and the outcomes of the same history in the failure-free environment: every API
   call / wake-up completes the same way, the same jobs execute at the same instants, every job keeps its
   schedule, the same timer is armed.  (Triggers raise identically in both environments.) *)
Theorem C10_failures_isolated :
  forall E f hs t0 en ops,
    run (quiet_env E) f hs (init t0 en) ops =
    (er (fst (run E f hs (init t0 en) ops)), snd (run E f hs (init t0 en) ops)).
Proof. exact failures_isolated. Qed.
Print Assumptions C10_failures_isolated.

Theorem C10_step_isolated :
  forall E f hs s o, pmap (step E f hs s o) = step (quiet_env E) f hs (er s) o.
Proof. exact iso_step. Qed.
Print Assumptions C10_step_isolated.


(* F5 (refutation of "a failing trigger is isolated like a failing callable"): a trigger that raises inside
   execute() leaves the job queued with its stale next run; the job is due again and
   _set_timer -> run_jobs -> add_job -> _set_timer never ends.  In the model: from a REACHABLE state satisfying the
   invariant, with the timer armed, run_jobs exhausts EVERY fuel; as a history: for every fuel an outcome is
   NoFuel.  So the hypothesis "triggers answer" of the fuel theorems (C01) cannot be dropped. *)
Theorem C10_F5_refuted :
  exists E s, Inv s /\ timer s <> None /\ forall f, run_jobs E f s = None.
Proof. exact F5_refuted. Qed.
Print Assumptions C10_F5_refuted.

Theorem C10_F5_refuted_run :
  exists E ops, forall fuel, In NoFuel (snd (run E fuel false (init 0 true) ops)).
Proof. exact F5_refuted_run. Qed.
Print Assumptions C10_F5_refuted_run.

(* EXACTLY ONCE: in every history the exception handler received exactly as many exceptions from the callable of
   job j as starts of j raised, and exactly as many from callback c as invocations of c raised *)
Theorem C10_handled_exactly_once :
  forall E fuel hs t0 en ops s rs, run E fuel hs (init t0 en) ops = (s, rs) -> once E (log s).
Proof. exact handled_exactly_once. Qed.
Print Assumptions C10_handled_exactly_once.
