(* C10 — Failures in user code stay isolated (statements only). *)
From EAS Require Import Base Sched SchedInv SchedApi SchedProps SchedLog SchedIso SchedFuel SchedHandled.

(* The invariant - hence the armed timer and the schedule of every job - holds in every reachable state
   for EVERY environment: whichever callables, callbacks and triggers raise at whichever invocation. *)
Theorem C10_invariant_under_any_failures :
  forall E fuel hs t0 en ops s rs,
    run E fuel hs (init t0 en) ops = (s, rs) -> ~ In NoFuel rs -> Inv s.
Proof. intros E fuel hs t0 en ops s rs H. exact (run_inv E fuel hs ops _ _ _ (Inv_init t0 en) H). Qed.
Print Assumptions C10_invariant_under_any_failures.

Theorem C10_never_early_under_any_failures :
  forall E fuel hs t0 en ops s rs,
    run E fuel hs (init t0 en) ops = (s, rs) -> Forall not_early (log s).
Proof. exact never_early. Qed.
Print Assumptions C10_never_early_under_any_failures.

(* ISOLATION: for every history, running with an environment in which any callables and callbacks raise at any
   of their invocations, and then erasing the corresponding exception-handler events from the log, gives
   EXACTLY the final state and the outcomes of the same history in the failure-free environment: every API
   call / wake-up completes the same way, the same jobs execute at the same instants, every job keeps its
   schedule, the same timer is armed.  (Triggers raise identically in both environments.) *)
Theorem C10_failures_isolated :
  forall E f hs t0 en ops,
    run (quiet_env E) f hs (init t0 en) ops =
    (er (fst (run E f hs (init t0 en) ops)), snd (run E f hs (init t0 en) ops)).
Proof. exact failures_isolated. Qed.
Print Assumptions C10_failures_isolated.

Theorem C10_step_isolated :
  forall E f hs s o, pmap (step E f hs s o) = step (quiet_env E) f hs (er s) o.
Proof. exact iso_step. Qed.
Print Assumptions C10_step_isolated.


(* F5 (refutation of "a failing trigger is isolated like a failing callable"): a trigger that raises inside
   execute() leaves the job queued with its stale next run; the job is due again and
   _set_timer -> run_jobs -> add_job -> _set_timer never ends.  In the model: from a REACHABLE state satisfying the
   invariant, with the timer armed, run_jobs exhausts EVERY fuel; as a history: for every fuel an outcome is
   NoFuel.  So the hypothesis "triggers answer" of the fuel theorems (C01) cannot be dropped. *)
Theorem C10_F5_refuted :
  exists E s, Inv s /\ timer s <> None /\ forall f, run_jobs E f s = None.
Proof. exact F5_refuted. Qed.
Print Assumptions C10_F5_refuted.

Theorem C10_F5_refuted_run :
  exists E ops, forall fuel, In NoFuel (snd (run E fuel false (init 0 true) ops)).
Proof. exact F5_refuted_run. Qed.
Print Assumptions C10_F5_refuted_run.

(* EXACTLY ONCE: in every history the exception handler received exactly as many exceptions from the callable of
   job j as starts of j raised, and exactly as many from callback c as invocations of c raised *)
Theorem C10_handled_exactly_once :
  forall E fuel hs t0 en ops s rs, run E fuel hs (init t0 en) ops = (s, rs) -> once E (log s).
Proof. exact handled_exactly_once. Qed.
Print Assumptions C10_handled_exactly_once.

(* ---- asynchronous executor path: AsyncExecutor on the task managers / event loop (AsyncExec.v on TaskMgr.v) ---- *)
(* imported here, after the theorems about the synchronous model: TaskMgr.v reuses the names run / init / Inv / state *)
From EAS Require Import TaskMgr TaskMgrFacts AsyncExec AsyncExecFacts.
Theorem C10_async_handled_at_most_once : forall m evs, NoDup (hlog (arun m evs)).
Proof. exact async_handled_at_most_once. Qed.
Print Assumptions C10_async_handled_at_most_once.
Theorem C10_async_handled_iff_raised : forall m evs c, In c (hlog (arun m evs)) <-> left_by_exception (arun m evs) c.
Proof. exact async_handled_iff_raised. Qed.
Print Assumptions C10_async_handled_iff_raised.
Theorem C10_async_handler_log_exact : forall m evs, hlog (arun m evs) = map who (filter is_raise (ulog (arun m evs))).
Proof. exact async_handler_log_exact. Qed.
Print Assumptions C10_async_handler_log_exact.
Theorem C10_async_exit_once : forall m evs c w1 n1 w2 n2,
  In (c, w1, n1) (ulog (arun m evs)) -> In (c, w2, n2) (ulog (arun m evs)) ->
  n1 <> NPark -> n2 <> NPark -> w1 = w2 /\ n1 = n2.
Proof. exact async_exit_once. Qed.
Print Assumptions C10_async_exit_once.
Theorem C10_async_never_ran : forall m evs c,
  ent (ast (arun m evs)) c = false -> never_ran (arun m evs) c /\ ~ In c (hlog (arun m evs)).
Proof. exact async_never_ran. Qed.
Print Assumptions C10_async_never_ran.
Theorem C10_async_closed_not_handled : forall m evs c,
  In c (closed (ast (arun m evs))) ->
  ph (ast (arun m evs)) c = Closed /\ never_ran (arun m evs) c /\ ~ In c (hlog (arun m evs)).
Proof. exact async_closed_not_handled. Qed.
Print Assumptions C10_async_closed_not_handled.
Theorem C10_async_cancelled_not_handled : forall m evs c,
  left_by_cancellation (arun m evs) c -> ~ In c (hlog (arun m evs)).
Proof. exact async_cancelled_not_handled. Qed.
Print Assumptions C10_async_cancelled_not_handled.
Theorem C10_async_returned_not_handled : forall m evs c,
  left_by_return (arun m evs) c -> ~ In c (hlog (arun m evs)).
Proof. exact async_returned_not_handled. Qed.
Print Assumptions C10_async_returned_not_handled.
Theorem C10_async_no_task_exception : forall m evs c d,
  ph (ast (arun m evs)) c = Done d \/ ph (ast (arun m evs)) c = Processed d -> d = DRet \/ d = DCanc.
Proof. exact async_no_task_exception. Qed.
Print Assumptions C10_async_no_task_exception.
Theorem C10_async_handled_task_done : forall m evs c,
  In c (hlog (arun m evs)) ->
  exists d, (ph (ast (arun m evs)) c = Done d \/ ph (ast (arun m evs)) c = Processed d) /\ (d = DRet \/ d = DCanc).
Proof. exact async_handled_task_done. Qed.
Print Assumptions C10_async_handled_task_done.
Theorem C10_async_mgr_unaffected : forall m evs, ast (arun m evs) = TaskMgr.run m (wrap_events m TaskMgr.init evs).
Proof. exact async_mgr_unaffected. Qed.
Print Assumptions C10_async_mgr_unaffected.
Theorem C10_async_inv : forall m evs, TaskMgrFacts.Inv m (ast (arun m evs)).
Proof. exact async_inv. Qed.
Print Assumptions C10_async_inv.
Theorem C10_async_par_bound : forall n p evs, length (tracked (ast (arun (MParLim n p) evs))) <= n.
Proof. exact async_par_bound. Qed.
Print Assumptions C10_async_par_bound.
Theorem C10_async_failing_frees_slot : forall m evs c,
  In c (hlog (arun m evs)) ->
  let s := ast (arun m evs) in
  (exists d, ph s c = Done d /\ In (HDone c) (ready s)) \/
  (exists d, ph s c = Processed d /\ ~ In c (tracked s) /\ running s <> Some c).
Proof. exact async_failing_frees_slot. Qed.
Print Assumptions C10_async_failing_frees_slot.
Theorem C10_async_seq_next_starts : forall m evs c r bs,
  is_seq m = true -> ready (ast (arun m evs)) = HDone c :: r ->
  let s := ast (arun m evs) in let s' := ast (arun m (evs ++ [Run bs])) in
  running s = Some c /\
  match queue s with
  | [] => running s' = None /\ queue s' = []
  | (c', k') :: q => running s' = Some c' /\ queue s' = q /\ ph s' c' = Created /\ In (HStep c') (ready s') /\
                     started s' = started s ++ [c']
  end.
Proof. exact async_seq_next_starts. Qed.
Print Assumptions C10_async_seq_next_starts.
Theorem C10_async_par_release : forall m evs c r bs,
  is_par m = true -> ready (ast (arun m evs)) = HDone c :: r ->
  let s' := ast (arun m (evs ++ [Run bs])) in
  ~ In c (tracked s') /\ (exists d, ph s' c = Processed d) /\
  length (tracked s') <= length (tracked (ast (arun m evs))).
Proof. exact async_par_release. Qed.
Print Assumptions C10_async_par_release.
Theorem C10_async_seq_mutex : forall m evs,
  is_seq m = true ->
  let s := ast (arun m evs) in
  (forall c, is_live (ph s c) = true <-> running s = Some c) /\
  (forall c c', is_live (ph s c) = true -> is_live (ph s c') = true -> c = c') /\
  (forall c c', body_open s c -> body_open s c' -> c = c').
Proof. exact async_seq_mutex. Qed.
Print Assumptions C10_async_seq_mutex.

(* ---- the tie to the source by translation: coq/gen/GenSched.v is regenerated from
   src/eascheduler/schedulers/async_scheduler.py on every run (tools/gen_sched.py); these theorems are re-checked
   against it.  For every fuel and every state: whenever the model of Sched.v returns a state that is not marked
   broken (always, from well-formed states: core_specs_all), the generated set_timer / run_jobs / its loop / add_job /
   remove_job return exactly that state, and job.execute() hands its exception to run_jobs. *)
From EAS Require GenRt GenSchedEq.
Theorem C10_generated_source_recognised : EASGen.GenSched.gen_sched_status_v = EASGen.GenSched.GenSchedOk.
Proof. exact GenSchedEq.gen_sched_recognised. Qed.
Print Assumptions C10_generated_source_recognised.
Theorem C10_generated_scheduler_is_model : forall E f, GenSchedEq.agrees E f.
Proof. exact GenSchedEq.gen_agrees. Qed.
Print Assumptions C10_generated_scheduler_is_model.
Theorem C10_generated_wake_is_model : forall E fuel hs s s' w,
  SchedApi.Inv s -> Sched.timer s = Some w -> (w <= Sched.now s)%Z -> Sched.step_op E fuel hs s Sched.OWake = (s', Sched.Done) ->
  GenSchedEq.gen_run_jobs E fuel s = Some (s', GenRt.Ret).
Proof. exact GenSchedEq.gen_wake_is_model. Qed.
Print Assumptions C10_generated_wake_is_model.
Theorem C10_generated_enable_is_model : forall E fuel hs s b s',
  SchedApi.Inv s -> Sched.step_op E fuel hs s (Sched.OEnable b) = (s', Sched.Done) -> GenSchedEq.gen_set_enabled E fuel b s = Some (s', GenRt.Ret).
Proof. exact GenSchedEq.gen_enable_is_model. Qed.
Print Assumptions C10_generated_enable_is_model.

(* ---- the fully generated asynchronous stack (GenAsyncSystem.v): generated managers on TaskMgr.v's event loop, generated executor on top ---- *)

(* ---- the fully generated asynchronous stack (theories/GenAsyncSystem.v): [gen_arun] runs the generated
   AsyncExecutor (which coroutine `execute` hands to the manager: g_AsyncExecutor_execute_submits; what one resumption
   of `_execute` does and whether process_exception is called: g_AsyncExecutor_execute_step) on the event machine
   built from the generated manager classes (create_task at Submit events and inside bodies, the registered
   done-callbacks at HDone handles); the event loop is TaskMgr.v's.  It computes AsyncExec.arun on every event list. *)
From EAS Require GenRtTaskMgr GenTaskMgrEq GenAsyncSystem.
Theorem C10_generated_async_stack_is_model :
  forall nm m evs, GenTaskMgrEq.cfg_ok m ->
    GenAsyncSystem.gen_arun nm m evs = GenAsyncSystem.aemb m (arun m evs).
Proof. exact GenAsyncSystem.gen_async_stack_is_model. Qed.
Print Assumptions C10_generated_async_stack_is_model.

Theorem C10_generated_async_stack_parts :
  forall nm m evs, GenTaskMgrEq.cfg_ok m ->
    GenAsyncSystem.gms (GenAsyncSystem.gsys (GenAsyncSystem.gen_arun nm m evs)) = ast (arun m evs) /\
    GenAsyncSystem.ghlog (GenAsyncSystem.gen_arun nm m evs) = hlog (arun m evs) /\
    GenAsyncSystem.gulog (GenAsyncSystem.gen_arun nm m evs) = ulog (arun m evs) /\
    GenAsyncSystem.regs_ok m (GenAsyncSystem.gsys (GenAsyncSystem.gen_arun nm m evs)) /\
    GenAsyncSystem.gexc (GenAsyncSystem.gsys (GenAsyncSystem.gen_arun nm m evs)) = [].
Proof. exact GenAsyncSystem.gen_async_stack_parts. Qed.
Print Assumptions C10_generated_async_stack_parts.

Theorem C10_generated_async_stack_handled_at_most_once :
  forall nm m evs, GenTaskMgrEq.cfg_ok m -> NoDup (GenAsyncSystem.ghlog (GenAsyncSystem.gen_arun nm m evs)).
Proof. exact GenAsyncSystem.gen_async_stack_handled_at_most_once. Qed.
Print Assumptions C10_generated_async_stack_handled_at_most_once.

Theorem C10_generated_async_stack_handled_iff_raised :
  forall nm m evs c, GenTaskMgrEq.cfg_ok m ->
    (In c (GenAsyncSystem.ghlog (GenAsyncSystem.gen_arun nm m evs)) <->
     exists w n, In (c, w, n) (GenAsyncSystem.gulog (GenAsyncSystem.gen_arun nm m evs)) /\
                 (n = TaskMgr.NRaise \/ (n = TaskMgr.NFin /\ w = TaskMgr.WExc))).
Proof. exact GenAsyncSystem.gen_async_stack_handled_iff_raised. Qed.
Print Assumptions C10_generated_async_stack_handled_iff_raised.

Theorem C10_generated_async_stack_handler_log_exact :
  forall nm m evs, GenTaskMgrEq.cfg_ok m ->
    GenAsyncSystem.ghlog (GenAsyncSystem.gen_arun nm m evs) =
    map who (filter is_raise (GenAsyncSystem.gulog (GenAsyncSystem.gen_arun nm m evs))).
Proof. exact GenAsyncSystem.gen_async_stack_handler_log_exact. Qed.
Print Assumptions C10_generated_async_stack_handler_log_exact.

Theorem C10_generated_async_stack_no_task_exception :
  forall nm m evs c d, GenTaskMgrEq.cfg_ok m ->
    TaskMgr.ph (GenAsyncSystem.gms (GenAsyncSystem.gsys (GenAsyncSystem.gen_arun nm m evs))) c = TaskMgr.Done d \/
    TaskMgr.ph (GenAsyncSystem.gms (GenAsyncSystem.gsys (GenAsyncSystem.gen_arun nm m evs))) c = TaskMgr.Processed d ->
    d = TaskMgr.DRet \/ d = TaskMgr.DCanc.
Proof. exact GenAsyncSystem.gen_async_stack_no_task_exception. Qed.
Print Assumptions C10_generated_async_stack_no_task_exception.

Theorem C10_generated_async_stack_no_manager_exception :
  forall nm m evs, GenTaskMgrEq.cfg_ok m ->
    GenAsyncSystem.gexc (GenAsyncSystem.gsys (GenAsyncSystem.gen_arun nm m evs)) = [] /\
    GenAsyncSystem.regs_ok m (GenAsyncSystem.gsys (GenAsyncSystem.gen_arun nm m evs)).
Proof. exact GenAsyncSystem.gen_async_stack_no_manager_exception. Qed.
Print Assumptions C10_generated_async_stack_no_manager_exception.

Theorem C10_generated_async_stack_not_handled :
  forall nm m evs c, GenTaskMgrEq.cfg_ok m ->
    (In c (TaskMgr.closed (GenAsyncSystem.gms (GenAsyncSystem.gsys (GenAsyncSystem.gen_arun nm m evs)))) ->
       (forall w n, ~ In (c, w, n) (GenAsyncSystem.gulog (GenAsyncSystem.gen_arun nm m evs))) /\
       ~ In c (GenAsyncSystem.ghlog (GenAsyncSystem.gen_arun nm m evs))) /\
    (In (c, TaskMgr.WCanc, TaskMgr.NFin) (GenAsyncSystem.gulog (GenAsyncSystem.gen_arun nm m evs)) ->
       ~ In c (GenAsyncSystem.ghlog (GenAsyncSystem.gen_arun nm m evs))) /\
    ((exists w, In (c, w, TaskMgr.NRet) (GenAsyncSystem.gulog (GenAsyncSystem.gen_arun nm m evs))) \/
     In (c, TaskMgr.WRes, TaskMgr.NFin) (GenAsyncSystem.gulog (GenAsyncSystem.gen_arun nm m evs)) ->
       ~ In c (GenAsyncSystem.ghlog (GenAsyncSystem.gen_arun nm m evs))).
Proof. exact GenAsyncSystem.gen_async_stack_not_handled. Qed.
Print Assumptions C10_generated_async_stack_not_handled.

Theorem C10_generated_async_stack_handled_task_done :
  forall nm m evs c, GenTaskMgrEq.cfg_ok m ->
    In c (GenAsyncSystem.ghlog (GenAsyncSystem.gen_arun nm m evs)) ->
    exists d,
      (TaskMgr.ph (GenAsyncSystem.gms (GenAsyncSystem.gsys (GenAsyncSystem.gen_arun nm m evs))) c = TaskMgr.Done d \/
       TaskMgr.ph (GenAsyncSystem.gms (GenAsyncSystem.gsys (GenAsyncSystem.gen_arun nm m evs))) c = TaskMgr.Processed d) /\
      (d = TaskMgr.DRet \/ d = TaskMgr.DCanc).
Proof. exact GenAsyncSystem.gen_async_stack_handled_task_done. Qed.
Print Assumptions C10_generated_async_stack_handled_task_done.

Theorem C10_generated_async_stack_inv :
  forall nm m evs, GenTaskMgrEq.cfg_ok m ->
    TaskMgrFacts.Inv m (GenAsyncSystem.gms (GenAsyncSystem.gsys (GenAsyncSystem.gen_arun nm m evs))) /\
    TaskMgrFacts.conservation_stmt (GenAsyncSystem.gms (GenAsyncSystem.gsys (GenAsyncSystem.gen_arun nm m evs))).
Proof. exact GenAsyncSystem.gen_async_stack_inv. Qed.
Print Assumptions C10_generated_async_stack_inv.

(* the wrapper the generated machine runs is the generated `_execute`, proved equal to AsyncExec.wrap_beh *)
Theorem C10_generated_async_stack_wrapper :
  forall w b, GenAsyncSystem.gen_wrapper w b = (wrap_beh w b, handler_called (user_out w (snd b))).
Proof. exact GenAsyncSystem.gen_wrapper_is_wrap. Qed.
Print Assumptions C10_generated_async_stack_wrapper.
