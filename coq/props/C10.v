(* C10 — Failures in user code stay isolated (statements only). *)
From EAS Require Import Base Sched SchedInv SchedApi SchedProps SchedLog.

(* The invariant - hence the armed timer and the schedule of every job - holds in every reachable state
   for EVERY environment: whichever callables, callbacks and triggers raise at whichever invocation. *)
Theorem C10_invariant_under_any_failures :
  forall E fuel hs t0 en ops s rs,
    run E fuel hs (init t0 en) ops = (s, rs) -> ~ In NoFuel rs -> Inv s.
Proof. intros E fuel hs t0 en ops s rs H. exact (run_inv E fuel hs ops _ _ _ (Inv_init t0 en) H). Qed.
Print Assumptions C10_invariant_under_any_failures.

Theorem C10_never_early_under_any_failures :
  forall E fuel hs t0 en ops s rs,
    run E fuel hs (init t0 en) ops = (s, rs) -> Forall not_early (log s).
Proof. exact never_early. Qed.
Print Assumptions C10_never_early_under_any_failures.
