(* C11 — Sequential task managers: one at a time, in order, nothing lost (statements only).
   [run m evs] is the state of manager m on an asyncio loop after the event sequence evs (submissions,
   future resolutions / failures, Task.cancel() from outside, loop handles run one at a time or one loop
   iteration at a time; bodies submit further coroutines from inside).  [Inv m s] is the invariant; it
   holds between events (C11_invariant_reachable) and in every state inside a running body
   (C11_invariant_inside_bodies), so the theorems stated for [Inv m s] cover submissions from inside
   running tasks as well. *)
From EAS Require Import Base TaskMgr TaskMgrFacts.
Open Scope nat_scope.

Theorem C11_invariant_reachable : forall m evs, Inv m (run m evs).
Proof. exact run_inv. Qed.
Print Assumptions C11_invariant_reachable.

Theorem C11_invariant_inside_bodies :
  forall m s c r b,
    Inv m s -> ready s = HStep c :: r -> takes_beh s c = true ->
    exists s1 w, run_step m (set_ready s r) c b = end_step (submits m s1 (fst b)) c w (snd b) /\
                 ph s1 c = Running /\
                 forall pre post, fst b = pre ++ post -> Inv m (submits m s1 pre) /\ ph (submits m s1 pre) c = Running.
Proof. exact mid_body_inv. Qed.
Print Assumptions C11_invariant_inside_bodies.

(* never two at once: the only task that exists and whose done-callbacks have not run is manager.task;
   never two open bodies; an idle manager has an empty queue *)
Theorem C11_seq_mutex :
  forall m evs, is_seq m = true ->
    (forall c, is_live (ph (run m evs) c) = true <-> running (run m evs) = Some c) /\
    (forall c c', is_live (ph (run m evs) c) = true -> is_live (ph (run m evs) c') = true -> c = c') /\
    (forall c c', body_open (run m evs) c -> body_open (run m evs) c' -> c = c') /\
    (running (run m evs) = None -> queue (run m evs) = []).
Proof. exact seq_mutex. Qed.
Print Assumptions C11_seq_mutex.

Theorem C11_seq_mutex_any_state :
  forall m s, is_seq m = true -> Inv m s ->
    (forall c, is_live (ph s c) = true <-> running s = Some c) /\
    (forall c c', is_live (ph s c) = true -> is_live (ph s c') = true -> c = c') /\
    (forall c c', body_open s c -> body_open s c' -> c = c').
Proof. exact seq_mutex_inv. Qed.
Print Assumptions C11_seq_mutex_any_state.

(* in submission order: tasks are created (and what is queued will be) in the submission order of the
   coroutines that were not dropped - for de-duplication: of the surviving submission of every key -; bodies
   are entered in the order of task creation *)
Theorem C11_seq_order :
  forall m evs, is_seq m = true ->
    started (run m evs) ++ map fst (queue (run m evs)) =
      filter (fun x => negb (memb x (closed (run m evs)))) (map fst (subk (run m evs))) /\
    entlog (run m evs) = filter (ent (run m evs)) (started (run m evs)).
Proof. exact seq_order. Qed.
Print Assumptions C11_seq_order.

(* completion, failure or cancellation of the running task always lets the next one start *)
Theorem C11_seq_progress :
  forall m evs, is_seq m = true ->
    (forall c, running (run m evs) = Some c ->
       match ph (run m evs) c with
       | Created | Waking _ => In (HStep c) (ready (run m evs))
       | Done _ => In (HDone c) (ready (run m evs))
       | Parked | Running => True
       | _ => False
       end) /\
    (forall c r bs, ready (run m evs) = HDone c :: r ->
       running (run m evs) = Some c /\
       match queue (run m evs) with
       | [] => running (run m (evs ++ [Run bs])) = None /\ queue (run m (evs ++ [Run bs])) = []
       | (c', k') :: q =>
           running (run m (evs ++ [Run bs])) = Some c' /\ queue (run m (evs ++ [Run bs])) = q /\
           ph (run m (evs ++ [Run bs])) c' = Created /\ In (HStep c') (ready (run m (evs ++ [Run bs]))) /\
           started (run m (evs ++ [Run bs])) = started (run m evs) ++ [c']
       end).
Proof. exact seq_progress. Qed.
Print Assumptions C11_seq_progress.

(* at the bound exactly the victim named by the policy is dropped *)
Theorem C11_seq_drop_exact :
  forall q p s c k,
    1 <= q -> Inv (MSeqLim q p) s -> ph s c = Unknown ->
    length (queue s) <= q /\
    let s' := submit (MSeqLim q p) s c k in
    if length (queue s) <? q then
      closed s' = closed s /\
      match running s with
      | Some _ => queue s' = queue s ++ [(c, k)] /\ started s' = started s /\ running s' = running s
      | None => queue s' = [] /\ running s' = Some c /\ started s' = started s ++ [c]
      end
    else
      started s' = started s /\ running s' = running s /\
      match p with
      | SSkip => closed s' = closed s ++ [c] /\ queue s' = queue s
      | SSkipFirst => exists v kv t, queue s = (v, kv) :: t /\ closed s' = closed s ++ [v] /\ queue s' = t ++ [(c, k)]
      | SSkipLast => exists v kv t, queue s = t ++ [(v, kv)] /\ closed s' = closed s ++ [v] /\ queue s' = t ++ [(c, k)]
      end.
Proof. exact seq_drop_exact. Qed.
Print Assumptions C11_seq_drop_exact.

Theorem C11_seq_queue_bound : forall q p evs, length (queue (run (MSeqLim q p) evs)) <= q.
Proof. exact seq_queue_bound. Qed.
Print Assumptions C11_seq_queue_bound.

Theorem C11_seq_unbounded_never_drops : forall s c k, closed (submit MSeq s c k) = closed s.
Proof. exact seq_plain_no_drop. Qed.
Print Assumptions C11_seq_unbounded_never_drops.

(* de-duplication: at most one pending coroutine per key, the newest submission for that key *)
Theorem C11_dedup_newest :
  forall evs,
    NoDup (map snd (queue (run MSeqDedup evs))) /\
    forall c k, In (c, k) (queue (run MSeqDedup evs)) ->
      exists l1 l2, subk (run MSeqDedup evs) = l1 ++ (c, k) :: l2 /\ forall c', ~ In (c', k) l2.
Proof. exact dedup_newest. Qed.
Print Assumptions C11_dedup_newest.

Theorem C11_dedup_drop_exact :
  forall s c k,
    Inv MSeqDedup s -> ph s c = Unknown ->
    let s' := submit MSeqDedup s c k in
    (forall v, In (v, k) (queue s) ->
       exists q1 q2, queue s = q1 ++ (v, k) :: q2 /\ closed s' = closed s ++ [v] /\
                     queue s' = q1 ++ q2 ++ [(c, k)] /\ started s' = started s) /\
    ((forall v, ~ In (v, k) (queue s)) ->
       closed s' = closed s /\
       match running s with
       | Some _ => queue s' = queue s ++ [(c, k)] /\ started s' = started s
       | None => queue s' = [] /\ running s' = Some c /\ started s' = started s ++ [c]
       end).
Proof. exact dedup_drop_exact. Qed.
Print Assumptions C11_dedup_drop_exact.

(* none lost, none twice: see [conservation_stmt] in TaskMgrFacts.v *)
Theorem C11_seq_conservation : forall m evs, is_seq m = true -> conservation_stmt (run m evs).
Proof. exact seq_conservation. Qed.
Print Assumptions C11_seq_conservation.

Theorem C11_conservation_any_state :
  forall m s, Inv m s ->
    (forall c, In c (map fst (subk s)) ->
       (In c (map fst (queue s)) /\ ~ In c (started s) /\ ~ In c (closed s)) \/
       (~ In c (map fst (queue s)) /\ In c (started s) /\ ~ In c (closed s)) \/
       (~ In c (map fst (queue s)) /\ ~ In c (started s) /\ In c (closed s))) /\
    NoDup (started s) /\ NoDup (entlog s) /\
    (forall c, In c (entlog s) -> In c (started s)) /\
    (forall c, In c (closed s) -> ~ In c (entlog s)).
Proof. exact conservation_short. Qed.
Print Assumptions C11_conservation_any_state.

(* ---- the tie to the source by translation: coq/gen/GenTaskMgr.v is regenerated from
   src/eascheduler/task_managers/{base,sequential,parallel}.py on every run (tools/gen_taskmgr.py); these theorems are
   re-checked against it.  [gen_create_task m] / [gen_run_cb m] are the generated create_task / done-callback
   dispatcher of the class that m stands for, over the model's state plus the table of add_done_callback
   registrations ([mkrt s r]); [cfg_ok m] = the translated guard of __init__ did not raise (max_queue >= 1). *)
From EAS Require GenRtTaskMgr GenTaskMgrEq.
Import GenRtTaskMgr GenTaskMgrEq.
Theorem C11_generated_source_recognised : EASGen.GenTaskMgr.gen_taskmgr_status_v = EASGen.GenTaskMgr.GenTaskMgrOk.
Proof. exact gen_taskmgr_recognised. Qed.
Print Assumptions C11_generated_source_recognised.

(* create_task computes the model's submission step, returns the task it created (if any) and registers
   self._task_done on exactly that task; on every state of the invariant *)
Theorem C11_generated_create_task_is_submit :
  forall m s r c k n, is_seq m = true -> Inv m s -> cfg_ok m -> ph s c = Unknown ->
    gen_create_task m c k n (mkrt s r) =
    (mkrt (submit m s c k) (addreg r (submit_rv m s c k) (cb_of m)), Ret (submit_rv m s c k)) /\
    cb_of m = CbTaskDone /\
    started (submit m s c k) = started s ++ olist (submit_rv m s c k).
Proof.
  exact (fun m s r c k n Hs Hi Hc Hu =>
    conj (gen_create_task_is_submit m s r c k n Hi Hc Hu)
      (conj (match m return is_seq m = true -> cb_of m = CbTaskDone with
             | MSeq | MSeqLim _ _ | MSeqDedup => fun _ => eq_refl
             | MPar | MParLim _ _ => fun H => match Bool.diff_false_true H with end
             end Hs)
            (eq_trans (f_equal started (submit_unknown m s c k Hu)) (submit_started m s c k Hc)))).
Qed.
Print Assumptions C11_generated_create_task_is_submit.

(* SequentialTaskManager needs nothing: every state, every coroutine *)
Theorem C11_generated_plain_create_task_every_state :
  forall c k s r,
    EASGen.GenTaskMgr.SequentialTaskManager.create_task c k (mkrt s r) =
    (mkrt (submit_seq s c k) (addreg r (seq_rv s (submit_seq s c k)) CbTaskDone), Ret (seq_rv s (submit_seq s c k))).
Proof. exact seq_create_task. Qed.
Print Assumptions C11_generated_plain_create_task_every_state.

(* at a Submit event of any history, and for every submission made from inside a running body *)
Theorem C11_generated_create_task_at_submit_event :
  forall m evs r c k n, cfg_ok m -> ph (run m evs) c = Unknown ->
    ms (fst (gen_create_task m c k n (mkrt (set_flag (run m evs) false) r))) = step m (run m evs) (Submit c k).
Proof. exact gen_create_task_reachable. Qed.
Print Assumptions C11_generated_create_task_at_submit_event.

Theorem C11_generated_create_task_inside_bodies :
  forall m s x r0 b, Inv m s -> cfg_ok m -> ready s = HStep x :: r0 -> takes_beh s x = true ->
  exists s1 w, run_step m (set_ready s r0) x b = end_step (submits m s1 (fst b)) x w (snd b) /\
    forall pre c k post r n, fst b = pre ++ (c, k) :: post -> ph (submits m s1 pre) c = Unknown ->
      gen_create_task m c k n (mkrt (submits m s1 pre) r) =
      (mkrt (submits m s1 (pre ++ [(c, k)])) (addreg r (submit_rv m (submits m s1 pre) c k) (cb_of m)),
       Ret (submit_rv m (submits m s1 pre) c k)).
Proof. exact gen_create_task_mid_body. Qed.
Print Assumptions C11_generated_create_task_inside_bodies.

(* _task_done as a done-callback computes what the model runs at an HDone handle; on EVERY state *)
Theorem C11_generated_task_done_is_model :
  forall m s r c, is_seq m = true ->
    gen_run_cb m CbTaskDone c (mkrt s r) = (mkrt (seq_done_cb s c) (addreg r (next_of s) CbTaskDone), Ret tt).
Proof.
  exact (fun m s r c =>
    match m return is_seq m = true -> gen_run_cb m CbTaskDone c (mkrt s r) = _ with
    | MSeq => fun _ => seq_run_cb c s r
    | MSeqLim q p => fun _ => seqlim_run_cb q p c s r
    | MSeqDedup => fun _ => dedup_run_cb c s r
    | MPar | MParLim _ _ => fun H => match Bool.diff_false_true H with end
    end).
Qed.
Print Assumptions C11_generated_task_done_is_model.

Theorem C11_generated_hdone_is_model :
  forall m s r c d, ph s c = Done d ->
    ms (fst (gen_run_cb m (cb_of m) c (mkrt (set_ph s (upd (ph s) c (Processed d))) r))) = run_done m s c.
Proof. exact gen_run_done_is_model. Qed.
Print Assumptions C11_generated_hdone_is_model.

(* every task the generated code ever created carries exactly one registered done-callback, the one the model runs *)
Theorem C11_generated_callbacks_registered :
  forall m, RegOk m (mkrt init []) /\
    (forall s c k n, RegOk m s -> Inv m (ms s) -> cfg_ok m -> ph (ms s) c = Unknown ->
       RegOk m (fst (gen_create_task m c k n s))) /\
    (forall s c, RegOk m s -> RegOk m (fst (gen_run_cb m (cb_of m) c s))).
Proof. exact (fun m => conj (regs_ok_init m) (conj (regs_ok_create_task m) (regs_ok_run_cb m))). Qed.
Print Assumptions C11_generated_callbacks_registered.

(* ---- the fully generated asynchronous stack (GenAsyncSystem.v): generated managers on TaskMgr.v's event loop, generated executor on top ---- *)

(* ---- the capstone of the tie (theories/GenAsyncSystem.v): an event machine [gen_tm_run] in which every piece of
   manager code is the generated one - a [Submit] event and every submission from inside a running body run the
   generated create_task, an [HDone] handle runs what the generated add_done_callback registered ([regs]) through the
   generated dispatcher - while the event loop (ready queue, Run / Tick, Task.__step, end_step, Resolve / Fail /
   CancelExt) is TaskMgr.v's.  It computes TaskMgr.run on every event list, so the theorems above are theorems about a
   run of the generated classes. *)
From EAS Require GenAsyncSystem.
Import GenAsyncSystem.
Theorem C11_generated_machine_is_model :
  forall nm m evs, cfg_ok m ->
    gms (gen_tm_run nm m evs) = run m evs /\ regs_ok m (gen_tm_run nm m evs) /\ gexc (gen_tm_run nm m evs) = [].
Proof. exact gen_tm_run_is_model. Qed.
Print Assumptions C11_generated_machine_is_model.

Theorem C11_generated_machine_loop_is_taskmgr :
  forall m s c b,
    run_step m s c b = match step_entry s c with ENoBody s' => s' | EBody s1 w => body m s1 c w b end.
Proof. exact run_step_entry. Qed.
Print Assumptions C11_generated_machine_loop_is_taskmgr.

Theorem C11_generated_machine_registered :
  forall nm m evs c, cfg_ok m ->
    cbs_for c (regs (rt (gen_tm_run nm m evs))) =
      if has_task (ph (gms (gen_tm_run nm m evs)) c) then [cb_of m] else [].
Proof. exact gen_tm_registered. Qed.
Print Assumptions C11_generated_machine_registered.

Theorem C11_generated_machine_seq_mutex :
  forall nm m evs, cfg_ok m -> is_seq m = true ->
    (forall c, is_live (ph (gen_tm_state nm m evs) c) = true <-> running (gen_tm_state nm m evs) = Some c) /\
    (forall c c', is_live (ph (gen_tm_state nm m evs) c) = true -> is_live (ph (gen_tm_state nm m evs) c') = true -> c = c') /\
    (forall c c', body_open (gen_tm_state nm m evs) c -> body_open (gen_tm_state nm m evs) c' -> c = c') /\
    (running (gen_tm_state nm m evs) = None -> queue (gen_tm_state nm m evs) = []).
Proof. exact gen_tm_seq_mutex. Qed.
Print Assumptions C11_generated_machine_seq_mutex.

Theorem C11_generated_machine_seq_order :
  forall nm m evs, cfg_ok m -> is_seq m = true ->
    started (gen_tm_state nm m evs) ++ map fst (queue (gen_tm_state nm m evs)) =
      filter (fun x => negb (memb x (closed (gen_tm_state nm m evs)))) (map fst (subk (gen_tm_state nm m evs))) /\
    entlog (gen_tm_state nm m evs) = filter (ent (gen_tm_state nm m evs)) (started (gen_tm_state nm m evs)).
Proof. exact gen_tm_seq_order. Qed.
Print Assumptions C11_generated_machine_seq_order.

Theorem C11_generated_machine_conservation :
  forall nm m evs, cfg_ok m -> conservation_stmt (gen_tm_state nm m evs).
Proof. exact gen_tm_conservation. Qed.
Print Assumptions C11_generated_machine_conservation.

Theorem C11_generated_machine_seq_progress :
  forall nm m evs, cfg_ok m -> is_seq m = true ->
    (forall c, running (gen_tm_state nm m evs) = Some c ->
       match ph (gen_tm_state nm m evs) c with
       | Created | Waking _ => In (HStep c) (ready (gen_tm_state nm m evs))
       | Done _ => In (HDone c) (ready (gen_tm_state nm m evs))
       | Parked | Running => True
       | _ => False
       end) /\
    (forall c r bs, ready (gen_tm_state nm m evs) = HDone c :: r ->
       running (gen_tm_state nm m evs) = Some c /\
       match queue (gen_tm_state nm m evs) with
       | [] => running (gen_tm_state nm m (evs ++ [Run bs])) = None /\ queue (gen_tm_state nm m (evs ++ [Run bs])) = []
       | (c', k') :: q =>
           running (gen_tm_state nm m (evs ++ [Run bs])) = Some c' /\ queue (gen_tm_state nm m (evs ++ [Run bs])) = q /\
           ph (gen_tm_state nm m (evs ++ [Run bs])) c' = Created /\
           In (HStep c') (ready (gen_tm_state nm m (evs ++ [Run bs]))) /\
           started (gen_tm_state nm m (evs ++ [Run bs])) = started (gen_tm_state nm m evs) ++ [c'] /\
           cbs_for c' (regs (rt (gen_tm_run nm m (evs ++ [Run bs])))) = [CbTaskDone]
       end).
Proof. exact gen_tm_seq_progress. Qed.
Print Assumptions C11_generated_machine_seq_progress.

Theorem C11_generated_machine_seq_queue_bound :
  forall nm q p evs, cfg_ok (MSeqLim q p) -> length (queue (gen_tm_state nm (MSeqLim q p) evs)) <= q.
Proof. exact gen_tm_seq_queue_bound. Qed.
Print Assumptions C11_generated_machine_seq_queue_bound.

Theorem C11_generated_machine_seq_drop_exact :
  forall nm q p evs c k,
    cfg_ok (MSeqLim q p) -> ph (gen_tm_state nm (MSeqLim q p) evs) c = Unknown ->
    let s := gen_tm_state nm (MSeqLim q p) evs in
    let s' := gen_tm_state nm (MSeqLim q p) (evs ++ [Submit c k]) in
    length (queue s) <= q /\
    if length (queue s) <? q then
      closed s' = closed s /\
      match running s with
      | Some _ => queue s' = queue s ++ [(c, k)] /\ started s' = started s /\ running s' = running s
      | None => queue s' = [] /\ running s' = Some c /\ started s' = started s ++ [c]
      end
    else
      started s' = started s /\ running s' = running s /\
      match p with
      | SSkip => closed s' = closed s ++ [c] /\ queue s' = queue s
      | SSkipFirst => exists v kv t, queue s = (v, kv) :: t /\ closed s' = closed s ++ [v] /\ queue s' = t ++ [(c, k)]
      | SSkipLast => exists v kv t, queue s = t ++ [(v, kv)] /\ closed s' = closed s ++ [v] /\ queue s' = t ++ [(c, k)]
      end.
Proof. exact gen_tm_seq_drop_exact. Qed.
Print Assumptions C11_generated_machine_seq_drop_exact.

Theorem C11_generated_machine_seq_unbounded_never_drops :
  forall nm evs, closed (gen_tm_state nm MSeq evs) = [].
Proof. exact gen_tm_seq_unbounded_never_drops. Qed.
Print Assumptions C11_generated_machine_seq_unbounded_never_drops.

Theorem C11_generated_machine_dedup_newest :
  forall nm evs,
    NoDup (map snd (queue (gen_tm_state nm MSeqDedup evs))) /\
    forall c k, In (c, k) (queue (gen_tm_state nm MSeqDedup evs)) ->
      exists l1 l2, subk (gen_tm_state nm MSeqDedup evs) = l1 ++ (c, k) :: l2 /\ forall c', ~ In (c', k) l2.
Proof. exact gen_tm_dedup_newest. Qed.
Print Assumptions C11_generated_machine_dedup_newest.
