"""asyncexec_coq.py — print concrete executor traces and implementation observations as Coq terms
(AsyncExecCases.acase); the event / manager / loop-observation printers are those of taskmgr_coq.py."""
from __future__ import annotations

from harness.taskmgr_coq import coq_event, coq_mgr, coq_obs, natlist


def coq_aobs(o) -> str:
    return '(Build_aobs %s %s %s)' % (coq_obs(o), natlist(o['hlog']), natlist(o['ulog']))


def coq_acase(ccase, obs) -> str:
    return ('(Build_acase %s\n   [%s]\n   [%s])' % (
        coq_mgr(ccase['mgr']), ';\n     '.join(coq_event(e) for e in ccase['evs']),
        ';\n     '.join(coq_aobs(o) for o in obs)))


HEADER = 'From EAS Require Import Base TaskMgr TaskMgrCases AsyncExec AsyncExecCases.\nOpen Scope N_scope.\n'


def cases_file(cases: list[tuple[dict, list]]) -> str:
    body = ';\n'.join(coq_acase(c, o) for c, o in cases)
    return (HEADER + 'Definition cases : list acase := [\n' + body + '\n].\n'
            'Eval vm_compute in (amismatches cases).\n'
            'Eval vm_compute in (bad_indices acase_wellformed cases ++ bad_indices acase_mgr_wellformed cases).\n')


def debug_file(case_term: str, k: int) -> str:
    return (HEADER + f'Definition c : acase := {case_term}.\n'
            f'Eval vm_compute in (nth_error (acase_model_obs c) {k}%nat).\n'
            f'Eval vm_compute in (nth_error (ac_obs c) {k}%nat).\n')
