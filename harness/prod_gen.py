"""prod_gen.py — generators of producer expressions, filters and reference instants (boundary-biased)."""
from __future__ import annotations

import random

NS = 10**9
MIN = 60 * NS
HOUR = 3600 * NS
DAY = 86400 * NS
Y2000 = 946684800 * NS
Y2037 = 2082758400 * NS          # reference instants stay before 2036 (tables reach 2041)
SKS = ['skip', 'earlier', 'later', 'after']
RPS = ['skip', 'earlier', 'later', 'twice']


class Ctx:
    def __init__(self, rng: random.Random, tztab: dict) -> None:
        self.r = rng
        self.tz = tztab
        self.trans = [t for t in tztab['trans'] if Y2000 <= t[0] <= Y2037]
        # affected local intervals of every transition: (utc instant, local start, local end, forward?)
        self.affected = []
        prev = tztab['init']
        for t, o in tztab['trans']:
            a, b = t + prev * NS, t + o * NS
            if Y2000 <= t <= Y2037 and a != b:
                self.affected.append((t, min(a, b), max(a, b), o > prev))
            prev = o

    # ---------------------------------------------------------------------------------------------
    def tod(self) -> int:
        r = self.r
        p = r.random()
        if self.affected and p < 0.55:
            _, lo, hi, _ = r.choice(self.affected)
            pick = r.choice([lo, lo + MIN, (lo + hi) // 2, hi - MIN, hi, lo - MIN, hi + MIN, hi - 1, lo + 1,
                             (lo + hi) // 2 + 30 * NS + 123456789, lo - 1, hi + NS])
            return pick % DAY
        if p < 0.75:
            return r.choice([0, 1, DAY - 1, 12 * HOUR, 23 * HOUR + 30 * MIN, 30 * MIN, 2 * HOUR + 30 * MIN, 6 * HOUR])
        return r.randrange(0, 86400) * NS + r.choice([0, 0, 0, 500_000_000, 999_999_999])

    def instant(self) -> int:
        r = self.r
        p = r.random()
        if self.trans and p < 0.6:
            t, o = r.choice(self.trans)
            d = r.choice([0, -1, 1, -MIN, MIN, -HOUR, HOUR, -3 * HOUR, 2 * HOUR, -DAY, DAY, -DAY - HOUR, 30 * MIN,
                          -30 * MIN, -2 * DAY, 12 * HOUR, -12 * HOUR])
            return t + d + r.choice([0, 0, r.randrange(-7200, 7200) * NS])
        if p < 0.75:
            # local midnight / month end / year end
            y = r.randrange(2001, 2037)
            import datetime as dtm
            base = int(dtm.datetime(y, r.choice([1, 2, 3, 12]), r.choice([1, 28]), tzinfo=dtm.timezone.utc).timestamp()) * NS
            return base + r.choice([0, -1, 1, -HOUR, HOUR]) - self.tz['init'] * NS
        return r.randrange(Y2000 // NS, Y2037 // NS) * NS + r.choice([0, 0, 1, 999_999_999, 500_000_000])

    def filt(self, depth: int, sat: bool = True, dateonly: bool = False):
        r = self.r
        p = r.random()
        if depth > 0 and p < 0.35:
            k = r.choice(['any', 'any', 'all', 'not'])
            if k == 'not':
                return ['not', self.filt(depth - 1, sat, dateonly)]
            return [k, [self.filt(depth - 1, sat, dateonly) for _ in range(r.choice([1, 2, 2, 3]))]]
        k = r.choice(['time', 'weekday', 'day', 'month', 'weekday', 'time'] if not dateonly else ['weekday', 'day', 'month', 'weekday'])
        if k == 'time':
            a, b = sorted([self.tod(), self.tod()])
            m = r.random()
            if m < 0.25:
                return ['time', a, None]
            if m < 0.5:
                return ['time', None, max(b, 1)]
            if a == b:
                b = min(DAY - 1, a + HOUR)
            return ['time', a, b]
        if k == 'weekday':
            return ['weekday', sorted(r.sample(range(1, 8), r.choice([1, 2, 3, 5, 6])))]
        if k == 'day':
            return ['day', sorted(r.sample(range(1, 29), r.choice([1, 3, 10, 20, 28])))]
        return ['month', sorted(r.sample(range(1, 13), r.choice([1, 2, 6, 11])))]

    def unsat_filter(self):
        r = self.r
        return r.choice([['all', [['weekday', [1]], ['weekday', [2]]]], ['day', []], ['month', []], ['any', []],
                         ['not', ['all', []]], ['time', 12 * HOUR, 12 * HOUR],
                         ['all', [['month', [2]], ['day', [30, 31]]]]])

    def optfilt(self, p_some: float = 0.4, depth: int = 2, dateonly: bool = True):
        return self.filt(depth, True, dateonly) if self.r.random() < p_some else None

    # ---------------------------------------------------------------------------------------------
    def time_expr(self, fprob=0.4):
        r = self.r
        return ['time', self.tod(), r.choice(SKS), r.choice(RPS), self.optfilt(fprob)]

    def interval_expr(self, fprob=0.3, ref=None):
        r = self.r
        iv = r.choice([NS, 7 * NS, 90 * NS, 15 * MIN, HOUR, 90 * MIN, 6 * HOUR, DAY, 25 * HOUR, 7 * DAY, 1_500_000_000,
                       37 * MIN + 11 * NS])
        if r.random() < 0.15:
            start = None
        else:
            base = ref if ref is not None else self.instant()
            start = base + r.choice([0, -iv, iv, -3 * iv - 17 * NS, 5 * DAY, -400 * DAY, 1, -1, r.randrange(-10**6, 10**6) * NS])
        f = None
        if r.random() < fprob:
            # filters on fine grids must be satisfiable within a modest number of steps
            f = self.filt(1)
            if iv < 15 * MIN:
                iv = r.choice([15 * MIN, HOUR, 90 * MIN, 37 * MIN + 11 * NS])
        return ['interval', start, iv, f]

    def base_expr(self, fprob=0.35, ref=None):
        r = self.r
        p = r.random()
        if p < 0.45:
            return self.time_expr(fprob)
        if p < 0.8:
            return self.interval_expr(fprob, ref)
        return ['group', [self.base_expr(fprob, ref) for _ in range(r.choice([1, 2, 2, 3]))], self.optfilt(fprob * 0.7)]

    def op_expr(self, inner, fprob=0.25):
        r = self.r
        k = r.choice(['offset', 'earliest', 'latest', 'jitter', 'offset', 'jitter'])
        f = self.optfilt(fprob if k != 'jitter' else fprob / 3, 1)
        if k == 'offset':
            off = r.choice([NS, -NS, 90 * MIN, -90 * MIN, 30 * NS, -30 * NS, 5 * HOUR, -5 * HOUR, 25 * HOUR, -25 * HOUR, 0,
                            500_000_000, -1_500_000_000])
            return ['offset', inner, off, f]
        if k in ('earliest', 'latest'):
            return [k, inner, self.tod(), r.choice(SKS), r.choice(RPS), f]
        lo, hi = r.choice([(0, 60 * NS), (-60 * NS, 60 * NS), (-HOUR, -MIN), (10 * NS, 20 * NS), (-30 * MIN, 30 * MIN),
                           (-5 * NS, 0), (0, NS), (-2 * HOUR, HOUR)])
        return ['jitter', inner, lo, hi, f]

    def expr(self, depth: int, ref=None):
        e = self.base_expr(ref=ref)
        for _ in range(self.r.randrange(0, depth + 1)):
            e = self.op_expr(e)
        return sanitize(e, self.r)


def _heavy(e) -> bool:
    k = e[0]
    if k in ('earliest', 'latest'):
        return True
    if k in ('offset', 'jitter'):
        if e[-1] is not None:
            return True
        if k == 'offset' and abs(e[2]) > 60 * NS:
            return True
        if k == 'jitter' and max(abs(e[2]), abs(e[3])) > 60 * NS:
            return True
        return _heavy(e[1])
    if k == 'group':
        return e[2] is not None or any(_heavy(m) for m in e[1])
    return False


def _coarsen(e, r, filtered_above: bool):
    k = e[0]
    if k == 'interval':
        e = list(e)
        if e[2] < 15 * MIN:
            e[2] = r.choice([15 * MIN, HOUR, 90 * MIN + NS])
        return e
    if k == 'group':
        return ['group', [_coarsen(m, r, True) for m in e[1]], e[2]]
    if k in ('offset', 'earliest', 'latest', 'jitter'):
        e = list(e)
        e[1] = _coarsen(e[1], r, True)
        return e
    return e


def sanitize(e, r):
    """keep single queries cheap: second-grained intervals only where no operation can force thousands of
    re-queries (large shifts, bounds, filters above them); filtered intervals drift over all times of day"""
    if _heavy(e):
        e = _coarsen(e, r, True)
    return _drift(e, r)


def _drift(e, r):
    k = e[0]
    if k == 'interval':
        e = list(e)
        if e[3] is not None and e[2] % (15 * MIN) == 0:
            e[2] = r.choice([37 * MIN + 11 * NS, 90 * MIN + NS])
        return e
    if k == 'group':
        return ['group', [_drift(m, r) for m in e[1]], e[2]]
    if k in ('offset', 'earliest', 'latest', 'jitter'):
        e = list(e)
        e[1] = _drift(e[1], r)
        return e
    return e


def fracs(rng: random.Random) -> list:
    return [rng.choice([0.0, 0.5, 1.0, 0.25, 0.999, 0.001]) for _ in range(8)]
