"""dst_runner.py — subprocess entry (TZ=<zone> set by the parent): run helpers/dst_param.py for every requested
current year.  The module caches TIME_FORWARD / TIME_BACKWARD in globals and deletes its own helpers after the
first `_setup()`, so every year runs in a forked child of this process (the parent never calls into dst_param,
the child exits after one year: nothing accumulates).

input  {'zone': z, 'years': {year: [tod_ns, ...]}, 'api_probes': n}
output {'zone': z, 'years': {year: {'first': outcome, 'fwd': desc, 'bwd': desc, 'probes': [[tod, [o_nn, o_fn, o_nb, o_fb]]],
                                    'again': outcome, 'api': [[tod, kind, outcome]]}}}
outcome = ['ok', fwd, bwd, verbatim?] | ['raise', enum, type name]
desc    = ['bool', v] | ['date', lower_ns, upper_ns] | ['none']
"""
import json
import os
import resource
import sys
import time

FWD_GIVEN = 'later'        # a HINT_SKIPPED literal that is not the default (AFTER)
BWD_GIVEN = 'twice'        # a HINT_REPEATED literal that is not the default (EARLIER)


def tod_to_time(ns: int):
    from whenever import Time
    s, n = divmod(ns, 10**9)
    return Time(s // 3600, (s // 60) % 60, s % 60, nanosecond=n)


def time_to_tod(t) -> int:
    return ((t.hour * 60 + t.minute) * 60 + t.second) * 10**9 + t.nanosecond


def exn_enum(e: BaseException) -> list:
    if isinstance(e, ValueError):
        return ['raise', 'EValueError', type(e).__name__ + ': ' + str(e)[:80]]
    if isinstance(e, TypeError):
        return ['raise', 'ETypeError', type(e).__name__]
    if isinstance(e, KeyError):
        return ['raise', 'EKeyError', type(e).__name__ + ': ' + str(e)[:80]]
    return ['raise', 'EOther', type(e).__name__ + ': ' + str(e)[:80]]


def pol(v) -> str:
    return v.value if hasattr(v, 'value') else str(v)


def one_year(year: int, probes: list, api_probes: int) -> dict:
    from whenever import SystemDateTime, patch_current_time
    # "now" within the year: mid-year, or the first / last half hour of the local year (where the UTC year differs from
    # the local one in zones east / west of Greenwich)
    when = [SystemDateTime(year, 6, 15, 12), SystemDateTime(year, 1, 1, 0, 30, disambiguate='compatible'),
            SystemDateTime(year, 12, 31, 23, 30, disambiguate='compatible')][year % 3]
    with patch_current_time(when.instant(), keep_ticking=False):
        assert SystemDateTime.now().year == year
        import eascheduler.helpers.dst_param as dp
        from eascheduler.builder.triggers import TriggerBuilder

        def call(tod, f, b):
            try:
                r = dp.check_dst_handling(tod_to_time(tod), f, b)
            except BaseException as e:  # noqa: BLE001
                return exn_enum(e)
            return ['ok', pol(r[0]), pol(r[1]), bool(r[0] is f and r[1] is b)]

        def desc(x):
            if x is None:
                return ['none']
            if isinstance(x, dp.DstHandlingRequiredBool):
                return ['bool', bool(x.value)]
            return ['date', time_to_tod(x.lower), time_to_tod(x.upper)]

        # both given first: must not even look at the calendar
        both_before = call(12 * 3600 * 10**9, FWD_GIVEN, BWD_GIVEN)
        untouched = dp.TIME_FORWARD is None and dp.TIME_BACKWARD is None
        first = call(12 * 3600 * 10**9 + 1, None, None)
        out = {'both_before_setup': both_before, 'untouched_by_both': untouched, 'first': first,
               'fwd': desc(dp.TIME_FORWARD), 'bwd': desc(dp.TIME_BACKWARD), 'probes': [], 'api': []}
        for tod in probes:
            out['probes'].append([tod, [call(tod, None, None), call(tod, FWD_GIVEN, None), call(tod, None, BWD_GIVEN),
                                        call(tod, FWD_GIVEN, BWD_GIVEN)]])
        out['again'] = call(12 * 3600 * 10**9 + 1, None, None)
        out['fwd_end'] = desc(dp.TIME_FORWARD)
        out['bwd_end'] = desc(dp.TIME_BACKWARD)
        # the public entry points go through get_time_replacer -> check_dst_handling
        base = None
        try:
            base = TriggerBuilder.interval(None, 3600)
        except BaseException:  # noqa: BLE001
            base = None
        for tod in probes[:api_probes]:
            t = tod_to_time(tod)
            for kind in ('time', 'earliest', 'latest'):
                variants = [('nn', {}), ('fn', {'clock_forward': FWD_GIVEN}), ('nb', {'clock_backward': BWD_GIVEN}),
                            ('fb', {'clock_forward': FWD_GIVEN, 'clock_backward': BWD_GIVEN})]
                # both policies given as the DEFAULT literals: for every other probe this call comes first - a later call
                # without policies must still be refused when the time is affected (nothing may be remembered)
                dd = ('dd', {'clock_forward': 'after', 'clock_backward': 'earlier'})
                variants = [dd] + variants if (tod // 10**9) % 2 == 0 else variants + [dd]
                for variant, kw in variants:
                    try:
                        if kind == 'time':
                            o = TriggerBuilder.time(t, **kw)
                            tr = o._producer._time
                        elif base is None:
                            continue
                        else:
                            o = getattr(base, kind)(t, **kw)
                            tr = getattr(o._producer, kind)
                        res = ['ok', pol(tr._skipped), pol(tr._repeated), False]
                    except BaseException as e:  # noqa: BLE001
                        res = exn_enum(e)
                    out['api'].append([tod, kind, res, variant])
        return out


def main() -> int:
    resource.setrlimit(resource.RLIMIT_AS, (4 << 30, 4 << 30))
    time.tzset()
    job = json.load(open(sys.argv[1]))
    import whenever  # noqa: F401  (loaded once; the children inherit it)
    result = {'zone': job['zone'], 'years': {}}
    for year, probes in job['years'].items():
        r, w = os.pipe()
        pid = os.fork()
        if pid == 0:
            os.close(r)
            try:
                payload = json.dumps(one_year(int(year), probes, job.get('api_probes', 0)))
            except BaseException as e:  # noqa: BLE001
                payload = json.dumps({'crash': type(e).__name__ + ': ' + str(e)[:300]})
            with os.fdopen(w, 'w') as f:
                f.write(payload)
            os._exit(0)
        os.close(w)
        with os.fdopen(r) as f:
            data = f.read()
        os.waitpid(pid, 0)
        result['years'][year] = json.loads(data) if data else {'crash': 'child wrote nothing'}
    json.dump(result, open(sys.argv[2], 'w'))
    return 0


if __name__ == '__main__':
    sys.exit(main())
