"""getinstant_oracle.py — (driver side) the property C19 decided on the implementation's own answers, independent
of the Coq model and of whenever: zoneinfo, PEP 495 folds and integer arithmetic.  It looks at what the
argument MEANS (recorded by the generator), never at the model's reading of it.

check(case) -> (violations: [str], notes: [str])
  violations: the property fails on this answer
  notes: classified observations that are not violations (refusals of skipped / repeated times of day,
         an ignored `fold`, a date going backwards, ...); they are counted in the evidence
"""
from __future__ import annotations

import datetime as dt
from fractions import Fraction
from math import ceil, floor
from zoneinfo import ZoneInfo

NS = 10**9
DAY = 86400 * NS
TOL = 100_000_000            # the 100 ms of the property text
UTC = dt.timezone.utc
EPOCH = dt.datetime(1970, 1, 1, tzinfo=UTC)
DATE0 = dt.date(1970, 1, 1)
# A time of day whose occurrence today (or, when that is over, tomorrow) is skipped or repeated by a clock change is
# refused with whenever.SkippedTime / RepeatedTime although a next instant showing it exists.  The property text
# ("the next instant at which the system-local wall clock shows that time ... also across clock changes") makes that
# a violation; set to False to only count these refusals (extra.oracle_notes).
TOD_REFUSAL_IS_VIOLATION = True


class Zone:
    def __init__(self, zone: str) -> None:
        self.zi = ZoneInfo(zone)

    def offset_ns(self, i: int) -> int:
        d = EPOCH + dt.timedelta(seconds=i // NS)
        return int(d.astimezone(self.zi).utcoffset().total_seconds()) * NS

    def local(self, i: int) -> int:
        return i + self.offset_ns(i)

    def showing(self, local_ns: int) -> list[int]:
        """all instants at which the wall clock shows local_ns, ascending (0, 1 or 2 of them)"""
        day, tod = divmod(local_ns, DAY)
        sec, sub = divmod(tod, NS)
        d = DATE0 + dt.timedelta(days=day)
        naive = dt.datetime(d.year, d.month, d.day) + dt.timedelta(seconds=sec)
        out = set()
        for fold in (0, 1):
            a = naive.replace(tzinfo=self.zi, fold=fold)
            u = local_ns - int(a.utcoffset().total_seconds()) * NS
            if self.local(u) == local_ns:
                out.add(u)
        return sorted(out)

    def pep495(self, local_ns: int, fold: int) -> int:
        """the instant a naive datetime with this fold denotes by datetime's own rules"""
        day, tod = divmod(local_ns, DAY)
        sec, _ = divmod(tod, NS)
        d = DATE0 + dt.timedelta(days=day)
        a = (dt.datetime(d.year, d.month, d.day) + dt.timedelta(seconds=sec)).replace(tzinfo=self.zi, fold=fold)
        return local_ns - int(a.utcoffset().total_seconds()) * NS

    def next_showing_tod(self, now: int, tod: int, days_ahead: int = 3):
        """the least instant >= now at which the wall clock shows the time of day (searching the local dates
        around now), or None"""
        today = self.local(now) // DAY
        best = None
        for d in range(today - 1, today + days_ahead + 1):
            for u in self.showing(d * DAY + tod):
                if u >= now and (best is None or u < best):
                    best = u
        return best


def dur_bounds(means):
    """-> (lo, hi) nanoseconds that the argument may denote (floats: whenever decides the last digit)"""
    if means[0] == 'dur':
        return means[1], means[1]
    f = Fraction(means[1]) * NS
    return floor(f), ceil(f)


def _value(z: Zone, now: int, means, r: int, what: str, bad: list, notes: list) -> None:
    """r is what the implementation resolved the argument to"""
    k = means[0]
    if k == 'now':
        if r != now:
            bad.append(f'{what}: None resolved to {r}, now is {now}')
    elif k in ('dur', 'durf'):
        lo, hi = dur_bounds(means)
        if not now + lo <= r <= now + hi:
            bad.append(f'{what}: a duration of {means[1]} resolved to now{r - now:+d} ns')
    elif k == 'instant':
        if r != means[1]:
            bad.append(f'{what}: an absolute instant {means[1]} resolved to {r}')
    elif k == 'local':
        loc, fold = means[1], means[2]
        shown = z.showing(loc)
        if shown:
            if r not in shown:
                bad.append(f'{what}: naive datetime with local time {loc} resolved to {r}, whose wall clock shows '
                           f'{z.local(r)}; instants showing it: {shown}')
            elif len(shown) == 2:
                notes.append('naive_repeated_fold_ignored' if r != z.pep495(loc, fold) else 'naive_repeated')
        else:
            want = {z.pep495(loc, 0), z.pep495(loc, 1)}
            if r not in want:
                bad.append(f'{what}: skipped naive local time {loc} resolved to {r}; PEP 495 readings: {sorted(want)}')
            else:
                notes.append('naive_skipped_fold_ignored' if r != z.pep495(loc, fold) else 'naive_skipped_shifted')
    elif k == 'tod':
        tod = means[1]
        if z.local(r) % DAY != tod:
            bad.append(f'{what}: time of day {tod} resolved to {r}, whose wall clock shows {z.local(r) % DAY}')
        if r < now:
            bad.append(f'{what}: time of day {tod} resolved to {r}, before now={now}')
        today = z.local(now) // DAY
        s0 = z.showing(today * DAY + tod)
        rule = None
        if len(s0) == 1 and s0[0] >= now:
            rule = s0[0]
        elif len(s0) == 1:
            s1 = z.showing((today + 1) * DAY + tod)
            if len(s1) == 1:
                rule = s1[0]
        if rule is None:
            notes.append('tod_resolved_where_reference_is_undecided')
        elif rule != r:
            bad.append(f'{what}: time of day {tod} at now={now} resolved to {r}; today-if-ahead-else-tomorrow is {rule}')
        least = z.next_showing_tod(now, tod)
        if least is not None and least != r and not bad:
            notes.append('tod_not_least_date_goes_backwards')
        notes.append('tod_today' if z.local(r) // DAY == today else 'tod_tomorrow')
    elif k == 'bad':
        notes.append('unreadable_accepted')


def _refusal(z: Zone, now: int, means, err: str, exc: str, what: str, bad: list, notes: list) -> None:
    """the implementation refused the argument with err (get_instant itself, not the past check)"""
    k = means[0]
    if k == 'bad':
        if err != 'EValueError':
            notes.append(f'unreadable_refused_with_{exc}')
        return
    if k != 'tod':
        bad.append(f'{what}: an accepted form ({k} {means[1:]}) was refused with {exc}')
        return
    tod = means[1]
    today = z.local(now) // DAY
    s0 = z.showing(today * DAY + tod)
    cls = None
    if len(s0) == 0:
        cls = 'today_skipped'
    elif len(s0) == 2:
        cls = 'today_repeated_' + ('before' if now <= s0[0] else 'between' if now <= s0[1] else 'after')
    elif s0[0] < now:
        s1 = z.showing((today + 1) * DAY + tod)
        if len(s1) == 0:
            cls = 'tomorrow_skipped'
        elif len(s1) == 2:
            cls = 'tomorrow_repeated'
    if cls is None:
        bad.append(f'{what}: time of day {tod} at now={now} was refused with {exc} although it is shown exactly once '
                   f'today (not before now) or tomorrow')
        return
    notes.append(f'tod_refused_{cls}')
    want = 'SkippedTime' if cls.endswith('skipped') else 'RepeatedTime'
    if exc != want:
        notes.append(f'tod_refused_{cls}_with_{exc}')
    nxt = z.next_showing_tod(now, tod)
    if nxt is not None:
        notes.append('tod_refused_although_a_next_occurrence_exists')
        if TOD_REFUSAL_IS_VIOLATION:
            bad.append(f'[tod_refused] {what}: time of day {tod} at now={now} was refused with {exc} ({cls}); the next instant '
                       f'at which the wall clock shows it is {nxt} (now{nxt - now:+d} ns)')


def _positive(means, obs, exc, what: str, bad: list, notes: list, positive: bool) -> None:
    """a duration argument (countdown / interval length: positive=True; offset / jitter bound: False)"""
    k = means[0]
    if k in ('dur', 'durf'):
        lo, hi = dur_bounds(means)
        if obs[0] == 'ok':
            if not lo <= obs[1] <= hi:
                bad.append(f'{what}: a duration of {means[1]} was stored as {obs[1]} ns')
            if positive and hi <= 0:
                bad.append(f'{what}: the non-positive duration {means[1]} was accepted')
        else:
            if not positive or lo > 0:
                bad.append(f'{what}: the duration {means[1]} was refused with {exc}')
            elif obs[1] != 'EValueError':
                bad.append(f'{what}: the non-positive duration {means[1]} was refused with {exc}, not ValueError')
            else:
                notes.append('non_positive_refused')
    else:
        if obs[0] == 'ok':
            bad.append(f'{what}: {means} is no duration but was accepted as {obs[1]} ns')
        else:
            notes.append(f'not_a_duration_{exc}')


def check(zone: Zone, c: dict) -> tuple[list, list]:
    bad, notes = [], []
    if c.get('outside'):
        return bad, ['outside_' + c['outside']]
    now = c['now']
    obs, exc = c['obs'], c['exc']
    call = c['call']
    if call == 'instant':
        m = c['arg']['means']
        g, o = obs['get'], obs['once']
        if g[0] == 'ok':
            _value(zone, now, m, g[1], 'get_instant', bad, notes)
            # one-shot: refused iff more than 100 ms in the past
            if g[1] < now - TOL:
                if o != ['raise', 'EPast']:
                    bad.append(f'once: the instant {g[1]} is {now - g[1]} ns before now but the answer is {o}')
                else:
                    notes.append('once_past_refused')
                if c.get('once_jobs_left'):
                    bad.append('once: a refused job stayed in the scheduler')
            else:
                if o != ['ok', g[1]]:
                    bad.append(f'once: the instant {g[1]} (now{g[1] - now:+d}) should be accepted, the answer is {o}')
                else:
                    notes.append('once_within_tolerance' if g[1] < now else 'once_future')
                    iso = c.get('once_datetime')
                    shown = (dt.datetime(1970, 1, 1) + dt.timedelta(microseconds=zone.local(g[1]) // 1000))
                    if iso is None or abs(dt.datetime.fromisoformat(iso) - shown) > dt.timedelta(microseconds=1):
                        bad.append(f'once: next_run_datetime is {iso}, the local wall clock of {g[1]} is {shown}')
        else:
            _refusal(zone, now, m, g[1], exc.get('get'), 'get_instant', bad, notes)
            if o != g:
                bad.append(f'once: get_instant raises {g} but once answers {o}')
    elif call == 'countdown':
        _positive(c['arg']['means'], obs['countdown'], exc.get('countdown'), 'countdown', bad, notes, True)
    elif call == 'interval':
        ms, mi = c['start']['means'], c['iv']['means']
        o = obs['interval']
        start_refusable = ms[0] in ('bad', 'tod')
        iv_ok = mi[0] in ('dur', 'durf') and dur_bounds(mi)[0] > 0
        iv_bad = mi[0] not in ('dur', 'durf') or dur_bounds(mi)[1] <= 0
        if o[0] == 'ok':
            s, d = o[1]
            if ms[0] == 'now':
                if s is not None:
                    bad.append(f'interval: start None was stored as {s}')
                notes.append('interval_start_none_is_kept_as_none')
            elif s is None:
                bad.append(f'interval: start {ms} was stored as None')
            else:
                _value(zone, now, ms, s, 'interval start', bad, notes)
            _positive(mi, ['ok', d], None, 'interval length', bad, notes, True)
        else:
            if iv_ok and not start_refusable:
                bad.append(f'interval: start {ms} and length {mi} were refused with {exc.get("interval")}')
            elif iv_bad and not start_refusable and o[1] not in ('EValueError', 'ETypeError'):
                bad.append(f'interval: refused with {exc.get("interval")}')
            else:
                notes.append('interval_refused')
    elif call == 'offset':
        _positive(c['arg']['means'], obs['offset'], exc.get('offset'), 'offset', bad, notes, False)
    elif call == 'jitter':
        ml = c['lo']['means']
        mh = None if c['hi'] is None or c['hi']['spec'] == ['none'] else c['hi']['means']
        o = obs['jitter']
        durs = ml[0] in ('dur', 'durf') and (mh is None or mh[0] in ('dur', 'durf'))
        if o[0] == 'ok':
            lo, hi = o[1]
            if not durs:
                bad.append(f'jitter: ({ml}, {mh}) accepted as ({lo}, {hi})')
            else:
                if mh is None:
                    want_lo, want_hi = (0, 0), dur_bounds(ml)
                else:
                    want_lo, want_hi = dur_bounds(ml), dur_bounds(mh)
                if not (want_lo[0] <= lo <= want_lo[1] and want_hi[0] <= hi <= want_hi[1]):
                    bad.append(f'jitter: ({ml}, {mh}) stored as ({lo}, {hi})')
                if not lo < hi:
                    bad.append(f'jitter: an empty window ({lo}, {hi}) was accepted')
        else:
            if durs:
                a = (0, 0) if mh is None else dur_bounds(ml)
                b = dur_bounds(ml) if mh is None else dur_bounds(mh)
                if a[1] < b[0]:
                    bad.append(f'jitter: the window ({ml}, {mh}) was refused with {exc.get("jitter")}')
                else:
                    notes.append('jitter_empty_window_refused')
            else:
                notes.append('jitter_not_a_duration')
    return bad, notes
