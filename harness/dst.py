"""dst.py — check of property C20 (helpers/dst_param.py): per time zone and current year 2020-2037
  * run the real check_dst_handling / TriggerBuilder in a fresh interpreter state (TZ=<zone> subprocess, one
    forked child per year) and record TIME_FORWARD / TIME_BACKWARD and the outcome of probe times;
  * compare with the Coq model evaluated inside Coq on the zone's table extracted from `whenever`;
  * prove the sweep of this run inside Coq: per distinct table a lemma `forallb (dst_sweep_each the_tz) years
    = true` (VM evaluation) and the aggregate `Zones_sweep` / `Zones_sound` (lifted by DstFacts.sweep_lift);
  * judge the implementation's own answers with a zoneinfo scan of every day of the year (dst_oracle.py)."""
from __future__ import annotations

import collections
import hashlib
import json
import random
import re
import subprocess
import time
from concurrent.futures import ProcessPoolExecutor, ThreadPoolExecutor
from pathlib import Path

from harness import dst_coq, dst_oracle
from lib import coqrun

VERIF = Path(__file__).resolve().parent.parent
CORPUS = VERIF / 'corpus'
ZONEINFO = Path('/usr/share/zoneinfo')
COQ_TARGETS = ['theories/DstCases.vo', 'theories/DstFacts.vo']
YEARS = list(range(2020, 2038))
NS = 10**9
HOUR = 3600 * NS
DAY = 86400 * NS
CUT = 1514764800 * NS            # 2018-01-01T00:00Z: tables are used from here (gen_zones extracts 1999-2041)
GEN_LIB = 'C20Gen'
API_PROBES = 4

ZONES_QUICK = ['Europe/Berlin', 'America/New_York', 'Australia/Lord_Howe', 'America/Havana', 'America/Nuuk',
               'Africa/Casablanca', 'Asia/Tehran', 'America/Sao_Paulo', 'Pacific/Auckland', 'UTC', 'Asia/Kolkata',
               'Europe/Dublin', 'America/Scoresbysund', 'Antarctica/Troll', 'Asia/Gaza', 'Africa/Cairo']

ASSUMPTIONS = {'C20': [
    'the time-zone table of each zone (2018-2040) is extracted from whenever itself under TZ=<zone> on every run '
    '(tools/gen_zones.py, 6 h stepping + bisection); the Coq theorems speak about these tables',
    'whenever: SystemDateTime(y, m, 1) resolves an ambiguous / skipped midnight with disambiguate="compatible"; '
    'replace_time(..., disambiguate="raise") raises exactly when the local time is shown by no or by several instants',
    'current year read once: the first call of check_dst_handling decides for the life of the interpreter '
    '(a process that runs into the next year keeps the old answer; not part of the property)',
    'Zones_sweep / Zones_sound are generated into the scratch directory on every run and cover exactly the zones and '
    'years listed in the evidence (this sandbox\'s tzdata)',
]}
TRUSTED_EXTRA = {'C20': ['zoneinfo (CPython) as the reference for the day-by-day scan of the oracle',
                         'Coq VM (vm_cast_no_check at Qed) for the per-zone sweep lemmas']}
RULE = ('case = (zone, current year) with its probe times; non-trivial iff at least one wall-clock interval is skipped '
        'or repeated on a day of that year in that zone; distinct by hash of (affected intervals, year, answers)')


# --------------------------------------------------------------------------------------------------
def all_zones() -> list[str]:
    out = []
    for p in sorted(ZONEINFO.rglob('*')):
        if not p.is_file():
            continue
        rel = p.relative_to(ZONEINFO).as_posix()
        if rel.startswith(('posix/', 'right/')):
            continue
        with open(p, 'rb') as f:
            if f.read(4) != b'TZif':
                continue
        out.append(rel)
    return out


def _tables(zones: list[str]) -> dict:
    env = {'PYTHONPATH': f'{coqrun.REPO}/src', 'PATH': '/usr/bin:/bin'}

    def one(chunk):
        if not chunk:
            return {}
        r = subprocess.run(['/venv/bin/python', str(VERIF / 'tools' / 'gen_zones.py'), *chunk], env=env,
                           capture_output=True, text=True, timeout=900)
        if r.returncode != 0:
            raise RuntimeError('gen_zones failed: ' + r.stderr[-2000:])
        return json.loads(r.stdout)
    n = max(1, min(coqrun.JOBS, len(zones)))
    out = {}
    with ThreadPoolExecutor(max_workers=n) as ex:
        for d in ex.map(one, [zones[i::n] for i in range(n)]):
            out.update(d)
    return {z: trim(t) for z, t in out.items()}


def trim(t: dict) -> dict:
    init, tr = t['init'], []
    for a, b in t['trans']:
        if a < CUT:
            init = b
        else:
            tr.append([a, b])
    return {'init': init, 'trans': tr}


# -------------------------------------------------------------------------------------------------
# Python mirrors of Dst.wf_dst / Dst.affected (used to choose probes and to predict which lemma to generate; the
# Coq side re-checks both: a wrong prediction makes the generated lemma fail)
def wf_reasons(t: dict) -> list[str]:
    offs = [t['init']] + [o for _, o in t['trans']]
    ts = [a for a, _ in t['trans']]
    why = []
    chg = max([abs(b - a) for a, b in zip(offs, offs[1:])] or [0])
    if chg > 7200:
        why.append(f'a single clock change of {chg} s (> 7200 s)')
    if any(b - a < 2 * DAY for a, b in zip(ts, ts[1:])):
        why.append('two transitions less than two days apart')
    if any(abs(o) >= 86400 for o in offs):
        why.append('an offset of 24 h or more')
    return why


def _year_of_day(d: int) -> int:
    import datetime
    return (datetime.date(1970, 1, 1) + datetime.timedelta(days=d)).year


def affected(t: dict, year: int) -> list[tuple[bool, int, int]]:
    out = []
    cur = t['init']
    for ti, o in t['trans']:
        if cur < o:
            k, a, b = True, ti + cur * NS, ti + o * NS
        else:
            k, a, b = False, ti + o * NS, ti + cur * NS
        cur = o
        if not a < b:
            continue
        d = a // DAY
        while d * DAY < b:
            lo, hi = max(a, d * DAY) - d * DAY, min(b, (d + 1) * DAY) - d * DAY
            if _year_of_day(d) == year:
                out.append((k, lo, hi))
            d += 1
    return out


def probes_for(t: dict, year: int, rng: random.Random) -> list[int]:
    tods = {0, 12 * HOUR, DAY - 1, 2 * HOUR + 30 * 60 * NS}
    for _ in range(3):
        tods.add(rng.randrange(DAY))
    for _, lo, hi in affected(t, year):
        for x in (lo - 1, lo, (lo + hi) // 2, hi - 1, hi,
                  (lo // HOUR) * HOUR - 1, (lo // HOUR) * HOUR, -(-hi // HOUR) * HOUR - 1, -(-hi // HOUR) * HOUR):
            tods.add(x % DAY)
    return sorted(tods)


# --------------------------------------------------------------------------------------------------
def _impl_zone(zone: str, years: dict, scratch: Path, tag: str) -> dict:
    inp, outp = scratch / f'in_{tag}.json', scratch / f'out_{tag}.json'
    inp.write_text(json.dumps({'zone': zone, 'years': years, 'api_probes': API_PROBES}))
    env = {'PYTHONPATH': f'{coqrun.REPO}/src:{VERIF}', 'PYTHONHASHSEED': '0', 'PATH': '/usr/bin:/bin', 'TZ': zone}
    r = subprocess.run(['/venv/bin/python', '-u', '-m', 'harness.dst_runner', str(inp), str(outp)], cwd=VERIF, env=env,
                       capture_output=True, text=True, timeout=1800)
    if r.returncode != 0:
        raise RuntimeError(f'dst runner failed in {zone}: ' + r.stderr[-3000:])
    return json.loads(outp.read_text())


STUCK_PROBES_IN_COQ = 2


def _stuck(yd: dict) -> bool:
    return yd['first'][0] == 'raise' and 'already set' in yd['first'][2]


def _for_coq(yd: dict) -> dict:
    """When _setup raised ('... already set') every later call runs the whole scan again, in the model as well; only the
    first probes of such a year are evaluated inside Coq (all of them are judged by the oracle)."""
    if _stuck(yd) and len(yd['probes']) > STUCK_PROBES_IN_COQ:
        return dict(yd, probes=yd['probes'][:STUCK_PROBES_IN_COQ])
    return yd


def _judge(args):
    zone, year, ydata = args
    return zone, year, dst_oracle.judge(zone, year, ydata)


def _coqc(path: Path, scratch: Path, timeout: int = 1500) -> tuple[int, str]:
    try:
        r = subprocess.run(['coqc', '-noglob', *coqrun.COQ_ARGS, '-Q', str(scratch), GEN_LIB, str(path)],
                           capture_output=True, text=True, timeout=timeout, cwd=path.parent)
    except subprocess.TimeoutExpired:
        return 124, f'coqc timed out after {timeout}s on {path.name}'
    return r.returncode, r.stdout + r.stderr


def _run_impl(zones: list[str], tables: dict, years: list[int], rng_key: str, scratch: Path,
              extra_probes: dict | None = None) -> dict:
    jobs = {}
    for z in zones:
        key = hashlib.sha1(json.dumps(tables[z]).encode()).hexdigest()
        ys = {}
        for y in years:
            rng = random.Random(f'{rng_key}-{key}-{y}')      # zones with the same table get the same probes
            p = probes_for(tables[z], y, rng)
            if extra_probes and (z, y) in extra_probes:
                p = sorted(set(p) | set(extra_probes[(z, y)]))
            ys[str(y)] = p
        jobs[z] = ys
    tags = {z: f'{i}' for i, z in enumerate(zones)}
    with ThreadPoolExecutor(max_workers=coqrun.JOBS) as ex:
        outs = list(ex.map(lambda z: (z, _impl_zone(z, jobs[z], scratch, tags[z])), zones))
    return dict(outs)


def _oracle(outs: dict) -> tuple[list, dict]:
    work = [(z, int(y), yd) for z, r in outs.items() for y, yd in r['years'].items()]
    bad = []
    stats = collections.Counter()
    with ProcessPoolExecutor(max_workers=coqrun.JOBS) as ex:
        for z, y, (b, st) in ex.map(_judge, work, chunksize=8):
            bad += b
            stats.update(st)
    return bad, dict(stats)


# --------------------------------------------------------------------------------------------------
def run(prop: str, tier: str, seed: int, scratch: Path, replay=None, model_ok=True) -> dict:
    t_start = time.time()
    zones = list(ZONES_QUICK) if tier == 'quick' else all_zones()
    years = list(YEARS)
    extra = None
    if replay:
        payload = json.loads(Path(replay).read_text())
        c = payload['case']
        zones, years = [c['zone']], [int(c['year'])]
        extra = {(c['zone'], int(c['year'])): [int(c['tod'])]}
    else:
        d = CORPUS / prop
        if d.is_dir():
            extra = {}
            for p in sorted(d.glob('*.json')):
                c = json.loads(p.read_text())['case']
                if c['zone'] in zones and int(c['year']) in years:
                    extra.setdefault((c['zone'], int(c['year'])), []).append(int(c['tod']))
    tables = _tables(zones)
    t_tables = time.time() - t_start
    outs = _run_impl(zones, tables, years, f'{prop}-{seed}', scratch, extra)
    t_impl = time.time() - t_start - t_tables

    # ---- the property on the implementation's own answers (zoneinfo scan)
    violations, ostats = _oracle(outs)
    excluded = {z: wf_reasons(tables[z]) for z in zones if wf_reasons(tables[z])}
    spec_violations, outside = [], []
    for v in violations:
        (outside if v['case']['zone'] in excluded else spec_violations).append(v)
    t_oracle = time.time() - t_start - t_tables - t_impl

    # ---- statistics
    dist = collections.Counter()
    states = collections.Counter()
    seen = set()
    nontriv = 0
    calls = 0
    for z in zones:
        for y, yd in outs[z]['years'].items():
            if 'crash' in yd:
                states['crash'] += 1
                continue
            aff = affected(tables[z], int(y))
            dist[f'{len(aff)} affected intervals'] += 1
            calls += 3 + 4 * len(yd['probes']) + len(yd['api'])
            if _stuck(yd):
                states['ValueError: transition already set (every call)'] += 1
            elif yd['fwd'][0] == 'bool':
                states[f'bool {yd["fwd"][1]}'] += 1
            else:
                states['two intervals'] += 1
            h = hashlib.sha1(json.dumps([aff, y, yd['probes']]).encode()).hexdigest()
            if h not in seen and aff:
                nontriv += 1
            seen.add(h)

    # ---- Coq: correspondence per distinct (table, answers), sweep per distinct table
    corr_failures = []
    sweep_info: dict = {'proved': False}
    if not model_ok:
        corr_failures.append({'error': 'model does not build'})
    else:
        files = []
        case_index: dict[str, tuple[Path, list[str]]] = {}
        for z in zones:
            if any('crash' in yd for yd in outs[z]['years'].values()):
                corr_failures.append({'zone': z, 'error': 'runner crashed', 'years': outs[z]['years']})
                continue
            txt = dst_coq.cases_file(tables[z], {y: _for_coq(yd) for y, yd in outs[z]['years'].items()})
            h = hashlib.sha1(txt.encode()).hexdigest()[:16]
            if h not in case_index:
                p = scratch / f'c_{len(case_index)}.v'
                p.write_text(txt)
                case_index[h] = (p, [])
                files.append(p)
            case_index[h][1].append(z)
        by_table: dict[str, list[str]] = {}
        for z in zones:
            by_table.setdefault(json.dumps(tables[z]), []).append(z)
        sweep_mods, excl_mods = {}, {}
        for i, (key, names) in enumerate(sorted(by_table.items(), key=lambda kv: kv[1][0])):
            t = json.loads(key)
            if wf_reasons(t):
                p = scratch / f'x_{i}.v'
                p.write_text(dst_coq.excluded_file(t))
                excl_mods[p.name] = names
            else:
                p = scratch / f's_{i}.v'
                p.write_text(dst_coq.sweep_file(t, years))
                sweep_mods[p.name] = names
            files.append(p)
        t0 = time.time()
        with ThreadPoolExecutor(max_workers=coqrun.JOBS) as ex:
            results = list(ex.map(lambda p: (p, *_coqc(p, scratch)), files))
        by_name = {p.name: (rc, out) for p, rc, out in results}
        for h, (p, names) in case_index.items():
            rc, out = by_name[p.name]
            flat = ' '.join(out.split())
            m = re.search(r'= (\[.*?\]) : list \(nat \* nat\)', flat)
            if rc != 0 or not m:
                corr_failures.append({'zones': names, 'file': p.name, 'error': flat[-1500:]})
                continue
            ys = sorted(outs[names[0]]['years'], key=int)
            for ci, code in coqrun.parse_pairs(m.group(1)):
                y = ys[ci]
                yd = outs[names[0]]['years'][y]
                dout = ''
                if len(corr_failures) < 2:
                    dbg = scratch / f'dbg_{len(corr_failures)}.v'
                    dbg.write_text(dst_coq.debug_file(tables[names[0]], int(y), yd))
                    _, dout = _coqc(dbg, scratch)
                what = {0: 'both given before set-up', 1: 'first call without policy', 2: 'TIME_FORWARD', 3: 'TIME_BACKWARD',
                        4: 'repeated call', 5: 'TIME_FORWARD at the end', 6: 'TIME_BACKWARD at the end',
                        7: 'globals touched by the both-given call'}.get(code, f'probe {code - 10}')
                probe = yd['probes'][code - 10] if code >= 10 else None
                corr_failures.append({'zones': names, 'year': int(y), 'differs_at': what, 'probe': probe,
                                      'case': {'zone': names[0], 'year': int(y), 'tod': probe[0] if probe else 12 * HOUR},
                                      'implementation': {k: yd[k] for k in ('first', 'fwd', 'bwd', 'again')},
                                      'model_answers_coq': ' '.join(dout.split())[-1500:]})
        # the sweep
        good_mods, failed = [], []
        for name, names in sweep_mods.items():
            rc, out = by_name[name]
            if rc == 0:
                good_mods.append(name[:-2])
            else:
                i = name[2:-2]
                diag = scratch / f'd_{i}.v'
                diag.write_text(dst_coq.sweep_diag_file(json.loads(next(k for k, v in by_table.items() if v == names)), years))
                _, dout = _coqc(diag, scratch)
                failed.append({'zones': names, 'error': ' '.join(out.split())[-400:], 'diagnosis': ' '.join(dout.split())[-600:]})
        excl_checked = {}
        for name, names in excl_mods.items():
            rc, out = by_name[name]
            for z in names:
                excl_checked[z] = {'reasons': wf_reasons(tables[z]), 'lemma_wf_dst_false_checked': rc == 0}
            if rc != 0:
                corr_failures.append({'zones': names, 'error': 'predicted wf_dst = false, but Coq disagrees: ' + ' '.join(out.split())[-400:]})
        for f in failed:
            corr_failures.append({'error': 'dst_sweep_each is not true for this table (the model accepts an affected time, '
                                           'or the table is not well-formed)', **f})
        agg_rc, agg_out, closed = 1, '', 0
        if good_mods:
            agg = scratch / 'ZonesSweep.v'
            agg.write_text(dst_coq.aggregate_file(sorted(good_mods, key=lambda m: int(m[2:])), years, GEN_LIB))
            agg_rc, agg_out = _coqc(agg, scratch)
            closed = len(re.findall(r'Closed under the global context', agg_out))
            if agg_rc != 0 or closed != 3:
                corr_failures.append({'error': 'ZonesSweep.v (aggregate of the sweep) does not check: ' + ' '.join(agg_out.split())[-800:]})
        covered = sorted(z for name, names in sweep_mods.items() if name[:-2] in good_mods for z in names)
        sweep_info = {
            'proved': bool(good_mods) and agg_rc == 0 and closed == 3 and not failed,
            'statement': 'Zones_sound: forall z year, In z zones -> In year years -> forall tod, 0 <= tod < DAY -> accepted z year tod '
                         '-> forall day, in_year year day -> exists i, candidates z (day*DAY+tod) = [i]   (+ Zones_sound_each)',
            'print_assumptions_closed': closed, 'years': [years[0], years[-1]],
            'zones_covered': len(covered), 'distinct_tables': len(good_mods), 'zone_years': len(covered) * len(years),
            'zones': covered if len(covered) <= 40 else covered[:40] + [f'... {len(covered) - 40} more'],
            'excluded_by_wf_dst': excl_checked, 'failed': failed, 'coq_wall_s': round(time.time() - t0, 1),
            'table_window': '2018-01-01 .. 2041-01-01',
        }

    samples = []
    for z in zones[:3]:
        y = str(years[len(years) // 2])
        yd = outs[z]['years'].get(y, {})
        if 'crash' not in yd and yd:
            samples.append({'zone': z, 'year': int(y), 'TIME_FORWARD': yd['fwd'], 'TIME_BACKWARD': yd['bwd'],
                            'probe': yd['probes'][len(yd['probes']) // 2]})
    total = sum(len(r['years']) for r in outs.values())
    return {
        'evaluations': total, 'distinct_nontrivial': nontriv, 'rule': RULE, 'samples': samples,
        'corr_failures': corr_failures, 'spec_violations': spec_violations,
        'distribution': {'zones': len(zones), 'years': [years[0], years[-1]], 'affected_intervals_per_zone_year': dict(dist),
                         'setup_outcome': dict(states), 'oracle': ostats},
        'extra': {'zones_sweep': sweep_info, 'exhaustive': bool(sweep_info.get('proved')),
                  'exhaustive_over': 'the listed zones x current years 2020-2037 x all times of day x all days of the year '
                                     '(by theorem Zones_sound generated in this run)',
                  'implementation_calls': calls,
                  'probes_evaluated_in_coq_when_setup_raised': STUCK_PROBES_IN_COQ,
                  'violations_outside_quantifier (zones excluded by wf_dst)': outside[:5],
                  'zones_run': zones if len(zones) <= 40 else len(zones),
                  'wall_s': {'tables': round(t_tables, 1), 'implementation': round(t_impl, 1), 'oracle': round(t_oracle, 1)}},
    }


# --------------------------------------------------------------------------------------------------
def search(prop: str, seed: int, scratch: Path) -> list:
    """the implementation alone with the zoneinfo oracle: every zone, denser probes (every quarter of an hour)"""
    zones = all_zones()
    tables = _tables(zones)
    dense = [h * HOUR + m * 60 * NS for h in range(24) for m in (0, 15, 30, 45)]
    extra = {(z, y): dense for z in zones for y in YEARS}
    outs = _run_impl(zones, tables, YEARS, f'search-{prop}-{seed}', scratch, extra)
    bad, _ = _oracle(outs)
    bad = [v for v in bad if not wf_reasons(tables[v['case']['zone']])]
    bad.sort(key=lambda v: (len(v['case']['zone']), v['case']['year']))
    return bad


def match_known(prop: str, v: dict, known: list):
    return None


def replay_known(prop: str, f: dict, scratch: Path):
    if 'case' not in f:
        return None
    c = f['case']
    tables = _tables([c['zone']])
    outs = _run_impl([c['zone']], tables, [int(c['year'])], 'replay', scratch, {(c['zone'], int(c['year'])): [int(c['tod'])]})
    bad, _ = _oracle(outs)
    return bool(bad)
