"""sun_runner.py — subprocess entry (TZ=<zone> set by the parent): run sun-trigger cases on the implementation."""
import json
import resource
import sys
import time


def main() -> int:
    resource.setrlimit(resource.RLIMIT_AS, (6 << 30, 6 << 30))
    time.tzset()
    from harness.sun_impl import run_case
    cases = json.load(open(sys.argv[1]))
    out = [run_case(c) for c in cases]
    json.dump(out, open(sys.argv[2], 'w'))
    return 0


if __name__ == '__main__':
    sys.exit(main())
