"""getinstant_read.py — (subprocess side) build the Python argument from its JSON description and READ it
into the model's `iarg` (GetInstant.v).  Imports whenever, not eascheduler.

Two conversions are whenever's and outside the model, so whenever is asked: float seconds -> nanoseconds
(`TimeDelta(seconds=..)`) and the parsing of ISO-8601 durations / times (`parse_common_iso`).  Everything
else is plain integer arithmetic on the fields of the Python value.

argument description ("spec"):
  ['none'] ['int', n] ['myint', n] ['bool', b] ['float', f] ['floatspecial', 'nan'|'inf'|'-inf']
  ['pytd', days, secs, us] ['mytd', days, secs, us] ['td', ns]
  ['str', s] ['mystr', s]
  ['time', ns] ['pytime', H, M, S, us, fold] ['mypytime', H, M, S, us, fold] ['pytime_tz', H, M, S]
  ['naive', y, mo, d, H, M, S, us, fold] ['mynaive', ...]
  ['aware', zone, y, mo, d, H, M, S, us, fold] ['myaware', zone, ...] ['aware_fixed', off_s, y, mo, d, H, M, S, us]
  ['sysdt', ns] ['instant', ns]
  ['junk', 'list'|'complex'|'date'|'zoned'|'bytes'|'dict'|'object'|'tuple'|'offsetdt'|'localdt']
"""
from __future__ import annotations

import datetime as dt
from zoneinfo import ZoneInfo

from whenever import (
    Instant, LocalDateTime, OffsetDateTime, SystemDateTime, Time, TimeDelta, ZonedDateTime,
)

NS = 10**9
DAY = 86400 * NS
EPOCH_ORD = dt.date(1970, 1, 1).toordinal()
EPOCH_UTC = dt.datetime(1970, 1, 1, tzinfo=dt.timezone.utc)


class MyInt(int):
    pass


class MyStr(str):
    pass


class MyTimedelta(dt.timedelta):
    pass


class MyTime(dt.time):
    pass


class MyDatetime(dt.datetime):
    pass


def build(spec):
    k = spec[0]
    if k == 'none':
        return None
    if k == 'int':
        return int(spec[1])
    if k == 'myint':
        return MyInt(spec[1])
    if k == 'bool':
        return bool(spec[1])
    if k == 'float':
        return float(spec[1])
    if k == 'floatspecial':
        return float(spec[1])
    if k == 'pytd':
        return dt.timedelta(days=spec[1], seconds=spec[2], microseconds=spec[3])
    if k == 'mytd':
        return MyTimedelta(days=spec[1], seconds=spec[2], microseconds=spec[3])
    if k == 'td':
        return TimeDelta(nanoseconds=spec[1])
    if k == 'str':
        return str(spec[1])
    if k == 'mystr':
        return MyStr(spec[1])
    if k == 'time':
        s, n = divmod(spec[1], NS)
        return Time(s // 3600, (s // 60) % 60, s % 60, nanosecond=n)
    if k == 'pytime':
        return dt.time(spec[1], spec[2], spec[3], spec[4], fold=spec[5])
    if k == 'mypytime':
        return MyTime(spec[1], spec[2], spec[3], spec[4], fold=spec[5])
    if k == 'pytime_tz':
        return dt.time(spec[1], spec[2], spec[3], tzinfo=dt.timezone.utc)
    if k == 'naive':
        return dt.datetime(*spec[1:8], fold=spec[8])
    if k == 'mynaive':
        return MyDatetime(*spec[1:8], fold=spec[8])
    if k == 'aware':
        return dt.datetime(*spec[2:9], fold=spec[9], tzinfo=ZoneInfo(spec[1]))
    if k == 'myaware':
        return MyDatetime(*spec[2:9], fold=spec[9], tzinfo=ZoneInfo(spec[1]))
    if k == 'aware_fixed':
        return dt.datetime(*spec[2:9], tzinfo=dt.timezone(dt.timedelta(seconds=spec[1])))
    if k == 'sysdt':
        return Instant.from_timestamp_nanos(spec[1]).to_system_tz()
    if k == 'instant':
        return Instant.from_timestamp_nanos(spec[1])
    if k == 'junk':
        j = spec[1]
        return {'list': [1], 'complex': 3 + 4j, 'date': dt.date(2025, 3, 30), 'bytes': b'08:00:00', 'dict': {},
                'object': object(), 'tuple': (8, 0),
                'zoned': ZonedDateTime(2025, 3, 30, 8, 0, tz='Asia/Tokyo'),
                'offsetdt': OffsetDateTime(2025, 3, 30, 8, 0, offset=2),
                'localdt': LocalDateTime(2025, 3, 30, 8, 0)}[j]
    raise ValueError(k)


class Outside(Exception):
    """the conversion that whenever is asked for failed with something that is neither ValueError nor
    TypeError (e.g. OverflowError for a huge int): the case is not comparable with the model"""


def _num(v) -> list:
    try:
        return ['ANum', TimeDelta(seconds=v).in_nanoseconds()]
    except ValueError:
        return ['ABadValue']
    except Exception as e:  # noqa: BLE001
        raise Outside(type(e).__name__) from None


def _pytd(v: dt.timedelta) -> list:
    ns = ((v.days * 86400 + v.seconds) * 10**6 + v.microseconds) * 1000
    try:
        got = TimeDelta.from_py_timedelta(v).in_nanoseconds()
    except ValueError:
        return ['ABadValue']          # beyond whenever's range
    assert got == ns
    return ['ADelta', ns]


def _tod_of(t: Time) -> int:
    return ((t.hour * 60 + t.minute) * 60 + t.second) * NS + t.nanosecond


def _pytime(v: dt.time) -> list:
    if v.tzinfo is not None:
        return ['ABadValue']          # Time.from_py_time: ValueError
    return ['ATime', ((v.hour * 60 + v.minute) * 60 + v.second) * NS + v.microsecond * 1000]


def _duration_str(s: str):
    try:
        return TimeDelta.parse_common_iso(s).in_nanoseconds()
    except ValueError:
        return None


def _time_str(s: str):
    try:
        return _tod_of(Time.parse_common_iso(s))
    except ValueError:
        return None


def read_duration(v) -> list:
    """the reading of get_timedelta's argument"""
    if isinstance(v, dt.timedelta):
        return _pytd(v)
    if isinstance(v, TimeDelta):
        return ['ADelta', v.in_nanoseconds()]
    if isinstance(v, (int, float)):
        return _num(v)
    if isinstance(v, str):
        d = _duration_str(v)
        return ['AIsoDuration', d] if d is not None else ['ABadValue']
    # the remaining constructors only matter through their class: all are TypeErrors for get_timedelta
    if v is None:
        return ['ANone']
    if isinstance(v, Time):
        return ['ATime', _tod_of(v)]
    if isinstance(v, dt.time):
        return ['ATime', 0] if v.tzinfo is not None else _pytime(v)
    if isinstance(v, Instant):
        return ['AInstant', v.timestamp_nanos()]
    if isinstance(v, SystemDateTime):
        return ['ASystem', v.timestamp_nanos()]
    if isinstance(v, dt.datetime):
        return ['AAware', 0] if v.tzinfo is not None else ['ANaive', 0]
    return ['ABad']


def read_instant(v) -> list:
    """the reading of get_instant's argument"""
    if v is None:
        return ['ANone']
    if isinstance(v, dt.datetime):
        if v.tzinfo is None:
            days = v.date().toordinal() - EPOCH_ORD
            return ['ANaive', days * DAY + ((v.hour * 60 + v.minute) * 60 + v.second) * NS + v.microsecond * 1000]
        d = v - EPOCH_UTC        # aware arithmetic: datetime's own utcoffset() rules (PEP 495)
        return ['AAware', ((d.days * 86400 + d.seconds) * 10**6 + d.microseconds) * 1000]
    if isinstance(v, SystemDateTime):
        return ['ASystem', v.timestamp_nanos()]
    if isinstance(v, Instant):
        return ['AInstant', v.timestamp_nanos()]
    if isinstance(v, dt.timedelta):
        return _pytd(v)
    if isinstance(v, TimeDelta):
        return ['ADelta', v.in_nanoseconds()]
    if isinstance(v, (int, float)):
        return _num(v)
    if isinstance(v, str):
        d = _duration_str(v)
        if d is not None:
            return ['AIsoDuration', d]
        t = _time_str(v)
        return ['ATime', t] if t is not None else ['ABadValue']
    if isinstance(v, Time):
        return ['ATime', _tod_of(v)]
    if isinstance(v, dt.time):
        return _pytime(v)
    return ['ABad']
