"""getinstant_coq.py — print C19 cases as Coq terms (GetInstantCases.ccase)."""
from __future__ import annotations

from harness.prod_coq import coq_tz, z


def iarg(r) -> str:
    return r[0] if len(r) == 1 else f'({r[0]} {z(r[1])})'


def res_z(o) -> str:
    return f'(Ok {z(o[1])})' if o[0] == 'ok' else f'(Raise {o[1]})'


def res_interval(o) -> str:
    if o[0] != 'ok':
        return f'(Raise {o[1]})'
    s, d = o[1]
    return f'(Ok ({"None" if s is None else f"Some {z(s)}"}, {z(d)}))'


def res_pair(o) -> str:
    if o[0] != 'ok':
        return f'(Raise {o[1]})'
    return f'(Ok ({z(o[1][0])}, {z(o[1][1])}))'


def coq_cases(c: dict) -> list[str]:
    """one harness case -> the Coq cases it stands for ('instant' gives two)"""
    call, rd, obs = c['call'], c['reads'], c['obs']
    now = z(c['now'])
    if call == 'instant':
        a = iarg(rd['arg'])
        return [f'CGet {now} {a} {res_z(obs["get"])}', f'COnce {now} {a} {res_z(obs["once"])}']
    if call == 'countdown':
        return [f'CCountdown {iarg(rd["arg"])} {res_z(obs["countdown"])}']
    if call == 'interval':
        return [f'CInterval {now} {iarg(rd["start"])} {iarg(rd["iv"])} {res_interval(obs["interval"])}']
    if call == 'offset':
        return [f'COffset {iarg(rd["arg"])} {res_z(obs["offset"])}']
    if call == 'jitter':
        hi = 'None' if rd['hi'] is None else f'(Some {iarg(rd["hi"])})'
        return [f'CJitter {iarg(rd["lo"])} {hi} {res_pair(obs["jitter"])}']
    raise ValueError(call)


HEADER = 'From EAS Require Import Base Civil Time GetInstant GetInstantCases.\n'


def cases_file(terms: list[str], tztab: dict) -> str:
    return (HEADER + f'Definition the_tz : tz := {coq_tz(tztab)}.\n'
            'Definition cases : list ccase := [\n  ' + ';\n  '.join(terms) + '\n].\n'
            'Eval vm_compute in (mismatches the_tz cases).\n'
            'Eval vm_compute in (outside_hypothesis the_tz cases).\n'
            'Eval vm_compute in (wf_tz_b the_tz).\n')


def debug_file(term: str, tztab: dict) -> str:
    return (HEADER + f'Definition the_tz : tz := {coq_tz(tztab)}.\n'
            f'Eval vm_compute in (case_model the_tz ({term})).\n')
