"""taskmgr_impl.py — drive the REAL task managers of eascheduler on the virtual loop, one loop handle at a
time, with instrumented coroutines, and observe everything after every event.  Used by the C11 / C12 checks.

Case format (JSON-able dict):
  mgr   ['seq'] | ['seqlim', max_queue, 'skip'|'skip_first'|'skip_last'] | ['dedup'] | ['par']
        | ['parlim', parallel, 'skip'|'cancel_first'|'cancel_last']
  evs   list of concrete events (coroutines are numbers, fresh for every submission):
          ['submit', cid, key]  ['resolve', cid]  ['fail', cid]  ['cancel', cid]
          ['run'|'tick', [[[[cid, key], ...], next], ...]]      next in 'park' | 'fin' | 'raise' | 'ret'
        the behaviours of a run / tick are consumed by the bodies resumed in it: submissions from inside, then
        park on a new future / finish (fin: return or re-raise what woke it; raise; ret: return regardless)
  gen   instead of evs: {'seed', 'profile', 'n'} - the trace is generated adaptively (harness/taskmgr_gen.py)
        and returned in concrete form

How the loop is driven: nothing runs unless the harness says so.  'run' pops the left-most handle of
loop._ready and runs it (exactly what BaseEventLoop._run_once does per handle), 'tick' calls the real
loop._run_once().  Submissions / future resolutions / cancellations from outside happen between handles.
"""
from __future__ import annotations

import asyncio
import inspect
import json
import random
import warnings
import weakref
from asyncio import events as aio_events
from collections import deque

from eascheduler.task_managers import (
    LimitingParallelTaskManager,
    LimitingSequentialTaskManager,
    ParallelTaskManager,
    SequentialDeduplicatingTaskManager,
    SequentialTaskManager,
)

from harness.taskmgr_gen import next_event
from lib.vloop import virtual_time

WAKE = {'res': 0, 'exc': 1, 'canc': 2}
BAD = 15          # no phase of the model has this code


class UserErr(Exception):
    pass


PYKEYS = {0: 0, 1: -1, 2: -2, 3: 2**61 - 1, 4: 'four', 5: (5,)}


def _spell(policy: str, own_enum, how: int):
    """the policy as a string, as the manager's own enum member, or as a member of an application's str enum with the same
    value (all three are accepted spellings: to_enum converts by value)"""
    if how == 1:
        return own_enum(policy)
    if how == 2:
        import enum
        return enum.Enum('AppPolicy', {'CHOSEN': policy, 'OTHER': 'x'}, type=str).CHOSEN
    return policy


def build_manager(spec, how: int = 0):
    k = spec[0]
    if k == 'seqlim' and how:
        from eascheduler.task_managers.sequential import SequentialTaskPolicy
        return LimitingSequentialTaskManager(spec[1], _spell(spec[2], SequentialTaskPolicy, how))
    if k == 'parlim' and how:
        from eascheduler.task_managers.parallel import ParallelTaskPolicy
        return LimitingParallelTaskManager(spec[1], _spell(spec[2], ParallelTaskPolicy, how))
    if k == 'seq':
        return SequentialTaskManager()
    if k == 'seqlim':
        return LimitingSequentialTaskManager(spec[1], spec[2])
    if k == 'dedup':
        return SequentialDeduplicatingTaskManager()
    if k == 'par':
        return ParallelTaskManager()
    if k == 'parlim':
        return LimitingParallelTaskManager(spec[1], spec[2])
    raise ValueError(spec)


class Runtime:
    def __init__(self, case, loop) -> None:
        self.case, self.loop = case, loop
        self.kind = case['mgr'][0]
        import zlib
        self.mgr = build_manager(case['mgr'], zlib.crc32(json.dumps(case, sort_keys=True, default=str).encode()) % 3)
        self.coros: dict[int, object] = {}
        self.coro_cid: dict[int, int] = {}          # id(coroutine) -> cid (coroutines are kept alive here)
        self.keys: dict[int, int] = {}
        self.order: list[int] = []
        self.tasks = weakref.WeakValueDictionary()  # cid -> Task  (weak: the manager has to keep it alive)
        self.task_cid = weakref.WeakKeyDictionary()
        self.has_task: set[int] = set()
        self.done_tasks: dict[int, asyncio.Task] = {}
        self.futs: dict[int, asyncio.Future] = {}
        self.started: list[int] = []
        self.entlog: list[int] = []
        self.entered: set[int] = set()
        self.exited: set[int] = set()
        self.closed: list[int] = []
        self.mcanc: list[int] = []
        self.bs: deque = deque()
        self.flag = False
        self.evi = 0
        self.next_cid = 0
        self.log: list = []          # ['enter'|'exit', cid, event index]
        self.subobs: list = []       # one record per manager.create_task call
        self.loop_errors: list = []
        loop.set_task_factory(self._factory)
        loop.set_exception_handler(lambda l, ctx: self.loop_errors.append(
            [self.evi, str(ctx.get('message')), type(ctx.get('exception')).__name__]))

    # -- instrumentation ------------------------------------------------------------------------------
    def _factory(self, loop, coro, **kw):
        task = asyncio.Task(coro, loop=loop, **kw)
        cid = self.coro_cid.get(id(coro), 999)
        self.tasks[cid] = task
        self.task_cid[task] = cid
        self.has_task.add(cid)
        self.started.append(cid)
        return task

    def take_beh(self):
        if self.bs:
            return self.bs.popleft()
        return [[], 'fin']

    async def body(self, cid: int):
        self.entlog.append(cid)
        self.entered.add(cid)
        self.log.append(['enter', cid, self.evi])
        saved = None
        while True:
            subs, nxt = self.take_beh()
            for c, k in subs:
                self.submit(c, k, inside=cid)
            if nxt == 'park':
                fut = self.loop.create_future()
                self.futs[cid] = fut
                try:
                    await fut
                    saved = None
                except UserErr as e:
                    saved = e
                except asyncio.CancelledError as e:
                    saved = e
                continue
            self.exited.add(cid)
            self.log.append(['exit', cid, self.evi])
            if nxt == 'raise':
                raise UserErr(cid)
            if nxt == 'ret' or saved is None:
                return
            raise saved

    # -- views of the manager ---------------------------------------------------------------------------
    def cid_of_task(self, t) -> int | None:
        if t is None:
            return None
        return self.task_cid.get(t, 999)

    def view_queue(self):
        m = self.mgr
        if self.kind in ('seq', 'seqlim'):
            cids = [self.coro_cid.get(id(c), 999) for c, _ in m.queue]
            return cids, [self.keys.get(c, 0) for c in cids]
        if self.kind == 'dedup':
            back = {v: k for k, v in PYKEYS.items()}
            return [self.coro_cid.get(id(v[0]), 999) for v in m.queue.values()], [back.get(k, k) for k in m.queue.keys()]
        return [], []

    def view_tracked(self):
        if self.kind == 'par':
            return sorted(self.cid_of_task(t) for t in self.mgr.tasks)
        if self.kind == 'parlim':
            return [self.cid_of_task(t) for t in self.mgr.tasks]
        return []

    def view_running(self):
        if self.kind in ('par', 'parlim'):
            return None
        return self.cid_of_task(self.mgr.task)

    def view_ready(self):
        out = []
        for h in self.loop._ready:
            cb = h._callback
            slf = getattr(cb, '__self__', None)
            if isinstance(slf, asyncio.Task):
                out.append(2 * self.cid_of_task(slf))
            elif len(h._args) == 1 and isinstance(h._args[0], asyncio.Task):      # a done-callback of that task
                out.append(2 * self.cid_of_task(h._args[0]) + 1)
            else:
                out.append(1999)
        return out

    def phase(self, cid: int, ready: list[int]) -> tuple[int, bool]:
        coro = self.coros[cid]
        st = inspect.getcoroutinestate(coro)
        if cid not in self.has_task:
            return {'CORO_CREATED': 1, 'CORO_CLOSED': 2}.get(st, BAD), False
        task = self.done_tasks.get(cid) or self.tasks.get(cid)
        if task is None:
            return BAD, False                    # a task that was not done disappeared
        if task.done():
            self.done_tasks[cid] = task
            if task.cancelled():
                kind = 2
            elif task.exception() is not None:
                kind = 1
            else:
                kind = 0
            return (9 if 2 * cid + 1 in ready else 12) + kind, bool(task._must_cancel)
        mcf = bool(task._must_cancel)
        if st == 'CORO_CREATED':
            return 3, mcf
        if st == 'CORO_RUNNING':
            return 4, mcf
        if st == 'CORO_SUSPENDED':
            fut = self.futs.get(cid)
            if fut is None or task._fut_waiter is not fut:
                return BAD, mcf
            if not fut.done():
                return 5, mcf
            if fut.cancelled():
                return 8, mcf
            return (7 if fut.exception() is not None else 6), mcf
        return BAD, mcf

    def observe(self) -> dict:
        ready = self.view_ready()
        q, qk = self.view_queue()
        cids, states = [], []
        for cid in self.order:
            p, mcf = self.phase(cid, ready)
            cids.append(p + (16 if mcf else 0) + (32 if cid in self.entered else 0))
            states.append(inspect.getcoroutinestate(self.coros[cid]))
        return {
            'flag': self.flag, 'running': self.view_running(), 'queue': q, 'qkeys': qk,
            'tracked': self.view_tracked(), 'ready': ready, 'cids': cids, 'started': list(self.started),
            'entlog': list(self.entlog), 'closed': list(self.closed), 'mcanc': list(self.mcanc),
            # for the oracles only (not compared with the model)
            'corostate': states, 'active': sorted(self.entered - self.exited),
        }

    # -- requests ---------------------------------------------------------------------------------------
    def _closed_now(self) -> list[int]:
        return [c for c in self.order if c not in self.has_task and c not in self.closed
                and inspect.getcoroutinestate(self.coros[c]) == 'CORO_CLOSED']

    def submit(self, cid: int, key: int, inside=None) -> None:
        if cid in self.coros:
            self.flag = True
            return
        coro = self.body(cid)
        self.coros[cid] = coro
        self.coro_cid[id(coro)] = cid
        self.keys[cid] = key
        self.order.append(cid)
        q0, _ = self.view_queue()
        t0 = self.view_tracked()
        r0 = self.view_running()
        n0 = len(self.started)
        raised = None
        try:
            if self.kind == 'dedup':
                # the model's key numbers stand for arbitrary hashable keys; some of them collide under hash()
                # (hash(-1) == hash(-2) == -2 in CPython, hash(2**61 - 1) == hash(0))
                ret = self.mgr.create_task(coro, PYKEYS.get(key, key))
            else:
                ret = self.mgr.create_task(coro)
        except Exception as e:  # noqa: BLE001   (a submission must not raise: judged by the oracle)
            ret, raised = None, type(e).__name__
        newly_closed = self._closed_now()
        self.closed += newly_closed
        t1 = self.view_tracked()
        victims = [c for c in t0 if c not in t1]
        self.mcanc += victims
        q1, qk1 = self.view_queue()
        self.subobs.append({
            'ev': self.evi, 'inside': inside, 'cid': cid, 'key': key, 'q0': q0, 'q1': q1, 'qk1': qk1,
            'run0': r0, 'run1': self.view_running(), 't0': t0, 't1': t1, 'closed': newly_closed,
            'victims': victims, 'victim_state': [self._cancel_state(v) for v in victims],
            'ret': self.cid_of_task(ret) if ret is not None else None, 'started': self.started[n0:], 'raised': raised,
        })

    def _cancel_state(self, cid: int):
        t = self.done_tasks.get(cid) or self.tasks.get(cid)
        if t is None:
            return 'gone'
        if t.done():
            return 'done'
        f = t._fut_waiter
        return 'must_cancel' if t._must_cancel else ('fut_cancelled' if f is not None and f.cancelled() else 'NOT-CANCELLED')

    def settle(self, cid: int, how: str) -> None:
        fut = self.futs.get(cid)
        t = self.tasks.get(cid)
        if fut is None or fut.done() or t is None or t.done() or t._fut_waiter is not fut:
            self.flag = True
            return
        if how == 'resolve':
            fut.set_result(None)
        else:
            fut.set_exception(UserErr(cid))

    def cancel(self, cid: int) -> None:
        t = self.done_tasks.get(cid) or self.tasks.get(cid)
        if cid not in self.has_task or t is None:
            self.flag = True
            return
        t.cancel()

    def run_handles(self, kind: str, bs) -> None:
        if not self.loop._ready:
            self.flag = True
            return
        self.bs = deque(bs)
        if kind == 'tick':
            self.loop._run_once()
        else:
            h = self.loop._ready.popleft()
            if not h._cancelled:
                h._run()
        self.bs = deque()

    # -- adaptive generation ----------------------------------------------------------------------------
    def fresh(self) -> int:
        c = self.next_cid
        self.next_cid += 1
        return c

    def view(self, frac: float) -> dict:
        ready = self.view_ready()
        phs = {c: self.phase(c, ready)[0] for c in self.order}
        return {
            'parked': [c for c, p in phs.items() if p == 5], 'created': [c for c, p in phs.items() if p == 3],
            'waking': [c for c, p in phs.items() if 6 <= p <= 8], 'done': [c for c, p in phs.items() if p >= 9],
            'task': [c for c, p in phs.items() if p >= 3], 'known': list(self.order), 'ready': ready,
            'phase_of_trace': frac,
        }

    def apply(self, ev: list) -> None:
        k = ev[0]
        if k == 'submit':
            self.next_cid = max(self.next_cid, ev[1] + 1)
            self.submit(ev[1], ev[2])
        elif k in ('resolve', 'fail'):
            self.settle(ev[1], k)
        elif k == 'cancel':
            self.cancel(ev[1])
        elif k in ('run', 'tick'):
            for subs, _ in ev[1]:
                for c, _k in subs:
                    self.next_cid = max(self.next_cid, c + 1)
            self.run_handles(k, ev[1])
        else:
            raise ValueError(ev)

    def shutdown(self) -> None:
        """leave nothing pending: cancel what lives, run the loop dry, close what never started"""
        for _ in range(200):
            for cid in list(self.has_task):
                t = self.tasks.get(cid)
                if t is not None and not t.done():
                    t.cancel()
            if not self.loop._ready:
                break
            self.loop._run_once()
        for cid, coro in self.coros.items():
            if inspect.getcoroutinestate(coro) == 'CORO_CREATED':
                coro.close()


def run_case(case: dict) -> dict:
    """-> {'case': concrete case, 'obs': [observation per event], 'sub': [...], 'log': [...], 'errors': [...]}"""
    obs: list = []
    concrete: list = []
    with warnings.catch_warnings():
        warnings.simplefilter('ignore')
        with virtual_time(0) as (_clock, loop):
            asyncio.set_event_loop(loop)
            aio_events._set_running_loop(loop)
            rt = None
            try:
                rt = Runtime(case, loop)
                if 'gen' in case:
                    g = case['gen']
                    rng = random.Random(g['seed'])
                    for i in range(g['n']):
                        rt.evi = i
                        rt.flag = False
                        cev = next_event(rng, g['profile'], rt.view(i / g['n']), rt.fresh)
                        rt.apply(cev)
                        concrete.append(cev)
                        obs.append(rt.observe())
                else:
                    for i, ev in enumerate(case['evs']):
                        rt.evi = i
                        rt.flag = False
                        rt.apply(ev)
                        concrete.append(list(ev))
                        obs.append(rt.observe())
                final_errors = list(rt.loop_errors)
                rt.evi = len(concrete)
                rt.shutdown()
            finally:
                aio_events._set_running_loop(None)
                asyncio.set_event_loop(None)
    ccase = {'mgr': case['mgr'], 'evs': concrete}
    ccase['profile'] = case['gen']['profile'] if 'gen' in case else case.get('profile', 'replay')
    return {'case': ccase, 'obs': obs, 'sub': rt.subobs, 'log': rt.log, 'errors': final_errors}
