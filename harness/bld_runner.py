"""bld_runner.py — subprocess entry: run builder programs through the PUBLIC TriggerBuilder / FilterBuilder API
and describe, after every call, the structure of EVERY object created so far."""
import json
import resource
import sys
import time


def tod_time(ns):
    from whenever import Time
    s, n = divmod(ns, 10**9)
    return Time(s // 3600, (s // 60) % 60, s % 60, nanosecond=n)


def time_ns(t):
    return ((t.hour * 60 + t.minute) * 60 + t.second) * 10**9 + t.nanosecond


def describe_filter(f):
    from eascheduler.producers import prod_filter as pf
    if f is None:
        return None
    if isinstance(f, pf.AnyGroupProducerFilter):
        return ['any', [describe_filter(x) for x in f._filters]]
    if isinstance(f, pf.AllGroupProducerFilter):
        return ['all', [describe_filter(x) for x in f._filters]]
    if isinstance(f, pf.InvertingProducerFilter):
        return ['not', describe_filter(f._filter)]
    if isinstance(f, pf.TimeProducerFilter):
        return ['time', time_ns(f._lower) if f._lower is not None else None, time_ns(f._upper) if f._upper is not None else None]
    if isinstance(f, pf.DayOfWeekProducerFilter):
        return ['weekday', sorted(f._weekdays)]
    if isinstance(f, pf.DayOfMonthProducerFilter):
        return ['day', sorted(f._days)]
    if isinstance(f, pf.MonthOfYearProducerFilter):
        return ['month', sorted(f._months)]
    return ['unknown', type(f).__name__]


def secs_ns(x):
    from whenever import TimeDelta
    return TimeDelta(seconds=x).in_nanoseconds()


def describe(p):
    from eascheduler.producers import prod_group, prod_interval, prod_operation as po, prod_time
    f = describe_filter(p._filter)
    if isinstance(p, prod_time.TimeProducer):
        r = p._time
        return ['time', time_ns(r._time), r._skipped.value, r._repeated.value, f]
    if isinstance(p, prod_interval.IntervalProducer):
        return ['interval', p._next.timestamp_nanos() if p._next is not None else None, secs_ns(p._interval), f]
    if isinstance(p, prod_group.GroupProducer):
        return ['group', [describe(m) for m in p._producers], f]
    if isinstance(p, po.OffsetProducerOperation):
        return ['offset', describe(p._producer), secs_ns(p.offset), f]
    if isinstance(p, po.EarliestProducerOperation):
        r = p.earliest
        return ['earliest', describe(p._producer), time_ns(r._time), r._skipped.value, r._repeated.value, f]
    if isinstance(p, po.LatestProducerOperation):
        r = p.latest
        return ['latest', describe(p._producer), time_ns(r._time), r._skipped.value, r._repeated.value, f]
    if isinstance(p, po.JitterProducerOperation):
        return ['jitter', describe(p._producer), secs_ns(p.low), secs_ns(p.high), f]
    return ['unknown', type(p).__name__]


def reachable_ids(p, acc):
    """ids of every producer / filter object reachable from a producer"""
    acc.add(id(p))
    f = getattr(p, '_filter', None)
    stack = [f] if f is not None else []
    while stack:
        x = stack.pop()
        acc.add(id(x))
        for y in getattr(x, '_filters', ()) or ():
            stack.append(y)
        if getattr(x, '_filter', None) is not None and x is not p:
            stack.append(x._filter)
    for m in getattr(p, '_producers', ()) or ():
        reachable_ids(m, acc)
    if getattr(p, '_producer', None) is not None:
        reachable_ids(p._producer, acc)
    return acc


def run_case(case):
    from whenever import Instant, TimeDelta
    from eascheduler.builder import FilterBuilder as F, TriggerBuilder as T
    from eascheduler.builder.filters import FilterObject
    from eascheduler.builder.triggers import TriggerObject, _get_producer
    from harness import prod_impl
    prod_impl.prod_operation.uniform = lambda a, b: a + 0.5 * (b - a)      # a fixed random source

    objs = []
    snaps = []
    shared = []
    for op in case['ops']:
        k = op[0]
        try:
            if k == 'time':
                o = T.time(tod_time(op[1]), clock_forward=op[2], clock_backward=op[3])
            elif k == 'interval':
                o = T.interval(Instant.from_timestamp_nanos(op[1]) if op[1] is not None else None, TimeDelta(nanoseconds=op[2]))
            elif k == 'group':
                o = T.group(*[objs[i] for i in op[1]])
            elif k == 'offset':
                o = objs[op[1]].offset(TimeDelta(nanoseconds=op[2]))
            elif k in ('earliest', 'latest'):
                o = getattr(objs[op[1]], k)(tod_time(op[2]), clock_forward=op[3], clock_backward=op[4])
            elif k == 'jitter':
                o = objs[op[1]].jitter(TimeDelta(nanoseconds=op[2]), TimeDelta(nanoseconds=op[3]))
            elif k == 'only_on':
                o = (objs[op[1]].only_on if op[3] else objs[op[1]].only_at)(objs[op[2]])
            elif k == 'any':
                o = F.any(*[objs[i] for i in op[1]])
            elif k == 'all':
                o = F.all(*[objs[i] for i in op[1]])
            elif k == 'not':
                o = F.not_(objs[op[1]])
            elif k == 'ftime':
                o = F.time(tod_time(op[1]) if op[1] is not None else None, tod_time(op[2]) if op[2] is not None else None)
            elif k == 'weekday':
                o = F.weekdays(op[1])
            elif k == 'day':
                o = F.days(op[1])
            elif k == 'month':
                o = F.months(op[1])
            else:
                raise AssertionError(k)
        except Exception as e:  # noqa: BLE001
            o = ('err', type(e).__name__)
        objs.append(o)
        snap = []
        for x in objs:
            if isinstance(x, TriggerObject):
                snap.append(['trig', describe(x._producer)])
            elif isinstance(x, FilterObject):
                snap.append(['filt', describe_filter(x._filter)])
            else:
                snap.append(['err', x[1]])
        snaps.append(snap)
        # no two builder objects may share a producer / filter object
        seen = {}
        for i, x in enumerate(objs):
            if isinstance(x, TriggerObject):
                ids = reachable_ids(x._producer, set())
            elif isinstance(x, FilterObject):
                ids = reachable_ids(type('P', (), {'_filter': x._filter})(), set())
                ids = {j for j in ids if j != id(x)} - {max(ids, default=0)} if False else ids
            else:
                continue
            for j in ids:
                if j in seen and seen[j] != i and not (isinstance(x, FilterObject)):
                    if isinstance(objs[seen[j]], TriggerObject):
                        shared.append([seen[j], i])
                seen.setdefault(j, i)
    # purity of queries: ask every trigger object, ask the others in between, ask again, and ask a fresh equivalent
    queries = []
    late = []
    trigs = [i for i, x in enumerate(objs) if isinstance(x, TriggerObject)]
    for i in trigs[:6]:
        p = _get_producer(objs[i])
        d = snaps[-1][i][1]
        dj = json.dumps(d)
        # an interval without start is defined from its first query on: a fresh one has a different grid
        fresh_ok = 'unknown' not in dj and '["interval", null' not in dj
        B = 0.15
        for dt in case['probes']:
            a = prod_impl.query(p, dt, B)
            if a[0] == 'budget':
                break           # a trigger that practically never fires (contradictory filter): nothing to compare
            for j in trigs[:6]:
                if j != i:
                    prod_impl.query(_get_producer(objs[j]), dt + 12345, B)
                    prod_impl.query(objs[j]._producer, dt - 777, B)
            b = prod_impl.query(p, dt, B)
            # a trigger built afresh for THIS query: it has no history at all
            c = prod_impl.query(prod_impl.build(d), dt, B) if fresh_ok else None
            orig = prod_impl.query(objs[i]._producer, dt, B)
            queries.append([i, dt, a, b, c, orig])
        # a copy taken AFTER the object has been queried (what offset / only_on / group / JobBuilder.at do with a
        # trigger that is already in use) answers like the object itself, also off the instants asked so far
        q = _get_producer(objs[i])
        for dt in case['probes']:
            x = prod_impl.query(q, dt + 999_983, B)
            y = prod_impl.query(objs[i]._producer, dt + 999_983, B)
            if 'budget' in (x[0], y[0]):
                break
            late.append([i, dt + 999_983, x, y])
    return {'ops': case['ops'], 'probes': case['probes'], 'snaps': snaps, 'shared': shared, 'queries': queries,
            'late': late}


def holiday_probe() -> list:
    """holiday / work-day filters with their OWN holiday object while other holidays are set up globally: the filter object,
    its copies and everything derived from it through the builder answer alike (C15); the holiday calendar itself is
    an oracle (package `holidays`), only agreement between the objects is judged"""
    bad = []
    try:
        from holidays import country_holidays
        import eascheduler
        from eascheduler.builder import FilterBuilder as F, TriggerBuilder as T
        from eascheduler.builder.triggers import _get_producer
        from eascheduler.producers import prod_filter_holiday as pfh
        from whenever import SystemDateTime
    except Exception as e:  # noqa: BLE001
        return [f'holiday probe could not start: {type(e).__name__}: {e}']
    old = pfh.HOLIDAYS
    try:
        pfh.HOLIDAYS = None
        eascheduler.setup_holidays('DE', 'BE')
        own = country_holidays('US')
        noon = T.time('12:00:00', clock_forward='skip', clock_backward='earlier')
        for name, mk in (('holidays', F.holidays), ('work_days', F.work_days), ('not_work_days', F.not_work_days)):
            f = mk(own)
            direct = noon.only_on(f)
            variants = {
                'only_on(f)': direct._producer,
                'copy of the producer': _get_producer(direct),
                'only_on(all(f))': _get_producer(noon.only_on(F.all(f))),
                'only_on(not_(not_(f)))': _get_producer(noon.only_on(F.not_(F.not_(f)))),
                'only_on(f).offset(0)': _get_producer(direct.offset(0)),
                'group(only_on(f))': _get_producer(T.group(direct)),
            }
            for ref in (SystemDateTime(2024, 6, 28).instant(), SystemDateTime(2024, 9, 30).instant(),
                        SystemDateTime(2024, 11, 25).instant(), SystemDateTime(2025, 1, 17).instant()):
                base = _get_producer(noon)
                base._filter = f._filter            # the filter object itself, not a copy of it
                a = base.get_next(ref)
                for what, p in variants.items():
                    b = p.get_next(ref)
                    if a != b:
                        bad.append(f'{name}(own holiday object): the trigger answers {a.to_system_tz()} after {ref.to_system_tz()}, '
                                   f'{what} answers {b.to_system_tz()}')
    except Exception as e:  # noqa: BLE001
        bad.append(f'holiday probe raised {type(e).__name__}: {e}')
    finally:
        pfh.HOLIDAYS = old
    return bad[:4]


def jobs_probe() -> list:
    """'jobs built from the same trigger object do not influence one another' (C15): two jobs are built from ONE trigger
    object at different instants; the second job's first run is what a copy of the trigger object answers at that instant,
    and the first job keeps its own"""
    import asyncio
    from eascheduler.builder import TriggerBuilder as T
    from eascheduler.builder.jobs import JobBuilder
    from eascheduler.builder.triggers import _get_producer
    from eascheduler.executor.base import SyncExecutor
    from eascheduler.schedulers.async_scheduler import AsyncScheduler
    from whenever import Instant, patch_current_time
    bad = []
    loop = asyncio.new_event_loop()
    try:
        sched = AsyncScheduler(event_loop=loop, enabled=False)
        builder = JobBuilder(sched, lambda f, a, k: SyncExecutor(f, a, k))
        makers = {
            'interval(None, 60)': lambda: T.interval(None, 60),
            'interval(None, 60).offset(25)': lambda: T.interval(None, 60).offset(25),
            'group(interval(None, 3600), time 12:00)': lambda: T.group(T.interval(None, 3600), T.time('12:00:00', clock_forward='skip', clock_backward='earlier')),
            'interval(None, 90).jitter(0, 0.001)': lambda: T.interval(None, 90).jitter(0, 0.001),
        }
        t1 = Instant.from_utc(2025, 5, 14, 3, 0, 0)
        t2 = t1.add(seconds=35, milliseconds=500)
        for name, mk in makers.items():
            trig = mk()
            with patch_current_time(t1, keep_ticking=False):
                j1 = builder.at(trig, lambda: None)
                n1 = j1._job.next_run
            with patch_current_time(t2, keep_ticking=False):
                want = _get_producer(trig).get_next(t2)
                j2 = builder.at(trig, lambda: None)
            got = j2._job.next_run
            tol = 2_000_000 if 'jitter' in name else 0
            if got is None or abs(got.timestamp_nanos() - want.timestamp_nanos()) > tol:
                bad.append(f'{name}: a second job built from the same trigger object 35.5 s later announces {got}, a copy of the '
                           f'trigger object answers {want} at that instant (the first job announced {n1})')
            if j1._job.next_run != n1:
                bad.append(f'{name}: building a second job changed the first job\'s next run from {n1} to {j1._job.next_run}')
    except Exception as e:  # noqa: BLE001
        bad.append(f'jobs probe raised {type(e).__name__}: {e}')
    finally:
        loop.close()
    return bad[:4]


def tz_switch_probe() -> list:
    """the answer depends on the system time zone in force when it is asked (C15): the same trigger definitions are asked
    under a second system zone in the same process (TZ + tzset) and judged against zoneinfo"""
    import datetime as dtm
    import os
    from zoneinfo import ZoneInfo
    from eascheduler.builder import TriggerBuilder as T
    from eascheduler.builder.triggers import _get_producer
    from whenever import Instant
    bad = []
    old = os.environ.get('TZ')
    try:
        ref = Instant.from_utc(2025, 5, 14, 3, 17)
        for zone in ('Europe/Berlin', 'America/New_York', 'Asia/Kolkata', 'Europe/Berlin'):
            os.environ['TZ'] = zone
            time.tzset()
            for hh, mm in ((12, 0), (6, 30), (23, 15)):
                trig = T.time(f'{hh:02d}:{mm:02d}:00', clock_forward='skip', clock_backward='earlier')
                for name, p in (('time trigger', _get_producer(trig)),
                                ('earliest bound', _get_producer(T.interval(Instant.from_utc(2025, 5, 14), 24 * 3600)
                                                                 .earliest(f'{hh:02d}:{mm:02d}:00', clock_forward='skip', clock_backward='earlier')))):
                    got = p.get_next(ref).timestamp()
                    z = ZoneInfo(zone)
                    day = dtm.datetime.fromtimestamp(ref.timestamp(), z).date()
                    want = None
                    for d in range(3):
                        c = dtm.datetime.combine(day + dtm.timedelta(days=d), dtm.time(hh, mm), z).timestamp()
                        if name == 'time trigger' and c > ref.timestamp():
                            want = c
                            break
                    if name == 'earliest bound':
                        base = Instant.from_utc(2025, 5, 15).timestamp()          # the interval's next occurrence after ref
                        bday = dtm.datetime.fromtimestamp(base, z).date()
                        want = max(base, dtm.datetime.combine(bday, dtm.time(hh, mm), z).timestamp())
                    if want is not None and int(want) != got:
                        bad.append(f'system zone {zone}: {name} {hh:02d}:{mm:02d} answers {got}, expected {int(want)} '
                                   '(the zone was switched within the process)')
    except Exception as e:  # noqa: BLE001
        bad.append(f'time-zone switch probe raised {type(e).__name__}: {e}')
    finally:
        if old is None:
            os.environ.pop('TZ', None)
        else:
            os.environ['TZ'] = old
        time.tzset()
    return bad[:4]


def main() -> int:
    resource.setrlimit(resource.RLIMIT_AS, (6 << 30, 6 << 30))
    time.tzset()
    cases = json.load(open(sys.argv[1]))
    out = [run_case(c) for c in cases]
    if out and cases and cases[0].get('with_holiday_probe'):
        out[0]['holiday_probe'] = holiday_probe() + jobs_probe() + tz_switch_probe()
    json.dump(out, open(sys.argv[2], 'w'))
    return 0


if __name__ == '__main__':
    sys.exit(main())
