"""filters_runner.py — subprocess entry of the C17 check: the implementation side.

    python -m harness.filters_runner eval  in.json out.json     (TZ=<zone> in the environment)
    python -m harness.filters_runner parse in.json out.json

eval : builds every filter expression through the PUBLIC builder API (FilterBuilder.any/all/not_/time/
       weekdays/days/months/holidays/work_days/not_work_days) and evaluates
       FilterObject._filter.allow(Instant.from_timestamp_nanos(i).to_system_tz()); reports the utc offset
       whenever uses at that instant and whenever's own reading of the local date and time.
parse: calls FilterBuilder.<dom>(*args) / helper.get_<dom>(*args) and reports the resulting set or the
       exception; dumps DAY_NAMES / MONTH_NAMES and str.isspace / isdigit / int / lower for U+0000..U+024F."""
from __future__ import annotations

import json
import locale
import os
import sys
from datetime import date, time as dt_time, timedelta

from whenever import Instant, Time

from eascheduler.builder import helper
from eascheduler.builder.filters import FilterBuilder
from eascheduler.const import DAY_NAMES, MONTH_NAMES

from harness.filters_gen import decode

NS = 10 ** 9


def err_tag(e: BaseException) -> str:
    if isinstance(e, ValueError):
        return 'EValueError'
    if isinstance(e, TypeError):
        return 'ETypeError'
    return 'EOther:' + type(e).__name__


def time_arg(ns: int | None, style: str | None):
    if ns is None:
        return None
    h, r = divmod(ns, 3600 * NS)
    m, r = divmod(r, 60 * NS)
    s, n = divmod(r, NS)
    if style == 'pytime':
        assert n % 1000 == 0
        return dt_time(h, m, s, n // 1000)
    if style == 'time':
        return Time(h, m, s, nanosecond=n)
    frac = f'.{n:09d}' if n else ''
    return f'{h:02d}:{m:02d}:{s:02d}{frac}'


def time_ns(t: Time | None):
    if t is None:
        return None
    return (t.hour * 3600 + t.minute * 60 + t.second) * NS + t.nanosecond


def holidays_obj(days: list[int]):
    import holidays
    h = holidays.HolidayBase()
    for d in days:
        h.append(date(1970, 1, 1) + timedelta(days=d))
    return h


def build(e, notes: list):
    k = e[0]
    if k == 'any':
        return FilterBuilder.any(*[build(x, notes) for x in e[1]])
    if k == 'all':
        return FilterBuilder.all(*[build(x, notes) for x in e[1]])
    if k == 'not':
        return FilterBuilder.not_(build(e[1], notes))
    if k == 'time':
        f = FilterBuilder.time(time_arg(e[1], e[3][0]), time_arg(e[2], e[3][1]))
        got = [time_ns(f._filter._lower), time_ns(f._filter._upper)]
        if got != [e[1], e[2]]:
            notes.append(['time-argument-roundtrip', e, got])
        return f
    if k == 'set':
        return getattr(FilterBuilder, e[1])(*[decode(a) for a in e[2]])
    if k == 'hol':
        return getattr(FilterBuilder, e[1])(holidays_obj(e[2]))
    raise ValueError(k)


def run_eval(job: dict) -> dict:
    built = []
    objs = []
    notes: list = []
    for e in job['exprs']:
        try:
            objs.append(build(e, notes))
            built.append(None)
        except Exception as ex:  # noqa: BLE001
            objs.append(None)
            built.append([err_tag(ex), str(ex)[:200]])
    out = []
    for ei, inst in job['points']:
        f = objs[ei]
        sdt = Instant.from_timestamp_nanos(inst).to_system_tz()
        off_ns = sdt.offset.in_nanoseconds()
        assert off_ns % NS == 0
        t = sdt.time()
        local = [sdt.year, sdt.month, sdt.day, sdt.py_datetime().isoweekday(), time_ns(t)]
        if f is None:
            out.append([off_ns // NS, None, local])
            continue
        try:
            r = f._filter.allow(sdt)
            r = r if isinstance(r, bool) else ['not-a-bool', repr(r)]
        except Exception as ex:  # noqa: BLE001
            r = ['raised', err_tag(ex), str(ex)[:200]]
        out.append([off_ns // NS, r, local])
    return {'built': built, 'points': out, 'notes': notes, 'tz': os.environ.get('TZ')}


def canon_set(v):
    out = []
    for x in v:
        if not isinstance(x, int):
            return ['not-ints', repr(v)[:200]]
        out.append(int(x))
    return sorted(out)


def run_parse(job: dict) -> dict:
    res = []
    for c in job['cases']:
        args = [decode(a) for a in c['args']]
        try:
            if c['builder']:
                f = getattr(FilterBuilder, c['dom'])(*args)
                attr = {'weekdays': '_weekdays', 'days': '_days', 'months': '_months'}[c['dom']]
                res.append({'ok': canon_set(getattr(f._filter, attr))})
            else:
                v = getattr(helper, 'get_' + c['dom'])(*args)
                r = {'ok': canon_set(v)}
                if list(v) != sorted(set(v)):
                    r['unsorted'] = repr(v)[:200]
                if any(type(x) is not int for x in v):
                    r['types'] = sorted({type(x).__name__ for x in v})
                res.append(r)
        except Exception as ex:  # noqa: BLE001
            res.append({'err': err_tag(ex), 'msg': str(ex)[:160]})
    chars = []
    for cp in range(0x250):
        ch = chr(cp)
        try:
            iv = int(ch)
        except ValueError:
            iv = None
        chars.append([cp, ch.isspace() and ch.strip() == '', ch.isdigit(), iv, [ord(x) for x in ch.lower()]])
    return {'results': res, 'day_names': list(DAY_NAMES.items()), 'month_names': list(MONTH_NAMES.items()),
            'chars': chars, 'locale': list(locale.getlocale()), 'int_max_str_digits': sys.get_int_max_str_digits()}


def main() -> int:
    mode, inp, outp = sys.argv[1], sys.argv[2], sys.argv[3]
    job = json.load(open(inp))
    out = run_eval(job) if mode == 'eval' else run_parse(job)
    json.dump(out, open(outp, 'w'))
    return 0


if __name__ == '__main__':
    sys.exit(main())
