"""asyncexec_oracle.py — the text of C10 (asynchronous executor path) decided on the implementation's own output.
Independent of the Coq model: only the instrumentation of harness/asyncexec_impl.py is used - how every user
coroutine body was left (the harness raised / re-raised the exception itself), the calls the registered
exception handler received, Task.done() / Task.cancelled() / Task.exception() of every task, the errors the
event loop reported, and (for "the failing job still frees its slot, the others still run") the C11 / C12
oracles of harness/taskmgr_oracle.py on the manager observations.

Returns a list of (event index, message)."""
from __future__ import annotations

import collections

from harness import taskmgr_oracle as TO


def c10_async(r) -> list:
    bad: list = []
    n = len(r['case']['evs'])
    for cid, evi, msg in r['exec_errors']:
        bad.append((evi, f'AsyncExecutor.execute() for coroutine {cid} failed: {msg}'))
    calls = collections.defaultdict(list)
    for cid, evi, typ in r['hcalls']:
        calls[cid].append((evi, typ))
    lefts = collections.defaultdict(list)
    for cid, how, evi in r['left']:
        lefts[cid].append((how, evi))
    for cid, l in lefts.items():
        if len(l) > 1:
            bad.append((l[1][1], f'the body of coroutine {cid} was left twice: {l}'))
        how, evi = l[0]
        got = calls.get(cid, [])
        if how == 'exc':
            if not got:
                bad.append((evi, f'unhandled/propagated: the exception raised by coroutine {cid} was not handed to the '
                                 f'exception handler'))
            elif len(got) > 1:
                bad.append((evi, f'handled twice: the exception of coroutine {cid} reached the exception handler '
                                 f'{len(got)} times'))
            elif got[0][0] != evi:
                bad.append((got[0][0], f'the exception of coroutine {cid} (raised in event {evi}) was handled in event {got[0][0]}'))
            elif got[0][1] != 'UserErr':
                bad.append((evi, f'the handler got a {got[0][1]} for coroutine {cid}'))
        elif got:
            bad.append((got[0][0], f'the exception handler was called for coroutine {cid} whose body was left by '
                                   f'{"a CancelledError" if how == "canc" else "returning"}'))
    for cid, got in calls.items():
        if cid not in lefts:
            bad.append((got[0][0], f'the exception handler was called ({got[0][1]}) for coroutine {cid} whose body '
                                   f'{"never ran / " if cid != 999 else ""}did not raise'))
    # nothing propagates: no task is left with an exception (cancellation is not one)
    for phase, key in (('', 'final'), (' (after the shutdown of the case)', 'final_after_shutdown')):
        for cid, st in r[key].items():
            if st.startswith('exception:'):
                evi = next((e for c, h, e in r['left'] if str(c) == cid), n)
                bad.append((evi, f'unhandled/propagated: the task of coroutine {cid} ended with {st[10:]}{phase}'))
            if st == 'gone':
                bad.append((n, f'the task of coroutine {cid} disappeared{phase}'))
    for evi, msg, exc in list(r['errors']) + list(r['errors_after_shutdown']):
        bad.append((evi, f'the event loop reported an error: {msg} ({exc})'))
    # a user body that never ran: closed unstarted, still queued, cancelled before the first step
    entered = {cid for kind, cid, _ in r['log'] if kind == 'enter'}
    for cid in calls:
        if cid != 999 and cid not in entered:
            bad.append((calls[cid][0][0], f'the exception handler was called for coroutine {cid} that was never entered'))
    # the failing job still frees its slot / the other jobs still run / the manager keeps serving
    mo = TO.ORACLES['C11' if r['case']['mgr'][0] in ('seq', 'seqlim', 'dedup') else 'C12'](r)
    seen = {m for _, m in bad}
    for k, m in mo:
        if 'event loop reported' in m and any('event loop reported' in s for s in seen):
            continue
        bad.append((k, 'task manager under the executor: ' + m))
    bad.sort(key=lambda t: t[0])
    return bad
