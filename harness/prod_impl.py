"""prod_impl.py — build real producers / filters from the harness' expression language and query them.

expression:  ['time', tod_ns, sk, rp, F] | ['interval', start_ns|None, iv_ns, F] | ['group', [E...], F]
           | ['offset', E, off_ns, F] | ['earliest', E, tod_ns, sk, rp, F] | ['latest', E, tod_ns, sk, rp, F]
           | ['jitter', E, lo_ns, hi_ns, F]
filter F:    None | ['any', [F...]] | ['all', [F...]] | ['not', F] | ['time', lo_ns|None, hi_ns|None]
           | ['weekday', [n...]] | ['day', [n...]] | ['month', [n...]]
"""
from __future__ import annotations

import signal
import time as _time

from whenever import Instant, RepeatedTime, SkippedTime, Time, TimeDelta

from eascheduler.errors.errors import InfiniteLoopDetectedError, LocationNotSetError
from eascheduler.helpers.time_replace import TimeReplacer
from eascheduler.producers import prod_operation
from eascheduler.producers.prod_filter import (
    AllGroupProducerFilter, AnyGroupProducerFilter, DayOfMonthProducerFilter, DayOfWeekProducerFilter,
    InvertingProducerFilter, MonthOfYearProducerFilter, TimeProducerFilter,
)
from eascheduler.producers.prod_group import GroupProducer
from eascheduler.producers.prod_interval import IntervalProducer
from eascheduler.producers.prod_operation import (
    EarliestProducerOperation, JitterProducerOperation, LatestProducerOperation, OffsetProducerOperation,
)
from eascheduler.producers.prod_time import TimeProducer


def tod_to_time(ns: int) -> Time:
    s, n = divmod(ns, 10**9)
    return Time(s // 3600, (s // 60) % 60, s % 60, nanosecond=n)


def secs(ns: int) -> float:
    return TimeDelta(nanoseconds=ns).in_seconds()


def build_filter(f):
    if f is None:
        return None
    k = f[0]
    if k == 'any':
        return AnyGroupProducerFilter([build_filter(x) for x in f[1]])
    if k == 'all':
        return AllGroupProducerFilter([build_filter(x) for x in f[1]])
    if k == 'not':
        return InvertingProducerFilter(build_filter(f[1]))
    if k == 'time':
        return TimeProducerFilter(tod_to_time(f[1]) if f[1] is not None else None,
                                  tod_to_time(f[2]) if f[2] is not None else None)
    if k == 'weekday':
        return DayOfWeekProducerFilter(f[1])
    if k == 'day':
        return DayOfMonthProducerFilter(f[1])
    if k == 'month':
        return MonthOfYearProducerFilter(f[1])
    raise ValueError(k)


def build(e):
    k = e[0]
    if k == 'time':
        p = TimeProducer(TimeReplacer(tod_to_time(e[1]), e[2], e[3]))
    elif k == 'interval':
        p = IntervalProducer(Instant.from_timestamp_nanos(e[1]) if e[1] is not None else None, secs(e[2]))
    elif k == 'group':
        # through the public builder (it copies the members)
        from eascheduler.builder.triggers import TriggerBuilder, TriggerObject
        p = TriggerBuilder.group(*[TriggerObject(build(x)) for x in e[1]])._producer
    elif k == 'offset':
        p = OffsetProducerOperation(build(e[1]), secs(e[2]))
    elif k == 'earliest':
        p = EarliestProducerOperation(build(e[1]), TimeReplacer(tod_to_time(e[2]), e[3], e[4]))
    elif k == 'latest':
        p = LatestProducerOperation(build(e[1]), TimeReplacer(tod_to_time(e[2]), e[3], e[4]))
    elif k == 'jitter':
        p = JitterProducerOperation(build(e[1]), secs(e[2]), secs(e[3]))
    else:
        raise ValueError(k)
    p._filter = build_filter(e[-1])
    return p


class Draws:
    """scripted replacement of random.uniform inside prod_operation"""

    def __init__(self, fracs) -> None:
        self.fracs = list(fracs) or [0.5]
        self.k = 0
        self.log: list = []          # [a_ns, b_ns, x_ns]

    def __call__(self, a: float, b: float) -> float:
        fr = self.fracs[self.k % len(self.fracs)]
        self.k += 1
        x = a + fr * (b - a)
        x = min(max(x, a), b)
        self.log.append([TimeDelta(seconds=a).in_nanoseconds(), TimeDelta(seconds=b).in_nanoseconds(),
                         TimeDelta(seconds=x).in_nanoseconds()])
        return x


class Budget(BaseException):
    pass


def _alarm(*_a):
    raise Budget()


def query(p, dt_ns: int, budget_s: int = 1):
    """-> ['ok', ns] | ['raise', enum] | ['budget']"""
    try:
        return _query(p, dt_ns, budget_s)
    except Budget:
        # the alarm went off while the timer was being disarmed (after the answer had been computed): a budget overrun
        signal.setitimer(signal.ITIMER_VIRTUAL, 0)
        return ['budget']


def _query(p, dt_ns: int, budget_s: int = 1):
    # CPU seconds of this process (ITIMER_VIRTUAL), not wall-clock seconds: a loaded machine must not turn answers into
    # budget overruns
    signal.signal(signal.SIGVTALRM, _alarm)
    signal.setitimer(signal.ITIMER_VIRTUAL, budget_s)
    try:
        r = p.get_next(Instant.from_timestamp_nanos(dt_ns))
        return ['ok', r.timestamp_nanos()]
    except Budget:
        return ['budget']
    except InfiniteLoopDetectedError:
        return ['raise', 'EInfiniteLoop']
    except LocationNotSetError:
        return ['raise', 'ELocationNotSet']
    except (RepeatedTime, SkippedTime):
        return ['raise', 'EOther']
    except ValueError:
        return ['raise', 'EValueError']
    except TypeError:
        return ['raise', 'ETypeError']
    except Exception:  # noqa: BLE001
        return ['raise', 'EOther']
    finally:
        signal.setitimer(signal.ITIMER_VIRTUAL, 0)



HORIZON_NS = 2208988800 * 10**9      # 2040-01-01T00:00:00Z

def run_case(case: dict) -> dict:
    """case: {'expr': E, 'queries': [dt...] | 'chain': [dt0, n], 'fracs': [...]}  ->  adds 'results', 'draws'"""
    draws = Draws(case.get('fracs', [0.5]))
    old = prod_operation.uniform
    prod_operation.uniform = draws
    t_start = _time.perf_counter()
    try:
        p = build(case['expr'])
        results = []
        bud = case.get('budget', 1)
        if bud != 1:
            for dt in case['queries']:
                results.append([dt, query(p, dt, bud)])
        elif 'chain' in case:
            dt, n = case['chain']
            for _ in range(n):
                r = query(p, dt)
                if r[0] == 'ok' and r[1] >= HORIZON_NS:
                    break               # beyond the time-zone tables of the model (they end 2041-01-01)
                results.append([dt, r])
                if r[0] != 'ok':
                    break
                dt = r[1]
        elif 'probe' in case:
            for dt in case['probe']:
                r = query(p, dt)
                results.append([dt, r])
                if r[0] == 'ok':
                    for d in (r[1] - 1, r[1], r[1] + 1):
                        results.append([d, query(p, d)])
        else:
            for dt in case['queries']:
                results.append([dt, query(p, dt)])
    finally:
        prod_operation.uniform = old
    out = dict(case)
    out['results'] = results
    out['draws'] = draws.log
    # a case that needed a lot of work is left out of the in-Coq evaluation (it is still checked by the oracles)
    out['slow'] = (_time.perf_counter() - t_start) > 0.12 * max(1, len(results))
    return out
