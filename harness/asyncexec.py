"""asyncexec.py — C10, asynchronous executor path: generate event traces, run the REAL AsyncExecutor on the real
task managers on the virtual loop one handle at a time (harness/asyncexec_impl.py), evaluate the Coq model
(AsyncExec.v, on top of TaskMgr.v) on the same traces inside Coq (AsyncExecCases.v), and apply the property
oracle (harness/asyncexec_oracle.py) to what the implementation did."""
from __future__ import annotations

import collections
import json
import random
import re
import subprocess
from pathlib import Path

from harness.asyncexec_coq import cases_file, coq_acase, debug_file
from harness.asyncexec_oracle import c10_async
from harness.taskmgr_gen import PAR_MANAGERS, PROFILES, SEQ_MANAGERS
from lib import coqrun

VERIF = Path(__file__).resolve().parent.parent
CORPUS = VERIF / 'corpus'

COQ_TARGETS = ['theories/AsyncExecCases.vo', 'theories/AsyncExecFacts.vo']
COUNTS = {'quick': 440, 'thorough': 12000}
SHARD = 40
MANAGERS = SEQ_MANAGERS + PAR_MANAGERS          # all five kinds, every policy, bounds 1..3
PROFILE_ORDER = ['fail', 'mixed', 'cancel', 'inside', 'between', 'burst']
assert sorted(PROFILE_ORDER) == sorted(PROFILES)

ASSUMPTIONS = {'C10': [
    'asynchronous executor path: asyncio is modelled at the granularity of loop handles (TaskMgr.v); the wrapper '
    '`_execute` is modelled as a transformation of what the user coroutine does when resumed (park / return / raise / '
    're-raise what woke it) into what the wrapped coroutine does; model and implementation are compared after every '
    'event (loop ready queue, manager state, task phases, handler calls, resumptions of user bodies)',
    'the registered exception handler itself does not raise; user coroutines raise Exception subclasses or let a '
    'CancelledError through (no other BaseException)',
    'SequentialDeduplicatingTaskManager cannot be given to AsyncExecutor directly (execute() passes no key): the '
    'harness supplies the key through a pass-through adapter',
]}
TRUSTED_EXTRA = {'C10': [
    'harness/asyncexec_impl.py (on top of harness/taskmgr_impl.py): every submission is '
    'AsyncExecutor(user_coro_func, (cid,), task_manager=<pass-through spy>).execute(); the handler is registered with '
    'eascheduler.errors.handler.set_exception_handler',
]}
RULE = ('trace non-trivial iff >= 2 user bodies were entered and at least one was left by an Exception (so the handler '
        'clause is exercised) and, besides, a body was left by a CancelledError or a coroutine never ran (closed '
        'unstarted / cancelled before its first step) or a later coroutine was entered after the failure; distinct by '
        '(manager, events, observations) hash')


def _impl_run(cases: list[dict], scratch: Path, tag: str) -> list:
    """run the implementation in subprocesses (fresh interpreters, PYTHONPATH = <repo>/src)"""
    env = {'PYTHONPATH': f'{coqrun.REPO}/src:{VERIF}', 'PYTHONHASHSEED': '0', 'PATH': '/usr/bin:/bin', 'TZ': 'UTC'}
    nproc = max(1, min(coqrun.JOBS, 8, (len(cases) + 99) // 100))
    chunks = [cases[i::nproc] for i in range(nproc)]
    procs = []
    for k, ch in enumerate(chunks):
        inp = scratch / f'ax_in_{tag}_{k}.json'
        outp = scratch / f'ax_out_{tag}_{k}.json'
        inp.write_text(json.dumps(ch))
        procs.append((subprocess.Popen(['/venv/bin/python', '-u', '-m', 'harness.asyncexec_runner', str(inp), str(outp)],
                                       cwd=VERIF, env=env, stdout=subprocess.PIPE, stderr=subprocess.PIPE, text=True),
                      outp))
    outs = []
    for pr, outp in procs:
        try:
            _, err = pr.communicate(timeout=3000)
        except subprocess.TimeoutExpired:
            pr.kill()
            raise RuntimeError('implementation runner timed out')
        if pr.returncode != 0:
            raise RuntimeError('implementation runner failed: ' + err[-3000:])
        outs.append(json.loads(outp.read_text()))
    res: list = [None] * len(cases)
    for k, o in enumerate(outs):
        res[k::nproc] = o
    return res


def gen_case(rng: random.Random, i: int) -> dict:
    return {'mgr': MANAGERS[i % len(MANAGERS)],
            'gen': {'seed': rng.getrandbits(48), 'profile': PROFILE_ORDER[(i // len(MANAGERS)) % len(PROFILE_ORDER)],
                    'n': rng.choice((8, 14, 20, 28, 40))}}


def scripted() -> list[dict]:
    """one trace per situation the property text names, on every manager"""
    P, F, R, T = [[], 'park'], [[], 'fin'], [[], 'raise'], [[], 'ret']
    scripts = [
        # the first coroutine parks and returns, the second raises, the third parks and is cancelled
        [['submit', 0, 0], ['submit', 1, 1], ['submit', 2, 2], ['tick', [P, R, P]], ['resolve', 0], ['tick', [F, R, P]],
         ['tick', [R, P, P]], ['tick', [R, P]], ['tick', [P]], ['cancel', 2], ['tick', [F]], ['tick', [F]], ['tick', [F]]],
        # the exception comes through the awaited future: let through / swallowed / answered by another raise
        [['submit', 0, 0], ['submit', 1, 1], ['submit', 2, 2], ['tick', [P, P, P]], ['fail', 0], ['tick', [F, P, P]],
         ['tick', [P, P]], ['fail', 1], ['tick', [T, P]], ['tick', [P]], ['tick', [P]], ['fail', 2], ['tick', [R]],
         ['tick', []]],
        # never ran: cancelled before the first step, dropped at the bound; the script goes to the one that runs
        [['submit', 0, 0], ['submit', 1, 0], ['submit', 2, 0], ['submit', 3, 0], ['cancel', 0], ['run', [R]], ['run', [R]],
         ['run', [R]], ['run', [R]], ['tick', [R, R]], ['tick', [R, R]], ['tick', [R]]],
        # the policy cancels the task that is executing, then its body raises: handled, the task ends cancelled
        [['submit', 0, 0], ['run', [[[[1, 0], [2, 0], [3, 0]], 'raise']]], ['tick', [R, R, R]], ['tick', [R, R]],
         ['tick', [R]], ['tick', []]],
        # cancellation while the wake-up with an exception is already scheduled; a cancelled body that raises
        [['submit', 0, 0], ['submit', 1, 1], ['tick', [P, P]], ['fail', 0], ['cancel', 0], ['tick', [F, P]],
         ['tick', [P]], ['cancel', 1], ['tick', [R]], ['tick', [R]], ['tick', []]],
    ]
    return [{'mgr': m, 'evs': evs, 'profile': 'scripted'} for m in MANAGERS for evs in scripts]


def _corpus(prop: str) -> list[dict]:
    out = []
    d = CORPUS / prop
    if d.is_dir():
        for p in sorted(d.glob('asyncexec*.json')):
            out.append(json.loads(p.read_text())['case'])
    return out


def _cases(prop: str, tier: str, rng: random.Random) -> list[dict]:
    return _corpus(prop) + scripted() + [gen_case(rng, i) for i in range(COUNTS[tier])]


def _nontrivial(r) -> bool:
    ent = [c for k, c, _ in r['log'] if k == 'enter']
    exc = [(c, e) for c, h, e in r['left'] if h == 'exc']
    if len(ent) < 2 or not exc:
        return False
    first = min(e for _, e in exc)
    later = any(k == 'enter' and e > first for k, _, e in r['log'])
    never = any(v.startswith('no-task:CORO_CLOSED') for v in r['final'].values()) or any(
        st == 'cancelled' and int(c) not in ent for c, st in r['final'].items())
    return later or never or any(h == 'canc' for _, h, _ in r['left'])


def _violations(results: list) -> list:
    out = []
    for r in results:
        bad = c10_async(r)
        for k, msg in bad[:1]:
            out.append({'what': msg, 'op_index': k, 'case': r['case'],
                        'observed': {'handler_calls': r['hcalls'], 'bodies_left': r['left'], 'tasks': r['final'],
                                     'tasks_after_shutdown': r['final_after_shutdown']},
                        'all': [m for _, m in bad[:5]]})
    return out


def run(prop: str, tier: str, seed: int, scratch: Path, replay=None, model_ok=True) -> dict:
    scratch = Path(scratch)
    rng = random.Random(f'{prop}-asyncexec-{seed}')
    if replay:
        payload = json.loads(Path(replay).read_text())
        cases = [payload['case']]
    else:
        cases = _cases(prop, tier, rng)
    results = _impl_run(cases, scratch, 'main')
    spec_violations = _violations(results)

    dist = collections.Counter()
    mgrs = collections.Counter()
    kinds = collections.Counter()
    profiles = collections.Counter()
    lens = collections.Counter()
    sit = collections.Counter()
    seen = set()
    nontrivial = 0
    for r in results:
        c = r['case']
        mgrs[' '.join(str(x) for x in c['mgr'])] += 1
        kinds[c['mgr'][0]] += 1
        profiles[c.get('profile', 'replay')] += 1
        lens[len(c['evs']) // 10 * 10] += 1
        for e in c['evs']:
            dist[e[0]] += 1
        for _, how, _ in r['left']:
            sit['user bodies left by ' + {'exc': 'an Exception', 'canc': 'a CancelledError', 'ret': 'returning'}[how]] += 1
        sit['handler calls'] += len(r['hcalls'])
        ent = {cid for k, cid, _ in r['log'] if k == 'enter'}
        for cid, st in r['final'].items():
            if st == 'no-task:CORO_CLOSED':
                sit['coroutines closed unstarted'] += 1
            if st == 'cancelled' and int(cid) not in ent:
                sit['tasks cancelled before the first step'] += 1
            if st == 'cancelled' and any(h[0] == int(cid) for h in r['hcalls']):
                sit['exception handled and task ended cancelled (pending cancellation)'] += 1
        if r['obs']:
            for u in r['obs'][-1]['ulog']:
                if u % 16 == 5:
                    sit['exception of the awaited future let through'] += 1
        h = hash(json.dumps([c['mgr'], c['evs'], r['obs']], sort_keys=True))
        if _nontrivial(r) and h not in seen:
            nontrivial += 1
        seen.add(h)

    corr_failures = []
    wellformed_bad = []
    if model_ok:
        files = []
        for s in range(0, len(results), SHARD):
            p = scratch / f'axcases_{s // SHARD}.v'
            p.write_text(cases_file([(r['case'], r['obs']) for r in results[s:s + SHARD]]))
            files.append(p)
        for p, rc, out in coqrun.eval_cases(files):
            base = int(p.stem.split('_')[1]) * SHARD
            if rc != 0:
                corr_failures.append({'file': p.name, 'error': out[-1500:]})
                continue
            flat = ' '.join(out.split())
            m1 = re.search(r'= (\[.*?\]) : list \(nat \* nat\)', flat)
            m2 = re.search(r'= (\[[^\]]*\]) : list nat', flat)
            if not m1 or not m2:
                corr_failures.append({'file': p.name, 'error': 'cannot parse: ' + flat[-500:]})
                continue
            for ci, k in coqrun.parse_pairs(m1.group(1)):
                r = results[base + ci]
                dout = ''
                if len(corr_failures) < 3:          # model-vs-implementation details for the first few only
                    dbg = scratch / f'axdebug_{base + ci}.v'
                    dbg.write_text(debug_file(coq_acase(r['case'], r['obs']), k))
                    _, dout = coqrun.coqc_file(dbg)
                corr_failures.append({'case': r['case'], 'op_index': k,
                                      'op': r['case']['evs'][k] if k < len(r['case']['evs']) else None,
                                      'implementation': r['obs'][k] if k < len(r['obs']) else None,
                                      'model_vs_impl_coq': ' '.join(dout.split())[-3000:]})
            wellformed_bad += [base + x for x in coqrun.parse_nats(m2.group(1))]
    else:
        corr_failures.append({'error': 'model does not build'})

    samples = []
    for r in results:
        if _nontrivial(r) and r['case'].get('profile') != 'scripted':
            samples.append({'mgr': r['case']['mgr'], 'events': r['case']['evs'][:30], 'bodies_left': r['left'],
                            'handler_calls': r['hcalls'], 'tasks': r['final']})
            if len(samples) >= 2:
                break
    return {
        'evaluations': len(results), 'distinct_nontrivial': nontrivial, 'rule': RULE, 'samples': samples,
        'corr_failures': corr_failures, 'spec_violations': spec_violations,
        'distribution': {'events': dict(dist), 'manager_kinds': dict(kinds), 'managers': dict(mgrs),
                         'profiles': dict(profiles), 'trace_length': dict(lens), 'situations': dict(sit)},
        'extra': {'theorem_checks_in_coq_failed': wellformed_bad,
                  'compared_per_event': 'everything harness/taskmgr.py compares (invalid-request flag, manager.task, queue, '
                                        'manager.tasks, loop ready queue, per coroutine phase / _must_cancel / entered, '
                                        'task creation and body entry order, dropped and manager-cancelled coroutines) plus '
                                        'the calls of the exception handler and every resumption of a user body (what woke '
                                        'it, what it did)'},
    }


def search(prop: str, seed: int, scratch: Path) -> list:
    """violation search on the implementation alone: more traces, property oracle only"""
    scratch = Path(scratch)
    rng = random.Random(f'search-{prop}-asyncexec-{seed}')
    cases = scripted() + [gen_case(rng, i) for i in range(5000)]
    out = _violations(_impl_run(cases, scratch, 'search'))
    out.sort(key=lambda v: len(v['case']['evs']))
    return out


def match_known(prop: str, v: dict, known: list) -> str | None:
    return None


def replay_known(prop: str, f: dict, scratch: Path):
    if 'case' not in f:
        return None
    r = _impl_run([f['case']], Path(scratch), 'known_' + f['id'])[0]
    return bool(c10_async(r))
